/-
C28  Upserts follow their specification.
Property theorems only.  Model: GristModel/Upsert.lean (`upsertImpl` = BulkAddOrUpdateRecord as
written: argument checks, accumulate over the input rows, then one BulkAddRecord and one trimmed
BulkUpdateRecord; `upsertSpec` = the documented reference: argument checks, then every input row in
turn applied at once).  Helper lemmas: GristProofs/Upsert.lean.

Hypotheses used below and what they mean for the real engine:
  `hnext : ∀ r ∈ tids t0, r < next`   `table.next_row_id()` is above every existing row id
  `hids  : (tids t0).Nodup`            row ids are distinct
-/
import GristProofs.Upsert
namespace Grist.Upsert

variable {κ α : Type} [DecidableEq κ] [DecidableEq α]

/-! ### concrete inputs used by the `example`s (columns and values are numbers here) -/
namespace Ex
/-- columns: 0 = key column, 1 = value column, 2 = a formula column. -/
def sch : Schema Nat := [(0, .data), (1, .data), (2, .formula)]
def dflt : Rec Nat Nat := [(0, 0), (1, 0)]
/-- three records, two of them with key 7. -/
def t0 : Table Nat Nat := [(1, [(0, 7), (1, 10), (2, 14)]), (2, [(0, 7), (1, 11), (2, 14)]), (4, [(0, 8), (1, 12), (2, 16)])]
/-- three input rows: key 7 (two matches), key 8 (one match), key 9 (no match). -/
def rq : Request Nat Nat :=
  { require := [(0, [⟨7, 7, 7⟩, ⟨8, 8, 8⟩, ⟨9, 9, 9⟩])], colValues := [(1, [20, 21, 22])] }
end Ex

/-! ### implementation = reference -/

/-- **C28 (impl = spec, partial).**  For every table, request and option combination: if no record
    is named twice by the accumulated `BulkUpdateRecord` (`updTargets` = the flattened
    `updateRecordIds` of the result, see `upsert_frame`), then accumulating all adds and updates and
    performing them with two bulk actions gives exactly what the documented row-by-row reference
    gives: the same error, or the same returned ids, the same row ids and the same value in every
    cell of every row. -/
theorem upsert_impl_eq_spec_partial (sch : Schema κ) (t0 : Table κ α) (next : Nat) (dflt : Rec κ α)
    (rq : Request κ α) (opt : Options) (hnext : ∀ r ∈ tids t0, r < next)
    (hnd : (updTargets sch t0 rq opt).Nodup) :
    SameOutcome (upsertImpl sch t0 next dflt rq opt) (upsertSpec sch t0 next dflt rq opt) :=
  impl_same_spec sch t0 next dflt rq opt hnext hnd

example : (updTargets Ex.sch Ex.t0 Ex.rq { onMany := .all }) = [1, 2, 4] := by decide
example : (upsertImpl Ex.sch Ex.t0 5 Ex.dflt Ex.rq { onMany := .all }).toOption.map (·.2)
    = some ⟨[[1, 2], [4], [5]], [5], [[1, 2], [4]]⟩ := by decide

/-- **C28 (impl = spec for distinct keys).**  The hypothesis of the partial theorem holds whenever
    row ids are distinct and no two input rows have the same `require` key after type conversion -
    in particular for every request with a single input row. -/
theorem upsert_impl_eq_spec_distinct_keys (sch : Schema κ) (t0 : Table κ α) (next : Nat)
    (dflt : Rec κ α) (rq : Request κ α) (opt : Options) (hnext : ∀ r ∈ tids t0, r < next)
    (hids : (tids t0).Nodup)
    (hkeys : ∀ n, validate sch rq opt = .ok (some n) →
      ∀ i j, i < n → j < n → i ≠ j → convKey rq i ≠ convKey rq j) :
    SameOutcome (upsertImpl sch t0 next dflt rq opt) (upsertSpec sch t0 next dflt rq opt) :=
  impl_same_spec sch t0 next dflt rq opt hnext (updTargets_nodup sch t0 rq opt hids hkeys)

example : validate Ex.sch Ex.rq {} = .ok (some 3) ∧
    ∀ i, i < 3 → ∀ j, j < 3 → i ≠ j → convKey Ex.rq i ≠ convKey Ex.rq j := by decide

/-
-- FULL STATEMENT (unproved, FALSE of the code as it is): the same without `hnd`:
--   ∀ sch t0 next dflt rq opt, (∀ r ∈ tids t0, r < next) →
--     SameOutcome (upsertImpl sch t0 next dflt rq opt) (upsertSpec sch t0 next dflt rq opt)
-- Counterexample below (replayed on the real engine by harness/gx/props/c28.py, WITNESSES[0]):
-- one record with value 7; empty `require` with allow_empty_require; two input rows giving the
-- values 5 and 7.  Both rows name record 1; `trim_update_action` compares BOTH pairs with the table
-- before the action and drops the second one (7 = 7), so the record keeps 5; row by row it gets 7.
-/
namespace W1
def sch : Schema Nat := [(0, .data)]
def t0 : Table Nat Nat := [(1, [(0, 7)])]
def rq : Request Nat Nat := { require := [], colValues := [(0, [5, 7])] }
def opt : Options := { allowEmptyRequire := true }
end W1

theorem impl_eq_spec_full_false :
    ¬ (∀ (sch : Schema Nat) (t0 : Table Nat Nat) (next : Nat) (dflt : Rec Nat Nat)
         (rq : Request Nat Nat) (opt : Options), (∀ r ∈ tids t0, r < next) →
         SameOutcome (upsertImpl sch t0 next dflt rq opt) (upsertSpec sch t0 next dflt rq opt)) := by
  intro h
  have h1 := h W1.sch W1.t0 2 [(0, 0)] W1.rq W1.opt (by decide)
  have hi : upsertImpl W1.sch W1.t0 2 [(0, 0)] W1.rq W1.opt
      = .ok ([(1, [(0, 5)])], ⟨[[1], [1]], [], [[1], [1]]⟩) := by decide
  have hs : upsertSpec W1.sch W1.t0 2 [(0, 0)] W1.rq W1.opt
      = .ok ([(1, [(0, 7)])], ⟨[[1], [1]], [], [[1], [1]]⟩) := by decide
  rw [hi, hs] at h1
  have h2 := h1.2.2 1 0
  revert h2
  decide

/-! ### argument checks -/

/-- The invalid-argument classes of the property text, on the request as the code sees it. -/
inductive Invalid (rq : Request κ α) (opt : Options) : Prop
  /-- `on_many` is not "first" / "none" / "all" -/
  | badOnMany : opt.onMany = .bad → Invalid rq opt
  /-- empty `require` without `allow_empty_require` -/
  | emptyRequire : rq.require = [] → opt.allowEmptyRequire = false → Invalid rq opt
  /-- two value lists (of `require` or `col_values`) of different lengths -/
  | lengths : (∃ a ∈ lens rq, ∃ b ∈ lens rq, a ≠ b) → Invalid rq opt
  /-- two input rows with the same `require` values (as sent) -/
  | duplicateKeys (n : Nat) : rq.require ≠ [] → (∀ x ∈ lens rq, x = n) → ¬ (rawKeys rq n).Nodup →
      Invalid rq opt

/-- **C28 (validation).**  Every invalid argument class is rejected by the argument checks at the
    top of the action - before the loop, hence before any lookup, any accumulated change and any of
    the two bulk actions - with one of the four `ValueError`s, by the implementation and by the
    reference alike. -/
theorem upsert_validation (sch : Schema κ) (t0 : Table κ α) (next : Nat) (dflt : Rec κ α)
    (rq : Request κ α) (opt : Options) (hinv : Invalid rq opt) :
    ∃ e, validate sch rq opt = .error e ∧
      (e = .badOnMany ∨ e = .emptyRequire ∨ e = .lengths ∨ e = .notUnique) ∧
      upsertImpl sch t0 next dflt rq opt = .error e ∧ upsertSpec sch t0 next dflt rq opt = .error e := by
  have key : ∃ e, validate sch rq opt = .error e ∧
      (e = .badOnMany ∨ e = .emptyRequire ∨ e = .lengths ∨ e = .notUnique) := by
    by_cases h0 : opt.onMany = .bad
    · exact ⟨_, validate_bad_on_many sch rq opt h0, Or.inl rfl⟩
    by_cases h1 : rq.require = [] ∧ opt.allowEmptyRequire = false
    · exact ⟨_, validate_empty_require sch rq opt h0 h1.1 h1.2, Or.inr (Or.inl rfl)⟩
    have h1' : rq.require ≠ [] ∨ opt.allowEmptyRequire = true := by
      by_cases hr : rq.require = []
      · right
        cases ha : opt.allowEmptyRequire with
        | true => rfl
        | false => exact absurd ⟨hr, ha⟩ h1
      · exact Or.inl hr
    cases hinv with
    | badOnMany h => exact absurd h h0
    | emptyRequire ha hb => exact absurd ⟨ha, hb⟩ h1
    | lengths h => exact ⟨_, validate_lengths sch rq opt h0 h1' h, Or.inr (Or.inr (Or.inl rfl))⟩
    | duplicateKeys n ha hb hc =>
      exact ⟨_, validate_duplicate sch rq opt n h0 ha hb hc, Or.inr (Or.inr (Or.inr rfl))⟩
  obtain ⟨e, he, hcls⟩ := key
  exact ⟨e, he, hcls, impl_error_of_validate sch t0 next dflt rq opt e he⟩

/-- Which check fires: bad `on_many` first … -/
theorem upsert_validation_on_many (sch : Schema κ) (t0 : Table κ α) (next : Nat) (dflt : Rec κ α)
    (rq : Request κ α) (opt : Options) (h : opt.onMany = .bad) :
    upsertImpl sch t0 next dflt rq opt = .error .badOnMany :=
  (impl_error_of_validate sch t0 next dflt rq opt _ (validate_bad_on_many sch rq opt h)).1

/-- … then the empty `require` … -/
theorem upsert_validation_empty_require (sch : Schema κ) (t0 : Table κ α) (next : Nat) (dflt : Rec κ α)
    (rq : Request κ α) (opt : Options) (h0 : opt.onMany ≠ .bad) (h1 : rq.require = [])
    (h2 : opt.allowEmptyRequire = false) :
    upsertImpl sch t0 next dflt rq opt = .error .emptyRequire :=
  (impl_error_of_validate sch t0 next dflt rq opt _ (validate_empty_require sch rq opt h0 h1 h2)).1

/-- … then the lengths … -/
theorem upsert_validation_lengths (sch : Schema κ) (t0 : Table κ α) (next : Nat) (dflt : Rec κ α)
    (rq : Request κ α) (opt : Options) (h0 : opt.onMany ≠ .bad)
    (h1 : rq.require ≠ [] ∨ opt.allowEmptyRequire = true)
    (h2 : ∃ a ∈ lens rq, ∃ b ∈ lens rq, a ≠ b) :
    upsertImpl sch t0 next dflt rq opt = .error .lengths :=
  (impl_error_of_validate sch t0 next dflt rq opt _ (validate_lengths sch rq opt h0 h1 h2)).1

/-- … then the uniqueness of the `require` tuples as sent. -/
theorem upsert_validation_duplicate (sch : Schema κ) (t0 : Table κ α) (next : Nat) (dflt : Rec κ α)
    (rq : Request κ α) (opt : Options) (n : Nat) (h0 : opt.onMany ≠ .bad) (h1 : rq.require ≠ [])
    (h2 : ∀ x ∈ lens rq, x = n) (h3 : ¬ (rawKeys rq n).Nodup) :
    upsertImpl sch t0 next dflt rq opt = .error .notUnique :=
  (impl_error_of_validate sch t0 next dflt rq opt _ (validate_duplicate sch rq opt n h0 h1 h2 h3)).1

-- one input of each class (keys 1 and True arrive as the same raw token: Python's 1 == True)
example : Invalid Ex.rq { onMany := .bad } := .badOnMany rfl
example : Invalid ({ require := [], colValues := [(1, [20])] } : Request Nat Nat) {} := .emptyRequire rfl rfl
example : Invalid ({ require := [(0, [⟨7, 7, 7⟩, ⟨8, 8, 8⟩])], colValues := [(1, [20])] } : Request Nat Nat) {} :=
  .lengths ⟨2, by decide, 1, by decide, by decide⟩
example : Invalid ({ require := [(0, [⟨1, 1, 1⟩, ⟨1, 1, 1⟩])], colValues := [(1, [20, 21])] } : Request Nat Nat) {} :=
  .duplicateKeys 2 (by decide) (by decide) (by decide)

/-
-- FULL STATEMENT (unproved, FALSE of the code as it is): "duplicate require keys are rejected" with
-- duplicate = the two input rows look up the same key, i.e. `Invalid` extended by
--   | duplicateConvKeys (n) : rq.require ≠ [] → (∀ x ∈ lens rq, x = n) →
--       ¬ ((List.range n).map (convKey rq)).Nodup → Invalid rq opt
-- The code compares the values as sent.  Counterexample below (replayed on the real engine by
-- harness/gx/props/c28.py, WITNESSES[1]: Int column, require i = [5, "5"]): two input rows whose raw
-- values 5 and 50 (standing for 5 and "5") both convert to 5 pass every check, and, the table being
-- empty, two records with key 5 are added.
-/
namespace W2
def sch : Schema Nat := [(0, .data), (1, .data)]
def rq : Request Nat Nat := { require := [(0, [⟨5, 5, 5⟩, ⟨50, 5, 5⟩])], colValues := [(1, [20, 21])] }
end W2

theorem validation_full_false :
    ¬ (∀ (sch : Schema Nat) (t0 : Table Nat Nat) (next : Nat) (dflt : Rec Nat Nat)
         (rq : Request Nat Nat) (opt : Options) (n : Nat), rq.require ≠ [] → (∀ x ∈ lens rq, x = n) →
         ¬ ((List.range n).map (convKey rq)).Nodup →
         ∃ e, upsertImpl sch t0 next dflt rq opt = .error e) := by
  intro h
  obtain ⟨e, he⟩ := h W2.sch [] 1 [(0, 0), (1, 0)] W2.rq {} 2 (by decide) (by decide) (by decide)
  have hi : upsertImpl W2.sch [] 1 [(0, 0), (1, 0)] W2.rq {}
      = .ok ([(1, [(0, 5), (1, 20)]), (2, [(0, 5), (1, 21)])], ⟨[[1], [2]], [1, 2], []⟩) := by decide
  rw [hi] at he
  cases he

/-! ### frame -/

/-- **C28 (frame).**  Whenever the action succeeds: no row is removed or reordered - the rows
    are the old rows followed by the added ones, whose ids are fresh; the records that receive
    `col_values` (`updateRecordIds`) are existing records; every record that matched no input row
    (is not listed in `updateRecordIds`) is unchanged in all its cells; and no existing record
    changes in a column that is not a `col_values` column.  Unconditional (holds also when a record
    is named by several input rows). -/
theorem upsert_frame (sch : Schema κ) (t0 : Table κ α) (next : Nat) (dflt : Rec κ α)
    (rq : Request κ α) (opt : Options) (hnext : ∀ r ∈ tids t0, r < next)
    (t : Table κ α) (res : Result) (h : upsertImpl sch t0 next dflt rq opt = .ok (t, res)) :
    tids t = tids t0 ++ res.addRecordIds ∧
    (∀ r ∈ res.addRecordIds, next ≤ r) ∧
    res.updateRecordIds.flatten = updTargets sch t0 rq opt ∧
    (∀ r ∈ res.updateRecordIds.flatten, r ∈ tids t0) ∧
    (∀ r ∈ tids t0, r ∉ res.updateRecordIds.flatten → aget t r = aget t0 r) ∧
    (∀ r ∈ tids t0, ∀ c, c ∉ akeys rq.colValues → cell t r c = cell t0 r c) :=
  impl_frame sch t0 next dflt rq opt hnext t res h

example : upsertImpl Ex.sch Ex.t0 5 Ex.dflt Ex.rq {} =
    .ok ([(1, [(0, 7), (1, 20), (2, 14)]), (2, [(0, 7), (1, 11), (2, 14)]), (4, [(0, 8), (1, 21), (2, 16)]),
          (5, [(0, 9), (1, 22)])],
         ⟨[[1], [4], [5]], [5], [[1], [4]]⟩) := by decide

/-! ### AddOrUpdateRecord -/

/-- The documented behaviour of `AddOrUpdateRecord`: nothing to do for two empty dictionaries,
    otherwise the reference behaviour of the one-row bulk request, reported as ADD / UPDATE / NONE. -/
def addOrUpdateSpec (sch : Schema κ) (t0 : Table κ α) (next : Nat) (dflt : Rec κ α)
    (require : List (κ × Cell α)) (colValues : List (κ × α)) (opt : Options) :
    Except Err (Table κ α × SingleResult) :=
  if require.isEmpty && colValues.isEmpty then .ok (t0, ⟨[], .none⟩)
  else singleOf (upsertSpec sch t0 next dflt (wrap require colValues) opt)

/-- Same error, or same ids, same action, same rows and same cells. -/
def SameSingle (a b : Except Err (Table κ α × SingleResult)) : Prop :=
  match a, b with
  | .ok (ta, ra), .ok (tb, rb) => ra = rb ∧ tids ta = tids tb ∧ ∀ r c, cell ta r c = cell tb r c
  | .error ea, .error eb => ea = eb
  | _, _ => False

/-- **C28 (single record).**  `AddOrUpdateRecord` agrees with the reference for every table,
    request and option combination (one input row never names a record twice). -/
theorem add_or_update_eq_spec (sch : Schema κ) (t0 : Table κ α) (next : Nat) (dflt : Rec κ α)
    (require : List (κ × Cell α)) (colValues : List (κ × α)) (opt : Options)
    (hnext : ∀ r ∈ tids t0, r < next) (hids : (tids t0).Nodup) :
    SameSingle (addOrUpdateImpl sch t0 next dflt require colValues opt)
      (addOrUpdateSpec sch t0 next dflt require colValues opt) := by
  rw [addOrUpdateImpl_eq]
  unfold addOrUpdateSpec
  split
  · exact ⟨rfl, rfl, fun _ _ => rfl⟩
  · have h := impl_same_spec sch t0 next dflt (wrap require colValues) opt hnext
      (updTargets_nodup_wrap sch t0 require colValues opt hids)
    revert h
    cases upsertImpl sch t0 next dflt (wrap require colValues) opt with
    | error e =>
      cases upsertSpec sch t0 next dflt (wrap require colValues) opt with
      | error e' => intro h; exact h
      | ok q => intro h; exact h.elim
    | ok p =>
      cases upsertSpec sch t0 next dflt (wrap require colValues) opt with
      | error e' => intro h; exact h.elim
      | ok q =>
        obtain ⟨ta, ra⟩ := p
        obtain ⟨tb, rb⟩ := q
        intro h
        obtain ⟨hr, hi, hc⟩ := h
        subst hr
        unfold singleOf
        simp only []
        cases ra.recordIds <;> exact ⟨rfl, hi, hc⟩

example : addOrUpdateImpl Ex.sch Ex.t0 5 Ex.dflt [(0, ⟨7, 7, 7⟩)] [(1, 30)] { onMany := .all } =
    .ok ([(1, [(0, 7), (1, 30), (2, 14)]), (2, [(0, 7), (1, 30), (2, 14)]), (4, [(0, 8), (1, 12), (2, 16)])],
         ⟨[1, 2], .update⟩) := by decide

/-! ### empty columns (isFormula with an empty formula) -/

namespace ExE
/-- columns: 0 = key column, 1 = value column, 2 = a formula column, 3 = an EMPTY column. -/
def sch : Schema Nat := [(0, .data), (1, .data), (2, .formula), (3, .empty)]
def dflt : Rec Nat Nat := [(0, 0), (1, 0), (3, 0)]
/-- two records; the cells of the empty column are all 0 (standing for None). -/
def t0 : Table Nat Nat := [(1, [(0, 7), (1, 10), (2, 14), (3, 0)]), (2, [(0, 8), (1, 11), (2, 16), (3, 0)])]
/-- one input row: key 9 in column 0, 18 in the formula column, 5 (stored as 55) in the empty column. -/
def rq : Request Nat Nat :=
  { require := [(0, [⟨9, 9, 9⟩]), (2, [⟨18, 18, 18⟩]), (3, [⟨5, 5, 55⟩])], colValues := [(1, [20])] }
end ExE

/-- **C28 (an added record holds its `require` values, empty columns included).**  The values of
    the record added for input row `i` carry, for every `require` column that is not a real formula
    column - in particular for every EMPTY column - and that `col_values` does not override, the
    (stored form of the) `require` value of that row. -/
theorem add_values_keep_require (sch : Schema κ) (rq : Request κ α) (i : Nat) (k : κ) (c : Cell α)
    (hreq : aget (rowAt rq.require i) k = some c) (hk : aget sch k ≠ some .formula)
    (hcv : aget (rowAt rq.colValues i) k = none) :
    aget (addValues sch rq i) k = some c.store := by
  unfold addValues
  rw [aget_setAll, hcv]
  simp only []
  rw [aget_map_val ((rowAt rq.require i).filter (fun p => decide (aget sch p.1 ≠ some ColKind.formula)))
        (fun _ c => c.store) k,
      aget_filter_key (rowAt rq.require i) (fun k => decide (aget sch k ≠ some ColKind.formula)) k]
  simp [hk, hreq]

/-- … in particular for an empty column. -/
theorem add_values_keep_empty_column (sch : Schema κ) (rq : Request κ α) (i : Nat) (k : κ) (c : Cell α)
    (hreq : aget (rowAt rq.require i) k = some c) (hk : aget sch k = some .empty)
    (hcv : aget (rowAt rq.colValues i) k = none) :
    aget (addValues sch rq i) k = some c.store :=
  add_values_keep_require sch rq i k c hreq (by rw [hk]; decide) hcv

/-- Only real formula columns of `require` are left out of the added record. -/
theorem add_values_drop_formula (sch : Schema κ) (rq : Request κ α) (i : Nat) (k : κ)
    (hk : aget sch k = some .formula) (hcv : aget (rowAt rq.colValues i) k = none) :
    aget (addValues sch rq i) k = none := by
  unfold addValues
  rw [aget_setAll, hcv]
  simp only []
  rw [aget_map_val ((rowAt rq.require i).filter (fun p => decide (aget sch p.1 ≠ some ColKind.formula)))
        (fun _ c => c.store) k,
      aget_filter_key (rowAt rq.require i) (fun k => decide (aget sch k ≠ some ColKind.formula)) k]
  simp [hk]

example : aget (rowAt ExE.rq.require 0) 3 = some ⟨5, 5, 55⟩ ∧ aget ExE.sch 3 = some .empty ∧
    aget (rowAt ExE.rq.colValues 0) 3 = none ∧ aget ExE.sch 2 = some .formula := by decide
-- the added record 3 holds key 9, value 20 and 55 in the empty column; nothing for the formula column
example : upsertImpl ExE.sch ExE.t0 3 ExE.dflt ExE.rq {} =
    .ok (ExE.t0 ++ [(3, [(0, 9), (1, 20), (3, 55)])], ⟨[[3]], [3], []⟩) := by decide

/-- **C28 (conversions of empty columns, no conversion).**  `upsertImplConv` (the model the check
    ties to the engine when an empty column takes part) without any converted column is `upsertImpl`:
    all theorems above are about the same function. -/
theorem upsertImplConv_nil (sch : Schema κ) (t0 : Table κ α) (next : Nat) (dflt : Rec κ α)
    (rq : Request κ α) (opt : Options) :
    upsertImplConv sch t0 next dflt rq opt [] [] = upsertImpl sch t0 next dflt rq opt := by
  have hfill : ∀ t : Table κ α, fillCols t [] = t := by
    intro t
    unfold fillCols
    induction t with
    | nil => rfl
    | cons p r ih => simp only [List.map_cons, ih]; rfl
  unfold upsertImplConv upsertImpl
  simp only [hfill]

/-- The same for `AddOrUpdateRecord`. -/
theorem addOrUpdateImplConv_nil (sch : Schema κ) (t0 : Table κ α) (next : Nat) (dflt : Rec κ α)
    (require : List (κ × Cell α)) (colValues : List (κ × α)) (opt : Options) :
    addOrUpdateImplConv sch t0 next dflt require colValues opt [] [] =
      addOrUpdateImpl sch t0 next dflt require colValues opt := by
  unfold addOrUpdateImplConv addOrUpdateImpl
  simp only [upsertImplConv_nil]

/-- **C28 (conversions of empty columns do not touch the answer).**  Whatever columns the two bulk
    actions convert: the same error, or the same returned ids and the same row ids - a conversion
    only changes cells (`fillCols`), never which records are matched, added or updated (all lookups
    are done before the first bulk action). -/
theorem upsertImplConv_result (sch : Schema κ) (t0 : Table κ α) (next : Nat) (dflt : Rec κ α)
    (rq : Request κ α) (opt : Options) (cvAdd cvUpd : Rec κ α) :
    match upsertImplConv sch t0 next dflt rq opt cvAdd cvUpd, upsertImpl sch t0 next dflt rq opt with
    | .ok (ta, ra), .ok (tb, rb) => ra = rb ∧ tids ta = tids tb
    | .error ea, .error eb => ea = eb
    | _, _ => False := by
  have htf : ∀ (t : Table κ α) (f : Rec κ α), tids (fillCols t f) = tids t := by
    intro t f
    unfold fillCols tids
    rw [List.map_map]
    rfl
  unfold upsertImplConv upsertImpl
  cases validate sch rq opt with
  | error e => exact rfl
  | ok o =>
    cases o with
    | none => exact ⟨by first | rfl | trivial, by first | rfl | trivial⟩
    | some n =>
      simp only []
      generalize implAcc sch t0 rq opt n = acc
      by_cases ha : acc.adds.isEmpty = true
      · simp only [ha, if_true]
        by_cases hu : acc.upds.isEmpty = true
        · simp only [hu, if_true]
          exact ⟨by first | rfl | trivial, by first | rfl | trivial⟩
        · simp only [hu, Bool.false_eq_true, if_false]
          cases checkCols sch (akeys rq.colValues) with
          | error e => exact rfl
          | ok _ => exact ⟨by first | rfl | trivial, by rw [tids_bulkUpdate, tids_bulkUpdate, htf]⟩
      · simp only [ha, Bool.false_eq_true, if_false]
        cases checkCols sch (akeys rq.colValues ++
            (requireAddKeys sch rq).filter (fun k => decide (k ∉ akeys rq.colValues))) with
        | error e => exact rfl
        | ok _ =>
          simp only []
          by_cases hu : acc.upds.isEmpty = true
          · simp only [hu, if_true]
            exact ⟨by first | rfl | trivial, by rw [tids_append, tids_append, htf]⟩
          · simp only [hu, Bool.false_eq_true, if_false]
            cases checkCols sch (akeys rq.colValues) with
            | error e => exact rfl
            | ok _ =>
              exact ⟨by first | rfl | trivial, by rw [tids_bulkUpdate, tids_bulkUpdate, htf, tids_append, tids_append, htf]⟩

-- the empty column 3 is converted by BulkAddRecord (new default 1 for the existing rows)
example : upsertImplConv ExE.sch ExE.t0 3 ExE.dflt ExE.rq {} [(3, 1)] [] =
    .ok ([(1, [(0, 7), (1, 10), (2, 14), (3, 1)]), (2, [(0, 8), (1, 11), (2, 16), (3, 1)]),
          (3, [(0, 9), (1, 20), (3, 55)])], ⟨[[3]], [3], []⟩) := by decide

end Grist.Upsert
