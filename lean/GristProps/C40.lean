/-
C40  Predicate formula parse trees are faithful.
Property theorems only.  Model: GristModel/Predicate.lean (predicate_formula.parse_predicate_formula /
TreeConverter); structural inductions: GristProofs/Predicate.lean.

Reading of the property (see harness/gx/props/c40.py):
 * "the supported subset"  = `supported e` (exactly what TreeConverter accepts, `accepts_iff`);
 * "evaluating with the documented node semantics" = `evalTree`, "evaluating the expression in
   Python with $x read as rec.x" = `evalExpr` (tuple displays read as list displays: documented in
   visit_Tuple);
 * "JSON-serializable" = `jsonSafe` (only lists, strings, finite numbers, bools, null).
-/
import GristModel.Predicate
import GristProofs.Predicate
namespace Grist.Predicate

/-! ### faithfulness -/

/-- **C40 (faithful).** Whenever the converter accepts an expression, evaluating the produced tree
    with the documented node semantics gives exactly the result (value or error class) of
    evaluating the expression itself — for every expression and every environment. -/
theorem convert_faithful (ρ : Env) (e : PExpr) (t : PTree) (h : convert e = .ok t) :
    evalTree ρ t = evalExpr ρ e :=
  faithful ρ e t h

example : convert (.boolOp .or [.dollar "a", .compare (.name "x") [.in] [.tuple [.const (.int 1)]]])
    = .ok (node "Or" [node "Attr" [node "Name" [.str "rec"], .str "a"],
                      node "In" [node "Name" [.str "x"], node "List" [node "Const" [.int 1]]]]) := by rfl

-- `$a or x in (1,)` with rec.a = 0, x = 1: both evaluations give `True` (the `In` node decided)
example : evalExpr ⟨[("rec", .record 1 [("a", .int 0)]), ("x", .int 1)]⟩
    (.boolOp .or [.dollar "a", .compare (.name "x") [.in] [.tuple [.const (.int 1)]]])
    = .ok (.bool true) := by rfl
example : evalTree ⟨[("rec", .record 1 [("a", .int 0)]), ("x", .int 1)]⟩
    (node "Or" [node "Attr" [node "Name" [.str "rec"], .str "a"],
                node "In" [node "Name" [.str "x"], node "List" [node "Const" [.int 1]]]])
    = .ok (.bool true) := by rfl
-- errors are preserved as well: `None + 1` is a TypeError on both sides
example : evalExpr ⟨[]⟩ (.binOp .add (.const .none) (.const (.int 1))) = .error eType := by rfl

/-- **C40 (faithful, whole function).** Same for `parse_predicate_formula` as a whole, i.e. with the
    `Comment` wrapper when the formula carries a comment. -/
theorem parse_faithful (ρ : Env) (e : PExpr) (c : Option String) (t : PTree)
    (h : parseFormula e c = .ok t) : evalTree ρ t = evalExpr ρ e := by
  simp only [parseFormula, bind_ok] at h
  obtain ⟨r, hr, h⟩ := h
  have hf := faithful ρ e r hr
  split at h
  · split at h
    · simp only [pure_ok] at h; subst h
      simp [node, evalTree_node, hf]
    · simp only [pure_ok] at h; subst h; exact hf
  · simp only [pure_ok] at h; subst h; exact hf

example : parseFormula (.const (.bool true)) (some "# Comment!  ")
    = .ok (node "Comment" [node "Const" [.bool true], .str "Comment!"]) := by
  simp [parseFormula, convert, constTree, stripChars, pySpace, bind, Except.bind, pure, Except.pure]

/-! ### unsupported syntax is rejected, never mistranslated -/

/-- `s` occurs in `e` (at any depth, in any position). -/
inductive Sub : PExpr → PExpr → Prop where
  | refl (e) : Sub e e
  | boolOp {s op vs v} : v ∈ vs → Sub s v → Sub s (.boolOp op vs)
  | binL {s op l r} : Sub s l → Sub s (.binOp op l r)
  | binR {s op l r} : Sub s r → Sub s (.binOp op l r)
  | unary {s op e} : Sub s e → Sub s (.unaryOp op e)
  | cmpL {s l ops cs} : Sub s l → Sub s (.compare l ops cs)
  | cmpR {s l ops cs c} : c ∈ cs → Sub s c → Sub s (.compare l ops cs)
  | attr {s e a} : Sub s e → Sub s (.attr e a)
  | list {s es x} : x ∈ es → Sub s x → Sub s (.list es)
  | tuple {s es x} : x ∈ es → Sub s x → Sub s (.tuple es)
  | callF {s f args kws} : Sub s f → Sub s (.call f args kws)
  | callA {s f args kws x} : x ∈ args → Sub s x → Sub s (.call f args kws)
  | callK {s f args kws k x} : Keyword.mk k x ∈ kws → Sub s x → Sub s (.call f args kws)

/-- node kinds outside the documented list, taken at the root of `s`. -/
def UnsupportedHere : PExpr → Prop
  | .unsupported _ _ => True                 -- Lambda, IfExp, Dict, Set, comprehensions, Subscript,
                                             -- Starred, JoinedStr, NamedExpr, Await, Yield, Slice …
  | .binOp (.other _) _ _ => True            -- ** // @ | & ^ << >>
  | .unaryOp (.other _) _ => True            -- unary - + ~
  | .compare _ ops cs => ops.length ≠ 1 ∨ cs.length ≠ 1   -- chained comparison
  | _ => False

theorem supportedList_mem : ∀ {es : List PExpr} {x : PExpr}, supportedList es = true → x ∈ es →
    supported x = true
  | [], _, _, h => by cases h
  | e :: es, x, hs, h => by
    simp only [supportedList, Bool.and_eq_true] at hs
    rcases List.mem_cons.mp h with rfl | h
    · exact hs.1
    · exact supportedList_mem hs.2 h

theorem supportedKws_mem : ∀ {ks : List Keyword} {k : Option String} {x : PExpr},
    supportedKws ks = true → Keyword.mk k x ∈ ks → supported x = true
  | [], _, _, _, h => by cases h
  | .mk a e :: ks, k, x, hs, h => by
    simp only [supportedKws, Bool.and_eq_true] at hs
    rcases List.mem_cons.mp h with h | h
    · cases h; exact hs.1
    · exact supportedKws_mem hs.2 h

theorem supported_compare : ∀ (l : PExpr) (ops : List CmpOp) (cs : List PExpr),
    supported (.compare l ops cs) = true → supported l = true ∧ supportedList cs = true
  | l, [_], [c], h => by
    simp only [supported, supportedList, Bool.and_eq_true, Bool.and_true] at h ⊢; exact h
  | l, [], cs, h => by simp [supported] at h
  | l, _ :: _ :: _, cs, h => by simp [supported] at h
  | l, [_], [], h => by simp [supported] at h
  | l, [_], _ :: _ :: _, h => by simp [supported] at h

theorem supported_sub {s e : PExpr} (hsub : Sub s e) : supported e = true → supported s = true := by
  induction hsub with
  | refl => exact id
  | boolOp hm _ ih => intro h; simp only [supported] at h; exact ih (supportedList_mem h hm)
  | binL _ ih => intro h; simp only [supported, Bool.and_eq_true] at h; exact ih h.1.2
  | binR _ ih => intro h; simp only [supported, Bool.and_eq_true] at h; exact ih h.2
  | unary _ ih => intro h; simp only [supported, Bool.and_eq_true] at h; exact ih h.2
  | cmpL _ ih => intro h; exact ih (supported_compare _ _ _ h).1
  | cmpR hm _ ih => intro h; exact ih (supportedList_mem (supported_compare _ _ _ h).2 hm)
  | attr _ ih => intro h; simp only [supported] at h; exact ih h
  | list hm _ ih => intro h; simp only [supported] at h; exact ih (supportedList_mem h hm)
  | tuple hm _ ih => intro h; simp only [supported] at h; exact ih (supportedList_mem h hm)
  | callF _ ih => intro h; simp only [supported, Bool.and_eq_true] at h; exact ih h.1.1
  | callA hm _ ih =>
    intro h; simp only [supported, Bool.and_eq_true] at h; exact ih (supportedList_mem h.1.2 hm)
  | callK hm _ ih =>
    intro h; simp only [supported, Bool.and_eq_true] at h; exact ih (supportedKws_mem h.2 hm)

theorem unsupportedHere_not_supported {s : PExpr} (h : UnsupportedHere s) : supported s = false := by
  cases s with
  | unsupported k cs => simp [supported]
  | binOp op l r => cases op <;> simp [UnsupportedHere] at h; simp [supported, BinOp.name?]
  | unaryOp op e => cases op <;> simp [UnsupportedHere] at h; simp [supported]
  | compare l ops cs =>
    simp only [UnsupportedHere] at h
    unfold supported
    split
    · simp at h
    · rfl
  | _ => simp [UnsupportedHere] at h

/-- **C40 (acceptance is exactly the subset).** The converter returns a tree iff no node kind
    outside the documented list occurs anywhere in the expression. -/
theorem accepted_iff_supported (e : PExpr) : (∃ t, convert e = .ok t) ↔ supported e = true :=
  accepts_iff e

example : supported (.call (.attr (.dollar "Email") "lower") [] [.mk (some "k") (.const (.int 1))]) = true := by rfl
example : supported (.list [.name "a", .unaryOp (.other "USub") (.const (.int 1))]) = false := by rfl

/-- **C40 (unsupported syntax raises SyntaxError).** If an unsupported node kind occurs ANYWHERE in
    `e` (however deep, below whatever supported constructs), the converter raises — it never
    returns a tree, so nothing is mistranslated. -/
theorem unsupported_rejected (e s : PExpr) (hsub : Sub s e) (hs : UnsupportedHere s) :
    ∃ msg, convert e = .error msg := by
  have hns : supported e ≠ true := by
    intro h
    have := supported_sub hsub h
    rw [unsupportedHere_not_supported hs] at this
    cases this
  cases hc : convert e with
  | error m => exact ⟨m, rfl⟩
  | ok t => exact absurd ((accepts_iff e).mp ⟨t, hc⟩) hns

/-- the whole function rejects as well (the comment scan comes after the conversion). -/
theorem parse_rejects (e : PExpr) (c : Option String) (m : String) (h : convert e = .error m) :
    parseFormula e c = .error m := by
  simp [parseFormula, h, bind, Except.bind]

-- `rec.a in [x for x in y]` / `a < b < c` / `-x + 1`
example : Sub (.unsupported "ListComp" []) (.compare (.dollar "a") [.in] [.unsupported "ListComp" []]) :=
  .cmpR (by simp) (.refl _)
example : UnsupportedHere (.compare (.name "a") [.lt, .lt] [.name "b", .name "c"]) := by
  simp [UnsupportedHere]
example : convert (.binOp .add (.unaryOp (.other "USub") (.name "x")) (.const (.int 1)))
    = .error eUnsupported := by rfl

/-! ### the tree is JSON -/

/-- **C40 (JSON-safe, exact).** The produced tree consists only of lists, strings, finite numbers,
    booleans and null iff every constant of the expression is None / bool / int / finite float /
    str. -/
theorem tree_json_safe_iff (e : PExpr) (t : PTree) (h : convert e = .ok t) :
    jsonSafe t = constsOk e :=
  jsonSafe_convert e t h

/-- **C40 (JSON-safe, partial).** For expressions whose constants are JSON scalars, the tree
    (with or without a `Comment` wrapper) is JSON. -/
theorem tree_json_safe_partial (e : PExpr) (c : Option String) (t : PTree)
    (h : parseFormula e c = .ok t) (hc : constsOk e = true) : jsonSafe t = true := by
  simp only [parseFormula, bind_ok] at h
  obtain ⟨r, hr, h⟩ := h
  have hj : jsonSafe r = true := by rw [jsonSafe_convert e r hr, hc]
  split at h
  · split at h
    · simp only [pure_ok] at h; subst h
      simp [jsonSafe_node, jsonSafeList, jsonSafe, hj]
    · simp only [pure_ok] at h; subst h; exact hj
  · simp only [pure_ok] at h; subst h; exact hj

example : constsOk (.compare (.dollar "a") [.eq] [.const (.str "x")]) = true := by rfl

-- FULL STATEMENT (unproved, FALSE of the code as it is):
--   theorem tree_json_safe : ∀ e t, supported e = true → convert e = .ok t → jsonSafe t = true
-- `visit_Constant` returns `["Const", node.value]` for ANY constant: a bytes literal, `...`, a
-- complex literal (not JSON-encodable: json.dumps raises TypeError) or a float literal that
-- overflows to inf (`1e999`, dumped as the non-JSON token `Infinity`) is accepted.
/-- Negation of the full statement, witness `b'x'` (replayed on the real code by c40.py). -/
theorem tree_json_safe_full_is_false :
    ¬ ∀ (e : PExpr) (t : PTree), supported e = true → convert e = .ok t → jsonSafe t = true := by
  intro h
  have := h (.const (.other "bytes")) (node "Const" [.opaque "bytes"]) rfl rfl
  simp [node, jsonSafe, jsonSafeList] at this

example : ¬ (jsonSafe (node "Const" [.float 0x7FF0000000000000]) = true) := by decide

/-! ### the Comment node -/

theorem dropWhile_append_last {α} (p : α → Bool) (x : α) (hx : p x = false) :
    ∀ ys : List α, (ys ++ [x]).dropWhile p = ys.dropWhile p ++ [x]
  | [] => by simp [List.dropWhile, hx]
  | y :: ys => by
    simp only [List.cons_append, List.dropWhile_cons]
    split
    · exact dropWhile_append_last p x hx ys
    · rfl

/-- **C40 (comment node).** With a comment token `#rest`, the result is
    `["Comment", tree, rest.strip()]` around the converted tree; without one it is the tree. -/
theorem comment_node (e : PExpr) (t : PTree) (c : String) (rest : List Char)
    (h : convert e = .ok t) (hc : c.toList = '#' :: rest) :
    parseFormula e (some c) = .ok (node "Comment" [t, .str (String.ofList (stripChars rest))]) := by
  simp [parseFormula, h, hc, bind, Except.bind, pure, Except.pure]

example : "#  Allow owners ".toList = '#' :: "  Allow owners ".toList := by decide
example : String.ofList (stripChars "  Allow owners ".toList) = "Allow owners" := by decide

theorem no_comment (e : PExpr) : parseFormula e none = convert e := by
  simp only [parseFormula]
  cases convert e <;> rfl

/-- The `Comment` node is transparent for evaluation. -/
theorem comment_transparent (ρ : Env) (t : PTree) (s : String) :
    evalTree ρ (node "Comment" [t, .str s]) = evalTree ρ t := by
  simp [node, evalTree_node]

/-- The stored comment text has no leading and no trailing whitespace. -/
theorem comment_stripped (rest : List Char) :
    (∀ x xs, stripChars rest = x :: xs → pySpace x = false) ∧
    (∀ x xs, (stripChars rest).reverse = x :: xs → pySpace x = false) := by
  constructor
  · intro x xs h
    unfold stripChars at h
    cases hl : rest.dropWhile pySpace with
    | nil => rw [hl] at h; simp at h
    | cons y ys =>
      have hy := dropWhile_head_not pySpace rest y ys hl
      rw [hl, List.reverse_cons, dropWhile_append_last pySpace y hy, List.reverse_append] at h
      simp only [List.reverse_cons, List.reverse_nil, List.nil_append, List.cons_append,
        List.cons.injEq] at h
      rw [← h.1]; exact hy
  · intro x xs h
    unfold stripChars at h
    rw [List.reverse_reverse] at h
    exact dropWhile_head_not pySpace _ x xs h

example : stripChars " a b\t ".toList = "a b".toList := by decide

end Grist.Predicate
