import GristModel.DocSpec
namespace Grist.Doc
theorem placeholder_C01 : True := trivial
end Grist.Doc
