/-
C01 stage (i) / C04 algebra: undo-correctness of the doc actions (DocActions.* in
sandbox/grist/docactions.py), as modelled by GristModel/Doc.lean, Engine.lean, DocSpec.lean.

Property theorems only; the proofs are in GristProofs/DocUndo*.lean.

Extra hypotheses that turned out to be necessary (the statements with `WF` alone are false):
 * `Normal d`   every stored cell is a fixed point of its column's `Column.set` normalisation
                (`colSet`).  All cells the doc actions write are; `WF` does not say so.  Without it a
                Numeric column holding `int 5` comes back from BulkUpdate+undo as `flt "5.0"`.
 * `a.colsDistinct`  an AddTable names each column once (the model keeps duplicates, which breaks
                `Table.WF`).
 * `a.undoExact d`   ReplaceTableData / RemoveColumn do not restore non-default FORMULA columns,
                ModifyColumn restores cells only up to `colSet old (colSet new v)`.
-/
import GristProofs.DocUndoAll
namespace Grist.Doc

/-! ### S0: the document and undo components do not depend on the summary -/

theorem docAction_doc_indep_summary (d : Doc) (s s' : Summary) (a : DocAction) :
    (docAction d s a).map (fun r => (r.doc, r.undo)) =
      (docAction d s' a).map (fun r => (r.doc, r.undo)) := by
  cases a <;> simp only [docAction] <;> (repeat' split) <;> rfl

theorem docAction_ok_indep_summary {d : Doc} {s : Summary} (s' : Summary) {a : DocAction}
    {r : DAResult} (h : docAction d s a = .ok r) :
    ∃ r', docAction d s' a = .ok r' ∧ r'.doc = r.doc ∧ r'.undo = r.undo :=
  ok_of_post s' (post_of_ok h)

/-- `applyAll` (empty summary at every step) replays exactly what `stepDoc` does to the document. -/
theorem stepDoc_doc_eq_applyAll {st st1 : EState} {a : DocAction} {dir : Bool}
    (h : stepDoc st a dir = .ok st1) : applyAll st.doc [a] = .ok st1.doc := by
  obtain ⟨r, hr, hd, _⟩ := stepDoc_ok h
  simp [applyAll, hr, hd]

/-! ### S1: well-formedness is preserved -/

/-- FALSE without `colsDistinct`: see `addTable_dup_not_WF` below. -/
theorem docAction_WF_partial {d : Doc} {s : Summary} {a : DocAction} {r : DAResult} (hwf : WF d)
    (hpos : a.rowsPositive) (hcd : a.colsDistinct) (h : docAction d s a = .ok r) : WF r.doc :=
  (post_WF_Normal hwf hpos hcd (post_of_ok h)).1

/-- every constructor except AddTable: no extra hypothesis -/
theorem docAction_WF {d : Doc} {s : Summary} {a : DocAction} {r : DAResult} (hwf : WF d)
    (hpos : a.rowsPositive) (hna : ∀ t cols, a ≠ .addTable t cols)
    (h : docAction d s a = .ok r) : WF r.doc := by
  apply docAction_WF_partial hwf hpos _ h
  cases a <;> first | trivial | exact absurd rfl (hna _ _)

theorem docAction_Normal {d : Doc} {s : Summary} {a : DocAction} {r : DAResult} (hwf : WF d)
    (hn : Normal d) (hpos : a.rowsPositive) (hcd : a.colsDistinct) (h : docAction d s a = .ok r) :
    Normal r.doc :=
  (post_WF_Normal hwf hpos hcd (post_of_ok h)).2 hn

/-- counterexample to S1 as first stated: AddTable naming a column twice -/
theorem addTable_dup_not_WF (info : ColInfo) :
    ∃ r, docAction [] {} (.addTable "T" [("A", info), ("A", info)]) = .ok r ∧ WF [] ∧ ¬ WF r.doc := by
  refine ⟨_, rfl, ⟨by simp, by simp⟩, ?_⟩
  intro h
  have := (h.2 _ (List.mem_singleton.2 rfl)).1
  simp at this

/-! ### S2: replaying the undo of one action restores the document -/

/-- All 11 constructors.  `Normal d` is needed (BulkRemove, BulkUpdate, ReplaceTableData,
    RemoveColumn, RemoveTable re-write old values through `Column.set`); `undoExact` is `True` for
    every constructor except ReplaceTableData, RemoveColumn (formula columns must be all default)
    and ModifyColumn (`colSet old (colSet new v) = v` at the rows). -/
theorem docAction_undo_partial {d : Doc} {s : Summary} {a : DocAction} {r : DAResult} (hwf : WF d)
    (hn : Normal d) (hpos : a.rowsPositive) (hex : a.undoExact d) (h : docAction d s a = .ok r) :
    ∃ d'', applyAll r.doc r.undo.reverse = .ok d'' ∧ Same d'' d :=
  post_undo hwf hn hpos hex (post_of_ok h)

/-- constructors whose undo is exact with `WF` alone -/
theorem bulkAdd_undo {d : Doc} {s : Summary} {t : String} {rows : List Nat}
    {cols : List (String × List Val)} {r : DAResult} (hwf : WF d) (hpos : ∀ x ∈ rows, 0 < x)
    (h : docAction d s (.bulkAdd t rows cols) = .ok r) :
    ∃ d'', applyAll r.doc r.undo.reverse = .ok d'' ∧ Same d'' d :=
  undo_bulkAdd hwf hpos (post_of_ok h)

theorem addColumn_undo {d : Doc} {s : Summary} {t c : String} {info : ColInfo} {r : DAResult}
    (h : docAction d s (.addColumn t c info) = .ok r) :
    ∃ d'', applyAll r.doc r.undo.reverse = .ok d'' ∧ Same d'' d :=
  undo_addColumn (post_of_ok h)

theorem renameColumn_undo {d : Doc} {s : Summary} {t old new : String} {r : DAResult}
    (h : docAction d s (.renameColumn t old new) = .ok r) :
    ∃ d'', applyAll r.doc r.undo.reverse = .ok d'' ∧ Same d'' d :=
  undo_renameColumn (post_of_ok h)

theorem addTable_undo {d : Doc} {s : Summary} {t : String} {cols : List (String × ColInfo)}
    {r : DAResult} (h : docAction d s (.addTable t cols) = .ok r) :
    ∃ d'', applyAll r.doc r.undo.reverse = .ok d'' ∧ Same d'' d :=
  undo_addTable (post_of_ok h)

theorem renameTable_undo {d : Doc} {s : Summary} {old new : String} {r : DAResult}
    (h : docAction d s (.renameTable old new) = .ok r) :
    ∃ d'', applyAll r.doc r.undo.reverse = .ok d'' ∧ Same d'' d :=
  undo_renameTable (post_of_ok h)

/-- constructors that need `Normal` -/
theorem bulkRemove_undo_partial {d : Doc} {s : Summary} {t : String} {rows : List Nat} {r : DAResult}
    (hwf : WF d) (hn : Normal d) (h : docAction d s (.bulkRemove t rows) = .ok r) :
    ∃ d'', applyAll r.doc r.undo.reverse = .ok d'' ∧ Same d'' d :=
  undo_bulkRemove hwf hn (post_of_ok h)

theorem bulkUpdate_undo_partial {d : Doc} {s : Summary} {t : String} {rows : List Nat}
    {cols : List (String × List Val)} {r : DAResult} (hwf : WF d) (hn : Normal d)
    (h : docAction d s (.bulkUpdate t rows cols) = .ok r) :
    ∃ d'', applyAll r.doc r.undo.reverse = .ok d'' ∧ Same d'' d :=
  undo_bulkUpdate hwf hn (post_of_ok h)

theorem removeTable_undo_partial {d : Doc} {s : Summary} {t : String} {r : DAResult}
    (hwf : WF d) (hn : Normal d) (h : docAction d s (.removeTable t) = .ok r) :
    ∃ d'', applyAll r.doc r.undo.reverse = .ok d'' ∧ Same d'' d :=
  undo_removeTable hwf hn (post_of_ok h)

/-- ReplaceTableData: formula columns of the table must be all default (they are not in the undo) -/
theorem replaceData_undo_partial {d : Doc} {s : Summary} {t : String} {rows : List Nat}
    {cols : List (String × List Val)} {r : DAResult} (hwf : WF d) (hn : Normal d)
    (hpos : ∀ x ∈ rows, 0 < x)
    (hex : ∀ tb, findTable? d t = some tb → ∀ col ∈ tb.cols, col.info.isFormula = true →
      ∀ x ∈ tb.rows, col.cells x = typeDefault col.info.type)
    (h : docAction d s (.replaceData t rows cols) = .ok r) :
    ∃ d'', applyAll r.doc r.undo.reverse = .ok d'' ∧ Same d'' d :=
  undo_replaceData hwf hn hpos hex (post_of_ok h)

/-- RemoveColumn of a data column (or of an all-default formula column) -/
theorem removeColumn_undo_partial {d : Doc} {s : Summary} {t c : String} {r : DAResult}
    (hwf : WF d) (hn : Normal d)
    (hex : ∀ tb col, findTable? d t = some tb → tb.findCol? c = some col →
      col.info.isFormula = true → ∀ x ∈ tb.rows, col.cells x = typeDefault col.info.type)
    (h : docAction d s (.removeColumn t c) = .ok r) :
    ∃ d'', applyAll r.doc r.undo.reverse = .ok d'' ∧ Same d'' d :=
  undo_removeColumn hwf hn hex (post_of_ok h)

/-- ModifyColumn: the undo restores the schema; the cells come back as
    `colSet oldType (colSet newType v)`, so the restoration is exact when that is `v`. -/
theorem modifyColumn_undo_partial {d : Doc} {s : Summary} {t c : String} {p : ColPatch}
    {r : DAResult}
    (hex : ∀ tb col, findTable? d t = some tb → tb.findCol? c = some col → ∀ x ∈ tb.rows,
      colSet col.info.type (colSet (colInfoOfPatch col.info p).type (col.cells x)) = col.cells x)
    (h : docAction d s (.modifyColumn t c p) = .ok r) :
    ∃ d'', applyAll r.doc r.undo.reverse = .ok d'' ∧ Same d'' d :=
  undo_modifyColumn hex (post_of_ok h)

/-- in particular when the patch leaves the type alone and the cells are normalised -/
theorem modifyColumn_undoExact_of_type_unchanged {d : Doc} {t c : String} {p : ColPatch}
    (hn : Normal d) (hty : p.type = none) : (DocAction.modifyColumn t c p).undoExact d := by
  intro tb col hf hc r _
  have : (colInfoOfPatch col.info p).type = col.info.type := by simp [colInfoOfPatch, hty]
  rw [this, colSet_idem]
  exact hn.table hf col (findCol?_some hc).2 r

def cexInfo (ty : String) : ColInfo :=
  { type := ty, isFormula := false, formula := "", reverseColId := none }

def cexDoc (ty : String) : Doc :=
  [{ id := "T", rows := [1],
     cols := [{ id := "A", info := cexInfo ty,
                cells := fun r => if r = 1 then .int 1 else typeDefault ty }] }]

/-- counterexample to S2 with `WF` alone: a Bool column (any type `ty` whose pure type is "Bool")
    holding `int 1`; BulkUpdate then its undo leaves `bool true`. -/
theorem bulkUpdate_undo_needs_Normal (ty : String) (hty : pureType ty = "Bool") :
    ∃ (d : Doc) (r : DAResult) (d'' : Doc), WF d ∧
      docAction d {} (.bulkUpdate "T" [1] [("A", [.int 0])]) = .ok r ∧
      applyAll r.doc r.undo.reverse = .ok d'' ∧ ¬ Same d'' d := by
  have hwf : WF (cexDoc ty) := by
    refine ⟨by simp [cexDoc], ?_⟩
    intro tb htb
    simp only [cexDoc, List.mem_singleton] at htb
    subst htb
    refine ⟨by simp, by simp, by simp, ?_⟩
    intro col hcol r hr
    simp only [List.mem_singleton] at hcol
    subst hcol
    have : r ≠ 1 := by simpa using hr
    simp [this, cexInfo]
  refine ⟨cexDoc ty, _, _, hwf, rfl, rfl, ?_⟩
  intro hs
  have := hs "T"
  simp only [findTable?, cexDoc, List.find?_cons, beq_self_eq_true, replaceTable, List.map_cons,
    List.map_nil, ↓reduceIte] at this
  have h2 := this.2 "A"
  simp only [Table.findCol?, Table.replaceCol, List.map_cons, List.map_nil, List.find?_cons,
    beq_self_eq_true, ↓reduceIte] at h2
  have h3 := h2.2 1 (by simp)
  simp [setCells, setCell, colSet, hty, cexInfo] at h3

/-! ### S3: doc actions respect observational equality -/

/-- `UndoEqv` (GristProofs/DocUndoEqv.lean): the two undo lists have the same length and agree
    action by action up to the order (`List.Perm`) of the per-column entries inside BulkAddRecord /
    ReplaceTableData / AddTable (`DocAction.Eqv`); all other undo actions are equal.
    (S4 does not need the undo part: it replays ONE undo list on `Same` documents.) -/
theorem docAction_congr {d1 d2 : Doc} {s : Summary} {a : DocAction} {r1 : DAResult} (hw1 : WF d1)
    (hw2 : WF d2) (hs : Same d1 d2) (hpos : a.rowsPositive) (h : docAction d1 s a = .ok r1) :
    ∃ r2, docAction d2 s a = .ok r2 ∧ Same r1.doc r2.doc ∧ UndoEqv r1.undo r2.undo := by
  obtain ⟨D2, U2, hp2, hs'⟩ := post_congr hw1 hw2 hs hpos (post_of_ok h)
  obtain ⟨r2, hr2, hd2, hu2⟩ := ok_of_post s hp2
  refine ⟨r2, hr2, by rw [hd2]; exact hs', ?_⟩
  rw [hu2]
  exact post_undo_eqv hw1 hw2 hs (post_of_ok h) hp2

theorem applyAll_congr' {l : List DocAction} {d1 d2 x : Doc} (hw1 : WF d1) (hw2 : WF d2)
    (hs : Same d1 d2) (hl : ∀ a ∈ l, a.rowsPositive ∧ a.colsDistinct) (h : applyAll d1 l = .ok x) :
    ∃ y, applyAll d2 l = .ok y ∧ Same x y :=
  applyAll_congr hw1 hw2 hs hl h

/-! ### S4: lists of actions -/

/-- constructors whose undo is exact in every (well-formed, normalised) document -/
def DocAction.undoSafe : DocAction → Prop
  | .replaceData _ _ _ => False
  | .removeColumn _ _ => False
  | .modifyColumn _ _ _ => False
  | _ => True

theorem undoExact_of_safe {a : DocAction} (h : a.undoSafe) (d : Doc) : a.undoExact d := by
  cases a <;> first | trivial | exact h.elim

theorem undoExactRun_of_safe {as : List DocAction} (h : ∀ a ∈ as, a.undoSafe) :
    ∀ d, undoExactRun d as := by
  induction as with
  | nil => intro d; trivial
  | cons a rest ih =>
    intro d
    exact ⟨undoExact_of_safe (h a (by simp)) d, fun r _ =>
      ih (fun b hb => h b (List.mem_cons_of_mem _ hb)) r.doc⟩

/-- `undoExactRun d as`: each action is applied in a document where its undo is exact
    (`DocAction.undoExact`, threaded through the run). -/
theorem runActs_undo_partial {as : List DocAction} {d d' : Doc} {u : List DocAction} (hwf : WF d)
    (hn : Normal d) (hargs : ∀ a ∈ as, a.rowsPositive ∧ a.colsDistinct) (hex : undoExactRun d as)
    (h : runActs d as = .ok (d', u)) :
    ∃ d'', applyAll d' u.reverse = .ok d'' ∧ Same d'' d :=
  (runActs_undo_full hwf hn hargs hex h).2.2.2

/-- syntactic version: BulkAdd/Remove/Update, AddColumn, RenameColumn, AddTable, RemoveTable,
    RenameTable in any order -/
theorem runActs_undo_safe {as : List DocAction} {d d' : Doc} {u : List DocAction} (hwf : WF d)
    (hn : Normal d) (hargs : ∀ a ∈ as, a.rowsPositive ∧ a.colsDistinct)
    (hsafe : ∀ a ∈ as, a.undoSafe) (h : runActs d as = .ok (d', u)) :
    ∃ d'', applyAll d' u.reverse = .ok d'' ∧ Same d'' d :=
  runActs_undo_partial hwf hn hargs (undoExactRun_of_safe hsafe d) h

/-- the run also keeps the invariants -/
theorem runActs_WF {as : List DocAction} {d d' : Doc} {u : List DocAction} (hwf : WF d)
    (hn : Normal d) (hargs : ∀ a ∈ as, a.rowsPositive ∧ a.colsDistinct) (hex : undoExactRun d as)
    (h : runActs d as = .ok (d', u)) : WF d' ∧ Normal d' :=
  ⟨(runActs_undo_full hwf hn hargs hex h).1, (runActs_undo_full hwf hn hargs hex h).2.1⟩

/-! ### S5 (C04): rollback to a checkpoint restores the state -/

theorem rollback_restores {st st' : EState} {steps : List (DocAction × Bool)}
    (hwf : WF st.doc) (hn : Normal st.doc) (hlen : st.stored.length = st.direct.length)
    (hargs : ∀ ab ∈ steps, ab.1.rowsPositive ∧ ab.1.colsDistinct)
    (hex : undoExactRun st.doc (steps.map (·.1)))
    (h : stepDocs st steps = .ok st') :
    ∃ st'', rollback st' st.stored.length st.undo.length = .ok st'' ∧ Same st''.doc st.doc ∧
      st''.stored = st.stored ∧ st''.direct = st.direct ∧ st''.undo = st.undo :=
  rollback_restores_full hwf hn hlen hargs hex h

/-! ### a concrete document and run: the hypotheses are satisfiable, the run computes

Cells are functions and `typeDefault`/`colSet` go through `String.splitOn` (not kernel-reducible),
so the example uses string cells (fixed by every `colSet`) and actions whose evaluation does not
compare against type defaults; `runActs`/`stepDocs` are evaluated by `rfl`. -/

def exInfo : ColInfo := { type := "Text", isFormula := false, formula := "", reverseColId := none }

def exDoc : Doc :=
  [ { id := "T", rows := [1, 2],
      cols := [{ id := "A", info := exInfo,
                 cells := fun r => if r = 1 then .str "x" else if r = 2 then .str "y"
                                   else typeDefault "Text" }] },
    { id := "U", rows := [],
      cols := [{ id := "B", info := exInfo, cells := fun _ => typeDefault "Text" }] } ]

def exActs : List DocAction :=
  [ .bulkAdd "T" [3] [("A", [.str "z"])],
    .bulkUpdate "T" [1, 3] [("A", [.str "w", .str "v"])],
    .addColumn "T" "C" exInfo,
    .renameColumn "T" "A" "A2",
    .addTable "W" [("K", exInfo)],
    .renameTable "U" "V" ]

theorem exDoc_WF : WF exDoc := by
  refine ⟨by decide, ?_⟩
  intro tb htb
  simp only [exDoc, List.mem_cons, List.not_mem_nil, or_false] at htb
  rcases htb with rfl | rfl
  · refine ⟨by simp, by simp, by simp, ?_⟩
    intro col hcol r hr
    simp only [List.mem_singleton] at hcol
    subst hcol
    have h1 : r ≠ 1 := by intro h; subst h; simp at hr
    have h2 : r ≠ 2 := by intro h; subst h; simp at hr
    simp [h1, h2, exInfo]
  · refine ⟨by simp, by simp, by simp, ?_⟩
    intro col hcol r _
    simp only [List.mem_singleton] at hcol
    subst hcol
    rfl

theorem exDoc_Normal : Normal exDoc := by
  intro tb htb
  simp only [exDoc, List.mem_cons, List.not_mem_nil, or_false] at htb
  rcases htb with rfl | rfl
  · intro col hcol r
    simp only [List.mem_singleton] at hcol
    subst hcol
    show colSet "Text" (if r = 1 then Val.str "x" else if r = 2 then Val.str "y" else typeDefault "Text")
      = (if r = 1 then Val.str "x" else if r = 2 then Val.str "y" else typeDefault "Text")
    by_cases h1 : r = 1
    · subst h1; simp [colSet_str]
    · by_cases h2 : r = 2
      · subst h2; simp [colSet_str]
      · simp [h1, h2, colSet_typeDefault]
  · intro col hcol r
    simp only [List.mem_singleton] at hcol
    subst hcol
    exact colSet_typeDefault _

theorem exActs_args : ∀ a ∈ exActs, a.rowsPositive ∧ a.colsDistinct := by
  intro a ha
  simp only [exActs, List.mem_cons, List.not_mem_nil, or_false] at ha
  rcases ha with rfl | rfl | rfl | rfl | rfl | rfl <;>
    simp [DocAction.rowsPositive, DocAction.colsDistinct]

theorem exActs_safe : ∀ a ∈ exActs, a.undoSafe := by
  intro a ha
  simp only [exActs, List.mem_cons, List.not_mem_nil, or_false] at ha
  rcases ha with rfl | rfl | rfl | rfl | rfl | rfl <;> trivial

/-- S0/S1/S2 on the first action of the example -/
example : ∃ r, docAction exDoc {} (.bulkAdd "T" [3] [("A", [.str "z"])]) = .ok r ∧
    r.undo = [.bulkRemove "T" [3]] ∧ WF r.doc ∧ Normal r.doc ∧
    ∃ d'', applyAll r.doc r.undo.reverse = .ok d'' ∧ Same d'' exDoc := by
  have h : docAction exDoc {} (.bulkAdd "T" [3] [("A", [.str "z"])]) = .ok _ := rfl
  have hpos : (DocAction.bulkAdd "T" [3] [("A", [.str "z"])]).rowsPositive := by
    simp [DocAction.rowsPositive]
  exact ⟨_, h, rfl, docAction_WF_partial exDoc_WF hpos trivial h,
    docAction_Normal exDoc_WF exDoc_Normal hpos trivial h,
    docAction_undo_partial exDoc_WF exDoc_Normal hpos trivial h⟩

/-- S3: the same action on a reordered (observationally equal) document -/
example : Same exDoc exDoc.reverse ∧ ∃ r1 r2,
    docAction exDoc {} (.renameColumn "T" "A" "A2") = .ok r1 ∧
    docAction exDoc.reverse {} (.renameColumn "T" "A" "A2") = .ok r2 ∧ Same r1.doc r2.doc := by
  have hs : Same exDoc exDoc.reverse := by
    intro t
    by_cases h1 : t = "T"
    · subst h1; exact Table.Same.refl _
    · by_cases h2 : t = "U"
      · subst h2; exact Table.Same.refl _
      · have e1 : findTable? exDoc t = none := by
          rw [findTable?_none]; intro tb htb
          simp only [exDoc, List.mem_cons, List.not_mem_nil, or_false] at htb
          rcases htb with rfl | rfl
          · exact fun h => h1 h.symm
          · exact fun h => h2 h.symm
        have e2 : findTable? exDoc.reverse t = none := by
          rw [findTable?_none]; intro tb htb
          simp only [exDoc, List.reverse_cons, List.reverse_nil, List.nil_append,
            List.cons_append, List.mem_cons, List.not_mem_nil, or_false] at htb
          rcases htb with rfl | rfl
          · exact fun h => h2 h.symm
          · exact fun h => h1 h.symm
        rw [e1, e2]; trivial
  refine ⟨hs, _, _, rfl, rfl, ?_⟩
  have hwr : WF exDoc.reverse := by
    refine ⟨by decide, fun tb htb => exDoc_WF.2 tb (List.mem_reverse.1 htb)⟩
  obtain ⟨r2, h2, hs2, _⟩ := docAction_congr (s := {}) (a := .renameColumn "T" "A" "A2") exDoc_WF
    hwr hs trivial rfl
  have h2' : docAction exDoc.reverse {} (.renameColumn "T" "A" "A2") = .ok _ := rfl
  rw [h2'] at h2
  cases h2
  exact hs2

/-- S4 on the example: the run succeeds (computed), and replaying its undo list restores `exDoc` -/
example : ∃ d' u d'', runActs exDoc exActs = .ok (d', u) ∧ u.length = 6 ∧
    applyAll d' u.reverse = .ok d'' ∧ Same d'' exDoc := by
  have h : runActs exDoc exActs = .ok (_, _) := rfl
  obtain ⟨d'', h1, h2⟩ := runActs_undo_safe exDoc_WF exDoc_Normal exActs_args exActs_safe h
  exact ⟨_, _, d'', h, rfl, h1, h2⟩

/-- S5 on the example: checkpoint at a fresh state, run the six actions, roll back -/
example : ∃ st' st'', stepDocs { doc := exDoc } (exActs.map (·, true)) = .ok st' ∧
    st'.stored = exActs ∧ st'.undo.length = 6 ∧
    rollback st' 0 0 = .ok st'' ∧ Same st''.doc exDoc ∧ st''.stored = [] ∧ st''.direct = [] ∧
    st''.undo = [] := by
  have h : stepDocs { doc := exDoc } (exActs.map (·, true)) = .ok _ := rfl
  have hargs : ∀ ab ∈ exActs.map (·, true), ab.1.rowsPositive ∧ ab.1.colsDistinct := by
    intro ab hab
    obtain ⟨a, ha, rfl⟩ := List.mem_map.1 hab
    exact exActs_args a ha
  have hex : undoExactRun exDoc ((exActs.map (·, true)).map (·.1)) := by
    apply undoExactRun_of_safe
    intro a ha
    simp only [List.map_map, List.mem_map, Function.comp_apply] at ha
    obtain ⟨b, hb, rfl⟩ := ha
    exact exActs_safe b hb
  obtain ⟨st'', h1, h2, h3, h4, h5⟩ :=
    rollback_restores (st := { doc := exDoc }) exDoc_WF exDoc_Normal rfl hargs hex h
  exact ⟨_, st'', h, rfl, rfl, h1, h2, h3, h4, h5⟩

/-! ### Why the ORDER of an undo list matters when a column changes type (repo commit 4ed88e3) -/

/-- `0.0` is stored as it is by a Numeric column (a fixpoint of that column's `set`), but a Bool column stores `False`
    for it, and writing that back into the Numeric column does not bring `0.0` back.  An undo action that writes the
    old values while the column still has the NEW type therefore cannot restore them: it has to run after the
    `ModifyColumn` that gives the column its old type back.  (As in C09, `pureType` of a literal is a hypothesis:
    `String.splitOn` does not evaluate in the kernel; the driver evaluates it, and the engine-side replay of the
    recorded history in harness/gx/corpus/C01/fixed-4ed88e3.json exercises exactly this situation on every run.) -/
theorem colSet_depends_on_type (tn tb : String) (hn : pureType tn = "Numeric") (hb : pureType tb = "Bool") :
    colSet tn (.flt "0.0") = .flt "0.0" ∧ colSet tb (.flt "0.0") = .bool false ∧
    colSet tn (colSet tb (.flt "0.0")) ≠ .flt "0.0" := by
  refine ⟨?_, ?_, ?_⟩ <;> simp [colSet, hn, hb, isNumericLike]

/-- the direction the repair relies on: written back under the OLD type, an old value is restored exactly whenever
    it was a fixpoint of that type's `set` (the `Normal` invariant of the document before the bundle) -/
theorem setCell_restores_under_old_type (t : String) (v : Val) (h : colSet t v = v) (f : Nat → Val) (r : Nat) :
    setCell f r (colSet t v) r = v := by
  simp [setCell, h]

end Grist.Doc
