/-
C17  Renames inside access rules and conditions are exact.
Property theorems only.  Model: GristModel/PredRename.lean (process_renames, the three entity
collectors and renamers, resource colIds, userAttributes.lookupColId) on top of
GristModel/Predicate.lean (TreeConverter) and GristModel/Textbuilder.lean (Replacer, map_back_patch);
proofs: GristProofs/PredRename.lean.

Setting.  Python's parsers are PARAMETERS: `D` = get_dollar_replacer's view of the `$` signs,
`P` = ast.parse + asttokens (tree and, per Attribute node in visiting order, the position of its
name token).  A *printed formula* is a list of lexemes `toks` (name token of an Attribute node /
`$name` / anything else), an AST `e`, and for every Attribute node (visiting order) the index `ixs[k]`
of the lexeme it was printed as.  "The parsers read the printed formula" is the pair of hypotheses
  hD : D (printO toks) = some (dollarsFrom 0 toks)      hP : P (printN toks) = some (e, positions)
which the correspondence check validates on every generated formula, before and after the rename
(Python's own `ast` and asttokens on the old and on the new text).
-/
import GristModel.PredRename
import GristProofs.PredRename
namespace Grist.PredRename
open Grist.Predicate Grist.Textbuilder

/-- what `parse_predicate_formula` parses: `$` replaced, then Python's parser (tree only). -/
def parseWith (D : Str → Option (List Nat)) (P : Str → Option (PExpr × List Nat)) (text : Str) :
    Option PExpr :=
  match D text with
  | none => none
  | some ds =>
    match getText (dollarBuilder text ds) with
    | .ok nodollar => (P nodollar).map Prod.fst
    | .error _ => none

/-- the lexemes after the rename: lexeme `i` gets the new name of the node printed there, if the
    collector classified that node and the renamer renames it. -/
def renamedToks (c : Ctx) (toks : List Lex) (e : PExpr) (ixs : List Nat) : List Lex :=
  renameLexFrom (selFrom c (nodes c.kind e) ixs) 0 toks

/-! ### (1) the text that process_renames returns -/

/-- **C17 (exact text).**  For every printed formula of the subset, every kind of collector, every
    context and every set of renames, `process_renames` returns — without error — the same lexemes
    with exactly the name tokens of the denoted, renamed references replaced. -/
theorem process_renames_exact (D : Str → Option (List Nat)) (P : Str → Option (PExpr × List Nat))
    (c : Ctx) (toks : List Lex) (e : PExpr) (ixs : List Nat) (t : PTree)
    (hD : D (printO toks) = some (dollarsFrom 0 toks))
    (hP : P (printN toks) = some (e, ixs.map (namePosN toks)))
    (hpr : Printed toks (nodes c.kind e) ixs) (hnd : ixs.Nodup) (hne : NamesNonempty toks)
    (hconv : convert e = .ok t) :
    processRenames D P c (printO toks) = .ok (printO (renamedToks c toks e ixs)) := by
  have := processRenames_printed D P c toks e ixs hD hP hpr hnd hne
  rw [hconv] at this
  exact this

-- `$A and rec.B` in an ACL rule on table T with A ↦ AA:
--   lexemes  $A | " and rec." | B      nodes (visiting order)  $A, rec.B      ixs = [0, 2]
example : Printed [.dollar ['A'], .other " and rec.".toList, .attr ['B']]
    (nodes .acl (.boolOp .and [.dollar "A", .attr (.name "rec") "B"])) [0, 2] := by
  simp [Printed, nodes, nodesList, Lex.occName]
example : renamedToks ⟨.acl, "T", none, [], [(("T", "A"), "AA")]⟩
    [.dollar ['A'], .other " and rec.".toList, .attr ['B']]
    (.boolOp .and [.dollar "A", .attr (.name "rec") "B"]) [0, 2]
    = [.dollar ['A', 'A'], .other " and rec.".toList, .attr ['B']] := by
  decide

/-! ### (2) the new text parses to the old tree with exactly those references renamed -/

/-- The renamed lexemes print the renamed AST: every Attribute node of `renameExpr c e` is printed,
    at the same lexeme index, with its (new) name.  (This is what makes the hypothesis `hP'` of
    `rename_reparses` an instance of "the parser reads a printed formula".) -/
theorem renamed_is_printed (c : Ctx) (toks : List Lex) (e : PExpr) (ixs : List Nat)
    (hpr : Printed toks (nodes c.kind e) ixs) (hnd : ixs.Nodup) :
    Printed (renamedToks c toks e ixs) (nodes c.kind (renameExpr c e)) ixs ∧
    (renamedToks c toks e ixs).length = toks.length := by
  refine ⟨?_, renameLexFrom_length _ _ _⟩
  rw [nodes_rename]
  exact printed_rename c toks _ _ ixs (agree_selFrom c _ ixs hnd) hpr

/-- **C17 (parsed tree).**  If the parsers read the printed formula before the rename (`hD`, `hP`)
    and the printed renamed formula after it (`hD'`, `hP'`), then parsing the text returned by
    `process_renames` gives exactly the old tree with the denoted references renamed, and its
    converted (stored) form is the old converted form renamed. -/
theorem rename_reparses (D : Str → Option (List Nat)) (P : Str → Option (PExpr × List Nat))
    (c : Ctx) (toks : List Lex) (e : PExpr) (ixs : List Nat) (t : PTree)
    (hD : D (printO toks) = some (dollarsFrom 0 toks))
    (hP : P (printN toks) = some (e, ixs.map (namePosN toks)))
    (hpr : Printed toks (nodes c.kind e) ixs) (hnd : ixs.Nodup) (hne : NamesNonempty toks)
    (hconv : convert e = .ok t)
    (hD' : D (printO (renamedToks c toks e ixs)) = some (dollarsFrom 0 (renamedToks c toks e ixs)))
    (hP' : P (printN (renamedToks c toks e ixs))
      = some (renameExpr c e, ixs.map (namePosN (renamedToks c toks e ixs)))) :
    ∃ new, processRenames D P c (printO toks) = .ok new ∧
      parseWith D P new = some (renameExpr c e) ∧
      convert (renameExpr c e) = .ok (renameJson c t) := by
  refine ⟨_, process_renames_exact D P c toks e ixs t hD hP hpr hnd hne hconv, ?_, ?_⟩
  · simp only [parseWith, hD', getText_dollarBuilder, hP', Option.map_some]
  · rw [convert_rename, hconv]; rfl

/-! ### (3) nothing else changes -/

/-- **C17 (only name tokens change).**  The returned text consists of the same number of lexemes;
    lexeme `i` differs from the old one only if it is the name token / `$name` of a node that the
    collector classified and the renamer renames (`k`-th visited node, printed at `ixs[k] = i`), and
    then only its name changes (a `$name` stays a `$name`); every other lexeme — operators,
    literals, blanks, comments, other names, unrelated attributes — is identical. -/
theorem only_name_tokens_change (c : Ctx) (toks : List Lex) (e : PExpr) (ixs : List Nat) (i : Nat) :
    (renamedToks c toks e ixs)[i]? =
      (toks[i]?).map (fun l => renameLex l (selFrom c (nodes c.kind e) ixs i)) ∧
    (∀ l, renameLex l none = l) ∧ (∀ s o, renameLex (.other s) o = .other s) ∧
    (∀ nw, selFrom c (nodes c.kind e) ixs i = some nw →
      ∃ (k : Nat) (nd : NodeInfo), (nodes c.kind e)[k]? = some nd ∧ ixs[k]? = some i ∧
        newOf c nd = some nw) := by
  refine ⟨?_, ?_, ?_, ?_⟩
  · have := renameLexFrom_get (selFrom c (nodes c.kind e) ixs) toks 0 i
    simpa [renamedToks] using this
  · intro l; cases l <;> rfl
  · intro s o; cases o <;> rfl
  · intro nw h; exact selFrom_some c _ ixs i nw h

/-- no rename that applies ⇒ the text is returned unchanged. -/
theorem no_applicable_rename_noop (c : Ctx) (toks : List Lex) (e : PExpr) (ixs : List Nat)
    (h : ∀ nd ∈ nodes c.kind e, newOf c nd = none) :
    renamedToks c toks e ixs = toks := by
  have hsel : ∀ i, selFrom c (nodes c.kind e) ixs i = none := by
    intro i
    cases hs : selFrom c (nodes c.kind e) ixs i with
    | none => rfl
    | some nw =>
      obtain ⟨k, nd, hk, _, hn⟩ := selFrom_some c _ ixs i nw hs
      have := h nd (List.mem_of_getElem? hk)
      rw [this] at hn; cases hn
  apply List.ext_getElem?
  intro i
  have := (only_name_tokens_change c toks e ixs i).1
  rw [this, hsel i]
  cases toks[i]? with
  | none => rfl
  | some l => cases l <;> rfl

/-! ### (4) formulas that do not parse -/

/-- Python outside the predicate subset (the collector raises SyntaxError inside the `try`):
    returned unchanged. -/
theorem unsupported_untouched (D : Str → Option (List Nat)) (P : Str → Option (PExpr × List Nat))
    (c : Ctx) (formula : Str) (ds : List Nat) (nodollar : Str) (e : PExpr) (poss : List Nat) (m : String)
    (hD : D formula = some ds) (hT : getText (dollarBuilder formula ds) = .ok nodollar)
    (hP : P nodollar = some (e, poss)) (hc : convert e = .error m) :
    processRenames D P c formula = .ok formula := by
  simp [processRenames, hD, hT, hP, collect, hc]

/-- Text that the second parse rejects (inside the `try`): returned unchanged. -/
theorem unparsable_untouched_partial (D : Str → Option (List Nat)) (P : Str → Option (PExpr × List Nat))
    (c : Ctx) (formula : Str) (ds : List Nat) (nodollar : Str)
    (hD : D formula = some ds) (hT : getText (dollarBuilder formula ds) = .ok nodollar)
    (hP : P nodollar = none) :
    processRenames D P c formula = .ok formula := by
  simp [processRenames, hD, hT, hP]

-- FULL STATEMENT (unproved, FALSE of the code as it is):
--   theorem unparsable_untouched : ∀ D P c formula,
--     parseWith D P formula = none → processRenames D P c formula = .ok formula
-- `get_dollar_replacer(formula)` parses the formula as well, and it is called BEFORE the `try`:
-- for text that is not Python at all the SyntaxError escapes from process_renames (and from the
-- RenameColumn user action that called it).
/-- what the code does instead. -/
theorem unparsable_raises (D : Str → Option (List Nat)) (P : Str → Option (PExpr × List Nat))
    (c : Ctx) (formula : Str) (hD : D formula = none) :
    processRenames D P c formula = .syntaxError := by
  simp [processRenames, hD]

/-- Negation of the full statement; witness: any text on which get_dollar_replacer's parse fails
    (replayed on the real code with `rec.A +` by c17.py). -/
theorem unparsable_untouched_full_is_false :
    ¬ ∀ (D : Str → Option (List Nat)) (P : Str → Option (PExpr × List Nat)) (c : Ctx) (formula : Str),
      parseWith D P formula = none → processRenames D P c formula = .ok formula := by
  intro h
  have := h (fun _ => none) (fun _ => none) ⟨.dc, "T", none, [], []⟩ "rec.A +".toList rfl
  simp [processRenames] at this

/-! ### (5) the stored parsed form -/

/-- **C17 (stored parsed form).**  Converting the renamed AST = renaming the stored parsed tree. -/
theorem convert_commutes_with_rename (c : Ctx) (e : PExpr) :
    convert (renameExpr c e) = (renameJson c) <$> (convert e) :=
  convert_rename c e

example : renameJson ⟨.acl, "T", none, [("School", some "S")], [(("S", "name"), "title")]⟩
    (node "Attr" [node "Attr" [node "Name" [.str "user"], .str "School"], .str "name"])
    = node "Attr" [node "Attr" [node "Name" [.str "user"], .str "School"], .str "title"] := by
  rfl

/-! ### (6) ACL resources and user attributes -/

/-- **C17 (resource colIds).**  Entry by entry: a column of the resource's table that is renamed
    (to a non-empty name) gets the new name, every other entry stays; the list keeps its length. -/
theorem resource_colIds_renamed (ρ : Renames) (t : String) (cols : List String) (i : Nat) :
    (renameColIds ρ t cols)[i]? = (cols[i]?).map (fun col =>
      match ρ.get t col with
      | some n => if n = "" then col else n
      | none => col) ∧
    (renameColIds ρ t cols).length = cols.length := by
  refine ⟨?_, by simp [renameColIds]⟩
  unfold renameColIds
  rw [List.getElem?_map]
  cases cols[i]? with
  | none => rfl
  | some col => simp only [Option.map_some]; cases ρ.get t col <;> rfl

/-- a resource of a table none of whose listed columns is renamed gets no update at all (other
    tables' columns with the same names do not matter). -/
theorem resource_other_untouched (ρ : Renames) (t : String) (cols : List String)
    (h : ∀ col ∈ cols, ρ.get t col = none) : resourceUpdate ρ t cols = none := by
  unfold resourceUpdate
  split
  · rfl
  · have : renameColIds ρ t cols = cols := by
      unfold renameColIds
      conv => rhs; rw [← List.map_id cols]
      apply List.map_congr_left
      intro col hc
      simp [h col hc]
    simp [this]

example : resourceUpdate [(("T", "b"), "x"), (("U", "a"), "y")] "T" ["a", "b", "c"] = some ["a", "x", "c"] := by
  decide

/-- **C17 (lookupColId).**  The lookup column is replaced iff (tableId, lookupColId) is renamed. -/
theorem lookupColId_renamed (ρ : Renames) (t col n : String) (hn : n ≠ "") :
    (ρ.get t col = some n → lookupColUpdate ρ (some t) (some col) = some n) ∧
    (ρ.get t col = none → lookupColUpdate ρ (some t) (some col) = none) ∧
    (∀ c', lookupColUpdate ρ none c' = none) := by
  refine ⟨?_, ?_, ?_⟩
  · intro h; simp [lookupColUpdate, h, hn]
  · intro h; simp [lookupColUpdate, h]
  · intro c'; cases c' <;> rfl

end Grist.PredRename
