/-
Model of sandbox/grist/codebuilder.py : make_formula_body, _do_make_formula_body, _indent, _dedent,
the DOLLAR translation, lazy-argument wrapping, `return` insertion, multi-line string un-indent,
_create_syntax_error_code — built on the Textbuilder model (GristModel/Textbuilder.lean).

PARAMETERS (facts computed by the real libraries and handed in, see `Facts`):
  * CPython's parser + asttokens on the DOLLAR-translated text: syntax error (type name, repr of
    the final message incl. friendly-traceback text, lineno, offset) or: start positions of the
    `Name` nodes whose id starts with 'DOLLAR', text ranges of the lazily evaluated arguments, the
    kind/position of the last statement, whether some `Return` node exists, whether a string
    constant / f-string spans several lines;
  * astroid's re-parse of the final text (with the rec-assignment inference tips): ok or error;
  * the re-parse of `'def f():\n' + indented body` for multi-line strings: the outermost multi-line
    string ranges, or SyntaxError (not caught by the real code);
  * builtins: `repr(default_value)`, `repr` of each element of `formula.splitlines()`.
Everything else (regular expressions, str.strip, LineNumbers, map_back_offset, string formatting of
the stub) is modelled.  Strings are `List Char`.
-/
import GristModel.Textbuilder
namespace Grist.Codebuilder
open Grist.Textbuilder

inductive CErr where
  | tb (e : Err)        -- an exception raised inside textbuilder
  | typeError           -- `line -= 1` with err.lineno = None (asttokens.LineNumbers.line_to_offset)
  | indexError          -- input_text.splitlines()[line - 1]
  | syntaxError         -- uncaught SyntaxError from the multi-line-string re-parse
deriving Repr, DecidableEq

def liftTb {α : Type} : Except Err α → Except CErr α
  | .ok a => .ok a
  | .error e => .error (.tb e)

/-! ### Python string primitives -/

/-- `str.isspace()` of one character = `\s` of `re` on str patterns (Py_UNICODE_ISSPACE). -/
def pyIsSpace (c : Char) : Bool :=
  let n := c.toNat
  (9 ≤ n && n ≤ 13) || (28 ≤ n && n ≤ 32) || n == 0x85 || n == 0xA0 || n == 0x1680 ||
  (0x2000 ≤ n && n ≤ 0x200A) || n == 0x2028 || n == 0x2029 || n == 0x202F || n == 0x205F || n == 0x3000

/-- `s.rstrip()` -/
def rstrip (s : Str) : Str := (s.reverse.dropWhile pyIsSpace).reverse

/-- `s.strip()` -/
def strip (s : Str) : Str := rstrip (s.dropWhile pyIsSpace)

/-- The pieces of `s` between '\n' characters (`s.split('\n')`): what `^`/`$` of `re.M` see. -/
def splitNl : Str → List Str
  | [] => [[]]
  | c :: cs =>
    match splitNl cs with
    | [] => [[]]
    | l :: ls => if c = '\n' then [] :: l :: ls else (c :: l) :: ls

/-- `s.replace(old, new)` for non-empty `old` (left to right, non-overlapping); fuel = len(s)+1. -/
def replaceAllGo (old new : Str) : Nat → Str → Str
  | 0, s => s
  | _ + 1, [] => []
  | fuel + 1, c :: cs =>
    if old.isPrefixOf (c :: cs) then new ++ replaceAllGo old new fuel ((c :: cs).drop old.length)
    else c :: replaceAllGo old new fuel cs

def replaceAll (s old new : Str) : Str := replaceAllGo old new (s.length + 1) s

def isIdentStart (c : Char) : Bool := c.isAlpha || c = '_'   -- [a-zA-Z_]

/-- Matches of `DOLLAR_REGEX = \$(?=[a-zA-Z_][a-zA-Z_0-9]*)`: positions of a '$' followed by an
    identifier start. -/
def dollarPositionsFrom : Nat → Str → List Nat
  | _, [] => []
  | i, c :: cs =>
    (if c = '$' && (match cs with | d :: _ => isIdentStart d | [] => false) then [i] else []) ++
      dollarPositionsFrom (i + 1) cs

/-- `DOLLAR_REGEX.match(formula, pos)` succeeds. -/
def dollarMatchAt (s : Str) (pos : Int) : Bool :=
  if pos < 0 then false else
  match s.drop pos.toNat with
  | c :: d :: _ => c = '$' && isIdentStart d
  | _ => false

def lit (s : String) : Str := s.toList

/-- Decimal digits of a natural number (most significant first); fuel = n + 1. -/
def digitsGo : Nat → Nat → Str → Str
  | 0, _, acc => acc
  | fuel + 1, n, acc =>
    let acc' := (n % 10).digitChar :: acc
    if n / 10 = 0 then acc' else digitsGo fuel (n / 10) acc'

def natRepr (n : Nat) : Str := digitsGo (n + 1) n []

/-- `repr(i)` / `'%r' % i` of a Python int. -/
def intRepr (i : Int) : Str := if i < 0 then '-' :: natRepr i.natAbs else natRepr i.toNat

/-! ### regular-expression patches -/

/-- `_indent`: `make_regexp_patches(text, re.compile(r'^(?=.*\S)', re.M), indent)` — an insertion at
    the start of every '\n'-delimited line that contains a non-whitespace character. -/
def linePatches (indent : Str) : Nat → List Str → List Patch
  | _, [] => []
  | off, l :: ls =>
    (if l.any (fun c => !pyIsSpace c) then [(⟨off, off, [], indent⟩ : Patch)] else []) ++
      linePatches indent (off + l.length + 1) ls

def indentPatches (text indent : Str) : List Patch := linePatches indent 0 (splitNl text)

def isSpTab (c : Char) : Bool := c = ' ' || c = '\t'

/-- `_leading_whitespace_re.findall(_whitespace_only_re.sub('', text))`: the leading [ \t]* of every
    line that has some other character. -/
def lineIndents (lines : List Str) : List Str :=
  lines.filterMap (fun l => if l.all isSpTab then none else some (l.takeWhile isSpTab))

def commonPrefix2 : Str → Str → Str
  | a :: as, b :: bs => if a = b then a :: commonPrefix2 as bs else []
  | _, _ => []

/-- `os.path.commonprefix(list)` -/
def commonPrefix : List Str → Str
  | [] => []
  | x :: xs => xs.foldl commonPrefix2 x

/-- `make_regexp_patches(text, re.compile('^' + shared, re.M), '')` -/
def dedentPatches (shared : Str) : Nat → List Str → List Patch
  | _, [] => []
  | off, l :: ls =>
    (if shared.isPrefixOf l then [(⟨off, off + shared.length, shared, []⟩ : Patch)] else []) ++
      dedentPatches shared (off + l.length + 1) ls

/-- `_dedent(body)` where `text = body.get_text()`. -/
def dedent (body : Builder) (text : Str) : Builder :=
  let shared := commonPrefix (lineIndents (splitNl text))
  if shared.isEmpty then body else .replacer body (dedentPatches shared 0 (splitNl text))

/-- `_comment_line_start_re.sub('# ', s)` with `^|(?<=\r)(?!\n)` (re.M): "# " at the start, after
    every '\n', and after every '\r' that is not followed by '\n'. -/
def commentizeGo : Str → Str
  | [] => []
  | c :: cs =>
    if c = '\n' then c :: '#' :: ' ' :: commentizeGo cs
    else if c = '\r' then
      match cs with
      | '\n' :: _ => c :: commentizeGo cs
      | _ => c :: '#' :: ' ' :: commentizeGo cs
    else c :: commentizeGo cs

def commentize (s : Str) : Str := '#' :: ' ' :: commentizeGo s

/-! ### asttokens.LineNumbers -/

/-- `[0] + [m.end(0) for m in re.finditer(r'\r\n|\r|\n', text)]` -/
def lineOffsetsGo : Nat → Str → List Int
  | _, [] => []
  | i, '\r' :: '\n' :: cs => ((i + 2 : Nat) : Int) :: lineOffsetsGo (i + 2) cs
  | i, c :: cs =>
    if c = '\n' || c = '\r' then ((i + 1 : Nat) : Int) :: lineOffsetsGo (i + 1) cs
    else lineOffsetsGo (i + 1) cs

def lineOffsets (text : Str) : List Int := 0 :: lineOffsetsGo 0 text

/-- `LineNumbers(text).line_to_offset(line, column)` -/
def lineToOffset (text : Str) (line column : Int) : Int :=
  let offs := lineOffsets text
  let l := line - 1
  if l ≥ offs.length then text.length
  else if l < 0 then 0
  else min (offs.getD l.toNat 0 + max 0 column) text.length

/-- `LineNumbers(text).offset_to_line(offset)` -/
def offsetToLine (text : Str) (offset : Int) : Int × Int :=
  let offs := lineOffsets text
  let o := max 0 (min (text.length : Int) offset)
  let idx := bisectRight offs o - 1
  ((idx : Int) + 1, o - offs.getD idx 0)

/-! ### parser facts -/

structure SynErr where
  typeName : Str            -- type(err).__name__
  reprMessage : Str         -- repr(err.args[0] + friendly text)
  lineno : Option Int
  offset : Option Int
deriving Repr, DecidableEq

inductive LastStmt where
  | none                                    -- empty body
  | expr (startPos : Int)                   -- ast.Expr; start of its text range
  | other (hasReturn : Bool) (isAssign : Bool)
deriving Repr, DecidableEq

structure ParseOk where
  dollarNames : List Int
  lazyArgs : List (Int × Int)
  last : LastStmt
  haveMultiline : Bool
deriving Repr, DecidableEq

inductive Parse1 where
  | error (e : SynErr)
  | ok (p : ParseOk)
deriving Repr, DecidableEq

inductive Parse2 where
  | ok
  | error (e : SynErr)
deriving Repr, DecidableEq

inductive Parse3 where
  | ok (ranges : List (Int × Int))
  | error
deriving Repr, DecidableEq

structure Facts where
  reprDefault : Str
  parse1 : Parse1
  parse2 : Parse2
  lineReprs : List Str      -- [repr(l) for l in formula.splitlines()], formula = dedented text
  parse3 : Parse3
deriving Repr, DecidableEq

/-! ### _create_syntax_error_code -/

def noReturnMsgRepr (isAssign : Bool) : Str :=
  if isAssign then
    lit "\"No `return` statement, and the last line isn't an expression. If you want to check for equality, use `==` instead of `=`.\""
  else lit "\"No `return` statement, and the last line isn't an expression.\""

/-- `err.offset - 1 if err.offset else 0` -/
def errCol (err : SynErr) : Int :=
  match err.offset with
  | some o => if o ≠ 0 then o - 1 else 0
  | none => 0

/-- `_create_syntax_error_code(builder, input_text, err)`; `builder` is a Replacer (chain) given by
    its text and its `map_back_offset`. -/
def createSyntaxErrorCode (mapOff : Int → Except CErr Int) (builderText inputText : Str)
    (lineReprs : List Str) (err : SynErr) : Except CErr Str :=
  match err.lineno with
  | none => .error .typeError          -- line -= 1
  | some lineno =>
    match mapOff (lineToOffset builderText lineno (errCol err)) with
    | .error e => .error e
    | .ok inputOffset =>
      match lineReprs[((offsetToLine inputText inputOffset).1 - 1).toNat]? with     -- line ≥ 1
      | none => .error .indexError
      | some lineRepr =>
        .ok (commentize (rstrip inputText) ++ lit "\nraise " ++ err.typeName ++ lit "(" ++ err.reprMessage ++
             lit ", ('usercode', " ++ intRepr (offsetToLine inputText inputOffset).1 ++ lit ", " ++
             intRepr ((offsetToLine inputText inputOffset).2 + 1) ++ lit ", " ++ lineRepr ++ lit "))")

/-! ### _do_make_formula_body -/

/-- Result of `_do_make_formula_body`: the builder and the `have_multiline_strings` attribute
    (absent = false on the Text results). -/
structure Body where
  builder : Builder
  haveMultiline : Bool

def patchAt (formula : Str) (s e : Int) (new : Str) : Patch := ⟨s, e, slice formula s e, new⟩

/-- The `$` → `rec.` patches: for every DOLLAR Name node, map its start back through the DOLLAR
    replacer and keep it when the formula has a `$name` there. -/
def dollarPatches (tmpOff : Int → Except CErr Int) (formula : Str) : List Int → Except CErr (List Patch)
  | [] => .ok []
  | startpos :: rest =>
    match tmpOff startpos with
    | .error e => .error e
    | .ok inputPos =>
      match dollarPatches tmpOff formula rest with
      | .error e => .error e
      | .ok ps =>
        if dollarMatchAt formula inputPos then .ok (patchAt formula inputPos (inputPos + 1) (lit "rec.") :: ps)
        else .ok ps

/-- `lambda: (` … `)` around every lazily evaluated argument. -/
def lazyPatches (tmpOff : Int → Except CErr Int) (formula : Str) : List (Int × Int) → Except CErr (List Patch)
  | [] => .ok []
  | (s, e) :: rest =>
    match tmpOff s with
    | .error er => .error er
    | .ok start =>
      match tmpOff e with
      | .error er => .error er
      | .ok end_ =>
        match lazyPatches tmpOff formula rest with
        | .error er => .error er
        | .ok ps => .ok (patchAt formula start start (lit "lambda: (") :: patchAt formula end_ end_ (lit ")") :: ps)

def stubBody (mapOff : Int → Except CErr Int) (builderText formula : Str) (facts : Facts) (err : SynErr) :
    Except CErr Body :=
  match createSyntaxErrorCode mapOff builderText formula facts.lineReprs err with
  | .error e => .error e
  | .ok code => .ok ⟨.text code 0, false⟩

def doMakeFormulaBody (facts : Facts) (formula0 : Str) (assoc : Nat) : Except CErr Body :=
  -- if not formula.strip(): return textbuilder.Text('return ' + repr(default_value), assoc_value)
  if (strip formula0).isEmpty then .ok ⟨.text (lit "return " ++ facts.reprDefault) assoc, false⟩ else
  -- formula_builder_text = _dedent(textbuilder.Text(formula, assoc_value)); formula = its text
  let fbt := dedent (.text formula0 assoc) formula0
  match liftTb (getText fbt) with
  | .error e => .error e
  | .ok formula =>
    -- tmp_formula = Replacer(Text(formula, None), DOLLAR patches)
    let tmpPatches : List Patch := (dollarPositionsFrom 0 formula).map
      (fun (i : Nat) => (⟨(i : Int), (i : Int) + 1, ['$'], lit "DOLLAR"⟩ : Patch))
    -- (its input is a Text, so `tmp_formula.map_back_offset` is `get_input_pos` of its tables)
    match liftTb (replacerBuild formula tmpPatches) with
    | .error e => .error e
    | .ok tmpTb =>
      let tmpText := tmpTb.outText
      let tmpOff : Int → Except CErr Int := fun x => liftTb (getInputPos tmpTb x)
      match facts.parse1 with
      | .error err => stubBody tmpOff tmpText formula facts err
      | .ok p =>
        match dollarPatches tmpOff formula p.dollarNames with
        | .error e => .error e
        | .ok dps =>
          match lazyPatches tmpOff formula p.lazyArgs with
          | .error e => .error e
          | .ok lps =>
            let noReturn (isAssign : Bool) : Except CErr Body :=
              stubBody tmpOff tmpText formula facts
                ⟨lit "SyntaxError", noReturnMsgRepr isAssign, some 1, some 1⟩
            let finish (patches : List Patch) : Except CErr Body :=
              let final : Builder := .replacer fbt patches
              match liftTb (getText final) with
              | .error e => .error e
              | .ok finalText =>
                match facts.parse2 with
                | .error err => stubBody (fun x => liftTb (mapBackOffset final x)) finalText formula facts err
                | .ok => .ok ⟨final, p.haveMultiline⟩
            match p.last with
            | .expr startpos =>
              match tmpOff startpos with
              | .error e => .error e
              | .ok inputPos => finish (dps ++ lps ++ [patchAt formula inputPos inputPos (lit "return ")])
            | .none =>
              finish (dps ++ lps ++ [patchAt formula formula.length formula.length (lit "\npass")])
            | .other hasReturn isAssign =>
              if hasReturn then finish (dps ++ lps) else noReturn isAssign

/-! ### make_formula_body -/

def dummyDef : Str := lit "def f():\n"

/-- The un-indent patches for the multi-line strings found by the re-parse. -/
def unindentPatches (text indent : Str) : List (Int × Int) → List Patch
  | [] => []
  | (s, e) :: rest =>
    let t := slice text s e
    (⟨s, e, t, replaceAll t ('\n' :: indent) ['\n']⟩ : Patch) :: unindentPatches text indent rest

def makeFormulaBody (facts : Facts) (formula : Str) (assoc : Nat) (indent : Str) : Except CErr Builder :=
  match doMakeFormulaBody facts formula assoc with
  | .error e => .error e
  | .ok body =>
    match liftTb (getText body.builder) with
    | .error e => .error e
    | .ok bodyText =>
      let indented : Builder := .replacer body.builder (indentPatches bodyText indent)
      if !indent.isEmpty && body.haveMultiline then
        let builder : Builder := .combiner [.raw dummyDef false, indented]
        match liftTb (getText builder) with
        | .error e => .error e
        | .ok btext =>
          match facts.parse3 with
          | .error => .error .syntaxError
          | .ok ranges =>
            .ok (.replacer builder
              ((⟨0, dummyDef.length, dummyDef, []⟩ : Patch) :: unindentPatches btext indent ranges))
      else .ok indented

end Grist.Codebuilder
