/-
Recalc: the engine's update loop (engine.py `_update_loop` / `_recompute_step` / depend.py) as a
nondeterministic machine over cells, and an executable instance for documents whose formulas are
sums of cell references.

Cells are natural numbers.  A *program* gives, for every formula cell, the cells it may read
(`deps`, what `dep_graph` + relations record) and its value as a function of the store.  The store
maps cells to values; `dirty` is `recompute_map`.

Transitions (the scheduler's choices are the nondeterminism):
  write c v   a doc action writes data cell c; every transitive reader becomes dirty
              (`invalidate_deps`)
  eval c      `_recompute_one_cell` on a dirty cell whose evaluation reads only clean cells
              (a read of a dirty cell raises OrderError instead, which only reorders work)
  circ c      a required, locked cell is met again: following the OrderErrors (first dirty read of
              each cell) from c leads back to c; it gets CircularRefError without being evaluated
-/
namespace Grist.Recalc

inductive V where
  | num (i : Int)
  | circ                 -- CircularRefError
deriving DecidableEq, Repr, Inhabited

structure Prog where
  formula : Nat → Bool                -- is this cell a formula cell?
  deps : Nat → List Nat               -- cells a formula cell may ever read (edges of dep_graph:
                                      --   they are only added during evaluation, so a superset)
  reads : Nat → (Nat → V) → List Nat  -- cells the evaluation of c actually reads in a store, in order
  f : Nat → (Nat → V) → V             -- value of a formula cell in a store

/-- A formula is a deterministic program over the cells it reads: what it reads and returns is
    determined by the values of the cells it reads, and it reads only cells among `deps`. -/
def Prog.Respects (p : Prog) : Prop :=
  (∀ c σ, ∀ d ∈ p.reads c σ, d ∈ p.deps c) ∧
  (∀ c σ σ', (∀ d ∈ p.reads c σ, σ d = σ' d) → p.reads c σ' = p.reads c σ ∧ p.f c σ' = p.f c σ)

/-- Reading a cell that holds CircularRefError re-raises it (column.get_cell_value), so a formula
    without exception handling is strict in it. -/
def Prog.Strict (p : Prog) : Prop :=
  ∀ c σ, (∃ d ∈ p.reads c σ, σ d = V.circ) → p.f c σ = V.circ

structure State where
  σ : Nat → V
  dirty : List Nat

def upd (σ : Nat → V) (c : Nat) (v : V) : Nat → V := fun k => if k = c then v else σ k

/-- one round of reader propagation over the cells `0..n-1` -/
def readersStep (p : Prog) (n : Nat) (s : List Nat) : List Nat :=
  (List.range n).filter (fun c => s.contains c || (p.formula c && (p.deps c).any (fun d => s.contains d)))

/-- transitive readers of a set (n rounds suffice for n cells) -/
def closure (p : Prog) (n : Nat) (s : List Nat) : List Nat :=
  (List.range n).foldl (fun acc _ => readersStep p n acc) (s.filter (· < n))

/-- The first dirty cell the evaluation of `c` would read (the cell named by the OrderError). -/
def blocker (p : Prog) (st : State) (c : Nat) : Option Nat :=
  (p.reads c st.σ).find? (fun d => st.dirty.contains d)

/-- Following OrderErrors from `c` (each required cell is locked, the blocking cell is pushed)
    comes back to `c` within `fuel` hops: the engine then finds `c` locked and takes the cycle branch. -/
def blockCycle (p : Prog) (st : State) (c : Nat) : Nat → Nat → Bool
  | 0, _ => false
  | fuel + 1, cur =>
    match blocker p st cur with
    | none => false
    | some d => d == c || (p.formula d && blockCycle p st c fuel d)

/-- `c` reaches `t` through deps of formula cells in at most `fuel` steps, staying inside `inside` -/
def reaches (p : Prog) (inside : Nat → Bool) : Nat → Nat → Nat → Bool
  | 0, _, _ => false
  | fuel + 1, c, t =>
    p.formula c && inside c &&
      (p.deps c).any (fun d => inside d && (d == t || reaches p inside fuel d t))

/-- `c` lies on a dependency cycle all of whose cells are in `inside` (n = number of cells) -/
def onCycle (p : Prog) (n : Nat) (inside : Nat → Bool) (c : Nat) : Bool := reaches p inside n c c

/-- `c` lies on or depends (transitively) on a cycle -/
def reachesCycle (p : Prog) (n : Nat) (c : Nat) : Bool :=
  (List.range n).any (fun t => onCycle p n (fun _ => true) t && (t == c || reaches p (fun _ => true) n c t))

inductive Ev where
  | write (c : Nat) (v : V)
  | eval (c : Nat)
  | circ (c : Nat)
deriving Repr, Inhabited

/-- enabledness + effect of one transition over cells `0..n-1`; `none` = not enabled -/
def step (p : Prog) (n : Nat) (st : State) : Ev → Option State
  | .write c v =>
    if p.formula c || !(c < n) then none
    else some { σ := upd st.σ c v,
                dirty := (List.range n).filter (fun k => st.dirty.contains k ||
                           (k != c && (closure p n [c]).contains k)) }
  | .eval c =>
    if c < n && p.formula c && st.dirty.contains c && (blocker p st c).isNone
    then some { σ := upd st.σ c (p.f c st.σ), dirty := st.dirty.filter (· != c) }
    else none
  | .circ c =>
    if c < n && p.formula c && st.dirty.contains c && blockCycle p st c n c
    then some { σ := upd st.σ c V.circ, dirty := st.dirty.filter (· != c) }
    else none

def run (p : Prog) (n : Nat) (st : State) : List Ev → Option State
  | [] => some st
  | e :: es => match step p n st e with
    | none => none
    | some st' => run p n st' es

/-- A deterministic scheduler (one of the many): lowest-numbered enabled eval, else lowest-numbered
    enabled circ; `fuel` ≥ number of dirty cells suffices. Returns the events it chose. -/
def schedule (p : Prog) (n : Nat) (order : List Nat) : Nat → State → List Ev × State
  | 0, st => ([], st)
  | fuel + 1, st =>
    match order.find? (fun c => (step p n st (.eval c)).isSome) with
    | some c =>
      match step p n st (.eval c) with
      | some st' => let (es, r) := schedule p n order fuel st'; (Ev.eval c :: es, r)
      | none => ([], st)
    | none =>
      match order.find? (fun c => (step p n st (.circ c)).isSome) with
      | some c =>
        match step p n st (.circ c) with
        | some st' => let (es, r) := schedule p n order fuel st'; (Ev.circ c :: es, r)
        | none => ([], st)
      | none => ([], st)

/-! ### executable instance: formula = constant + sum of referenced cells, strict in circ -/

def sumF (deps : Nat → List Nat) (konst : Nat → Int) : Nat → (Nat → V) → V :=
  fun c σ => (deps c).foldl (fun acc d =>
    match acc, σ d with
    | .num a, .num b => .num (a + b)
    | _, _ => .circ) (.num (konst c))

/-- `$a + $b + k` evaluates left to right and stops at the first reference that raises -/
def sumReads (deps : Nat → List Nat) : Nat → (Nat → V) → List Nat :=
  fun c σ =>
    let rec go : List Nat → List Nat
      | [] => []
      | d :: ds => if σ d == V.circ then [d] else d :: go ds
    go (deps c)

def sumProg (formula : Nat → Bool) (deps : Nat → List Nat) (konst : Nat → Int) : Prog :=
  { formula := formula, deps := deps, reads := sumReads deps, f := sumF deps konst }

end Grist.Recalc
