/-
Model of the lookup index of sandbox/grist:
  * twowaymap.py  `TwoWayMap` with its bin types "single" / "strict" / set / list / LookupSet and the
                  exception safety of `insert` (the right bin is rolled back when the left bin raises)
  * lookup.py     `SimpleLookupMapping`, `ContainsLookupMapping` (`itertools.product` over the
                  per-column key groups, `match_empty`), `BaseLookupMapping.remove_row_id`,
                  `LookupMapColumn._do_lookup_with_sort` (the `sorted_versions` cache of a LookupSet),
                  `LookupMapColumn._reset_sorted_versions`, `_extract`
  * table.py      `make_sort_spec`; `lookup_records` as far as: sort spec, `do_lookup`; `get_one`
  * sort_key.py   `make_sort_key` ('-' prefix); the comparison itself is GristModel/SortedFind `keyLt`

Value universe.  Key cells / lookup keys: None, bool, int, float (non-integral, by repr), str,
AltText (wrong-type cell as formulas see it), and lists of those.  Sort cells: `SortedFind.Val`
(None / bool / int / str).  Python dicts and sets are association lists / lists without
duplicates; their iteration order is never observed by the code modelled here (every iteration
ends in a `set(...)`, a `sorted(...)` whose order is total, or a loop whose steps commute), and the
driver prints them sorted.  Dict keys are compared with `==`/`hash` in Python (`True == 1`): the
model stores the `==`-class representative (`PV.norm`), so structural equality IS Python equality.
-/
import GristModel.SortedFind
namespace Grist.Lookup
open Grist.SortedFind (Val keyLt Key RowId pySorted)

inductive Err where
  | typeError      -- unhashable value used as a dict key / set element
  | valueError     -- "twowaymap: one-to-one map violation"
  | keyError       -- table has no such column
deriving Repr, DecidableEq, Inhabited

def Err.name : Err → String
  | .typeError => "TypeError"
  | .valueError => "ValueError"
  | .keyError => "KeyError"

/-! ### Python dict -/

abbrev Dict (κ ν : Type) := List (κ × ν)

/-- `d.get(k)` -/
def dget {κ ν : Type} [DecidableEq κ] (k : κ) : Dict κ ν → Option ν
  | [] => none
  | (k', v) :: t => if k' = k then some v else dget k t

/-- `del d[k]` / `d.pop(k, None)` -/
def ddel {κ ν : Type} [DecidableEq κ] (k : κ) : Dict κ ν → Dict κ ν
  | [] => []
  | (k', v) :: t => if k' = k then ddel k t else (k', v) :: ddel k t

/-- `d[k] = v` -/
def dset {κ ν : Type} [DecidableEq κ] (k : κ) (v : ν) (d : Dict κ ν) : Dict κ ν :=
  (k, v) :: ddel k d

/-! ### twowaymap.py: bin types

`add_item(mapping, key, value)` returns `(removed, added)` with `_NIL` = `none`; the mapping is
mutated in place, so the model returns the new mapping as a third component.  A raised exception
leaves the mapping untouched (every bin raises before its first mutation).  -/

structure BinOps (κ γ σ : Type) where
  /-- the values held by a stored bin -/
  items : σ → List γ
  addItem : Dict κ σ → κ → γ → Except Err (Option γ × Option γ × Dict κ σ)
  removeItem : Dict κ σ → κ → γ → Except Err (Dict κ σ)
  removeKey : Dict κ σ → κ → Except Err (List γ × Dict κ σ)

section bins
variable {κ γ : Type} [DecidableEq κ] [DecidableEq γ]

/-- `_SingleValueBin`.  `hk` = "the key is hashable" (`mapping.get(key, _NIL)` raises TypeError
    otherwise).
      add_item:    stored = mapping.get(key, _NIL); mapping[key] = value
                   if stored is _NIL: return _NIL, value
                   elif stored == value: return _NIL, _NIL
                   else: return stored, value
      remove_item: stored = mapping.get(key, _NIL);  if stored == value: del mapping[key]
      remove_key:  stored = mapping.pop(key, _NIL);  return () if stored is _NIL else (stored,) -/
def singleOps (hk : κ → Bool) : BinOps κ γ γ where
  items s := [s]
  addItem d k v :=
    if hk k then
      match dget k d with
      | none => .ok (none, some v, dset k v d)
      | some stored =>
        if stored = v then .ok (none, none, dset k v d) else .ok (some stored, some v, dset k v d)
    else .error .typeError
  removeItem d k v :=
    if hk k then
      match dget k d with
      | none => .ok d
      | some stored => if stored = v then .ok (ddel k d) else .ok d
    else .error .typeError
  removeKey d k :=
    -- CPython: `dict.pop(key, default)` on an EMPTY dict returns the default without hashing the key
    if d.isEmpty then .ok ([], d)
    else if hk k then
      match dget k d with
      | none => .ok ([], d)
      | some stored => .ok ([stored], ddel k d)
    else .error .typeError

/-- `_SingleValueStrictBin(_SingleValueBin)`:
      add_item: stored = mapping.get(key, _NIL)
                if stored is _NIL: mapping[key] = value; return _NIL, value
                elif stored == value: return _NIL, _NIL
                else: raise ValueError("twowaymap: one-to-one map violation for key %s" % key) -/
def strictOps (hk : κ → Bool) : BinOps κ γ γ where
  items s := [s]
  addItem d k v :=
    if hk k then
      match dget k d with
      | none => .ok (none, some v, dset k v d)
      | some stored => if stored = v then .ok (none, none, d) else .error .valueError
    else .error .typeError
  removeItem := (singleOps hk).removeItem
  removeKey := (singleOps hk).removeKey

/-- The three functions given to `register_container` (plus how the container is read). -/
structure Container (γ σ : Type) where
  items : σ → List γ
  /-- `make_func(value)` -/
  make : γ → σ
  /-- `add_func(container, value)`: `none` = returned False (already there), `some c` = the
      container after adding (returned True) -/
  add : σ → γ → Option σ
  /-- `remove_func(container, value)` -/
  remove : σ → γ → σ
  /-- does make/add/remove hash the VALUE (`{value}`, `value in container` for set-based
      containers; a list compares with `==` only) -/
  hashesValue : Bool

/-- `_ContainerBin`.  `hv` = "the value is hashable".
      add_item:    stored = mapping.get(key, _NIL)
                   if stored is _NIL: mapping[key] = self.make(value); return _NIL, value
                   else: return _NIL, (value if self.add(stored, value) else _NIL)
      remove_item: stored = mapping.get(key, _NIL)
                   if stored is not _NIL:
                     self.remove(stored, value)
                     if not stored: del mapping[key]
      remove_key:  return mapping.pop(key, ()) -/
def containerOps {σ : Type} (C : Container γ σ) (hk : κ → Bool) (hv : γ → Bool) : BinOps κ γ σ where
  items := C.items
  addItem d k v :=
    if hk k then
      match dget k d with
      | none => if C.hashesValue && !hv v then .error .typeError else .ok (none, some v, dset k (C.make v) d)
      | some stored =>
        if C.hashesValue && !hv v then .error .typeError
        else match C.add stored v with
          | some c => .ok (none, some v, dset k c d)
          | none => .ok (none, none, d)
    else .error .typeError
  removeItem d k v :=
    if hk k then
      match dget k d with
      | none => .ok d
      | some stored =>
        if C.hashesValue && !hv v then .error .typeError
        else
          let c := C.remove stored v
          if (C.items c).isEmpty then .ok (ddel k d) else .ok (dset k c d)
    else .error .typeError
  removeKey d k :=
    if d.isEmpty then .ok ([], d)       -- `{}.pop(key, ())` does not hash the key
    else if hk k then
      match dget k d with
      | none => .ok ([], d)
      | some stored => .ok (C.items stored, ddel k d)
    else .error .typeError

/-- `set`: `_set_make` = `{value}`; `_set_add`: `if value not in container: container.add(value);
    return True` else `False`; `_set_remove` = `container.discard(value)`. -/
def setC : Container γ (List γ) where
  items s := s
  make v := [v]
  add s v := if v ∈ s then none else some (s ++ [v])
  remove s v := s.erase v
  hashesValue := true

/-- `list`: `_list_make` = `[value]`; `_list_add`: `if value not in container:
    container.append(value); return True`; `_list_remove`: `container.remove(value)` ignoring
    ValueError. -/
def listC : Container γ (List γ) where
  items s := s
  make v := [v]
  add s v := if v ∈ s then none else some (s ++ [v])
  remove s v := s.erase v
  hashesValue := false

/-- sort spec as the cache key: the tuple of column ids with optional '-' prefix -/
abbrev SortSpec := List String

/-- `class LookupSet(set)` with its `sorted_versions` dict. -/
structure LSet (γ : Type) where
  elems : List γ
  sorted : Dict SortSpec (List γ) := []
deriving Repr, DecidableEq

/-- `LookupSet`: `_LookupSet_make` = `LookupSet([value])`;
    `_LookupSet_add`: `if value not in container: container.add(value);
                        container.sorted_versions.clear(); return True` else `False`;
    `_LookupSet_remove`: `if value in container: container.discard(value);
                        container.sorted_versions.clear()`. -/
def lookupSetC : Container γ (LSet γ) where
  items s := s.elems
  make v := { elems := [v], sorted := [] }
  add s v := if v ∈ s.elems then none else some { elems := s.elems ++ [v], sorted := [] }
  remove s v := if v ∈ s.elems then { elems := s.elems.erase v, sorted := [] } else s
  hashesValue := true

end bins

/-! ### twowaymap.py: TwoWayMap -/

structure TwoWayMap (α β σL σR : Type) where
  /-- `_fwd`: left value ↦ right bin -/
  fwd : Dict α σR := []
  /-- `_bwd`: right value ↦ left bin -/
  bwd : Dict β σL := []

section twm
variable {α β σL σR : Type}

/-- The `except:` block of `insert`:
      if right_added is not _NIL:   self._right_bin.remove_item(self._fwd, left, right_added)
      if right_removed is not _NIL: self._right_bin.add_item(self._fwd, left, right_removed) -/
def BinOps.undoAdd {κ γ σ : Type} (B : BinOps κ γ σ) (d : Dict κ σ) (k : κ) (removed added : Option γ) :
    Except Err (Dict κ σ) := do
  let d1 ← match added with
    | some a => B.removeItem d k a
    | none => pure d
  match removed with
  | some x => (B.addItem d1 k x).map (·.2.2)
  | none => pure d1

/-- `if removed is not _NIL: bin.remove_item(mapping, removed, other)` -/
def BinOps.removeIfSome {κ γ σ : Type} (B : BinOps κ γ σ) (d : Dict κ σ) (removed : Option κ) (other : γ) :
    Except Err (Dict κ σ) :=
  match removed with
  | some x => B.removeItem d x other
  | none => .ok d

/-- `insert(left, right)`.  Returns the map after the call and the exception, if one was raised.
      right_removed, right_added = self._right_bin.add_item(self._fwd, left, right)
      try:
        left_removed, _ = self._left_bin.add_item(self._bwd, right, left)
      except:
        <undoAdd>; raise
      if right_removed is not _NIL: self._left_bin.remove_item(self._bwd, right_removed, left)
      if left_removed is not _NIL:  self._right_bin.remove_item(self._fwd, left_removed, right) -/
def TwoWayMap.insert (L : BinOps β α σL) (R : BinOps α β σR) (m : TwoWayMap α β σL σR)
    (left : α) (right : β) : TwoWayMap α β σL σR × Option Err :=
  match R.addItem m.fwd left right with
  | .error e => (m, some e)
  | .ok (rightRemoved, rightAdded, fwd1) =>
    match L.addItem m.bwd right left with
    | .error e =>
      match R.undoAdd fwd1 left rightRemoved rightAdded with
      | .ok fwd2 => ({ m with fwd := fwd2 }, some e)
      | .error e' => ({ m with fwd := fwd1 }, some e')   -- an exception inside the handler
    | .ok (leftRemoved, _, bwd1) =>
      match L.removeIfSome bwd1 rightRemoved left with
      | .error e => ({ fwd := fwd1, bwd := bwd1 }, some e)
      | .ok bwd2 =>
        match R.removeIfSome fwd1 leftRemoved right with
        | .error e => ({ fwd := fwd1, bwd := bwd2 }, some e)
        | .ok fwd2 => ({ fwd := fwd2, bwd := bwd2 }, none)

/-- `remove(left, right)`:
      self._right_bin.remove_item(self._fwd, left, right)
      self._left_bin.remove_item(self._bwd, right, left) -/
def TwoWayMap.remove (L : BinOps β α σL) (R : BinOps α β σR) (m : TwoWayMap α β σL σR)
    (left : α) (right : β) : TwoWayMap α β σL σR × Option Err :=
  match R.removeItem m.fwd left right with
  | .error e => (m, some e)
  | .ok fwd1 =>
    match L.removeItem m.bwd right left with
    | .error e => ({ m with fwd := fwd1 }, some e)
    | .ok bwd1 => ({ fwd := fwd1, bwd := bwd1 }, none)

/-- `for x in removed: bin.remove_item(mapping, x, other)` -/
def removeItems {κ γ σ : Type} (B : BinOps κ γ σ) (other : γ) : List κ → Dict κ σ → Dict κ σ × Option Err
  | [], d => (d, none)
  | x :: xs, d =>
    match B.removeItem d x other with
    | .error e => (d, some e)
    | .ok d' => removeItems B other xs d'

/-- `remove_left(left)`:
      right_removed = self._right_bin.remove_key(self._fwd, left)
      for x in right_removed: self._left_bin.remove_item(self._bwd, x, left) -/
def TwoWayMap.removeLeft (L : BinOps β α σL) (R : BinOps α β σR) (m : TwoWayMap α β σL σR)
    (left : α) : TwoWayMap α β σL σR × Option Err :=
  match R.removeKey m.fwd left with
  | .error e => (m, some e)
  | .ok (rightRemoved, fwd1) =>
    let (bwd1, e) := removeItems L left rightRemoved m.bwd
    ({ fwd := fwd1, bwd := bwd1 }, e)

/-- `remove_right(right)`:
      left_removed = self._left_bin.remove_key(self._bwd, right)
      for x in left_removed: self._right_bin.remove_item(self._fwd, x, right) -/
def TwoWayMap.removeRight (L : BinOps β α σL) (R : BinOps α β σR) (m : TwoWayMap α β σL σR)
    (right : β) : TwoWayMap α β σL σR × Option Err :=
  match L.removeKey m.bwd right with
  | .error e => (m, some e)
  | .ok (leftRemoved, bwd1) =>
    let (fwd1, e) := removeItems R right leftRemoved m.fwd
    ({ fwd := fwd1, bwd := bwd1 }, e)

/-- `clear()` -/
def TwoWayMap.clear (_m : TwoWayMap α β σL σR) : TwoWayMap α β σL σR := { fwd := [], bwd := [] }

/-- The public mutators of a TwoWayMap. -/
inductive Op (α β : Type) where
  | insert (l : α) (r : β)
  | remove (l : α) (r : β)
  | removeLeft (l : α)
  | removeRight (r : β)
  | clear
deriving Repr

def TwoWayMap.apply (L : BinOps β α σL) (R : BinOps α β σR) (m : TwoWayMap α β σL σR) :
    Op α β → TwoWayMap α β σL σR × Option Err
  | .insert l r => m.insert L R l r
  | .remove l r => m.remove L R l r
  | .removeLeft l => m.removeLeft L R l
  | .removeRight r => m.removeRight L R r
  | .clear => (m.clear, none)

/-- Any sequence of calls; a call that raises leaves the map as the exception left it and the
    caller carries on (the exceptions are caught by callers such as `update_record`). -/
def TwoWayMap.run (L : BinOps β α σL) (R : BinOps α β σR) (m : TwoWayMap α β σL σR) :
    List (Op α β) → TwoWayMap α β σL σR
  | [] => m
  | op :: ops => ((m.apply L R op).1).run L R ops

end twm

/-! ### lookup.py: cell values, keys -/

/-- A Python value occurring in a key cell or as a lookup key (after `_extract`: a Record is its
    row id).  `flt` is a non-integral float given by its repr (integral floats are `int`, since
    `1.0 == 1` and `hash(1.0) == hash(1)`); `alt` is `AltText(text)` (equal iff same text,
    hashable, never equal to the str). -/
inductive PV where
  | none
  | bool (b : Bool)
  | int (i : Int)
  | flt (repr : String)
  | str (s : String)
  | alt (text : String)
deriving Repr, DecidableEq, Inhabited

/-- Representative of the `==`/`hash` class: `True == 1`, `False == 0`. -/
def PV.norm : PV → PV
  | .bool b => .int (if b then 1 else 0)
  | v => v

/-- `not value` for a non-str value: None, False, 0 are falsy; an AltText object is truthy. -/
def PV.falsy : PV → Bool
  | .none => true
  | .bool b => !b
  | .int i => i == 0
  | .flt _ => false
  | .str s => s.isEmpty
  | .alt _ => false

def PV.isStr : PV → Bool
  | .str _ => true
  | _ => false

/-- What `getattr(rec, col_id)` gives, as far as lookups care: a scalar or a list/tuple/RecordSet
    of scalars. -/
inductive Cell where
  | v (x : PV)
  | lst (xs : List PV)
deriving Repr, DecidableEq, Inhabited

def Cell.norm : Cell → Cell
  | .v x => .v x.norm
  | .lst xs => .lst (xs.map PV.norm)

/-- hashable: a list is not -/
def Cell.hashable : Cell → Bool
  | .v _ => true
  | .lst _ => false

/-- A key of the index: `tuple(_extract(val) for val in ...)`, stored normalised. -/
abbrev LKey := List Cell

def LKey.hashable (k : LKey) : Bool := k.all Cell.hashable

/-- One entry of `col_ids_tuple`: a column id, or `_Contains(col_id, match_empty)`;
    `me = none` is `_Contains.no_match_empty`. -/
inductive ColKind where
  | plain
  | contains (me : Option PV)
deriving Repr, DecidableEq, Inhabited

/-! ### lookup.py: SimpleLookupMapping / ContainsLookupMapping -/

/-- the index: `TwoWayMap(left=LookupSet, right=...)`, rows on the left, keys on the right -/
abbrev Index (σR : Type) := TwoWayMap Nat LKey (LSet Nat) σR

def rowHashable (_ : Nat) : Bool := true

/-- left bin of both mappings: `LookupSet` (stored in `_bwd`, keyed by the key tuples) -/
def leftOps : BinOps LKey Nat (LSet Nat) := containerOps lookupSetC LKey.hashable rowHashable
/-- right bin of SimpleLookupMapping: "single" (stored in `_fwd`, keyed by row ids) -/
def simpleRight : BinOps Nat LKey LKey := singleOps rowHashable
/-- right bin of ContainsLookupMapping: `set` -/
def containsRight : BinOps Nat LKey (List LKey) := containerOps setC rowHashable LKey.hashable

/-- `lookup_by_key(key, default)` = `self._row_key_map.lookup_right(key, default)`;
    `_bwd.get(key)` raises TypeError for an unhashable key. -/
def lookupByKey {σR : Type} (m : Index σR) (key : LKey) : Except Err (Option (LSet Nat)) :=
  if key.hashable then .ok (dget key m.bwd) else .error .typeError

/-- SimpleLookupMapping.get_new_keys_iter:
      `[tuple(_extract(getattr(rec, _col_id)) for _col_id in self._col_ids_tuple)]` -/
def simpleNewKey (cells : List Cell) : LKey := cells.map Cell.norm

/-- SimpleLookupMapping.update_record:
      old_key = self._get_mapped_key(rec._row_id)
      new_key = self.get_new_keys_iter(rec)[0]
      if new_key == old_key: return set()
      try: self._row_key_map.insert(rec._row_id, new_key)
      except TypeError:
        self._row_key_map.remove(rec._row_id, old_key); new_key = None
      return {k for k in (old_key, new_key) if k is not None}
    (`remove(row, None)` when there was no old key finds nothing under either `row` or `None`.)
    The second component is the set of affected keys. -/
def simpleUpdate (m : Index LKey) (row : Nat) (cells : List Cell) : Index LKey × List LKey :=
  let oldKey := dget row m.fwd
  let newKey := simpleNewKey cells
  if oldKey = some newKey then (m, [])
  else
    match m.insert leftOps simpleRight row newKey with
    | (m1, none) => (m1, (oldKey.toList ++ [newKey]).eraseDups)
    | (m1, some .typeError) =>
      match oldKey with
      | some ok => ((m1.remove leftOps simpleRight row ok).1, [ok])
      | none => (m1, [])
    | (m1, some _) => (m1, [])    -- no other exception can be raised by these bins

/-- SimpleLookupMapping.get_mapped_keys: `{self._get_mapped_key(row_id)}` (`{None}` if absent) -/
def simpleMappedKeys (m : Index LKey) (row : Nat) : List LKey := (dget row m.fwd).toList

/-- `itertools.product(*groups)` -/
def product {τ : Type} : List (List τ) → List (List τ)
  | [] => [[]]
  | g :: gs => g.flatMap (fun x => (product gs).map (fun t => x :: t))

/-- One iteration of the loop in ContainsLookupMapping.get_new_keys_iter:
      group = getattr(rec, extract_column_id(col_id))
      if isinstance(col_id, _Contains):
        if isinstance(group, (bytes, str,)): group = []
        elif not group and col_id.match_empty != _Contains.no_match_empty:
          group = [col_id.match_empty]
      else:
        group = [group]
      try: group = set(group)            # TypeError: not iterable / unhashable element
      except TypeError: group = []
      new_keys_groups.append([_extract(v) for v in group]) -/
def keyGroup : ColKind → Cell → List Cell
  | .plain, c => if c.hashable then [c.norm] else []
  | .contains me, .v x =>
    if x.isStr then []
    else if x.falsy then (match me with | some m => [.v m.norm] | none => [])
    else []                               -- `set(5)`: TypeError
  | .contains me, .lst xs =>
    if xs.isEmpty then (match me with | some m => [.v m.norm] | none => [])
    else (xs.map (fun x => Cell.v x.norm)).eraseDups

/-- `zip` of the column kinds with the cells (the mapping reads exactly its columns) -/
def keyGroups : List ColKind → List Cell → List (List Cell)
  | k :: ks, c :: cs => keyGroup k c :: keyGroups ks cs
  | _, _ => []

/-- `set(self.get_new_keys_iter(rec))` of ContainsLookupMapping -/
def containsNewKeys (kinds : List ColKind) (cells : List Cell) : List LKey :=
  (product (keyGroups kinds cells)).eraseDups

/-- `for new_key in ...: self._row_key_map.insert(row_id, new_key)` (all keys are hashable) -/
def insertAll (m : Index (List LKey)) (row : Nat) : List LKey → Index (List LKey)
  | [] => m
  | k :: ks => insertAll (m.insert leftOps containsRight row k).1 row ks

/-- `for old_key in ...: self._row_key_map.remove(row_id, old_key)` -/
def removeAll {σR : Type} (R : BinOps Nat LKey σR) (m : Index σR) (row : Nat) : List LKey → Index σR
  | [] => m
  | k :: ks => removeAll R (m.remove leftOps R row k).1 row ks

/-- ContainsLookupMapping.get_mapped_keys: `set(self._row_key_map.lookup_left(row_id, ()))` -/
def containsMappedKeys (m : Index (List LKey)) (row : Nat) : List LKey := (dget row m.fwd).getD []

/-- ContainsLookupMapping.update_record:
      new_keys = set(self.get_new_keys_iter(rec))
      old_keys = self.get_mapped_keys(row_id)
      for old_key in old_keys - new_keys: self._row_key_map.remove(row_id, old_key)
      for new_key in new_keys - old_keys: self._row_key_map.insert(row_id, new_key)
      return new_keys ^ old_keys -/
def containsUpdate (kinds : List ColKind) (m : Index (List LKey)) (row : Nat) (cells : List Cell) :
    Index (List LKey) × List LKey :=
  let newKeys := containsNewKeys kinds cells
  let oldKeys := containsMappedKeys m row
  let gone := oldKeys.filter (fun k => !newKeys.contains k)
  let fresh := newKeys.filter (fun k => !oldKeys.contains k)
  (insertAll (removeAll containsRight m row gone) row fresh, gone ++ fresh)

/-- The interface of BaseLookupMapping that LookupMapColumn uses. -/
structure Mapping (σR : Type) where
  right : BinOps Nat LKey σR
  /-- `set(self._mapping.get_new_keys_iter(rec))` (in `_reset_sorted_versions`); for the simple
      mapping `set([key])` raises TypeError when the key is unhashable -/
  newKeys : List Cell → Except Err (List LKey)
  /-- `update_record(rec)` -/
  update : Index σR → Nat → List Cell → Index σR × List LKey
  /-- `get_mapped_keys(row_id)` -/
  mappedKeys : Index σR → Nat → List LKey

def simpleMapping : Mapping LKey where
  right := simpleRight
  newKeys cells := if (simpleNewKey cells).hashable then .ok [simpleNewKey cells] else .error .typeError
  update := simpleUpdate
  mappedKeys := simpleMappedKeys

def containsMapping (kinds : List ColKind) : Mapping (List LKey) where
  right := containsRight
  newKeys cells := .ok (containsNewKeys kinds cells)
  update := containsUpdate kinds
  mappedKeys := containsMappedKeys

/-- BaseLookupMapping.remove_row_id:
      old_keys = self.get_mapped_keys(row_id)
      for old_key in old_keys: self._row_key_map.remove(row_id, old_key)
      return old_keys -/
def Mapping.removeRowId {σR : Type} (M : Mapping σR) (m : Index σR) (row : Nat) : Index σR × List LKey :=
  let oldKeys := M.mappedKeys m row
  (removeAll M.right m row oldKeys, oldKeys)

/-! ### sort_key.py / lookup.py: sorting a LookupSet -/

/-- `col_id, sign = (col_spec[1:], -1) if col_spec.startswith('-') else (col_spec, 1)`;
    the Bool is "descending" -/
def parseColSpec (s : String) : String × Bool :=
  match s.toList with
  | '-' :: rest => (String.ofList rest, true)
  | _ => (s, false)

/-- A row of the looked-up table as the index machinery sees it. -/
structure RowData where
  /-- cells of the key columns (`col_ids_tuple` order), Records already replaced by row ids -/
  key : List Cell
  /-- cells of the columns that sort specs may name: column id ↦ value -/
  sort : Dict String Val
deriving Repr, DecidableEq, Inhabited

/-- `tuple(c.get_cell_value(row_id) for (c, _) in col_sort_spec)`; a row that is not in the table
    reads as the columns' defaults. -/
def sortValues (table : Dict Nat RowData) (spec : SortSpec) (row : Nat) : List Val :=
  spec.map (fun s =>
    match dget row table with
    | some rd => (dget (parseColSpec s).1 rd.sort).getD .none
    | none => .none)

def sortFlags (spec : SortSpec) : List Bool := spec.map (fun s => (parseColSpec s).2)

/-- `SortKey(r1) < SortKey(r2)` for the sort spec (for the empty spec `sort_key` is None and
    `sorted` compares the row ids, which is what `keyLt []` does). -/
def rowLt (table : Dict Nat RowData) (spec : SortSpec) (a b : Nat) : Bool :=
  keyLt (sortFlags spec) ⟨.id a, sortValues table spec a⟩ ⟨.id b, sortValues table spec b⟩

/-- `sorted(row_id_set, key=sort_key)` -/
def sortRows (table : Dict Nat RowData) (spec : SortSpec) (rows : List Nat) : List Nat :=
  pySorted (rowLt table spec) rows

/-! ### the event machine of one LookupMapColumn with its SortedLookupMapColumns -/

structure St (σR : Type) where
  /-- current cells of the looked-up table -/
  table : Dict Nat RowData := []
  /-- `self._mapping._row_key_map` -/
  index : Index σR := {}
  /-- GHOST: rows whose key cells changed since `update_record` last ran for them -/
  dirtyKey : List Nat := []
  /-- GHOST: rows whose sort cells changed; `(row, spec) ∈ sortDone` once
      `_reset_sorted_versions(row, spec)` ran after the last such change -/
  dirtySort : List Nat := []
  sortDone : List (Nat × SortSpec) := []
  /-- GHOST: rows for which `_reset_sorted_versions` ran while their key delivery was pending -/
  seen : List Nat := []

inductive Ev where
  /-- a record action writes the key cells of a row (a new row has both written) -/
  | setKey (row : Nat) (cells : List Cell)
  /-- a record action writes the sort cells of a row -/
  | setSort (row : Nat) (cells : Dict String Val)
  /-- LookupMapColumn._recalc_rec_method(rec): `update_record` -/
  | deliverKey (row : Nat)
  /-- SortedLookupMapColumn._recalc_rec_method(rec): `_reset_sorted_versions(rec, spec)` -/
  | deliverSort (row : Nat) (spec : SortSpec)
  /-- record removal: `LookupMapColumn.unset(row_id)` -/
  | unset (row : Nat)
  /-- `_do_lookup_with_sort(key, sort_spec, sort_key)` -/
  | lookup (key : LKey) (spec : SortSpec)
deriving Repr

/-- what an event answers -/
inductive Res where
  | unit
  | keys (ks : List LKey)       -- affected keys
  | rows (rs : List Nat)        -- lookup result
  | err (e : Err)
deriving Repr, DecidableEq

def St.sortDirty {σR : Type} (st : St σR) (row : Nat) (spec : SortSpec) : Bool :=
  st.dirtySort.contains row && !st.sortDone.contains (row, spec)

/-- `row_ids.sorted_versions.pop(sort_spec, None)` for the LookupSet stored under `key` (a default
    `LookupSet()` that is not stored when the key is absent) -/
def popSorted (spec : SortSpec) (bwd : Dict LKey (LSet Nat)) (key : LKey) : Dict LKey (LSet Nat) :=
  match dget key bwd with
  | some s => dset key { s with sorted := ddel spec s.sorted } bwd
  | none => bwd

/-- the columns that a sort spec may name -/
def specKnown (sortCols : List String) (spec : SortSpec) : Bool :=
  spec.all (fun s => sortCols.contains (parseColSpec s).1)

def step {σR : Type} (M : Mapping σR) (sortCols : List String) (st : St σR) : Ev → St σR × Res
  | .setKey row cells =>
    let rd : RowData := match dget row st.table with
      | some rd => { rd with key := cells }
      | none => { key := cells, sort := [] }
    ({ st with table := dset row rd st.table, dirtyKey := row :: st.dirtyKey }, .unit)
  | .setSort row cells =>
    match dget row st.table with
    | some rd =>
      ({ st with table := dset row { rd with sort := cells } st.table, dirtySort := row :: st.dirtySort,
                 sortDone := st.sortDone.filter (fun p => p.1 != row) }, .unit)
    | none =>
      -- a row the machine has not seen yet: its key cells are pending too
      ({ st with table := dset row { key := [], sort := cells } st.table,
                 dirtyKey := row :: st.dirtyKey, dirtySort := row :: st.dirtySort,
                 sortDone := st.sortDone.filter (fun p => p.1 != row) }, .unit)
  | .deliverKey row =>
    -- engine._recompute_step: "We can declare victory for absent ... rows"
    match dget row st.table with
    | none => (st, .unit)
    | some rd =>
      let (ix, affected) := M.update st.index row rd.key
      ({ st with index := ix, dirtyKey := st.dirtyKey.filter (· != row),
                 seen := st.seen.filter (· != row) }, .keys affected)
  | .deliverSort row spec =>
    match dget row st.table with
    | none => (st, .unit)
    | some rd =>
      -- _reset_sorted_versions:
      --   new_keys = set(self._mapping.get_new_keys_iter(rec))
      --   for key in new_keys:
      --     row_ids = self._mapping.lookup_by_key(key, default=LookupSet())
      --     row_ids.sorted_versions.pop(sort_spec, None)
      --   return new_keys
      match M.newKeys rd.key with
      | .error e => (st, .err e)
      | .ok ks =>
        ({ st with index := { st.index with bwd := ks.foldl (popSorted spec) st.index.bwd },
                   sortDone := (row, spec) :: st.sortDone,
                   seen := if st.dirtyKey.contains row then row :: st.seen else st.seen }, .keys ks)
  | .unset row =>
    -- unset(row_id): affected_keys = self._mapping.remove_row_id(row_id)
    let (ix, affected) := M.removeRowId st.index row
    ({ st with table := ddel row st.table, index := ix,
               dirtyKey := st.dirtyKey.filter (· != row),
               dirtySort := st.dirtySort.filter (· != row),
               seen := st.seen.filter (· != row) }, .keys affected)
  | .lookup key0 spec =>
    -- `key = tuple(_extract(val) for val in key)`; the dict is then searched with `==`/`hash`,
    -- i.e. by the representative of the key's `==` class
    let key : LKey := key0.map Cell.norm
    -- SortedLookupMapColumn.__init__: `if not table.has_column(c): raise KeyError`
    if !specKnown sortCols spec then (st, .err .keyError)
    else
      -- _do_lookup_with_sort:
      --   row_id_set = self._do_fast_lookup(key)          # lookup_by_key(key, default=LookupSet())
      --   row_ids = row_id_set.sorted_versions.get(sort_spec)
      --   if row_ids is None:
      --     row_ids = sorted(row_id_set, key=sort_key)
      --     row_id_set.sorted_versions[sort_spec] = row_ids
      match lookupByKey st.index key with
      | .error e => (st, .err e)
      | .ok none => (st, .rows [])
      | .ok (some s) =>
        match dget spec s.sorted with
        | some rowIds => (st, .rows rowIds)
        | none =>
          let rowIds := sortRows st.table spec s.elems
          ({ st with index := { st.index with
                bwd := dset key { s with sorted := dset spec rowIds s.sorted } st.index.bwd } },
           .rows rowIds)

/-- The one ordering assumption about the engine: the key cells of a row are not written again
    between a `_reset_sorted_versions` for that row that ran while its `update_record` was still
    pending and that `update_record` (the engine recalculates only after all doc actions of a
    bundle; the harness checks this on every real event stream). -/
def Ev.allowed {σR : Type} (st : St σR) : Ev → Prop
  | .setKey row _ => row ∉ st.seen
  | _ => True

/-- every event of the list respects `Ev.allowed` at the state it is applied in -/
def disciplined {σR : Type} (M : Mapping σR) (sortCols : List String) : St σR → List Ev → Prop
  | _, [] => True
  | st, e :: es => e.allowed st ∧ disciplined M sortCols (step M sortCols st e).1 es

instance {σR : Type} (st : St σR) (e : Ev) : Decidable (e.allowed st) := by
  cases e <;> simp only [Ev.allowed] <;> exact inferInstance

instance decDisciplined {σR : Type} (M : Mapping σR) (sortCols : List String) :
    (st : St σR) → (evs : List Ev) → Decidable (disciplined M sortCols st evs)
  | _, [] => .isTrue trivial
  | st, e :: es =>
    have := decDisciplined M sortCols (step M sortCols st e).1 es
    inferInstanceAs (Decidable (e.allowed st ∧ disciplined M sortCols (step M sortCols st e).1 es))

/-- run a list of events from a state, collecting the answers -/
def runEvents {σR : Type} (M : Mapping σR) (sortCols : List String) : St σR → List Ev → St σR × List Res
  | st, [] => (st, [])
  | st, e :: es =>
    let (st1, r) := step M sortCols st e
    let (st2, rs) := runEvents M sortCols st1 es
    (st2, r :: rs)

/-- the state after a list of events -/
def exec {σR : Type} (M : Mapping σR) (sortCols : List String) (st : St σR) (evs : List Ev) : St σR :=
  evs.foldl (fun s e => (step M sortCols s e).1) st

/-! ### vocabulary of the specification: which rows a key matches -/

/-- Does a row cell match one element of a (normalised) lookup key?
    exact column: Python `cell == key` (a list never equals a scalar; an unhashable key element
    matches nothing);  `CONTAINS`: the cell is a list with an element `== key` — strings are not
    containers —, or the cell is empty (empty list, or a falsy non-string scalar, which is how the
    code reads "empty") and `match_empty == key`. -/
def matchCol : ColKind → Cell → Cell → Bool
  | .plain, c, k => k.hashable && c.norm == k
  | .contains me, .v x, .v kv => !x.isStr && x.falsy && me.map PV.norm == some kv
  | .contains me, .lst xs, .v kv =>
    if xs.isEmpty then me.map PV.norm == some kv else (xs.map PV.norm).contains kv
  | .contains _, _, .lst _ => false

/-- a row with these key cells is to be found under key `key` (column by column) -/
def matchKey : List ColKind → List Cell → LKey → Bool
  | k :: ks, c :: cs, x :: xs => matchCol k c x && matchKey ks cs xs
  | _ :: _, _ :: _, [] => false
  | _, _, [] => true
  | _, _, _ :: _ => false

/-- the row ids of the table (dict keys) -/
def tableRows (table : Dict Nat RowData) : List Nat := table.map (·.1)

/-! ### table.py: make_sort_spec, get_one -/

/-- the `order_by` argument: a tuple of strings, one string, None, or anything else -/
inductive OrderBy where
  | tuple (cols : List String)
  | str (s : String)
  | none
  | other
deriving Repr, DecidableEq

/-- the `sort_by` argument: None (or any other falsy non-string), a string, a truthy non-string -/
inductive SortBy where
  | none
  | str (s : String)
  | other
deriving Repr, DecidableEq

/-- `order_by[:order_by.index('id')]` -/
def upToId : List String → List String
  | [] => []
  | c :: cs => if c = "id" then [] else c :: upToId cs

/-- table.make_sort_spec(order_by, sort_by, has_manual_sort):
      if sort_by:
        if not isinstance(sort_by, str): raise TypeError(...)
        return (sort_by,)
      if not isinstance(order_by, tuple):
        if isinstance(order_by, str): order_by = (order_by,)
        elif order_by is None: order_by = ()
        else: raise TypeError(...)
      if 'id' in order_by: return order_by[:order_by.index('id')]
      if has_manual_sort and 'manualSort' not in order_by: return order_by + ('manualSort',)
      return order_by -/
def makeSortSpec (orderBy : OrderBy) (sortBy : SortBy) (hasManualSort : Bool) : Except Err SortSpec :=
  let fromTuple (t : List String) : Except Err SortSpec :=
    if t.contains "id" then .ok (upToId t)
    else if hasManualSort && !t.contains "manualSort" then .ok (t ++ ["manualSort"])
    else .ok t
  match sortBy with
  | .other => .error .typeError
  | .str s => if s.isEmpty then
      (match orderBy with            -- `if sort_by:` is false for ""
       | .tuple t => fromTuple t
       | .str o => fromTuple [o]
       | .none => fromTuple []
       | .other => .error .typeError)
    else .ok [s]
  | .none =>
    match orderBy with
    | .tuple t => fromTuple t
    | .str o => fromTuple [o]
    | .none => fromTuple []
    | .other => .error .typeError

/-- `RecordSet.get_one()`: `row_id = self._row_ids[0] if self._row_ids else 0` (0 = empty record) -/
def getOne (rowIds : List Nat) : Nat :=
  match rowIds with
  | r :: _ => r
  | [] => 0

end Grist.Lookup
