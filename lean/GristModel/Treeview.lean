/-
Model of sandbox/grist/treeview.py `fix_indents`.

Python:
  max_next_indent = 0; adjustments = []
  for item in items:
    indent = min(max_next_indent, item.indentation)
    is_deleted = item.id in deleted_ids
    if indent != item.indentation and not is_deleted: adjustments.append((item.id, indent))
    max_next_indent = indent if is_deleted else indent + 1
-/
namespace Grist.Treeview

structure Item where
  id : Nat
  indent : Nat
deriving Repr, DecidableEq

/-- The loop, with `m` = `max_next_indent`. -/
def fixGo (del : Nat → Bool) : Nat → List Item → List (Nat × Nat)
  | _, [] => []
  | m, it :: rest =>
    let ind := min m it.indent
    let d := del it.id
    (if ind != it.indent && !d then [(it.id, ind)] else []) ++
      fixGo del (if d then ind else ind + 1) rest

def fixIndents (items : List Item) (del : Nat → Bool) : List (Nat × Nat) :=
  fixGo del 0 items

/-- What the caller (`_removePageRecords`) does with the result: the deleted pages go away and
    every `(id, indent)` pair is written to the page with that id. -/
def applyFixes (items : List Item) (del : Nat → Bool) (adj : List (Nat × Nat)) : List Nat :=
  (items.filter (fun it => !del it.id)).map
    (fun it => (adj.lookup it.id).getD it.indent)

/-- The final indentation of the remaining pages computed directly (no ids involved). -/
def finalGo (del : Nat → Bool) : Nat → List Item → List Nat
  | _, [] => []
  | m, it :: rest =>
    let ind := min m it.indent
    if del it.id then finalGo del ind rest else ind :: finalGo del (ind + 1) rest

/-- A list of indentations is a valid tree below level bound `m`:
    first element ≤ m, each next ≤ previous + 1. -/
def ValidFrom : Nat → List Nat → Prop
  | _, [] => True
  | m, x :: xs => x ≤ m ∧ ValidFrom (x + 1) xs

/-- Valid tree: first page at level 0, each page at most one deeper than the previous. -/
def ValidTree (l : List Nat) : Prop := ValidFrom 0 l

instance : (m : Nat) → (l : List Nat) → Decidable (ValidFrom m l)
  | _, [] => isTrue trivial
  | m, x :: xs =>
    match Nat.decLe x m, instDecidableValidFrom (x+1) xs with
    | isTrue h1, isTrue h2 => isTrue ⟨h1, h2⟩
    | isFalse h1, _ => isFalse (fun h => h1 h.1)
    | _, isFalse h2 => isFalse (fun h => h2 h.2)

end Grist.Treeview
