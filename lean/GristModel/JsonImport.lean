/-
Model of sandbox/grist/imports/import_json.py  (`dumps`, `Tables.add_row`, `Tables._is_included`,
`_dump_table`, `_transpose`, `first_available_key`, `_grist_type`, `_dump_value`).

JSON values are the model's own inductive `J`.  Numbers are opaque tokens (the importer never
computes with them; `int` and `float` both map to the Grist type "Numeric").  Python `dict`s /
`OrderedDict`s are association lists in insertion order.

Core Lean only.
-/
namespace Grist.JsonImport

/-- The non-container JSON values (Python: None, bool, int/float, str). -/
inductive Scalar where
  | null
  | bool (b : Bool)
  | num (tok : String)
  | str (s : String)
deriving DecidableEq, Repr, Inhabited

/-- A JSON document as Python sees it after `json.loads` (except that `obj` may still carry
    duplicate keys / any key order: `norm` below does what `json.loads` + `sorted(items())` do). -/
inductive J where
  | sc (s : Scalar)
  | arr (xs : List J)
  | obj (kvs : List (String × J))
deriving Inhabited

/-- `Ref = namedtuple('Ref', ['table_name', 'rowid'])` -/
structure Ref where
  table : String
  rowid : Nat
deriving DecidableEq, Repr, Inhabited

/-- what a `row.values[k]` can hold: a scalar of the input or a `Ref` to a sub-table row -/
inductive Cell where
  | val (s : Scalar)
  | ref (r : Ref)
deriving DecidableEq, Repr, Inhabited

/-- `Row = namedtuple('Row', ['values', 'parent', 'ref'])`; `parent` is a Row in Python of which
    only `.ref` is ever read, so the model keeps the parent's `Ref`. -/
structure Row where
  values : List (String × Cell)
  parent : Option Ref
  ref : Ref
deriving DecidableEq, Repr, Inhabited

/-- `Tables._tables`: OrderedDict table name -> list of rows (insertion order). -/
abbrev St := List (String × List Row)

/-! ### parse options -/

/-- `s.split(';')` on characters. -/
def splitSemi : List Char → List (List Char)
  | [] => [[]]
  | c :: cs =>
    if c = ';' then [] :: splitSemi cs
    else match splitSemi cs with
      | [] => [[c]]          -- unreachable: splitSemi never returns []
      | w :: ws => (c :: w) :: ws

/-- `list(filter(None, opt.split(';')))` -/
def parseList (s : String) : List String :=
  ((splitSemi s.toList).filter (fun w => !w.isEmpty)).map String.ofList

structure Opts where
  includes : List String
  excludes : List String
deriving Repr

def parseOpts (includes excludes : String) : Opts := ⟨parseList includes, parseList excludes⟩

def defaultOpts : Opts := ⟨[], []⟩

/-- `str.startswith` -/
def startsWith (s pre : String) : Bool := pre.toList.isPrefixOf s.toList

/-
  def _is_included(self, property_path):
    is_included = (any(property_path.startswith(inc) for inc in self._includes_opt)
                   if self._includes_opt else True)
    is_excluded = (any(property_path.startswith(exc) for exc in self._excludes_opt)
                   if self._excludes_opt else False)
    return is_included and not is_excluded
-/
def isIncluded (o : Opts) (path : String) : Bool :=
  (if o.includes.isEmpty then true else o.includes.any (fun i => startsWith path i)) &&
  !(if o.excludes.isEmpty then false else o.excludes.any (fun e => startsWith path e))

/-! ### what `json.loads` and `sorted(value.items())` do to objects -/

/-- `d[k] = v` on an insertion-ordered dict -/
def setKey (k : String) (v : J) : List (String × J) → List (String × J)
  | [] => [(k, v)]
  | (k', v') :: r => if k' = k then (k', v) :: r else (k', v') :: setKey k v r

/-- `dict(pairs)`: the last value of a repeated key wins -/
def dictOf (kvs : List (String × J)) : List (String × J) :=
  kvs.foldl (fun acc p => setKey p.1 p.2 acc) []

def insertKey (p : String × J) : List (String × J) → List (String × J)
  | [] => [p]
  | q :: r => if q.1 < p.1 then q :: insertKey p r else p :: q :: r

/-- `sorted(value.items())` (keys of a dict are distinct, so only keys are compared; Python
    compares `str` by code point, as `String.<` does) -/
def sortKeys (kvs : List (String × J)) : List (String × J) :=
  kvs.foldr insertKey []

mutual
/-- objects become dicts (last duplicate wins) iterated in sorted key order, at every depth -/
def norm : J → J
  | .sc s => .sc s
  | .arr xs => .arr (normList xs)
  | .obj kvs => .obj (sortKeys (dictOf (normKvs kvs)))
def normList : List J → List J
  | [] => []
  | x :: xs => norm x :: normList xs
def normKvs : List (String × J) → List (String × J)
  | [] => []
  | (k, v) :: r => (k, norm v) :: normKvs r
end

/-! ### `Tables.add_row` -/

def rowsOf (st : St) (t : String) : List Row := (st.lookup t).getD []

/-- `self._tables.setdefault(table, [])` -/
def ensure (st : St) (t : String) : St :=
  if st.any (fun p => p.1 == t) then st else st ++ [(t, [])]

/-- `rows.append(row)` on the list stored under `t` -/
def push (st : St) (t : String) (r : Row) : St :=
  if st.any (fun p => p.1 == t) then st.map (fun p => if p.1 == t then (p.1, p.2 ++ [r]) else p)
  else st ++ [(t, [r])]

/-- `table + '_' + k` -/
def sub (table k : String) : String := table ++ "_" ++ k

/-- finish a row: the model appends the row when its values are complete.  Python appends the
    (still empty, mutable) row first and fills `row.values` while the children are processed; the
    children only ever touch tables with strictly longer names (`sub`), so the row list of `table`
    is the same at both moments (`add_ext` in GristProofs/JsonImport.lean; the driver also runs the
    literal variant `buildPy` below on every differential input and compares), and the row id
    `len(rows)+1` is computed at the Python moment (`open_`). -/
def close (st : St) (me : Option Ref) (parent : Option Ref) (vals : List (String × Cell)) : St :=
  match me with
  | some r => push st r.table ⟨vals, parent, r⟩
  | none => st

/-- `row = None; if self._is_included(table): rows = setdefault(table, []);
     row = Row(OrderedDict(), parent, Ref(table, len(rows)+1))` -/
def open_ (o : Opts) (st : St) (table : String) : St × Option Ref :=
  if isIncluded o table then
    let st1 := ensure st table
    (st1, some ⟨table, (rowsOf st1 table).length + 1⟩)
  else (st, none)

/-- the scalar branch: `if row and self._is_included(table + '_' + k): row.values[k] = val` -/
def scalarCell (o : Opts) (table : String) (me : Option Ref) (k : String) (s : Scalar) :
    List (String × Cell) :=
  if me.isSome && isIncluded o (sub table k) then [(k, Cell.val s)] else []

/-- the dict branch: `if row and val: row.values[k] = val.ref` -/
def refCell (me child : Option Ref) (k : String) : List (String × Cell) :=
  match me, child with
  | some _, some r => [(k, Cell.ref r)]
  | _, _ => []

/-
  def add_row(self, table, value, parent = None):
    row = None
    if self._is_included(table): ... (open_)
    value = _dictify(value)                      # non-dict  ->  {'': value}
    for (k, val) in sorted(value.items()):       # `norm` has sorted already
      if isinstance(val, dict):
        val = self.add_row(table + '_' + k, val)
        if row and val: row.values[k] = val.ref
      elif isinstance(val, list):
        for list_val in val: self.add_row(table + '_' + k, list_val, row)
      else:
        if row and self._is_included(table + '_' + k): row.values[k] = val
    return row
-/
mutual
def addRow (o : Opts) (st : St) (table : String) (parent : Option Ref) : J → St × Option Ref
  | .obj kvs =>
    let (st1, me) := open_ o st table
    let (st2, vals) := addItems o st1 table me kvs
    (close st2 me parent vals, me)
  | .arr xs =>           -- {'': [..]}
    let (st1, me) := open_ o st table
    let st2 := addElems o st1 (sub table "") me xs
    (close st2 me parent [], me)
  | .sc s =>             -- {'': s}
    let (st1, me) := open_ o st table
    (close st1 me parent (scalarCell o table me "" s), me)
/-- the `for (k, val) in sorted(value.items())` loop; returns the cells put into `row.values` -/
def addItems (o : Opts) (st : St) (table : String) (me : Option Ref) :
    List (String × J) → St × List (String × Cell)
  | [] => (st, [])
  | (k, v@(.obj _)) :: rest =>
    let (st1, child) := addRow o st (sub table k) none v
    let (st2, cs) := addItems o st1 table me rest
    (st2, refCell me child k ++ cs)
  | (k, .arr xs) :: rest =>
    let st1 := addElems o st (sub table k) me xs
    addItems o st1 table me rest
  | (k, .sc s) :: rest =>
    let (st2, cs) := addItems o st table me rest
    (st2, scalarCell o table me k s ++ cs)
/-- `for list_val in val: self.add_row(table, list_val, row)` -/
def addElems (o : Opts) (st : St) (table : String) (parent : Option Ref) : List J → St
  | [] => st
  | x :: xs => addElems o (addRow o st table parent x).1 table parent xs
end

/-- `dumps`: `if not isinstance(data, list): data = [data]` -/
def topItems : J → List J
  | .arr xs => xs
  | v => [v]

/-! ### literal variant (row appended first, filled afterwards), used only by the driver to
    cross-check the restructuring made in `close` on every differential input -/

def modifyAt (f : Row → Row) : Nat → List Row → List Row
  | _, [] => []
  | 0, r :: rs => f r :: rs
  | n + 1, r :: rs => r :: modifyAt f n rs

/-- `rows.append(Row(OrderedDict(), parent, Ref(table, len(rows)+1)))` -/
def openPy (o : Opts) (st : St) (table : String) (parent : Option Ref) : St × Option Ref :=
  if isIncluded o table then
    let st1 := ensure st table
    let r : Ref := ⟨table, (rowsOf st1 table).length + 1⟩
    (push st1 table ⟨[], parent, r⟩, some r)
  else (st, none)

/-- the accumulated `row.values[k] = ...` assignments, applied to the row object `me` -/
def fillPy (st : St) (me : Option Ref) (vals : List (String × Cell)) : St :=
  match me with
  | some r => st.map (fun p =>
      if p.1 == r.table then (p.1, modifyAt (fun row => { row with values := vals }) (r.rowid - 1) p.2)
      else p)
  | none => st

mutual
def addRowPy (o : Opts) (st : St) (table : String) (parent : Option Ref) : J → St × Option Ref
  | .obj kvs =>
    let (st1, me) := openPy o st table parent
    let (st2, vals) := addItemsPy o st1 table me kvs
    (fillPy st2 me vals, me)
  | .arr xs =>
    let (st1, me) := openPy o st table parent
    let st2 := addElemsPy o st1 (sub table "") me xs
    (st2, me)
  | .sc s =>
    let (st1, me) := openPy o st table parent
    (fillPy st1 me (scalarCell o table me "" s), me)
def addItemsPy (o : Opts) (st : St) (table : String) (me : Option Ref) :
    List (String × J) → St × List (String × Cell)
  | [] => (st, [])
  | (k, v@(.obj _)) :: rest =>
    let (st1, child) := addRowPy o st (sub table k) none v
    let (st2, cs) := addItemsPy o st1 table me rest
    (st2, refCell me child k ++ cs)
  | (k, .arr xs) :: rest =>
    let st1 := addElemsPy o st (sub table k) me xs
    addItemsPy o st1 table me rest
  | (k, .sc s) :: rest =>
    let (st2, cs) := addItemsPy o st table me rest
    (st2, scalarCell o table me k s ++ cs)
def addElemsPy (o : Opts) (st : St) (table : String) (parent : Option Ref) : List J → St
  | [] => st
  | x :: xs => addElemsPy o (addRowPy o st table parent x).1 table parent xs
end

def buildPy (o : Opts) (name : String) (data : J) : St :=
  addElemsPy o [] name none (topItems (norm data))

/-- the state of `Tables` after `for val in data: tables.add_row(name, val)` -/
def build (o : Opts) (name : String) (data : J) : St :=
  addElems o [] name none (topItems (norm data))

/-! ### `_dump_table` -/

/-- `_grist_type` : `Ref` -> 'Ref:<table>', int/float -> Numeric, bool -> Bool, str -> Text,
    anything else (None) -> Text -/
def gristType : Cell → String
  | .ref r => "Ref:" ++ r.table
  | .val (.num _) => "Numeric"
  | .val (.bool _) => "Bool"
  | .val (.str _) => "Text"
  | .val .null => "Text"

/-- `values.update(row)` for one key: an existing key keeps its position -/
def addKey (acc : List String) (k : String) : List String := if acc.contains k then acc else acc ++ [k]

/-- key order of `values = OrderedDict(); for row in reversed(rows): values.update(row)` -/
def keyOrder (rows : List Row) : List String :=
  rows.reverse.foldl (fun acc row => (row.values.map (·.1)).foldl addKey acc) []

/-- the value that survives the reversed updates: the one of the FIRST row that has the key -/
def firstVal (rows : List Row) (k : String) : Option Cell :=
  rows.findSome? (fun r => r.values.lookup k)

/-- a dumped cell: `None`, a scalar, or a row id (`_dump_value` of a Ref) -/
inductive DVal where
  | none
  | val (s : Scalar)
  | id (n : Nat)
deriving DecidableEq, Repr

def dumpCell : Option Cell → DVal
  | .none => .none
  | .some (.val .null) => .none       -- Python `None` either way
  | .some (.val s) => .val s
  | .some (.ref r) => .id r.rowid

structure DCol where
  id : String
  type : String
  data : List DVal
deriving Repr, DecidableEq

structure DTable where
  name : String
  cols : List DCol
deriving Repr, DecidableEq

/-- `first_available_key`: name, name2, name3, ... ; `fuel` candidates are tried (the Python loop is
    unbounded; `keys.length + 1` candidates always suffice, the model reports exhaustion). -/
def firstAvail (keys : List String) (name : String) : Nat → Nat → Except String String
  | _, 0 => .error "first_available_key: fuel"
  | i, fuel + 1 =>
    let cand := if i = 1 then name else name ++ toString i
    if keys.contains cand then firstAvail keys name (i + 1) fuel else .ok cand

/-- `_transpose` -/
def transpose (rows : List Row) : List DCol :=
  (keyOrder rows).map (fun k =>
    { id := k
      type := match firstVal rows k with
        | some c => gristType c
        | none => "Text"     -- unreachable: every key of keyOrder comes from a row
      data := rows.map (fun r => dumpCell (r.values.lookup k)) })

/-
  columns = _transpose([r.values for r in rows])
  ref = next((r.parent.ref for r in rows if r.parent), None)
  if ref:
    col_id = first_available_key(columns, ref.table_name)
    columns[col_id] = Col(_grist_type(ref), [row.parent.ref if row.parent else None for row in rows])
-/
def dumpTable (name : String) (rows : List Row) : Except String DTable :=
  let cols := transpose rows
  match rows.findSome? (·.parent) with
  | none => .ok ⟨name, cols⟩
  | some ref =>
    match firstAvail (cols.map (·.id)) ref.table 1 (cols.length + 1) with
    | .error e => .error e
    | .ok colId =>
      .ok ⟨name, cols ++ [{ id := colId, type := gristType (.ref ref),
                            data := rows.map (fun r => match r.parent with
                              | some p => DVal.id p.rowid
                              | none => DVal.none) }]⟩

/-- `Tables.dumps` -/
def dumpAll : St → Except String (List DTable)
  | [] => .ok []
  | (n, rows) :: rest =>
    match dumpTable n rows with
    | .error e => .error e
    | .ok t => match dumpAll rest with
      | .error e => .error e
      | .ok ts => .ok (t :: ts)

/-- `import_json.dumps(data, name, parse_options)['tables']` -/
def dumps (o : Opts) (name : String) (data : J) : Except String (List DTable) :=
  dumpAll (build o name data)

end Grist.JsonImport
