/-
Model of the value universe of the Grist data engine and of
  * sandbox/grist/usertypes.py   BaseColumnType.convert / do_convert / is_right_type  (C22)
  * sandbox/grist/objtypes.py    encode_object / decode_object / RaisedException.encode_args /
                                 decode_args / safe_repr                              (C24)
  * what `marshal.dumps(x, 2)` (sandbox.py `_send_to_js`) accepts                     (C24)

Core Lean only.  Strings are `List Char` (`Str`) so that every function reduces in the kernel.

What is a PARAMETER (behaviour of CPython / third-party code, not of Grist; collected in `Prim`,
supplied per request by the harness which computes it with the real primitives):
  float(str), float(big int), repr(float), "%.15g" % float, json.loads, iso8601 parsing
  (moment.parse_iso_date / parse_iso for the column's zone), RecordList.from_repr's int() parsing,
  moment.ts_to_dt / ts_to_date for non-integral stamps, str()/repr() of compound objects
  (`Meta` stored in the node), bytes.decode / float(bytes) (stored in the node).
Everything else (every branch, every isinstance test, every exception that `convert` swallows) is
modelled explicitly; a raising primitive is an `Except` whose error is the Python exception class.
-/
namespace Grist.PyVal

abbrev Str := List Char

/-! ### Python floats, abstractly
  `int n`   : a finite float whose value is the integer `n` (`+0.0` is `int 0`);
  `negZero` : `-0.0`;  `frac bits t` : a finite non-integral float with IEEE bit pattern `bits`
  and `int(f) = t`;  `nan bits`, `inf neg`.
  Two floats are bitwise identical iff the terms are equal (the harness only produces `int n` for
  `n` exactly representable, and the model only constructs `int n` for |n| ≤ 2^53). -/
inductive F where
  | nan (bits : Nat)
  | inf (neg : Bool)
  | negZero
  | int (n : Int)
  | frac (bits : Nat) (trunc : Int)
deriving DecidableEq, Repr

def two53 : Int := 9007199254740992
def two31 : Int := 2147483648

/-- `objtypes.is_int_short`:  `-(1<<31) <= value < (1<<31)` -/
def isShort (n : Int) : Bool := decide (-two31 ≤ n) && decide (n < two31)

/-- `int(f)` for a float: `ValueError` on NaN, `OverflowError` on ±inf, truncation otherwise. -/
def F.toInt : F → Except Str Int
  | .nan _ => .error "ValueError".toList
  | .inf _ => .error "OverflowError".toList
  | .negZero => .ok 0
  | .int n => .ok n
  | .frac _ t => .ok t

/-- `bool(f)` -/
def F.truthy : F → Bool
  | .negZero => false
  | .int n => n != 0
  | _ => true

def F.isFinite : F → Bool
  | .nan _ => false
  | .inf _ => false
  | _ => true

/-! ### Decimal printing of Python ints (`str(int)`) -/
def decNat (n : Nat) : Str := Nat.toDigits 10 n
def decInt : Int → Str
  | .ofNat n => decNat n
  | .negSucc n => '-' :: decNat (n + 1)

/-- `"[1, 2, 3]"` : `repr` of a Python list of ints -/
def joinComma : List Str → Str
  | [] => []
  | [x] => x
  | x :: xs => x ++ [',', ' '] ++ joinComma xs

def listRepr (rows : List Int) : Str := ['['] ++ joinComma (rows.map decInt) ++ [']']
/-- `repr` of a tuple of ints: `()`, `(1,)`, `(1, 2)` -/
def tupleRepr (rows : List Int) : Str :=
  match rows with
  | [x] => ['('] ++ decInt x ++ [',', ')']
  | _ => ['('] ++ joinComma (rows.map decInt) ++ [')']

/-! ### The marshalled form (what `encode_object` returns and what goes through `marshal`) -/
inductive Enc where
  | none
  | bool (b : Bool)
  | int (n : Int)
  | float (f : F)
  | str (s : Str)                       -- an exact `str`
  | list (xs : List Enc)
  | tuple (xs : List Enc)
  | dict (keys : List (Str × Bool)) (vals : List Enc)   -- key text, "is a str SUBCLASS instance"
deriving Repr

mutual
/-- What `marshal.dumps(x, 2)` accepts (exact None/bool/int/float/str/list/tuple/dict; a `str`
    subclass instance raises `ValueError: unmarshallable object`) and app/common/marshal.ts
    can parse.  The only non-exact thing the encoder can let through is a dict key. -/
def MarshalSafe : Enc → Bool
  | .list xs => MarshalSafeL xs
  | .tuple xs => MarshalSafeL xs
  | .dict ks vs => ks.all (fun k => !k.2) && MarshalSafeL vs
  | _ => true
def MarshalSafeL : List Enc → Bool
  | [] => true
  | x :: xs => MarshalSafe x && MarshalSafeL xs
end

/-- `str()`, `repr()` and the class name of a compound / foreign object, as Python computes them
    (`none` = the call raises). -/
structure Meta where
  str : Option Str
  repr : Option Str
  tname : Str
deriving DecidableEq, Repr

/-- `objtypes.safe_repr`:  `repr(obj)`, or `'<' + type(obj).__name__ + '>'` when that raises -/
def Meta.safeRepr (m : Meta) : Str :=
  match m.repr with
  | some r => r
  | none => ['<'] ++ m.tname ++ ['>']

/-! ### The value universe -/
inductive PyVal where
  | none
  | bool (b : Bool)
  | int (n : Int) (sub : Bool)          -- `sub`: instance of a proper subclass of int
  | float (f : F) (sub : Bool)
  | str (s : Str) (sub : Bool)
  /-- bytes: the byte values, `value.decode('utf8')` (none = UnicodeDecodeError), `float(value)` -/
  | bytes (m : Meta) (items : List Nat) (utf8 : Option Str) (asFloat : Option F)
  | list (m : Meta) (xs : List PyVal)
  | tuple (m : Meta) (xs : List PyVal)
  | dict (m : Meta) (keys : List PyVal) (vals : List PyVal)
  | set (m : Meta) (xs : List PyVal)    -- in iteration order
  /-- datetime.date: days since 1970-01-01; `moment.date_to_ts(value, zone)` for the DateTime
      column's zone of this request -/
  | date (m : Meta) (days : Int) (zoneTs : F)
  /-- datetime.datetime: days of `value.date()`; `moment.dt_to_ts(value, zone)` for the column's
      zone (none = raises); `moment.dt_to_ts(value)` (none = raises); the name encode_object
      sends: `value.tzinfo.zone.name if value.tzinfo else 'UTC'` (none = raises) -/
  | datetime (m : Meta) (localDays : Int) (zoneTs : Option F) (encTs : Option F) (zone : Option Str)
  | record (table : Str) (row : Int)
  /-- records.RecordSet: `_table.table_id`, `_row_ids` (and whether it is a tuple),
      `[rec.id for rec in value]`, `repr(_group_by)`, `repr(_sort_by)` -/
  | recordSet (table : Str) (rows : List Int) (rowsTuple : Bool) (ids : List Int) (gb sb : Str)
  | recordList (rows : List Int) (gb sb : Str)      -- objtypes.RecordList
  | altText (s : Str)
  /-- objtypes.RaisedException: `_name`, `_message`, `details` (in encoded form), user input
      (`[]` = `NO_INPUT`, `[x]` = x) -/
  | raised (m : Meta) (name msg details : Enc) (ui : List PyVal)
  | recordStub (m : Meta) (table row : Enc)
  | recordSetStub (m : Meta) (table rows : Enc)
  | unmarshallable (m : Meta) (r : Enc)
  | pending (m : Meta)
  | censored (m : Meta)
  /-- any other object: not a number, not iterable, no `__float__`/`__int__`/`__index__`;
      `bool(obj)` (none = raises) -/
  | opaque (m : Meta) (truthy : Option Bool)
deriving Repr

/-- Parameters: CPython / library behaviour (see file header). -/
structure Prim where
  floatOfStr : Str → Option F            -- float(s); none = ValueError
  floatOfBig : Int → Option F            -- float(n) for |n| > 2^53; none = OverflowError
  reprF : F → Str                        -- repr(f) = str(f)
  g15 : F → Str                          -- "%.15g" % f
  jsonLoads : Str → Option PyVal         -- json.loads(s); none = raises
  isoDate : Str → Option F               -- moment.parse_iso_date(s); none = raises
  isoDateTime : Str → Option F           -- moment.parse_iso(s, column zone); none = raises
  recListRepr : Str → Option (List Int)  -- objtypes.RecordList.from_repr(s); none = raises
  tsToDt : Enc → Enc → Except Str PyVal  -- moment.ts_to_dt(a0, moment.Zone(a1))
  tsToDateFrac : F → Except Str PyVal    -- moment.ts_to_date(non-integral float)
  dateNode : Int → PyVal                 -- the datetime.date `days` after 1970-01-01 (in range)
  refLookup : List Enc → Except Str PyVal  -- objtypes.ReferenceLookup(*args)
  listMeta : List PyVal → Meta           -- str/repr of a list the engine itself builds
  tupleMeta : List PyVal → Meta
  dictMeta : List PyVal → List PyVal → Meta
  stubMeta : Str → List Enc → Meta       -- repr of RecordStub / RecordSetStub / Unmarshallable / sentinels
  raisedMeta : Enc → Enc → Enc → List PyVal → Meta

def exc {α : Type} (s : String) : Except Str α := .error s.toList

/-! ### Python primitives on values -/

def PyVal.meta? : PyVal → Option Meta
  | .bytes m .. => some m
  | .list m _ => some m
  | .tuple m _ => some m
  | .dict m .. => some m
  | .set m _ => some m
  | .date m .. => some m
  | .datetime m .. => some m
  | .raised m .. => some m
  | .recordStub m .. => some m
  | .recordSetStub m .. => some m
  | .unmarshallable m _ => some m
  | .pending m => some m
  | .censored m => some m
  | .opaque m _ => some m
  | _ => Option.none

/-- `str(v)`; none = raises.  Record.__repr__ / RecordSet.__repr__ / RecordList.__repr__ /
    AltText.__str__ are Grist code and are computed. -/
def pyStr (P : Prim) : PyVal → Option Str
  | .none => some ['N','o','n','e']
  | .bool true => some ['T','r','u','e']
  | .bool false => some ['F','a','l','s','e']
  | .int n _ => some (decInt n)
  | .float f _ => some (P.reprF f)
  | .str s _ => some s
  -- "%s[%s]" % (self._table.table_id, self._row_id)
  | .record t r => some (t ++ ['['] ++ decInt r ++ [']'])
  -- "%s[%s]" % (self._table.table_id, self._row_ids)
  | .recordSet t rows tup _ _ _ =>
      some (t ++ ['['] ++ (if tup then tupleRepr rows else listRepr rows) ++ [']'])
  -- "RecordList(%s, group_by=%r, sort_by=%r)"
  | .recordList rows gb sb =>
      some ("RecordList(".toList ++ listRepr rows ++ ", group_by=".toList ++ gb ++
            ", sort_by=".toList ++ sb ++ [')'])
  | .altText s => some s
  | .bytes m .. => m.str
  | .list m _ => m.str
  | .tuple m _ => m.str
  | .dict m .. => m.str
  | .set m _ => m.str
  | .date m .. => m.str
  | .datetime m .. => m.str
  | .raised m .. => m.str
  | .recordStub m .. => m.str
  | .recordSetStub m .. => m.str
  | .unmarshallable m _ => m.str
  | .pending m => m.str
  | .censored m => m.str
  | .opaque m _ => m.str

/-- `objtypes.safe_repr(v)` for the values on which the engine can reach it. -/
def pySafeRepr (P : Prim) (v : PyVal) : Str :=
  match v.meta? with
  | some m => m.safeRepr
  | none => (pyStr P v).getD []     -- never reached: these values' str() does not raise

/-- `bool(v)` / `not v`; none = raises. -/
def truthy : PyVal → Option Bool
  | .none => some false
  | .bool b => some b
  | .int n _ => some (n != 0)
  | .float f _ => some f.truthy
  | .str s _ => some (!s.isEmpty)
  | .bytes _ items _ _ => some (!items.isEmpty)
  | .list _ xs => some (!xs.isEmpty)
  | .tuple _ xs => some (!xs.isEmpty)
  | .dict _ ks _ => some (!ks.isEmpty)
  | .set _ xs => some (!xs.isEmpty)
  | .date .. => some true
  | .datetime .. => some true
  | .record _ r => some (r != 0)                 -- Record.__bool__ = bool(self._row_id)
  | .recordSet _ rows .. => some (!rows.isEmpty) -- RecordSet.__bool__ = bool(self._row_ids)
  | .recordList rows _ _ => some (!rows.isEmpty)
  | .altText _ => some true
  | .raised .. => some true
  | .recordStub .. => some true
  | .recordSetStub .. => some true
  | .unmarshallable .. => some true
  | .pending _ => some true
  | .censored _ => some true
  | .opaque _ t => t

/-- `value in ("", None)` -/
def isEmptyOrNone : PyVal → Bool
  | .none => true
  | .str s _ => s.isEmpty
  | _ => false

/-- `float(n)` for an int -/
def floatOfInt (P : Prim) (n : Int) : Except Str F :=
  if decide (-two53 ≤ n) && decide (n ≤ two53) then .ok (.int n)
  else match P.floatOfBig n with
    | some f => .ok f
    | none => exc "OverflowError"

/-- `float(v)` -/
def pyFloat (P : Prim) : PyVal → Except Str F
  | .bool b => .ok (.int (if b then 1 else 0))
  | .int n _ => floatOfInt P n
  | .float f _ => .ok f
  | .str s _ => match P.floatOfStr s with | some f => .ok f | none => exc "ValueError"
  | .bytes _ _ _ af => match af with | some f => .ok f | none => exc "ValueError"
  -- AltText.__float__:  return float(self._text)
  | .altText s => match P.floatOfStr s with | some f => .ok f | none => exc "ValueError"
  | _ => exc "TypeError"

/-- `isinstance(v, (float, int))` -/
def isNumeric : PyVal → Bool
  | .bool _ => true
  | .int .. => true
  | .float .. => true
  | _ => false

/-- `iter(v)` as a list; error = TypeError: not iterable. -/
def pyIter : PyVal → Except Str (List PyVal)
  | .str s _ => .ok (s.map (fun c => .str [c] false))
  | .bytes _ items _ _ => .ok (items.map (fun b => .int (Int.ofNat b) false))
  | .list _ xs => .ok xs
  | .tuple _ xs => .ok xs
  | .set _ xs => .ok xs
  | .dict _ ks _ => .ok ks
  -- RecordSet.__iter__: yield self._table.Record(row_id, ...)
  | .recordSet t rows .. => .ok (rows.map (fun r => .record t r))
  | .recordList rows _ _ => .ok (rows.map (fun r => .int r false))
  | _ => exc "TypeError"

def strsOf (P : Prim) : List PyVal → Option (List Str)
  | [] => some []
  | x :: xs => match pyStr P x, strsOf P xs with
    | some s, some ss => some (s :: ss)
    | _, _ => none

/-! ### Column types -/
inductive ColType where
  | text | blob | any | bool | int | numeric | date | dateTime | choice | choiceList
  | positionNumber | manualSortPos | id | ref
  | refList (table : Str)
  | attachments
deriving DecidableEq, Repr

/-- case-insensitive comparison with an ASCII word given as (lower, upper) pairs -/
def ciEq : Str → List (Char × Char) → Bool
  | [], [] => true
  | c :: cs, (a, b) :: ws => (c == a || c == b) && ciEq cs ws
  | _, _ => false

/-- `value.lower() in _truthy_values`  ({"true", "yes", "1"}) -/
def isTruthyWord (s : Str) : Bool :=
  ciEq s [('t','T'),('r','R'),('u','U'),('e','E')] || ciEq s [('y','Y'),('e','E'),('s','S')] ||
  ciEq s [('1','1')]
/-- `value.lower() in _falsy_values`  ({"false", "no", "0"}) -/
def isFalsyWord (s : Str) : Bool :=
  ciEq s [('f','F'),('a','A'),('l','L'),('s','S'),('e','E')] || ciEq s [('n','N'),('o','O')] ||
  ciEq s [('0','0')]

def startsBracket : Str → Bool
  | '[' :: _ => true
  | _ => false

/-- Text.do_convert -/
def doText (P : Prim) (v : PyVal) : Except Str PyVal :=
  match v with
  -- if isinstance(value, bytes): return value.decode('utf8')
  | .bytes _ _ u _ => match u with | some s => .ok (.str s false) | none => exc "UnicodeDecodeError"
  -- elif value is None: return None
  | .none => .ok .none
  -- elif isinstance(value, float) and not (math.isinf(value) or math.isnan(value)):
  | .float f _ =>
    match f with
    | .nan _ => .ok (.str (P.reprF f) false)      -- else: str(value)
    | .inf _ => .ok (.str (P.reprF f) false)
    -- if abs(value) < 2 ** 53: as_int = int(value); if value == as_int: return str(as_int)
    | .negZero => .ok (.str ['0'] false)
    | .int n => if decide (-two53 < n) && decide (n < two53) then .ok (.str (decInt n) false)
                else .ok (.str (P.g15 f) false)   -- return u"%.15g" % value
    | .frac _ _ => .ok (.str (P.g15 f) false)
  -- else: return str(value)
  | _ => match pyStr P v with | some s => .ok (.str s false) | none => exc "Exception"

/-- the text Bool.do_convert looks at:
      if isinstance(value, AltText): value = str(value)
      if isinstance(value, str): ... -/
def boolText : PyVal → Option Str
  | .altText s => some s
  | .str s _ => some s
  | _ => Option.none

/-- Bool.do_convert -/
def doBool (v : PyVal) : Except Str PyVal :=
  match truthy v with
  | none => exc "Exception"
  | some false => .ok (.bool false)               -- if not value: return False
  | some true =>
    if isNumeric v then .ok (.bool true)          -- if isinstance(value, _numeric_types): return True
    else
      match boolText v with
      | some s => if isFalsyWord s then .ok (.bool false)     -- value.lower() in _falsy_values
                  else if isTruthyWord s then .ok (.bool true)
                  else exc "ConversionError"
      | none => exc "ConversionError"             -- raise objtypes.ConversionError("Bool")

/-- Int.do_convert -/
def doInt (P : Prim) (v : PyVal) : Except Str PyVal :=
  if isEmptyOrNone v then .ok .none               -- if value in ("", None): return None
  else
    match pyFloat P v with                        -- ret = int(float(value))
    | .error e => .error e
    | .ok f => match f.toInt with
      | .error e => .error e
      | .ok n => if isShort n then .ok (.int n false) else exc "OverflowError"

/-- Numeric.do_convert (dflt = None) and PositionNumber.do_convert (dflt = float('inf')) -/
def doNumeric (P : Prim) (dflt : PyVal) (v : PyVal) : Except Str PyVal :=
  if isEmptyOrNone v then .ok dflt
  else match pyFloat P v with
    | .error e => .error e
    | .ok f => .ok (.float f false)

/-- Date.do_convert / DateTime.do_convert (`dt` = true) -/
def doDate (P : Prim) (dt : Bool) (v : PyVal) : Except Str PyVal :=
  if isEmptyOrNone v then .ok .none
  else match v with
    -- isinstance(value, datetime.datetime): moment.date_to_ts(value.date()) / moment.dt_to_ts(value, tz)
    | .datetime _ ld zts _ _ =>
      if dt then (match zts with | some f => .ok (.float f false) | none => exc "OverflowError")
      else .ok (.float (.int (ld * 86400)) false)
    -- isinstance(value, datetime.date): moment.date_to_ts(value[, tz])
    | .date _ d zts => if dt then .ok (.float zts false) else .ok (.float (.int (d * 86400)) false)
    | .str s _ =>
      match (if dt then P.isoDateTime s else P.isoDate s) with
      | some f => .ok (.float f false)
      | none => exc "ParseError"
    | _ =>
      if isNumeric v then                          -- return float(value)
        match pyFloat P v with | .ok f => .ok (.float f false) | .error e => .error e
      else exc "ConversionError"

/-- ChoiceList.do_convert -/
def doChoiceList (P : Prim) (v : PyVal) : Except Str PyVal :=
  match truthy v with
  | none => exc "Exception"
  | some false => .ok .none                        -- if not value: return None
  | some true =>
    match v with
    | .str s _ =>
      -- if value.startswith('['): try: return tuple(str(item) for item in json.loads(value))
      --                           except Exception: pass
      -- return value
      if startsBracket s then
        match P.jsonLoads s with
        | some parsed =>
          match pyIter parsed with
          | .ok items => match strsOf P items with
            | some ss => .ok (.tuple (P.tupleMeta (ss.map (fun x => .str x false))) (ss.map (fun x => .str x false)))
            | none => .ok v
          | .error _ => .ok v
        | none => .ok v
      else .ok v
    | _ =>
      -- return tuple(str(item) for item in value)
      match pyIter v with
      | .error e => .error e
      | .ok items => match strsOf P items with
        | some ss => .ok (.tuple (P.tupleMeta (ss.map (fun x => .str x false))) (ss.map (fun x => .str x false)))
        | none => exc "Exception"

/-- `int(value)` for the values Id accepts: `isinstance(value, (int, Record))` -/
def idInt : PyVal → Option Int
  | .bool b => some (if b then 1 else 0)
  | .int n _ => some n
  | .record _ r => some r                        -- Record.__int__ = self._row_id
  | _ => Option.none

/-- Id.do_convert (= Reference.do_convert) -/
def doId (v : PyVal) : Except Str PyVal :=
  match truthy v with
  | none => exc "Exception"
  | some false => .ok (.int 0 false)               -- if not value: return 0
  | some true =>
    match idInt v with
    | none => exc "TypeError"                      -- if not isinstance(value, (int, Record)): raise TypeError
    | some n => if isShort n then .ok (.int n false) else exc "OverflowError"

def idsOf : List PyVal → Except Str (List PyVal)
  | [] => .ok []
  | x :: xs => match doId x, idsOf xs with
    | .ok r, .ok rs => .ok (r :: rs)
    | .error e, _ => .error e
    | _, .error e => .error e

/-- `isinstance(v, int) and v > 0` -/
def isPosInt : PyVal → Bool
  | .bool b => b
  | .int n _ => decide (n > 0)
  | _ => false

/-- `all(isinstance(rset, RecordSet) and rset._table.table_id == self.table_id for rset in value)`
    together with `[rec.id for rset in value for rec in rset]` -/
def recordSetsIds (tid : Str) : List PyVal → Option (List Int)
  | [] => some []
  | .recordSet t _ _ ids _ _ :: rest =>
    if t = tid then (match recordSetsIds tid rest with | some r => some (ids ++ r) | none => Option.none)
    else Option.none
  | _ :: _ => Option.none

/-- `list(OrderedDict((el, None) for el in xs).keys())` -/
def dedup : List Int → List Int
  | [] => []
  | x :: xs => x :: (dedup xs).filter (fun y => y != x)

/-- ReferenceList.do_convert, first part:
      if isinstance(value, str):
        try:
          if value.startswith('['):
            parsed = json.loads(value)
            if isinstance(parsed, list) and all(isinstance(v, int) and v > 0 for v in parsed): value = parsed
          else:
            value = objtypes.RecordList.from_repr(value)
        except Exception: pass -/
def refListPre (P : Prim) (v : PyVal) : PyVal :=
  match v with
  | .str s _ =>
    if startsBracket s then
      match P.jsonLoads s with
      | some (.list m xs) => if xs.all isPosInt then .list m xs else v
      | _ => v
    else
      match P.recListRepr s with
      | some rows => .recordList rows ['N','o','n','e'] ['N','o','n','e']
      | none => v
  | _ => v

/-- `isinstance(value, list) and all(isinstance(rset, RecordSet) and rset._table.table_id ==
    self.table_id for rset in value)`, giving `[rec.id for rset in value for rec in rset]` -/
def flatIds (tid : Str) : PyVal → Option (List Int)
  | .list _ xs => recordSetsIds tid xs
  | _ => Option.none

/-- ReferenceList.do_convert, the rest -/
def doRefListCore (P : Prim) (tid : Str) (v1 : PyVal) : Except Str PyVal :=
  match v1 with
  -- if isinstance(value, RecordSet): assert value._table.table_id == self.table_id
  --   return objtypes.RecordList(value._row_ids, group_by=..., sort_by=..., sort_key=...)
  | .recordSet t rows _ _ gb sb =>
    if t = tid then .ok (.recordList rows gb sb) else exc "AssertionError"
  | _ =>
    match truthy v1 with
    | none => exc "Exception"
    | some false => .ok .none                      -- elif not value: return None
    | some true =>
      -- elif isinstance(value, list) and all(isinstance(rset, RecordSet) and ...):
      --   row_ids_flat_list = [rec.id for rset in value for rec in rset]; unique, order kept
      match flatIds tid v1 with
      | some ids => .ok (.list (P.listMeta ((dedup ids).map (fun r => .int r false)))
                               ((dedup ids).map (fun r => .int r false)))
      | none =>
        -- return [Reference.do_convert(val) for val in value]
        match pyIter v1 with
        | .error e => .error e
        | .ok items => match idsOf items with
          | .error e => .error e
          | .ok rs => .ok (.list (P.listMeta rs) rs)

/-- ReferenceList.do_convert -/
def doRefList (P : Prim) (tid : Str) (v : PyVal) : Except Str PyVal :=
  doRefListCore P tid (refListPre P v)

def attachmentsTable : Str := "_grist_Attachments".toList

/-- `<Type>.do_convert(value)`; error = the exception class raised -/
def doConvert (P : Prim) (τ : ColType) (v : PyVal) : Except Str PyVal :=
  match τ with
  | .text => doText P v
  | .choice => doText P v                         -- class Choice(Text): pass
  | .blob => .ok v                                -- Blob.do_convert: return value
  -- Any.do_convert: return str(value) if isinstance(value, AltText) else value
  | .any => match v with | .altText s => .ok (.str s false) | _ => .ok v
  | .bool => doBool v
  | .int => doInt P v
  | .numeric => doNumeric P .none v
  | .positionNumber => doNumeric P (.float (.inf false) false) v
  | .manualSortPos => doNumeric P (.float (.inf false) false) v
  | .date => doDate P false v
  | .dateTime => doDate P true v
  | .choiceList => doChoiceList P v
  | .id => doId v
  | .ref => doId v
  | .refList t => doRefList P t v
  | .attachments => doRefList P attachmentsTable v

def PyVal.isRaised : PyVal → Bool
  | .raised .. => true
  | _ => false

def PyVal.isStr : PyVal → Bool
  | .str .. => true
  | _ => false

/-- The alt-text `convert` falls back to:
      try: return str(value_to_convert)
      except Exception: return objtypes.safe_repr(value_to_convert) -/
def altOf (P : Prim) (v : PyVal) : PyVal :=
  match pyStr P v with
  | some s => .str s false
  | none => .str (pySafeRepr P v) false

/-- BaseColumnType.convert: total by construction. -/
def convert (P : Prim) (τ : ColType) (v : PyVal) : PyVal :=
  -- if isinstance(value_to_convert, objtypes.RaisedException): return value_to_convert
  if v.isRaised then v
  else match doConvert P τ v with                 -- try: return self.do_convert(value_to_convert)
    | .ok r => r
    | .error _ => altOf P v                       -- except Exception: ...

/-! ### is_right_type -/
def allStr : List PyVal → Bool
  | [] => true
  | x :: xs => x.isStr && allStr xs

/-- `Reference.is_right_type(val)` = `type(value) is int and is_int_short(value)` -/
def isRefId : PyVal → Bool
  | .int n false => isShort n
  | _ => false

def isRightType (τ : ColType) (v : PyVal) : Bool :=
  match τ with
  | .text | .choice => match v with | .str .. => true | .none => true | _ => false
  | .blob => match v with | .bytes .. => true | .none => true | _ => false
  | .any => true
  | .bool => match v with | .bool _ => true | .none => true | _ => false
  | .int => match v with | .none => true | .int n false => isShort n | _ => false
  -- type(value) in (float, int, NoneType)
  | .numeric => match v with | .none => true | .int _ false => true | .float _ false => true | _ => false
  -- isinstance(value, (float, int, NoneType))
  | .date | .dateTime => match v with | .none => true | _ => isNumeric v
  | .choiceList => match v with
    | .none => true
    | .list _ xs => allStr xs
    | .tuple _ xs => allStr xs
    | .recordList rows _ _ => rows.isEmpty         -- a list subclass; its items are ints
    | _ => false
  | .positionNumber | .manualSortPos =>
    match v with | .int _ false => true | .float _ false => true | _ => false
  | .id | .ref => isRefId v
  | .refList _ | .attachments => match v with
    | .none => true
    | .recordList .. => true
    | .list _ xs => xs.all isRefId
    | _ => false

/-! ### encode_object / decode_object -/

/-- `result = [name, message, details, user_input]` with trailing `None`s trimmed
    (`while len(result) > 1 and result[-1] is None: result.pop()`) -/
def encodeArgs (name msg details : Enc) (ui : Option Enc) : List Enc :=
  match ui with
  | some u => [name, msg, details, .dict [(['u'], false)] [u]]
  | none =>
    match details with
    | .none => (match msg with | .none => [name] | _ => [name, msg])
    | _ => [name, msg, details]

def allStrKeys : List PyVal → Option (List (Str × Bool))
  | [] => some []
  | .str s sub :: ks => (match allStrKeys ks with | some r => some ((s, sub) :: r) | none => Option.none)
  | _ :: _ => Option.none

mutual
/-- objtypes.encode_object -/
def encode (P : Prim) : PyVal → Enc
  -- if type(value) in (str, float, bool) or value is None: return value
  -- elif isinstance(value, str): return str(value)   (etc.: subclasses are cast to the base type)
  | .none => .none
  | .bool b => .bool b
  | .float f _ => .float f
  | .str s _ => .str s
  -- elif isinstance(value, bytes): return value.decode('utf8')
  | .bytes m _ u _ => (match u with | some s => .str s | none => .list [.str ['U'], .str m.safeRepr])
  -- elif isinstance(value, int): if not is_int_short(value): return ['U', str(value)]; return int(value)
  | .int n _ => if isShort n then .int n else .list [.str ['U'], .str (decInt n)]
  -- elif isinstance(value, AltText): return str(value)
  | .altText s => .str s
  -- elif isinstance(value, records.Record): return ['R', value._table.table_id, value._row_id]
  | .record t r => .list [.str ['R'], .str t, .int r]
  | .recordStub _ t r => .list [.str ['R'], t, r]
  -- elif isinstance(value, datetime): return ['D', moment.dt_to_ts(value), zone name or 'UTC']
  | .datetime m _ _ ets z =>
    (match ets, z with
     | some ts, some zn => .list [.str ['D'], .float ts, .str zn]
     | _, _ => .list [.str ['U'], .str m.safeRepr])
  -- elif isinstance(value, date): return ['d', moment.date_to_ts(value)]
  | .date _ d _ => .list [.str ['d'], .float (.int (d * 86400))]
  -- elif isinstance(value, RaisedException): return ['E'] + value.encode_args()
  | .raised _ name msg details ui =>
    .list (.str ['E'] :: encodeArgs name msg details (encodeUi P ui))
  -- elif isinstance(value, (list, tuple)): return ['L'] + [encode_object(item) for item in value]
  | .list _ xs => .list (.str ['L'] :: encodeL P xs)
  | .tuple _ xs => .list (.str ['L'] :: encodeL P xs)
  | .recordList rows _ _ => .list (.str ['L'] :: rows.map (fun r => if isShort r then Enc.int r else .list [.str ['U'], .str (decInt r)]))
  -- elif isinstance(value, records.RecordSet): return ['r', table_id, value._get_encodable_row_ids()]
  | .recordSet t rows tup _ _ _ =>
    .list [.str ['r'], .str t, (if tup then Enc.tuple (rows.map Enc.int) else Enc.list (rows.map Enc.int))]
  | .recordSetStub _ t rows => .list [.str ['r'], t, rows]
  -- elif isinstance(value, dict):
  --   if not all(isinstance(key, str) for key in value): raise UnmarshallableError
  --   return ['O', {key: encode_object(val) for key, val in value.items()}]
  | .dict m ks vs =>
    (match allStrKeys ks with
     | some keys => .list [.str ['O'], .dict keys (encodeL P vs)]
     | none => .list [.str ['U'], .str m.safeRepr])
  | .pending _ => .list [.str ['P']]
  | .censored _ => .list [.str ['C']]
  -- elif isinstance(value, UnmarshallableValue): return ['U', value.value_repr]
  | .unmarshallable _ r => .list [.str ['U'], r]
  -- return ['U', safe_repr(value)]
  | .set m _ => .list [.str ['U'], .str m.safeRepr]
  | .opaque m _ => .list [.str ['U'], .str m.safeRepr]
def encodeL (P : Prim) : List PyVal → List Enc
  | [] => []
  | x :: xs => encode P x :: encodeL P xs
/-- `{"u": encode_object(self.user_input)}` if has_user_input() else None -/
def encodeUi (P : Prim) : List PyVal → Option Enc
  | [] => Option.none
  | x :: _ => some (encode P x)
end

/-- the integer number of days of `DATE_EPOCH + timedelta(seconds=n)` -/
def daysOfSeconds (n : Int) : Int := n / 86400     -- `/` on Int is floor division for a positive divisor, like timedelta's normalisation

def minDays : Int := -719162     -- date(1,1,1)
def maxDays : Int := 2932896     -- date(9999,12,31)

/-- moment.ts_to_date(ts) = DATE_EPOCH + timedelta(seconds=ts) -/
def tsToDate (P : Prim) (a : Enc) : Except Str PyVal :=
  let ofInt (n : Int) : Except Str PyVal :=
    -- timedelta(seconds=n) needs |days| <= 999999999
    let d := daysOfSeconds n
    if decide (minDays ≤ d) && decide (d ≤ maxDays) then .ok (P.dateNode d) else exc "OverflowError"
  match a with
  | .int n => ofInt n
  | .bool b => ofInt (if b then 1 else 0)
  | .float (.int n) => ofInt n
  | .float .negZero => ofInt 0
  | .float (.nan _) => exc "ValueError"
  | .float (.inf _) => exc "OverflowError"
  | .float f => P.tsToDateFrac f
  | _ => exc "TypeError"

/-- `RaisedException(e)` built in decode_object's `except`: only `_name` is set -/
def failedS (P : Prim) (cls : Str) : PyVal :=
  .raised (P.raisedMeta (.str cls) .none .none []) (.str cls) .none .none []
def failed (P : Prim) (cls : String) : PyVal := failedS P cls.toList

mutual
/-- a marshalled structure seen as a Python value (decode_object returns non-lists unchanged) -/
def ofEnc (P : Prim) : Enc → PyVal
  | .none => .none
  | .bool b => .bool b
  | .int n => .int n false
  | .float f => .float f false
  | .str s => .str s false
  | .list xs => .list (P.listMeta (ofEncL P xs)) (ofEncL P xs)
  | .tuple xs => .tuple (P.tupleMeta (ofEncL P xs)) (ofEncL P xs)
  | .dict ks vs => .dict (P.dictMeta (ks.map (fun k => .str k.1 k.2)) (ofEncL P vs))
                         (ks.map (fun k => .str k.1 k.2)) (ofEncL P vs)
def ofEncL (P : Prim) : List Enc → List PyVal
  | [] => []
  | x :: xs => ofEnc P x :: ofEncL P xs
end

mutual
/-- objtypes.decode_object (never raises: failures become RaisedException(e), whose encoding is
    ['E', type(e).__name__]) -/
def decode (P : Prim) : Enc → PyVal
  -- if not isinstance(value, (list, tuple)): return value
  | .none => .none
  | .bool b => .bool b
  | .int n => .int n false
  | .float f => .float f false
  | .str s => .str s false
  | .dict ks vs => ofEnc P (.dict ks vs)           -- returned as is (values NOT decoded)
  | .list xs => decodeTagged P xs
  | .tuple xs => decodeTagged P xs
def decodeTagged (P : Prim) : List Enc → PyVal
  | [] => failed P "IndexError"                    -- code = value[0]
  | code :: args =>
    match code with
    | .str ['R'] =>
      (match args with
       | t :: r :: _ => .recordStub (P.stubMeta "RecordStub".toList [t, r]) t r
       | _ => failed P "IndexError")
    | .str ['r'] =>
      (match args with
       | t :: r :: _ => .recordSetStub (P.stubMeta "RecordSetStub".toList [t, r]) t r
       | _ => failed P "IndexError")
    | .str ['D'] =>
      (match args with
       | ts :: z :: _ => (match P.tsToDt ts z with | .ok d => d | .error e => failedS P e)
       | _ => failed P "IndexError")
    | .str ['d'] =>
      (match args with
       | ts :: _ => (match tsToDate P ts with | .ok d => d | .error e => failedS P e)
       | _ => failed P "IndexError")
    | .str ['E'] => decodeArgs P args
    | .str ['L'] => .list (P.listMeta (decodeL P args)) (decodeL P args)
    | .str ['l'] => (match P.refLookup args with | .ok d => d | .error e => failedS P e)
    | .str ['O'] =>
      (match args with
       | .dict ks vs :: _ =>
         .dict (P.dictMeta (ks.map (fun k => .str k.1 k.2)) (decodeL P vs))
               (ks.map (fun k => .str k.1 k.2)) (decodeL P vs)
       | [] => failed P "IndexError"
       | _ :: _ => failed P "AttributeError")     -- args[0].items()
    | .str ['P'] => .pending (P.stubMeta "object".toList [])
    | .str ['C'] => .censored (P.stubMeta "CensoredValue".toList [])
    | .str ['U'] =>
      (match args with
       | r :: _ => .unmarshallable (P.stubMeta "UnmarshallableValue".toList [r]) r
       | [] => failed P "IndexError")
    | _ => failed P "KeyError"                     -- raise KeyError("Unknown object type code %r")
/-- RaisedException.decode_args(*args):
      exc._name = safe_shift(args); exc._message = safe_shift(args); exc.details = safe_shift(args)
      exc.user_input = safe_shift(args, {})
      exc.user_input = decode_object(exc.user_input.get("u", RaisedException.NO_INPUT)) -/
def decodeArgs (P : Prim) : List Enc → PyVal
  | [] => failed P "AssertionError"               -- assert args
  | [name] => .raised (P.raisedMeta name .none .none []) name .none .none []
  | [name, msg] => .raised (P.raisedMeta name msg .none []) name msg .none []
  | [name, msg, details] => .raised (P.raisedMeta name msg details []) name msg details []
  | name :: msg :: details :: ui :: _ =>
    match ui with
    | .none => .raised (P.raisedMeta name msg details []) name msg details []
    | .dict ks vs =>
      .raised (P.raisedMeta name msg details (decodeU P ks vs)) name msg details (decodeU P ks vs)
    | _ => failed P "AttributeError"              -- no .get on a non-dict
def decodeL (P : Prim) : List Enc → List PyVal
  | [] => []
  | x :: xs => decode P x :: decodeL P xs
/-- `decode_object(d.get("u", NO_INPUT))` as a 0/1-element list -/
def decodeU (P : Prim) : List (Str × Bool) → List Enc → List PyVal
  | k :: ks, v :: vs => if k.1 = ['u'] then [decode P v] else decodeU P ks vs
  | _, _ => []
end


/-! ### column.py: per-column `convert` wrappers and `set` normalisations  (C23, C07) -/

/-- ReferenceListColumn.convert, before `super().convert(val)`:
      if val:
        if isinstance(val, int): val = [val]
        elif self._target_table and isinstance(val, self._target_table.Record): val = [val.id]
    (`val.id` of a Record of an existing row is its row id; ReferenceLookup values are not modelled) -/
def refListColPre (P : Prim) (tid : Str) (v : PyVal) : PyVal :=
  match truthy v with
  | some true =>
    (match v with
     | .bool _ => .list (P.listMeta [v]) [v]
     | .int _ _ => .list (P.listMeta [v]) [v]
     | .record t r => if t = tid then .list (P.listMeta [.int r false]) [.int r false] else v
     | _ => v)
  | _ => v

/-- `column.convert(value)`: ReferenceColumn / ReferenceListColumn adapt the value first, every
    other column class calls `type_obj.convert` directly. -/
def colConvert (P : Prim) (τ : ColType) (v : PyVal) : PyVal :=
  match τ with
  -- ReferenceColumn.convert:  elif isinstance(val, list): val = val[0] if val else 0
  | .ref =>
    (match v with
     | .list _ (x :: _) => convert P .ref x
     | .list _ [] => convert P .ref (.int 0 false)
     | .recordList (r :: _) _ _ => convert P .ref (.int r false)
     | .recordList [] _ _ => convert P .ref (.int 0 false)
     | _ => convert P .ref v)
  | .refList t => convert P (.refList t) (refListColPre P t v)
  | .attachments => convert P .attachments (refListColPre P attachmentsTable v)
  | _ => convert P τ v

/-- Python `value == k` for a small int `k` (BoolColumn.set compares with 1 and 0) -/
def pyEqInt (v : PyVal) (k : Int) : Bool :=
  match v with
  | .bool b => (if b then 1 else 0) == k
  | .int n _ => n == k
  | .float (.int n) _ => n == k
  | .float .negZero _ => k == 0
  | _ => false

/-- `column.set(row, value)`: what ends up in the cell.  The only raising case is
    NumericColumn.set's `float(value)` on an int beyond the float range (OverflowError). -/
def colSet (P : Prim) (τ : ColType) (v : PyVal) : Except Str PyVal :=
  match τ with
  -- BoolColumn.set: True if value == 1 else (False if value == 0 else value)
  | .bool => if pyEqInt v 1 then .ok (.bool true) else if pyEqInt v 0 then .ok (.bool false) else .ok v
  -- NumericColumn.set (also Date, DateTime, PositionNumber, ManualSortPos columns):
  --   float(value) if type(value) == int else value
  | .numeric | .date | .dateTime | .positionNumber | .manualSortPos =>
    (match v with
     | .int n false => (match floatOfInt P n with | .ok f => .ok (.float f false) | .error e => .error e)
     | _ => .ok v)
  -- ChoiceListColumn.set: a str starting with '[' -> tuple(json.loads(value)) (on failure: as is);
  --   a list -> tuple(value)
  | .choiceList =>
    (match v with
     | .str s _ =>
       if startsBracket s then
         (match P.jsonLoads s with
          | some parsed => (match pyIter parsed with
            | .ok items => .ok (.tuple (P.tupleMeta items) items)
            | .error _ => .ok v)
          | none => .ok v)
       else .ok v
     | .list _ xs => .ok (.tuple (P.tupleMeta xs) xs)
     | .recordList rows _ _ => .ok (.tuple (P.tupleMeta (rows.map (fun r => .int r false))) (rows.map (fun r => .int r false)))
     | _ => .ok v)
  -- ReferenceColumn._clean_up_value: a float that is a positive small integer becomes that int
  | .ref =>
    (match v with
     | .float (.int n) false => if decide (n > 0) && isShort n then .ok (.int n false) else .ok v
     | _ => .ok v)
  -- ReferenceListColumn._clean_up_value: the same string forms do_convert understands
  | .refList _ | .attachments => .ok (refListPre P v)
  | _ => .ok v

/-! ### Python `==`, objtypes.strict_equal, objtypes.equal_encoding -/

/-- numeric value of bool/int/float for `==`: `inl n` an integer value, `inr bits` a non-integral
    finite float; none = not a number, or NaN (equal to nothing), or ±inf handled separately -/
inductive NumK where
  | int (n : Int) | frac (bits : Nat) | inf (neg : Bool)
deriving DecidableEq

def numKey : PyVal → Option NumK
  | .bool b => some (.int (if b then 1 else 0))
  | .int n _ => some (.int n)
  | .float (.int n) _ => some (.int n)
  | .float .negZero _ => some (.int 0)
  | .float (.frac b _) _ => some (.frac b)
  | .float (.inf s) _ => some (.inf s)
  | _ => Option.none

mutual
/-- Python `a == b` for two DISTINCT objects of the classes cells can hold (objects compared by
    identity -- errors, stubs, foreign objects -- are therefore unequal; dict/set not needed) -/
def pyEq : PyVal → PyVal → Bool
  | .none, b => (match b with | .none => true | _ => false)
  | .bool x, b => (match numKey b with | some k => decide (k = .int (if x then 1 else 0)) | none => false)
  | .int n _, b => (match numKey b with | some k => decide (k = .int n) | none => false)
  | .float f s, b => (match numKey (.float f s), numKey b with | some k, some k' => decide (k = k') | _, _ => false)
  | .str s _, b => (match b with | .str s' _ => decide (s = s') | _ => false)
  | .bytes _ i _ _, b => (match b with | .bytes _ i' _ _ => decide (i = i') | _ => false)
  | .list _ xs, b => (match b with
      | .list _ ys => pyEqL xs ys
      | .recordList rows _ _ => pyEqL xs (rows.map (fun r => .int r false))
      | _ => false)
  | .tuple _ xs, b => (match b with | .tuple _ ys => pyEqL xs ys | _ => false)
  | .recordList rows _ _, b => (match b with
      | .recordList rows' _ _ => decide (rows = rows')
      | _ => false)
  | .date _ d _, b => (match b with | .date _ d' _ => decide (d = d') | _ => false)
  | .record t r, b => (match b with | .record t' r' => decide (t = t') && decide (r = r') | _ => false)
  | .altText s, b => (match b with | .altText s' => decide (s = s') | _ => false)
  | _, _ => false
def pyEqL : List PyVal → List PyVal → Bool
  | [], ys => (match ys with | [] => true | _ => false)
  | x :: xs, ys => (match ys with | y :: ys' => pyEq x y && pyEqL xs ys' | [] => false)
end

/-- `type(a) == type(b)` -/
def sameClass : PyVal → PyVal → Bool
  | .none, .none => true
  | .bool _, .bool _ => true
  | .int _ s, .int _ s' => !s && !s'
  | .float _ s, .float _ s' => !s && !s'
  | .str _ s, .str _ s' => !s && !s'
  | .bytes .., .bytes .. => true
  | .list .., .list .. => true
  | .tuple .., .tuple .. => true
  | .recordList .., .recordList .. => true
  | .date .., .date .. => true
  | .record t _, .record t' _ => decide (t = t')
  | .altText _, .altText _ => true
  | _, _ => false

/-- objtypes.strict_equal for two distinct objects: `type(a) == type(b) and a == b` -/
def strictEq (a b : PyVal) : Bool := sameClass a b && pyEq a b

mutual
/-- the same comparison without Python's numeric coercions (True == 1, 0.0 == 0, -0.0 == 0.0):
    bools only equal bools, ints only ints, floats bit for bit -/
def exactEq : PyVal → PyVal → Bool
  | .none, b => (match b with | .none => true | _ => false)
  | .bool x, b => (match b with | .bool y => decide (x = y) | _ => false)
  | .int n _, b => (match b with | .int m _ => decide (n = m) | _ => false)
  | .float f _, b => (match b with | .float g _ => decide (f = g) | _ => false)
  | .str s _, b => (match b with | .str s' _ => decide (s = s') | _ => false)
  | .list _ xs, b => (match b with | .list _ ys => exactEqL xs ys | _ => false)
  | .tuple _ xs, b => (match b with | .tuple _ ys => exactEqL xs ys | _ => false)
  | .recordList rows _ _, b => (match b with | .recordList rows' _ _ => decide (rows = rows') | _ => false)
  | _, _ => false
def exactEqL : List PyVal → List PyVal → Bool
  | [], ys => (match ys with | [] => true | _ => false)
  | x :: xs, ys => (match ys with | y :: ys' => exactEq x y && exactEqL xs ys' | [] => false)
end

/-- numeric value of a marshalled scalar for `==` -/
def encNumKey : Enc → Option NumK
  | .bool b => some (.int (if b then 1 else 0))
  | .int n => some (.int n)
  | .float (.int n) => some (.int n)
  | .float .negZero => some (.int 0)
  | .float (.frac b _) => some (.frac b)
  | .float (.inf s) => some (.inf s)
  | _ => Option.none

mutual
/-- Python `==` on two marshalled structures that are distinct objects (a NaN is unequal to any
    NaN; 1 == 1.0 == True; list != tuple; dicts compare as sets of items) -/
def encEq : Enc → Enc → Bool
  | .none, b => (match b with | .none => true | _ => false)
  | .bool x, b => (match encNumKey b with | some k => decide (k = .int (if x then 1 else 0)) | none => false)
  | .int n, b => (match encNumKey b with | some k => decide (k = .int n) | none => false)
  | .float f, b => (match encNumKey (.float f), encNumKey b with | some k, some k' => decide (k = k') | _, _ => false)
  | .str s, b => (match b with | .str s' => decide (s = s') | _ => false)
  | .list xs, b => (match b with | .list ys => encEqL xs ys | _ => false)
  | .tuple xs, b => (match b with | .tuple ys => encEqL xs ys | _ => false)
  | .dict ks vs, b => (match b with
      | .dict ks' vs' => decide (ks.length = ks'.length) && encEqD ks vs ks' vs'
      | _ => false)
def encEqL : List Enc → List Enc → Bool
  | [], ys => (match ys with | [] => true | _ => false)
  | x :: xs, ys => (match ys with | y :: ys' => encEq x y && encEqL xs ys' | [] => false)
/-- every item (k, v) of the first dict has an equal item under the same key in the second -/
def encEqD : List (Str × Bool) → List Enc → List (Str × Bool) → List Enc → Bool
  | k :: ks, v :: vs, ks', vs' => encEqAt k.1 v ks' vs' && encEqD ks vs ks' vs'
  | _, _, _, _ => true
def encEqAt (key : Str) : Enc → List (Str × Bool) → List Enc → Bool
  | v, k' :: ks', v' :: vs' => if k'.1 = key then encEq v v' else encEqAt key v ks' vs'
  | _, _, _ => false
end

def PyVal.isFloat : PyVal → Bool
  | .float .. => true
  | _ => false
def PyVal.isBool : PyVal → Bool
  | .bool _ => true
  | _ => false

/-- objtypes.equal_encoding(a, b) for two distinct objects -/
def equalEncoding (P : Prim) (a b : PyVal) : Bool :=
  match a, b with
  -- if isinstance(a, float) and isinstance(b, float): return a == b or (isnan(a) and isnan(b))
  | .float f _, .float g _ =>
    (match f, g with
     | .nan _, .nan _ => true
     | _, _ => (match numKey a, numKey b with | some k, some k' => decide (k = k') | _, _ => false))
  | _, _ =>
    -- if isinstance(a, bool) or isinstance(b, bool): return type(a) == type(b) and a == b
    if a.isBool || b.isBool then
      (match a, b with | .bool x, .bool y => decide (x = y) | _, _ => false)
    -- return encode_object(a) == encode_object(b)
    else encEq (encode P a) (encode P b)

/-! ### useractions.doModifyColumn, one cell  (C23) -/

/-- The cell after a type change to `τ'`:
      docactions.ModifyColumn:   new_column.set(row_id, old_column.raw_get(row_id))
      useractions.doModifyColumn:
        new_value = new_column.convert(orig_value)
        if not strict_equal(orig_value, new_value): new_column.set(row_id, new_value)
    error = the exception that aborts the whole action -/
def modifyCell (P : Prim) (τ' : ColType) (old : PyVal) : Except Str PyVal :=
  match colSet P τ' old with
  | .error e => .error e
  | .ok raw =>
    if strictEq old (colConvert P τ' old) then .ok raw
    else colSet P τ' (colConvert P τ' old)

/-! ### main._decode_db_value after marshalling  (C07)
    The property's procedure stores a scalar encoding as itself and a compound encoding (a list)
    as a marshalled blob; `_decode_db_value` unmarshals blobs and applies `decode_object`, and
    returns everything else as is.  `decode_object` is the identity on scalars, so both cases are
    `decode`. -/
def dbDecode (P : Prim) (e : Enc) : PyVal :=
  match e with
  | .list xs => decode P (.list xs)      -- bytes blob: objtypes.decode_object(marshal.loads(value))
  | .tuple xs => decode P (.tuple xs)
  | e => ofEnc P e                       -- any other type: the value itself

/-- the cell found after reloading a cell `s` of a column of type `τ`: load_table -> column.set -/
def reloadCell (P : Prim) (τ : ColType) (s : PyVal) : Except Str PyVal :=
  colSet P τ (dbDecode P (encode P s))

end Grist.PyVal
