/-
Model of sandbox/grist/identifiers.py  (property C21).

Strings are `List Char`.  Three things of the real code are PARAMETERS of the model, supplied by
the caller (the Python harness computes them with the very stdlib calls the real code makes):

* `unicodedata.normalize('NFKD', s)` followed by dropping `unicodedata.combining` characters:
  the model's functions receive the string AFTER this step (`None` is received as `""`, other
  objects as `str(obj)`), and model everything that follows exactly.
* `_uppercase(avoid)` = `{name.upper() for name in avoid}` with Python's full-Unicode `str.upper`:
  the model's functions receive the avoid set ALREADY upper-cased (as a list).  The real code
  re-applies `_uppercase` to already upper-cased sets (pick_col_ident_list → pick_col_ident →
  _gen_ident); that is the identity because `str.upper` is idempotent (checked by the harness on
  every code point on every run).  `ident.upper()` of the ASCII strings the code produces is the
  ASCII upper-casing `upperStr` below.
* `keyword.iskeyword` = membership in `keyword.kwlist`: the list `kws` is an explicit argument
  (instantiated with `Grist.Generated.pyKeywordChars`, regenerated from Python on every run).

The three unbounded loops of the real code (`while iskeyword`, `while True` in `_add_suffix`,
`for letter in _make_letters()`) all have the form "first n ≥ start with P n"; they are modelled by
`firstIdx` with explicit fuel (|kws|+1, |avoid|+1, |avoid|+1) and return `none` when the fuel runs
out.  GristProps/C21.lean PROVES the fuel always suffices (pigeonhole), i.e. termination.
-/
namespace Grist.Identifiers

abbrev Str := List Char

/-- `[a-zA-Z0-9_]` (the complement of `_invalid_ident_char_re`'s class; ASCII ranges only). -/
def isIdentChar (c : Char) : Bool := c.isAlpha || c.isDigit || c == '_'

/-- `str.upper()` restricted to ASCII strings (all strings the code upper-cases itself are ASCII). -/
def upperStr (s : Str) : Str := s.map Char.toUpper

/-- `_invalid_ident_char_re.sub('_', ident)` with `_invalid_ident_char_re = [^a-zA-Z0-9_]+`:
    every maximal run of invalid characters becomes ONE underscore.  `inRun` = the previous
    character was invalid (and has already produced its underscore). -/
def subInvalid : Bool → Str → Str
  | _, [] => []
  | inRun, c :: cs =>
    if isIdentChar c then c :: subInvalid false cs
    else if inRun then subInvalid true cs
    else '_' :: subInvalid true cs

/-- `.lstrip('_')` -/
def lstripUnderscore (s : Str) : Str := s.dropWhile (· == '_')

/-- `_invalid_ident_start_re.sub(prefix, ident)` with `_invalid_ident_start_re = ^(?=[0-9_])`:
    insert `prefix` at the start iff the first character is a digit or an underscore. -/
def fixStart (pre : Str) : Str → Str
  | [] => []
  | c :: cs => if c.isDigit || c == '_' then pre ++ c :: cs else c :: cs

/-- `ident[0].capitalize() + ident[1:]` (the first character is ASCII when `prefix` is). -/
def capitalizeFirst : Str → Str
  | [] => []
  | c :: cs => c.toUpper :: cs

/-- The first `n` in `[start, start+fuel)` with `p n`; `none` when there is none (out of fuel). -/
def firstIdx (p : Nat → Bool) : (fuel start : Nat) → Option Nat
  | 0, _ => none
  | fuel + 1, n => if p n then some n else firstIdx p fuel (n + 1)

/-- `prefix + prefix + … + ident` (`k` copies): the value of `ident` after `k` rounds of
    `ident = prefix + ident`. -/
def prependN (pre : Str) : Nat → Str → Str
  | 0, s => s
  | k + 1, s => pre ++ prependN pre k s

/--
def _sanitize_ident(ident, prefix="c", capitalize=False):
  ident = u"" if ident is None else str(ident)
  ident = unicodedata.normalize('NFKD', ident)                                -- parameter
  ident = "".join(c for c in ident if not unicodedata.combining(c))           -- parameter
  ident = _invalid_ident_char_re.sub('_', ident).lstrip('_')
  ident = _invalid_ident_start_re.sub(prefix, ident)
  if not ident:
    return ident
  if capitalize:
    ident = ident[0].capitalize() + ident[1:]
  while iskeyword(ident):
    ident = prefix + ident
  return ident
`none` = the keyword loop ran out of fuel (the real loop does not terminate: only possible with
an empty prefix). -/
def sanitizeIdent (kws : List Str) (s : Str) (pre : Str) (capitalize : Bool) : Option Str :=
  let s1 := lstripUnderscore (subInvalid false s)
  let s2 := fixStart pre s1
  if s2.isEmpty then some []
  else
    let s3 := if capitalize then capitalizeFirst s2 else s2
    (firstIdx (fun k => !(kws.contains (prependN pre k s3))) (kws.length + 1) 0).map
      (fun k => prependN pre k s3)

/-- `_ends_in_digit_re = \d$` on the ASCII, newline-free strings it is applied to. -/
def endsInDigit (s : Str) : Bool :=
  match s.getLast? with
  | some c => c.isDigit
  | none => false

/-- `ident_base` after `if _ends_in_digit_re.search(ident_base): ident_base += "_"`. -/
def suffixBase (base : Str) : Str := if endsInDigit base then base ++ ['_'] else base

/-- `"%s%d" % (ident_base, n)` -/
def withSuffix (base : Str) (n : Nat) : Str := base ++ Nat.toDigits 10 n

/--
def _add_suffix(ident_base, avoid=set(), next_suffix=1):
  if _ends_in_digit_re.search(ident_base):
    ident_base += "_"
  while True:
    ident = "%s%d" % (ident_base, next_suffix)
    if ident.upper() not in avoid:
      return ident
    next_suffix += 1
-/
def addSuffix (base : Str) (avoid : List Str) (next : Nat) : Option Str :=
  let b := suffixBase base
  (firstIdx (fun n => !(avoid.contains (upperStr (withSuffix b n)))) (avoid.length + 1) next).map
    (withSuffix b)

/-- `return ident if (ident.upper() not in avoid) else _add_suffix(ident, avoid, 2)` -/
def maybeAddSuffix (ident : Str) (avoid : List Str) : Option Str :=
  if !(avoid.contains (upperStr ident)) then some ident else addSuffix ident avoid 2

/-- `ascii_uppercase[k]` -/
def upperLetter (k : Nat) : Char :=
  ['A','B','C','D','E','F','G','H','I','J','K','L','M','N','O','P','Q','R','S','T','U','V','W','X',
   'Y','Z'].getD k 'A'

/-- The `n`-th (0-based) string of `_make_letters()` = A, B, …, Z, AA, AB, …, AZ, BA, …
    (all `itertools.product(ascii_uppercase, repeat=length)` for length = 1, 2, …), written
    least-significant letter first. -/
def lettersRev (n : Nat) : Str :=
  upperLetter (n % 26) :: (if n < 26 then [] else lettersRev (n / 26 - 1))
termination_by n
decreasing_by omega

def letters (n : Nat) : Str := (lettersRev n).reverse

/--
def _gen_ident(avoid):
  avoid = _uppercase(avoid)                                                   -- parameter (identity)
  for letter in _make_letters():
    if letter not in avoid:
      return letter
-/
def genIdent (avoid : List Str) : Option Str :=
  (firstIdx (fun i => !(avoid.contains (letters i))) (avoid.length + 1) 0).map letters

/--
def pick_table_ident(ident, avoid=set()):
  avoid = _uppercase(avoid)                                                   -- parameter
  ident = _sanitize_ident(ident, prefix="T", capitalize=True)
  return _maybe_add_suffix(ident, avoid) if ident else _add_suffix("Table", avoid, 1)
-/
def pickTableIdent (kws : List Str) (s : Str) (avoid : List Str) : Option Str :=
  match sanitizeIdent kws s ['T'] true with
  | none => none
  | some [] => addSuffix ['T','a','b','l','e'] avoid 1
  | some ident => maybeAddSuffix ident avoid

/--
def pick_col_ident(ident, avoid=set()):
  avoid = _uppercase(avoid)                                                   -- parameter
  ident = _sanitize_ident(ident, prefix="c")
  return _maybe_add_suffix(ident, avoid) if ident else _gen_ident(avoid)
-/
def pickColIdent (kws : List Str) (s : Str) (avoid : List Str) : Option Str :=
  match sanitizeIdent kws s ['c'] false with
  | none => none
  | some [] => genIdent avoid
  | some ident => maybeAddSuffix ident avoid

/--
def pick_col_ident_list(ident_list, avoid=set()):
  avoid = _uppercase(avoid)                                                   -- parameter
  result = []
  for ident in ident_list:
    ident = pick_col_ident(ident, avoid=avoid)
    avoid.add(ident.upper())
    result.append(ident)
  return result
-/
def pickColIdentList (kws : List Str) : List Str → List Str → Option (List Str)
  | [], _ => some []
  | s :: rest, avoid =>
    match pickColIdent kws s avoid with
    | none => none
    | some ident =>
      match pickColIdentList kws rest (upperStr ident :: avoid) with
      | none => none
      | some r => some (ident :: r)

/-! ### Specification vocabulary (used by the theorems in GristProps/C21.lean) -/

/-- `[A-Za-z][A-Za-z0-9_]*` — Grist's identifier shape (ASCII; in particular a valid Python
    identifier that starts with neither a digit nor an underscore). -/
def identShape : Str → Bool
  | [] => false
  | c :: cs => c.isAlpha && cs.all isIdentChar

/-- first character is one of `A`…`Z` -/
def startsUpper : Str → Bool
  | [] => false
  | c :: _ => c.isUpper

/-- What the proofs need to know about the keyword list (checked by `decide` on the generated list):
    no keyword ends in a digit, none consists of upper-case letters only. -/
def kwOK (kws : List Str) : Bool :=
  kws.all (fun k => !endsInDigit k && !k.all Char.isUpper)

end Grist.Identifiers
