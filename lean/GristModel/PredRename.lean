/-
Model of the rename machinery for predicate formulas:
  predicate_formula.process_renames, acl._ACLEntityCollector, dropdown_condition._DCEntityCollector,
  trigger_expression._TriggerEntityCollector, the three `renamer` closures of
  acl.perform_acl_rule_renames / dropdown_condition.perform_dropdown_condition_renames /
  trigger_expression.perform_trigger_condition_renames, and the non-formula parts of
  perform_acl_rule_renames (resource colIds, userAttributes.lookupColId).

PARAMETERS (Python's, checked differentially, never modelled):
  * `D : Str → Option (List Nat)`  — `get_dollar_replacer(formula)`: the positions of the `$` signs
    that the parser sees as the start of a Name token (`none` = the parse inside
    get_dollar_replacer raises SyntaxError);
  * `P : Str → Option (PExpr × List Nat)` — `ast.parse(text, mode='eval')` + asttokens: the AST and,
    for every Attribute node in the order TreeConverter visits them, `node.last_token.startpos`
    (`none` = SyntaxError).
The text machinery is the Textbuilder model (GristModel/Textbuilder.lean), the tree converter is
`Grist.Predicate.convert` (GristModel/Predicate.lean): every collector IS a TreeConverter whose
`visit_Attribute` also records an entity.
-/
import GristModel.Predicate
import GristModel.Textbuilder
namespace Grist.PredRename
open Grist.Predicate Grist.Textbuilder

/-! ## Entities and collectors -/

inductive Kind where | acl | dc | trigger
deriving DecidableEq, Repr

inductive EType where | recCol | userAttr | userAttrCol | choiceAttr
deriving DecidableEq, Repr

def EType.name : EType → String
  | .recCol => "recCol" | .userAttr => "userAttr" | .userAttrCol => "userAttrCol"
  | .choiceAttr => "choiceAttr"

/-- `NamedEntity(type, start_pos, name, extra)` -/
structure Entity where
  type : EType
  pos : Nat
  name : String
  extra : Option String
deriving DecidableEq, Repr

/-- `t == ['Name', n]` for some `n` -/
def asName : PTree → Option String
  | .list [.str tag, .str n] => if tag = "Name" then some n else none
  | _ => none

/-- `t[0] == 'Attr' and t[1] == ['Name', 'user']` → `t[2]` -/
def asUserAttr : PTree → Option String
  | .list [.str tag, p, .str a] =>
    if tag = "Attr" then
      match asName p with
      | some n => if n = "user" then some a else none
      | none => none
    else none
  | _ => none

/-- What `visit_Attribute` of the collector records, given `parent = self.visit(node.value)`.
    acl:      parent == ['Name','rec'] or ['Name','newRec'] → recCol;  ['Name','user'] → userAttr;
              parent[0] == 'Attr' and parent[1] == ['Name','user'] → userAttrCol (extra = parent[2])
    dc:       ['Name','choice'] → choiceAttr;  ['Name','rec'] → recCol
    trigger:  ['Name','rec'] or ['Name','oldRec'] → recCol -/
def classify (k : Kind) (parent : PTree) : Option (EType × Option String) :=
  match k with
  | .acl =>
    match asName parent with
    | some n =>
      if n = "rec" ∨ n = "newRec" then some (.recCol, none)
      else if n = "user" then some (.userAttr, none) else none
    | none =>
      match asUserAttr parent with
      | some a => some (.userAttrCol, some a)
      | none => none
  | .dc =>
    match asName parent with
    | some n =>
      if n = "choice" then some (.choiceAttr, none)
      else if n = "rec" then some (.recCol, none) else none
    | none => none
  | .trigger =>
    match asName parent with
    | some n => if n = "rec" ∨ n = "oldRec" then some (.recCol, none) else none
    | none => none

/-- One Attribute node as the collector sees it: the attribute name and what it was classified as. -/
structure NodeInfo where
  name : String
  cls : Option (EType × Option String)
deriving Repr

def classOf (k : Kind) (value : PExpr) : Option (EType × Option String) :=
  match convert value with
  | .ok parent => classify k parent
  | .error _ => none

mutual
/-- The Attribute nodes (`$x` is `rec.x`) in the order TreeConverter visits them
    (children before the node; Call: args, keywords, then func). -/
def nodes (k : Kind) : PExpr → List NodeInfo
  | .boolOp _ vs => nodesList k vs
  | .binOp _ l r => nodes k l ++ nodes k r
  | .unaryOp _ e => nodes k e
  | .compare l _ cs => nodes k l ++ nodesList k cs
  | .name _ => []
  | .dollar x => [⟨x, classify k (node "Name" [.str "rec"])⟩]
  | .const _ => []
  | .attr v a => nodes k v ++ [⟨a, classOf k v⟩]
  | .list es => nodesList k es
  | .tuple es => nodesList k es
  | .call f args kws => nodesList k args ++ nodesKws k kws ++ nodes k f
  | .unsupported _ cs => nodesList k cs
def nodesList (k : Kind) : List PExpr → List NodeInfo
  | [] => []
  | e :: es => nodes k e ++ nodesList k es
def nodesKws (k : Kind) : List Keyword → List NodeInfo
  | [] => []
  | .mk _ e :: ks => nodes k e ++ nodesKws k ks
end

/-- entities in visiting order: the classified nodes with their token positions. -/
def zipEntities : List NodeInfo → List Nat → List Entity
  | nd :: nds, p :: ps =>
    (match nd.cls with
     | some (t, x) => [⟨t, p, nd.name, x⟩]
     | none => []) ++ zipEntities nds ps
  | _, _ => []

/-- `collector.visit(atok.tree)`: `none` = SyntaxError (generic_visit / chained comparison),
    in which case process_renames returns the formula unchanged. -/
def collect (k : Kind) (e : PExpr) (poss : List Nat) : Option (List Entity) :=
  match convert e with
  | .ok _ => some (zipEntities (nodes k e) poss)
  | .error _ => none

/-! ## The renamers -/

/-- `{(table_id, col_id): new_col_id}` -/
abbrev Renames := List ((String × String) × String)

def Renames.get (ρ : Renames) (t c : String) : Option String :=
  match ρ.find? (fun r => r.1.1 == t && r.1.2 == c) with
  | some r => some r.2
  | none => none

structure Ctx where
  kind : Kind
  /-- acl: tableId of the rule's resource; dc: table of the column; trigger: table of the trigger -/
  table : String
  /-- dc: `usertypes.get_referenced_table_id(col.type)` -/
  refTable : Option String := none
  /-- acl: `user_attr_tables` (name ↦ tableId, possibly None) -/
  attrs : List (String × Option String) := []
  renames : Renames

def Ctx.attrTable (c : Ctx) (a : String) : Option String :=
  match c.attrs.find? (fun p => p.1 == a) with
  | some p => p.2
  | none => none

/-- acl:      recCol → resource table; userAttrCol → user_attr_tables.get(extra); else None
    dc:       table_id = ref_table_id if type == "choiceAttr" else self_table_id
    trigger:  renames.get((table_id, subject.name)) -/
def renamer (c : Ctx) (ent : Entity) : Option String :=
  match c.kind with
  | .acl =>
    match ent.type with
    | .recCol => c.renames.get c.table ent.name
    | .userAttrCol =>
      match ent.extra with
      | some a => (c.attrTable a).bind (fun t => c.renames.get t ent.name)
      | none => none
    | _ => none
  | .dc =>
    match ent.type with
    | .choiceAttr => c.refTable.bind (fun t => c.renames.get t ent.name)
    | _ => c.renames.get c.table ent.name
  | .trigger => c.renames.get c.table ent.name

/-! ## process_renames -/

inductive Outcome where
  | ok (text : Str)
  | syntaxError                    -- raised by get_dollar_replacer, outside the try
  | err (e : Textbuilder.Err)      -- ValueError / AssertionError from textbuilder
deriving Repr, DecidableEq

/-- `textbuilder.make_patch(formula, m.start(0), m.end(0), 'rec.')` for a `$` at `pos` -/
def dollarPatch (pos : Nat) : Patch := ⟨pos, pos + 1, ['$'], "rec.".toList⟩

/-- `dollar_replacer = get_dollar_replacer(formula)` = `Replacer(Text(formula), patches)` -/
def dollarBuilder (formula : Str) (ds : List Nat) : Builder :=
  .replacer (.text formula 0) (ds.map dollarPatch)

/-- for subject in collector.entities:
      new_name = renamer(subject)
      if new_name is not None:
        _, _, patch = dollar_replacer.map_back_patch(
          textbuilder.make_patch(dollar_replacer.get_text(), subject.start_pos,
                                 subject.start_pos + len(subject.name), new_name))
        patches.append(patch) -/
def mapPatches (db : Builder) (nodollar : Str) (c : Ctx) : List Entity → Except Textbuilder.Err (List Patch)
  | [] => .ok []
  | ent :: rest =>
    match renamer c ent with
    | none => mapPatches db nodollar c rest
    | some new =>
      let s : Int := ent.pos
      let e : Int := ent.pos + ent.name.length
      match mapBack db ⟨s, e, slice nodollar s e, new.toList⟩ with
      | .error er => .error er
      | .ok none => .error .attributeError      -- unpacking None: cannot happen with a Text leaf
      | .ok (some (_, _, q)) =>
        match mapPatches db nodollar c rest with
        | .error er => .error er
        | .ok qs => .ok (q :: qs)

/-- def process_renames(formula, collector, renamer):
      dollar_replacer = get_dollar_replacer(formula)            # may raise SyntaxError
      formula_nodollar = dollar_replacer.get_text()
      try:
        atok = asttokens.ASTTokens(formula_nodollar, tree=ast.parse(formula_nodollar, mode='eval'))
        collector.visit(atok.tree)
      except SyntaxError:
        return formula
      ... patches ...
      return textbuilder.Replacer(textbuilder.Text(formula), patches).get_text() -/
def processRenames (D : Str → Option (List Nat)) (P : Str → Option (PExpr × List Nat))
    (c : Ctx) (formula : Str) : Outcome :=
  match D formula with
  | none => .syntaxError
  | some ds =>
    let db := dollarBuilder formula ds
    match getText db with
    | .error e => .err e
    | .ok nodollar =>
      match P nodollar with
      | none => .ok formula
      | some (e, poss) =>
        match collect c.kind e poss with
        | none => .ok formula
        | some ents =>
          match mapPatches db nodollar c ents with
          | .error er => .err er
          | .ok patches =>
            match getText (.replacer (.text formula 0) patches) with
            | .error er => .err er
            | .ok t => .ok t

/-! ## Renaming the trees (what the new text must parse to) -/

def newName (c : Ctx) (name : String) (cls : Option (EType × Option String)) : String :=
  match cls with
  | some (t, x) => (renamer c ⟨t, 0, name, x⟩).getD name
  | none => name

mutual
/-- the AST with exactly the denoted references renamed. -/
def renameExpr (c : Ctx) : PExpr → PExpr
  | .boolOp op vs => .boolOp op (renameList c vs)
  | .binOp op l r => .binOp op (renameExpr c l) (renameExpr c r)
  | .unaryOp op e => .unaryOp op (renameExpr c e)
  | .compare l ops cs => .compare (renameExpr c l) ops (renameList c cs)
  | .name id => .name id
  | .dollar x => .dollar (newName c x (classify c.kind (node "Name" [.str "rec"])))
  | .const k => .const k
  | .attr v a => .attr (renameExpr c v) (newName c a (classOf c.kind v))
  | .list es => .list (renameList c es)
  | .tuple es => .tuple (renameList c es)
  | .call f args kws => .call (renameExpr c f) (renameList c args) (renameKws c kws)
  | .unsupported k cs => .unsupported k (renameList c cs)
def renameList (c : Ctx) : List PExpr → List PExpr
  | [] => []
  | e :: es => renameExpr c e :: renameList c es
def renameKws (c : Ctx) : List Keyword → List Keyword
  | [] => []
  | .mk a e :: ks => .mk a (renameExpr c e) :: renameKws c ks
end

/-- `["Attr", parent, name]`: the name is replaced according to what the OLD parent denotes. -/
def fixAttr (c : Ctx) (old new : List PTree) : List PTree :=
  match old, new with
  | [.str tag, p, .str a], [t, p', _] =>
    if tag = "Attr" then [t, p', .str (newName c a (classify c.kind p))] else new
  | _, _ => new

mutual
/-- the same renaming on the stored parsed form (nested lists, as in aclFormulaParsed). -/
def renameJson (c : Ctx) : PTree → PTree
  | .list xs => .list (fixAttr c xs (renameJsonList c xs))
  | t => t
def renameJsonList (c : Ctx) : List PTree → List PTree
  | [] => []
  | t :: ts => renameJson c t :: renameJsonList c ts
end

/-! ## Lexemes: a printed formula -/

/-- A printed formula is a sequence of lexemes: the name token of an Attribute node, a `$name`
    column reference, or anything else (names, operators, literals, blanks, comments, brackets). -/
inductive Lex where
  | attr (s : Str)
  | dollar (s : Str)
  | other (s : Str)
deriving Repr, DecidableEq

/-- the formula as stored -/
def Lex.textO : Lex → Str
  | .attr s => s
  | .dollar s => '$' :: s
  | .other s => s

/-- with `$` read as `rec.` -/
def Lex.textN : Lex → Str
  | .attr s => s
  | .dollar s => "rec.".toList ++ s
  | .other s => s

def printO : List Lex → Str
  | [] => []
  | l :: ls => l.textO ++ printO ls

def printN : List Lex → Str
  | [] => []
  | l :: ls => l.textN ++ printN ls

/-- positions (in the stored text) of the `$` of every `$name` lexeme -/
def dollarsFrom (off : Nat) : List Lex → List Nat
  | [] => []
  | .dollar s :: ls => off :: dollarsFrom (off + 1 + s.length) ls
  | l :: ls => dollarsFrom (off + l.textO.length) ls

/-- start of the NAME of lexeme `i` in the `rec.` text (what asttokens reports) -/
def namePosN : List Lex → Nat → Nat
  | [], _ => 0
  | .dollar _ :: _, 0 => 4
  | _ :: _, 0 => 0
  | l :: ls, i + 1 => l.textN.length + namePosN ls i

/-- start of the NAME of lexeme `i` in the stored text -/
def namePosO : List Lex → Nat → Nat
  | [], _ => 0
  | .dollar _ :: _, 0 => 1
  | _ :: _, 0 => 0
  | l :: ls, i + 1 => l.textO.length + namePosO ls i

/-- give lexeme `i + base` the name `sel (i + base)` if there is one -/
def renameLexFrom (sel : Nat → Option Str) (base : Nat) : List Lex → List Lex
  | [] => []
  | l :: ls =>
    (match l, sel base with
     | .attr _, some nw => .attr nw
     | .dollar _, some nw => .dollar nw
     | l, _ => l) :: renameLexFrom sel (base + 1) ls

/-- The new name (if any) of the lexeme with index `i`: `nds` are the visited nodes, `ixs` the index
    of the lexeme each of them was printed as. -/
def selFrom (c : Ctx) : List NodeInfo → List Nat → Nat → Option Str
  | nd :: nds, ix :: ixs, i =>
    if ix = i then
      match nd.cls with
      | some (t, x) => (renamer c ⟨t, 0, nd.name, x⟩).map String.toList
      | none => none
    else selFrom c nds ixs i
  | _, _, _ => none

/-! ## The other things perform_acl_rule_renames rewrites -/

/-- `','.join((col_renames_dict.get((t, c)) or c) for c in resource_rec.colIds.split(','))`
    on the already split list (an empty new name is falsy: `or c`). -/
def renameColIds (ρ : Renames) (t : String) (cols : List String) : List String :=
  cols.map (fun c => match ρ.get t c with
    | some n => if n = "" then c else n
    | none => c)

/-- `if resource_rec.colIds and resource_rec.colIds != '*'` and `if new_col_ids != colIds`:
    `some new` = an update is issued. -/
def resourceUpdate (ρ : Renames) (t : String) (cols : List String) : Option (List String) :=
  if cols = [] ∨ cols = ["*"] ∨ cols = [""] then none
  else
    let n := renameColIds ρ t cols
    if n = cols then none else some n

/-- `new_col_id = col_renames_dict.get((rule_info.get("tableId"), rule_info.get("lookupColId")))`
    `if new_col_id: rule_info["lookupColId"] = new_col_id` -/
def lookupColUpdate (ρ : Renames) (tableId lookupColId : Option String) : Option String :=
  match tableId, lookupColId with
  | some t, some c =>
    match ρ.get t c with
    | some n => if n = "" then none else some n
    | none => none
  | _, _ => none

end Grist.PredRename
