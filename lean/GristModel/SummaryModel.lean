/-
Model of summary-table maintenance in the Python data engine
(sandbox/grist/table.py `_add_update_summary_col`, `lookupOrAddDerived`, `getSummarySourceGroup`;
 docmodel.py `setAutoRemove` / `apply_auto_removes`; engine.py `apply_user_actions` tail).

A summary table `S` of a source table `T` has one data column per group-by column and the formula
column `group = table.getSummarySourceGroup(rec)`.  `T` gets a private helper formula column
`#summary#S` (`_updateSummary`) whose cell for a source row is the reference (simple tables) or
reference list (tables grouped by a ChoiceList / RefList column) of the summary rows the source
row belongs to; evaluating it ADDS the summary rows that do not exist yet.  `group` of a summary
row looks the helper column up (`lookup_records(**{helper: rec | CONTAINS(rec)})`), and
`setAutoRemove(rec, not result)` schedules summary rows whose group became empty for removal.

Values.  Group-by values are compared by the engine through the lookup key of the summary
table's column (rich value: `_convert_raw_value(convert(v))`, references by row id, AltText by
text).  The model takes values ALREADY interned under that equality (`Val`); only list elements
are ever ordered (`sorted(itertools.product(..))`): strings (choices) and row ids (references).
-/
import GristModel.SortedFind
namespace Grist.SummaryModel
open Grist.SortedFind (pySorted)

/-- A group-by key component, interned under the engine's key equality.
    `num` = integral numbers and row ids of references, `txt` = strings, `tok` = anything else
    (None, non-integral floats, dates, alt text, ...: an opaque token chosen by the harness). -/
inductive Val
  | num (n : Int)
  | txt (s : String)
  | tok (s : String)
deriving DecidableEq, Repr, Inhabited

abbrev Key := List Val

/-- One group-by cell of a source row.
    `scalar v`  : cell of a column that is not ChoiceList / RefList (any value, incl. alt text)
    `choices vs`: ChoiceList column holding a list (`None` = the empty list)
    `refs vs`   : RefList column holding a list of row ids (`None` = the empty list)
    `other`     : ChoiceList / RefList column holding a non-list value (alt text, number) -/
inductive Cell
  | scalar (v : Val)
  | choices (vs : List Val)
  | refs (vs : List Val)
  | other
deriving DecidableEq, Repr, Inhabited

structure SrcRow where
  id : Nat
  cells : List Cell
deriving DecidableEq, Repr

structure SumRow where
  id : Nat
  key : Key
  group : List Nat
deriving DecidableEq, Repr

/-! ### The property's `keysOf` (specification side) -/

/-- `set(lookup_value)`: the distinct elements (order irrelevant: the product is sorted later). -/
def dedup : List Val → List Val
  | [] => []
  | x :: xs => if x ∈ dedup xs then dedup xs else x :: dedup xs

/-- Key components one cell contributes: a list-valued cell one per DISTINCT element, an empty list
    the column type's default ('' for ChoiceList, 0 for RefList), a non-list value in a list
    column none, a scalar cell its value. -/
def cellKeys : Cell → List Val
  | .scalar v => [v]
  | .choices vs => if (dedup vs).isEmpty then [Val.txt ""] else dedup vs
  | .refs vs => if (dedup vs).isEmpty then [Val.num 0] else dedup vs
  | .other => []

/-- `itertools.product(*lists)` (in product order: first component varies slowest). -/
def product : List (List Val) → List Key
  | [] => [[]]
  | xs :: rest => xs.flatMap (fun x => (product rest).map (fun k => x :: k))

/-- The keys (tuples of group-by values) a source row belongs to. -/
def keysOf (cells : List Cell) : List Key := product (cells.map cellKeys)

/-! ### The code: helper column `_updateSummary` -/

/-- `self._summary_simple = not any(isinstance(source.all_columns.get(c), (ChoiceListColumn,
    ReferenceListColumn)) for c in groupby_cols)` -- decided per table by the column classes; every
    row of the table has the same cell kinds, so it is read off the row. -/
def rowSimple (cells : List Cell) : Bool :=
  cells.all (fun c => match c with | .scalar _ => true | _ => false)

/-- python `<` on the values that are ever ordered (elements of one list column: all strings, or
    all Records ordered by row id); different kinds never meet, they are ranked for totality. -/
def Val.rank : Val → Nat
  | .num _ => 0
  | .txt _ => 1
  | .tok _ => 2

def Val.lt : Val → Val → Bool
  | .num a, .num b => decide (a < b)
  | .txt a, .txt b => decide (a < b)
  | .tok a, .tok b => decide (a < b)
  | a, b => decide (a.rank < b.rank)

/-- python tuple `<` (first differing component decides; a proper prefix is smaller). -/
def keyLt : Key → Key → Bool
  | [], [] => false
  | [], _ :: _ => true
  | _ :: _, [] => false
  | a :: as, b :: bs => if a = b then keyLt as bs else a.lt b

/--
```
lookup_value = getattr(rec, group_col)
if isinstance(group_col_obj, (column.ChoiceListColumn, column.ReferenceListColumn)):
  if isinstance(lookup_value, (bytes, str)): return []
  try: lookup_value = set(lookup_value)
  except TypeError: return []
  if not lookup_value:
    lookup_value = {""} if isinstance(group_col_obj, column.ChoiceListColumn) else {0}
else:
  lookup_value = [lookup_value]
```
`none` = the early `return []`. -/
def lookupValues : Cell → Option (List Val)
  | .scalar v => some [v]
  | .choices vs => some (if (dedup vs).isEmpty then [Val.txt ""] else dedup vs)
  | .refs vs => some (if (dedup vs).isEmpty then [Val.num 0] else dedup vs)
  | .other => none

/-- The `for group_col in groupby_cols:` loop collecting `lookup_values` (`none` as soon as one
    cell makes the formula `return []`). -/
def allLookupValues : List Cell → Option (List (List Val))
  | [] => some []
  | c :: cs =>
    match lookupValues c with
    | none => none
    | some l => (allLookupValues cs).map (fun ls => l :: ls)

/-- `sorted(itertools.product(*lookup_values))` (`pySorted` = the shared model of `sorted()`, an
    insertion sort using `<` only; the tuples are pairwise different) -/
def sortedProduct (lvs : List (List Val)) : List Key := pySorted keyLt (product lvs)

/-- `summary_table.lookup_one_record(**values_dict)._row_id` (`none` = row id 0: no such row).
    The lookup result is ordered by row id and `get_one` takes the first. -/
def lookupOne (sum : List SumRow) (k : Key) : Option Nat :=
  (sum.find? (fun s => decide (s.key = k))).map (·.id)

/-- `Table.row_ids.max()` (0 for an empty table); `next_row_id() = max + 1`. -/
def maxId : List SumRow → Nat
  | [] => 0
  | s :: rest => max s.id (maxId rest)

/-- `BulkAddRecord(summary_table, [None]*n, values_to_add)`: consecutive new row ids; the `group`
    cell of a new row is empty until its formula is evaluated. -/
def addRows : List SumRow → List Key → List SumRow × List Nat
  | sum, [] => (sum, [])
  | sum, k :: ks =>
    let i := maxId sum + 1
    let r := addRows (sum ++ [⟨i, k, []⟩]) ks
    (r.1, i :: r.2)

/-- `{c: getattr(rec, c) for c in groupby_cols}` of a simple table. -/
def simpleKey (cells : List Cell) : Key :=
  cells.filterMap (fun c => match c with | .scalar v => some v | _ => none)

/--
Simple tables:
```
def _updateSummary(rec, table):
  return summary_table.lookupOrAddDerived(**{c: getattr(rec, c) for c in groupby_cols})
def lookupOrAddDerived(self, **kwargs):
  record = self.lookup_one_record(**kwargs)
  if not record._row_id and not self._engine.is_triggered_by_table_action(self.table_id):
    record._row_id = self._engine.user_actions.AddRecord(self.table_id, None, kwargs)
  return record
```
`guard` = `is_triggered_by_table_action(summary_table)`.  Result: new table, helper cell (the
referenced row ids; `[]` = reference 0). -/
def updateSummarySimple (guard : Bool) (sum : List SumRow) (cells : List Cell) :
    List SumRow × List Nat :=
  let key := simpleKey cells
  match lookupOne sum key with
  | some i => (sum, [i])
  | none =>
    if guard then (sum, [])
    else (sum ++ [⟨maxId sum + 1, key, []⟩], [maxId sum + 1])

/--
Tables grouped by at least one list column:
```
for values_tuple in sorted(itertools.product(*lookup_values)):
  values_dict = dict(zip(groupby_cols, values_tuple))
  row_id = summary_table.lookup_one_record(**values_dict)._row_id
  if row_id: result.append(row_id)
  else:
    for col, value in values_dict.items(): values_to_add.setdefault(col, []).append(value)
    new_row_ids.append(None)
if new_row_ids and not self._engine.is_triggered_by_table_action(summary_table.table_id):
  result += self._engine.user_actions.BulkAddRecord(summary_table.table_id, new_row_ids, values_to_add)
return result
``` -/
def updateSummaryList (guard : Bool) (sum : List SumRow) (cells : List Cell) :
    List SumRow × List Nat :=
  match allLookupValues cells with
  | none => (sum, [])
  | some lvs =>
    let keys := sortedProduct lvs
    let result := keys.filterMap (lookupOne sum)
    let toAdd := keys.filter (fun k => (lookupOne sum k).isNone)
    if toAdd.isEmpty || guard then (sum, result)
    else
      let r := addRows sum toAdd
      (r.1, result ++ r.2)

def updateSummary (guard : Bool) (sum : List SumRow) (cells : List Cell) :
    List SumRow × List Nat :=
  if rowSimple cells then updateSummarySimple guard sum cells
  else updateSummaryList guard sum cells

/-! ### `group` and auto-removal -/

/-- `sorted(row_id_set)` of a lookup result (default `order_by='id'`). -/
def sortAsc (l : List Nat) : List Nat := pySorted (fun a b => decide (a < b)) l

/--
```
def getSummarySourceGroup(self, rec):
  lookup_value = rec if self._summary_simple else functions.CONTAINS(rec)
  result = self._summary_source_table.lookup_records(**{self._summary_helper_col_id: lookup_value})
  self._engine.docmodel.setAutoRemove(rec, not result)
  return result
```
`helper` = the helper column as (source row id, referenced summary row ids). -/
def lookupGroup (helper : List (Nat × List Nat)) (sid : Nat) : List Nat :=
  sortAsc ((helper.filter (fun h => h.2.contains sid)).map (·.1))

/-- The private helper column and the summary table. -/
structure State where
  helper : List (Nat × List Nat)
  sum : List SumRow
deriving Repr

/-- One evaluation of the helper formula for source row `r` (rows are evaluated in row-id order). -/
def helperStep (guard : Bool) (acc : List SumRow × List (Nat × List Nat)) (r : SrcRow) :
    List SumRow × List (Nat × List Nat) :=
  let u := updateSummary guard acc.1 r.cells
  (u.1, acc.2 ++ [(r.id, u.2)])

/-- helper cells that stay as they are (rows not dirtied) -/
def keptHelper (st : State) (dirty : List Nat) : List (Nat × List Nat) :=
  st.helper.filter (fun h => !dirty.contains h.1)

/-- helper cells that are re-evaluated or disappear with their row -/
def goneHelper (st : State) (dirty : List Nat) : List (Nat × List Nat) :=
  st.helper.filter (fun h => dirty.contains h.1)

/-- the dirtied rows that exist after the edits, in table order -/
def todoRows (src' : List SrcRow) (dirty : List Nat) : List SrcRow :=
  src'.filter (fun r => dirty.contains r.id)

/-- re-evaluation of `group` for the summary rows whose lookup result changed -/
def regroup (touched : List Nat) (helper : List (Nat × List Nat)) (s : SumRow) : SumRow :=
  if touched.contains s.id then { s with group := lookupGroup helper s.id } else s

/-- `setAutoRemove(rec, not result)` inside the re-evaluated `group` formula -/
def marked (touched : List Nat) (s : SumRow) : Bool :=
  touched.contains s.id && s.group.isEmpty

/--
One bundle of source edits, as the engine processes it after the doc actions were applied
(`apply_user_actions`: `_bring_all_up_to_date()`, then
`while self.docmodel.apply_auto_removes(): self._bring_all_up_to_date()`):

* `src'`   the source rows after the edits (table order = ascending row id),
* `dirty`  row ids whose helper cell is invalidated: added, updated and removed rows
           (a superset of the changed rows).

1. helper cells of removed rows disappear, those of the other dirty rows are re-evaluated in row
   order against the CURRENT summary table (so rows added for an earlier source row are found);
2. `group` is re-evaluated for every summary row whose lookup result changed, i.e. whose id occurs
   in an old or new helper cell of a dirty row (new rows are among them), and marks the row for
   auto-removal when the result is empty;
3. `apply_auto_removes` removes the marked rows (the second round finds nothing marked: no helper
   cell refers to a removed row).
-/
def maintain (guard : Bool) (st : State) (src' : List SrcRow) (dirty : List Nat) : State :=
  let r := (todoRows src' dirty).foldl (helperStep guard) (st.sum, [])
  let helper1 := keptHelper st dirty ++ r.2
  let touched := (goneHelper st dirty ++ r.2).flatMap (·.2)
  ⟨helper1, (r.1.map (regroup touched helper1)).filter (fun s => !marked touched s)⟩

/-- Building a summary table from scratch (`CreateViewSection` / regrouping creates an empty
    table; every source row is dirty). -/
def build (src : List SrcRow) : State :=
  maintain false ⟨[], []⟩ src (src.map (·.id))

/-! ### The property -/

/-- `group` lists exactly the source rows having the row's key, in ascending row id order. -/
def GroupExact (src : List SrcRow) (s : SumRow) : Prop :=
  s.group.Pairwise (· < ·) ∧
  ∀ i, i ∈ s.group ↔ ∃ r ∈ src, r.id = i ∧ s.key ∈ keysOf r.cells

/-- C12: no two summary rows share a key; the key set is the union of `keysOf` over the source
    rows; every row's group is the ascending list of the source rows with that key (in particular
    no row has an empty group). -/
def SummaryExact (src : List SrcRow) (sum : List SumRow) : Prop :=
  (sum.map (·.key)).Nodup ∧
  (∀ k, k ∈ sum.map (·.key) ↔ ∃ r ∈ src, k ∈ keysOf r.cells) ∧
  (∀ s ∈ sum, GroupExact src s)

/-- Internal invariant on the private helper column: one cell per source row, holding exactly the
    ids of the summary rows whose key the source row has; summary row ids are distinct. -/
structure HelperOk (src : List SrcRow) (st : State) : Prop where
  dom : ∀ i, i ∈ st.helper.map (·.1) ↔ i ∈ src.map (·.id)
  nodup : (st.helper.map (·.1)).Nodup
  val : ∀ e ∈ st.helper, ∀ r ∈ src, r.id = e.1 →
    ∀ sid, sid ∈ e.2 ↔ ∃ s ∈ st.sum, s.id = sid ∧ s.key ∈ keysOf r.cells
  sumIds : (st.sum.map (·.id)).Nodup

/-- Executable form of `SummaryExact` (used by the driver on real documents;
    `checkExact_iff` in GristProps/C12.lean). -/
def rowsWithKey (src : List SrcRow) (k : Key) : List Nat :=
  sortAsc ((src.filter (fun r => decide (k ∈ keysOf r.cells))).map (·.id))

def checkExact (src : List SrcRow) (sum : List SumRow) : Bool :=
  decide ((sum.map (·.key)).Nodup) &&
  sum.all (fun s => src.any (fun r => decide (s.key ∈ keysOf r.cells))) &&
  src.all (fun r => (keysOf r.cells).all (fun k => sum.any (fun s => decide (s.key = k)))) &&
  sum.all (fun s => decide (s.group = rowsWithKey src s.key))

end Grist.SummaryModel
