/-
Model of everything the CSV importer does AFTER `csv.reader`
(sandbox/grist/imports/import_csv.py `_parse_open_file`, imports/import_utils.py,
parse_data.py `get_table_data`).

Parameters of the model (not modelled, supplied by the caller):
  * the list of rows `csv.reader` yields (`rows : List Row`, a cell is its list of code points);
  * `isNum : Cell → Bool` = `import_utils._is_numeric` (Python's `float(text)` / `int(text)` accept).
Not a parameter: cell conversion.  Every cell coming out of `csv.reader` is a `str`; on `str`
values all three converters of `parse_data.ColumnDetector` fail (`SimpleDateTimeConverter`,
`BooleanConverter`, `NumericConverter` raise `ValueError`), so `get_converter()` is always
`AnyConverter`, whose `convert(value)` is `str(value)` = identity, and the column type is "Any".
(The check verifies type == "Any" and `type(v) is str` on every real output.)
`NUM_ROWS` is 0 (absent from the options), so no row limit.
-/
namespace Grist.CsvPost

abbrev Cell := List Char
abbrev Row := List Cell

/-- Python `str.isspace()` for one character (what `str.strip()` removes):
    U+0009..000D, U+001C..0020, U+0085, U+00A0, U+1680, U+2000..200A, U+2028, U+2029, U+202F,
    U+205F, U+3000.  (Compared with CPython over all code points by the check.) -/
def isSpace (c : Char) : Bool :=
  let n := c.toNat
  (0x09 ≤ n && n ≤ 0x0D) || (0x1C ≤ n && n ≤ 0x20) || n == 0x85 || n == 0xA0 || n == 0x1680 ||
  (0x2000 ≤ n && n ≤ 0x200A) || n == 0x2028 || n == 0x2029 || n == 0x202F || n == 0x205F ||
  n == 0x3000

/-- `import_utils.empty(value)`: `not value.strip()`. -/
def blank (s : Cell) : Bool := s.all isSpace

/-- `value.strip()` -/
def strip (s : Cell) : Cell := ((s.dropWhile isSpace).reverse.dropWhile isSpace).reverse

/-- `len([c for c in row if not empty(c)])` -/
def nonEmptyCells (r : Row) : Nat := (r.filter (fun c => !blank c)).length

/-
def _count_nonempty(row):
  count = 0
  for i, c in enumerate(row):
    if not empty(c):
      count = i + 1
  return count
-/
def countGo : Nat → Nat → Row → Nat
  | _, count, [] => count
  | i, count, c :: rest => countGo (i + 1) (if !blank c then i + 1 else count) rest

def countNonempty (r : Row) : Nat := countGo 0 0 r

/-
def column_count_modal(rows):
  counts = defaultdict(int)
  for row in rows:
    length = len([c for c in row if not empty(c)])
    if length > 1:
      counts[length] += 1
  if not counts:
    return 0
  return max(list(counts.items()), key=lambda k_v: k_v[1])[0]
`counts` is an insertion-ordered dict, `max` keeps the FIRST maximal item.
-/
def bump (k : Nat) : List (Nat × Nat) → List (Nat × Nat)
  | [] => [(k, 1)]
  | (k', n) :: rest => if k' = k then (k', n + 1) :: rest else (k', n) :: bump k rest

def countsOf (rows : List Row) : List (Nat × Nat) :=
  rows.foldl (fun acc row => let l := nonEmptyCells row; if l > 1 then bump l acc else acc) []

def columnCountModal (rows : List Row) : Nat :=
  match countsOf rows with
  | [] => 0
  | p :: ps => (ps.foldl (fun best q => if q.2 > best.2 then q else best) p).1

/-
def find_first_non_empty_row(rows):
  tolerance = 1
  modal = column_count_modal(rows)
  for i, row in enumerate(rows):
    length = _count_nonempty(row)
    if length >= modal - tolerance:
      return i + 1, row
  return 0, []
-/
def findGo (modal : Nat) : Nat → List Row → Nat × Row
  | _, [] => (0, [])
  | i, row :: rest =>
    if modal ≤ countNonempty row + 1 then (i + 1, row) else findGo modal (i + 1) rest

def findFirstNonEmptyRow (rows : List Row) : Nat × Row :=
  findGo (columnCountModal rows) 0 rows

/-
def expand_headers(headers, data_offset, rows):
  row_length = max(itertools.chain([len(headers)],
                   (_count_nonempty(r) for r in itertools.islice(rows, data_offset, None))))
  header_values = [h.strip() if h else '' for h in headers] + [u''] * (row_length - len(headers))
  return header_values
-/
def expandHeaders (headers : Row) (off : Nat) (rows : List Row) : Row :=
  let rowLength := ((rows.drop off).map countNonempty).foldl max headers.length
  headers.map (fun h => if h != [] then strip h else []) ++
    List.replicate (rowLength - headers.length) []

/-
def _is_header(header, data_rows):
  for cell in header:
    if not (isinstance(cell, str) or cell is None) or _is_numeric(cell):
      return False
  for row in data_rows:
    for cell, header_cell in zip(row, header):
      if cell and cell == header_cell:
        return False
  return True
-/
def isHeader (isNum : Cell → Bool) (header : Row) (dataRows : List Row) : Bool :=
  !(header.any isNum) &&
  dataRows.all (fun row => (row.zip header).all (fun p => !(p.1 != [] && p.1 == p.2)))

/-
def headers_guess(rows):
  data_offset, header = find_first_non_empty_row(rows)
  if not header:
    return data_offset, header
  if not _is_header(header, itertools.islice(rows, data_offset, None)):
    data_offset -= 1
    header = []
  header_values = expand_headers(header, data_offset, rows)
  return data_offset, header_values
-/
def headersGuess (isNum : Cell → Bool) (rows : List Row) : Nat × Row :=
  let f := findFirstNonEmptyRow rows
  if f.2.isEmpty then f
  else
    let g : Nat × Row := if !isHeader isNum f.2 (rows.drop f.1) then (f.1 - 1, []) else f
    (g.1, expandHeaders g.2 g.1 rows)

def sampleLen : Nat := 100

/-
  rows = list(reader)
  sample_rows = rows[:100]
  data_offset, headers = import_utils.headers_guess(sample_rows)
  have_guessed_headers = any(headers)
  include_col_names_as_headers = parse_options.get('include_col_names_as_headers', have_guessed_headers)
  if include_col_names_as_headers and not have_guessed_headers:
    data_offset, first_row = import_utils.find_first_non_empty_row(sample_rows)
    headers = import_utils.expand_headers(first_row, data_offset, sample_rows)
  elif not include_col_names_as_headers and have_guessed_headers:
    data_offset -= 1
    headers = [''] * len(headers)
  rows = rows[data_offset:]
`plan` = (data_offset, headers) at this point; `incl` is the explicit option include_col_names_as_headers.
-/
def plan (isNum : Cell → Bool) (incl : Bool) (rows : List Row) : Nat × Row :=
  let sample := rows.take sampleLen
  let g := headersGuess isNum sample
  let guessed := g.2.any (fun h => h != [])
  if incl && !guessed then
    let f := findFirstNonEmptyRow sample
    (f.1, expandHeaders f.2 f.1 sample)
  else if !incl && guessed then
    (g.1 - 1, List.replicate g.2.length [])
  else g

/-
def get_table_data(rows, num_columns, num_rows=0):
  converters = _guess_basic_types(rows[:1000], num_columns)      # always AnyConverter for str
  col_converters = [ColumnConverter(c) for c in converters]
  for num, row in enumerate(rows):
    missing_values = len(converters) - len(row)
    if missing_values > 0:
      row.extend([""] * missing_values)
    for cell, conv in zip(row, col_converters):                  # zip: cells past num_columns dropped
      conv.convert_and_add(cell)
  return [conv.get_grist_column() for conv in col_converters]
-/
def padRow (n : Nat) (r : Row) : Row := r ++ List.replicate (n - r.length) []

/-- what `zip(row, col_converters)` hands out: the padded row cut at `n` cells -/
def tableRow (n : Nat) (r : Row) : Row := (padRow n r).take n

def getTableData (data : List Row) (n : Nat) : List (List Cell) :=
  (List.range n).map (fun c => data.map (fun r => (tableRow n r).getD c []))

structure Col where
  id : Cell
  data : List Cell
deriving Repr, DecidableEq

/-- `zip(table_data_with_types, headers)` before the empty-column filter -/
def allColumns (isNum : Cell → Bool) (incl : Bool) (rows : List Row) : List Col :=
  let p := plan isNum incl rows
  List.zipWith (fun d h => Col.mk h d) (getTableData (rows.drop p.1) p.2.length) p.2

/-
  for col_data, header in zip(table_data_with_types, headers):
    if not header and all(val == "" for val in col_data["data"]):
      continue # empty column
-/
def keepCol (c : Col) : Bool := !(c.id == [] && c.data.all (fun v => v == []))

/-- The columns of the exported table (`[]` = "No data found", no table exported). -/
def parse (isNum : Cell → Bool) (incl : Bool) (rows : List Row) : List Col :=
  (allColumns isNum incl rows).filter keepCol

end Grist.CsvPost
