/-
EngineModel: a bundle as a word of steps (DESIGN §4.3).

  doc a direct   UserActions._do_doc_action: stored/direct append, DocActions.<a> (preconditions,
                 undo append, ActionSummary bookkeeping, data change)
  calc t c Δ     ActionSummary.add_changes outside a DocActions method; the model also writes `after`
  flushcol t c   doModifyColumn: pop the ModifyColumn undo, pop_column_delta_as_actions, re-append
  rollback       Engine._undo_to_checkpoint: replay undo[cp:] reversed as doc steps, truncate
  finish         ActionGroup.flush_calc_changes
-/
import GristModel.Doc
namespace Grist.Doc

structure EState where
  doc : Doc
  stored : List DocAction := []
  direct : List Bool := []
  undo : List DocAction := []
  summary : Summary := {}

/-! ### the DocActions methods: (doc', undo entries appended, summary') or an assertion failure -/

structure DAResult where
  doc : Doc
  undo : List DocAction
  summary : Summary

def colInfoOfPatch (old : ColInfo) (p : ColPatch) : ColInfo :=
  { type := p.type.getD old.type,
    isFormula := p.isFormula.getD old.isFormula,
    formula := p.formula.getD old.formula,
    reverseColId := p.reverseColId.getD old.reverseColId }

/-- keys of `col_to_dict(old, include_default=True)` that are present in the patch -/
def undoPatch (old : ColInfo) (p : ColPatch) : ColPatch :=
  { type := p.type.map (fun _ => old.type),
    isFormula := p.isFormula.map (fun _ => old.isFormula),
    formula := p.formula.map (fun _ => old.formula),
    reverseColId := p.reverseColId.map (fun _ => old.reverseColId) }

def allDefault (col : Col) (rows : List Nat) : Bool :=
  rows.all (fun r => col.cells r == typeDefault col.info.type)

/-- apply `cols` (col ↦ values) to a table for the given rows; unknown column = KeyError -/
def writeCols (tb : Table) (rows : List Nat) : List (String × List Val) → Except String Table
  | [] => .ok tb
  | (c, vals) :: rest =>
    match tb.findCol? c with
    | none => .error "KeyError"
    | some col =>
      let col' := { col with cells := setCells col.info.type col.cells rows vals }
      writeCols (tb.replaceCol c col') rows rest

def docAction (d : Doc) (s : Summary) : DocAction → Except String DAResult
  | .bulkAdd t rows cols =>
    match findTable? d t with
    | none => .error "KeyError"
    | some tb =>
      if rows.any (fun r => tb.rows.contains r) then .error "AssertionError" else
      let s' := s.addRecords t rows
      let tb1 := { tb with rows := insertRows (rows.filter (· != 0)) tb.rows }
      match writeCols tb1 rows cols with
      | .error e => .error e
      | .ok tb2 => .ok { doc := replaceTable d t tb2, undo := [.bulkRemove t rows], summary := s' }
  | .bulkRemove t rows =>
    match findTable? d t with
    | none => .error "KeyError"
    | some tb =>
      let rows' := rows.filter (fun r => tb.rows.contains r)
      if rows'.isEmpty then .ok { doc := d, undo := [], summary := s } else
      let undoVals := (tb.cols.filter (fun col => !allDefault col rows')).map
        (fun col => (col.id, rows'.map col.cells))
      let cols' := tb.cols.map (fun col =>
        { col with cells := fun r => if rows'.contains r then typeDefault col.info.type else col.cells r })
      let tb' := { tb with cols := cols', rows := tb.rows.filter (fun r => !rows'.contains r) }
      .ok { doc := replaceTable d t tb', undo := [.bulkAdd t rows' undoVals],
            summary := s.removeRecords t rows' }
  | .bulkUpdate t rows cols =>
    match findTable? d t with
    | none => .error "KeyError"
    | some tb =>
      if rows.any (fun r => !tb.rows.contains r) then .error "AssertionError" else
      if cols.any (fun cv => !tb.hasCol cv.1) then .error "KeyError" else
      let undoVals := cols.map (fun cv =>
        (cv.1, rows.map (fun r => match tb.findCol? cv.1 with | some col => col.cells r | none => .null)))
      match writeCols tb rows cols with
      | .error e => .error e
      | .ok tb' => .ok { doc := replaceTable d t tb', undo := [.bulkUpdate t rows undoVals], summary := s }
  | .replaceData t rows cols =>
    match findTable? d t with
    | none => .error "KeyError"
    | some tb =>
      let oldCols := (tb.cols.filter (fun col => !col.info.isFormula)).map
        (fun col => (col.id, tb.rows.map col.cells))
      let s1 := (s.removeRecords t tb.rows).addRecords t rows
      let cleared := tb.cols.map (fun col => { col with cells := fun _ => typeDefault col.info.type })
      let tb1 : Table := { tb with cols := cleared, rows := insertRows (rows.filter (· != 0)) [] }
      let known := cols.filter (fun cv => tb.hasCol cv.1)
      match writeCols tb1 rows known with
      | .error e => .error e
      | .ok tb2 => .ok { doc := replaceTable d t tb2, undo := [.replaceData t tb.rows oldCols], summary := s1 }
  | .addColumn t c info =>
    match findTable? d t with
    | none => .error "KeyError"
    | some tb =>
      if tb.hasCol c then .error "AssertionError" else
      let col : Col := { id := c, info := info, cells := fun _ => typeDefault info.type }
      .ok { doc := replaceTable d t { tb with cols := tb.cols ++ [col] },
            undo := [.removeColumn t c], summary := s.renameColumn t none c }
  | .removeColumn t c =>
    match findTable? d t with
    | none => .error "KeyError"
    | some tb =>
      match tb.findCol? c with
      | none => .error "AssertionError"
      | some col =>
        let dflt := typeDefault col.info.type
        let nonDefault := tb.rows.filter (fun r => col.cells r != dflt)
        let (undoUpd, s1) :=
          if nonDefault.isEmpty then (([] : List DocAction), s)
          else if col.info.isFormula then
            ([], s.addChanges t c (nonDefault.map (fun r => (r, col.cells r, dflt))))
          else ([.bulkUpdate t nonDefault [(c, nonDefault.map col.cells)]], s)
        let tb' := { tb with cols := tb.cols.filter (fun x => x.id != c) }
        .ok { doc := replaceTable d t tb',
              undo := undoUpd ++ [.addColumn t c col.info],
              summary := s1.renameColumn t (some c) (defunctName c) }
  | .renameColumn t old new =>
    match findTable? d t with
    | none => .error "KeyError"
    | some tb =>
      match tb.findCol? old with
      | none => .error "AssertionError"
      | some col =>
        if tb.hasCol new then .error "AssertionError" else
        -- schema: pop old, insert new at the end
        let cols' := (tb.cols.filter (fun x => x.id != old)) ++ [{ col with id := new }]
        .ok { doc := replaceTable d t { tb with cols := cols' },
              undo := [.renameColumn t new old], summary := s.renameColumn t (some old) new }
  | .modifyColumn t c p =>
    match findTable? d t with
    | none => .error "KeyError"
    | some tb =>
      match tb.findCol? c with
      | none => .error "AssertionError"
      | some col =>
        let newInfo := colInfoOfPatch col.info p
        if newInfo == col.info then .ok { doc := d, undo := [], summary := s } else
        let newCells : Nat → Val := fun r =>
          if tb.rows.contains r then colSet newInfo.type (col.cells r) else typeDefault newInfo.type
        let newCol : Col := { id := c, info := newInfo, cells := newCells }
        -- schema: pop, then re-add at the end
        let cols' := (tb.cols.filter (fun x => x.id != c)) ++ [newCol]
        .ok { doc := replaceTable d t { tb with cols := cols' },
              undo := [.modifyColumn t c (undoPatch col.info p)], summary := s }
  | .addTable t cols =>
    if hasTable d t then .error "AssertionError" else
    let mkCol : String × ColInfo → Col := fun ci =>
      { id := ci.1, info := ci.2, cells := fun _ => typeDefault ci.2.type }
    let tb : Table := { id := t, rows := [], cols := cols.map mkCol }
    .ok { doc := d ++ [tb], undo := [.removeTable t], summary := s.renameTable none t }
  | .removeTable t =>
    match findTable? d t with
    | none => .error "AssertionError"
    | some tb =>
      let dataUndo : List DocAction :=
        if tb.rows.isEmpty then []
        else [.bulkAdd t tb.rows (tb.cols.map (fun col => (col.id, tb.rows.map col.cells)))]
      .ok { doc := d.filter (fun x => x.id != t),
            undo := dataUndo ++ [.addTable t (tb.cols.map (fun col => (col.id, col.info)))],
            summary := s.renameTable (some t) (defunctName t) }
  | .renameTable old new =>
    match findTable? d old with
    | none => .error "AssertionError"
    | some tb =>
      if hasTable d new then .error "AssertionError" else
      .ok { doc := (d.filter (fun x => x.id != old)) ++ [{ tb with id := new }],
            undo := [.renameTable new old], summary := s.renameTable (some old) new }

/-! ### steps -/

inductive Step where
  | doc (a : DocAction) (direct : Bool)
  | calc (t c : String) (chs : List (Nat × Val × Val))
  | flushcol (t c : String)
  | finish
deriving Repr, Inhabited

/-- `_do_doc_action`: the action is appended to stored/direct first, then applied. -/
def stepDoc (st : EState) (a : DocAction) (direct : Bool) : Except String EState :=
  match docAction st.doc st.summary a with
  | .error e => .error e
  | .ok r => .ok { st with doc := r.doc, stored := st.stored ++ [a], direct := st.direct ++ [direct],
                           undo := st.undo ++ r.undo, summary := r.summary }

def writeCalc (d : Doc) (t c : String) (chs : List (Nat × Val × Val)) : Doc :=
  match findTable? d t with
  | none => d
  | some tb =>
    match tb.findCol? c with
    | none => d
    | some col =>
      let cells := chs.foldl (fun f ch => setCell f ch.1 ch.2.2) col.cells
      replaceTable d t (tb.replaceCol c { col with cells := cells })

/-- calc deltas whose `before` does not match the model's current cell (reported, not fatal) -/
def calcMismatches (d : Doc) (t c : String) (chs : List (Nat × Val × Val)) : List Nat :=
  match findTable? d t with
  | none => chs.map (·.1)
  | some tb =>
    match tb.findCol? c with
    | none => chs.map (·.1)
    | some col =>
      -- doModifyColumn reports the OLD column object's value as `before`; the new column holds it
      -- after `set` normalisation, so compare modulo `colSet`
      (chs.filter (fun ch => col.cells ch.1 != ch.2.1 &&
                             col.cells ch.1 != colSet col.info.type ch.2.1)).map (·.1)

def stepCalc (st : EState) (t c : String) (chs : List (Nat × Val × Val)) : EState :=
  { st with doc := writeCalc st.doc t c chs, summary := st.summary.addChanges t c chs }

def insertFront (l front : List DocAction) : List DocAction := front ++ l

/-- `pop_column_delta_as_actions` framed by the undo pop / re-append of doModifyColumn. -/
def stepFlushCol (st : EState) (t c : String) : Except String EState :=
  match st.undo.getLast? with
  | some (.modifyColumn mt mc mp) =>
    let undo0 := st.undo.dropLast
    let td := st.summary.get t
    let delta := (td.colDeltas.lookup c).getD []
    let summary' := if (st.summary.tables.lookup t).isSome
      then st.summary.put t { td with colDeltas := td.colDeltas.filter (·.1 != c) } else st.summary
    let (sto, undoApp, undoFront) := summary'.changesToActions t c delta
    .ok { st with stored := st.stored ++ sto, direct := st.direct ++ sto.map (fun _ => false),
                  undo := (insertFront undo0 undoFront ++ undoApp) ++ [.modifyColumn mt mc mp],
                  summary := summary' }
  | _ => .error "AssertionError: ModifyColumn not where expected in undo list"

/-- `convert_deltas_to_actions`: tables sorted, columns sorted. -/
def flushAll (s : Summary) (stored undo : List DocAction) : List DocAction × List DocAction :=
  let tkeys := (s.tables.map (·.1)).mergeSort (· ≤ ·)
  tkeys.foldl (fun acc tk =>
    let td := s.get tk
    let ckeys := (td.colDeltas.map (·.1)).mergeSort (· ≤ ·)
    ckeys.foldl (fun acc ck =>
      let delta := (td.colDeltas.lookup ck).getD []
      let (sto, ua, uf) := s.changesToActions tk ck delta
      (acc.1 ++ sto, insertFront acc.2 uf ++ ua)) acc) (stored, undo)

def stepFinish (st : EState) : EState :=
  let (stored', undo') := flushAll st.summary st.stored st.undo
  { st with stored := stored', undo := undo',
            direct := st.direct ++ List.replicate (stored'.length - st.stored.length) false,
            summary := {} }

def step (st : EState) : Step → Except String EState
  | .doc a direct => stepDoc st a direct
  | .calc t c chs => .ok (stepCalc st t c chs)
  | .flushcol t c => stepFlushCol st t c
  | .finish => .ok (stepFinish st)

def run (st : EState) : List Step → Except String EState
  | [] => .ok st
  | s :: rest => match step st s with
    | .error e => .error e
    | .ok st' => run st' rest

/-- Apply a list of doc actions in order (what a replica / ApplyDocActions does), data only. -/
def applyAll (d : Doc) : List DocAction → Except String Doc
  | [] => .ok d
  | a :: rest => match docAction d {} a with
    | .error e => .error e
    | .ok r => applyAll r.doc rest

/-- `_undo_to_checkpoint`: replay `undo[lenUndo:]` reversed as doc steps, then truncate the lists. -/
def rollback (st : EState) (lenStored lenUndo : Nat) : Except String EState :=
  let todo := (st.undo.drop lenUndo).reverse
  match todo.foldlM (fun s a => stepDoc s a true) st with
  | .error e => .error e
  | .ok st' => .ok { st' with stored := st'.stored.take lenStored, direct := st'.direct.take lenStored,
                               undo := st'.undo.take lenUndo }

/-! ### observation (what fetch_table shows) -/

def Table.obs (tb : Table) : String × List Nat × List (String × ColInfo × List Val) :=
  (tb.id, tb.rows, (tb.cols.map (fun col => (col.id, col.info, tb.rows.map col.cells))).mergeSort
    (fun a b => a.1 ≤ b.1))

def Doc.obs (d : Doc) : List (String × List Nat × List (String × ColInfo × List Val)) :=
  (d.map Table.obs).mergeSort (fun a b => a.1 ≤ b.1)

/-- observational equivalence of documents: same tables, rows, columns (with infos) and the same
    cell values at existing rows; order of tables / columns irrelevant. -/
def Doc.Eqv (a b : Doc) : Prop := Doc.obs a = Doc.obs b

end Grist.Doc
