/-
Model of the reference-column machinery of the Grist data engine (C10, C11):

  sandbox/grist/relation.py            ReferenceRelation (inverse_map; add_reference / remove_reference /
                                       clear / get_affected_rows)
  sandbox/grist/column.py              BaseColumn.set / unset / clear / raw_get / safe_get,
                                       BaseReferenceColumn (_update_references, set, copy_from_column,
                                       get_updates_for_removed_target_rows, prepare_new_values,
                                       recalc_from_reverse_values), ReferenceColumn, ReferenceListColumn
                                       (_value_iterable, _list_to_value, _raw_get_without)
  sandbox/grist/reverse_references.py  get_reverse_adjustments
  sandbox/grist/useractions.py         doBulkRemoveRecord / doBulkUpdateRecord (order of the doc actions)
  sandbox/grist/docactions.py          BulkUpdateRecord / BulkRemoveRecord (row assertions, col.set / col.unset)

Row ids and targets are natural numbers (negative = unresolved temporary ids are rejected by
`_reject_unresolved_temp_ids` before they reach a column).  Python `dict` = insertion-ordered
association list with first-match lookup; Python `set` of ints = duplicate-free list.
-/
namespace Grist.Refs

/-- `Ref:T` (ReferenceColumn) or `RefList:T` (ReferenceListColumn). -/
inductive Kind | ref | refList
deriving DecidableEq, Repr, Inhabited

/-- A stored cell value.  `ref n` = a python int, `refList l` = a python list of ints,
    `none` = None, `alt` = anything else (alt text, error object, float, list with non-ints ...). -/
inductive Cell
  | ref (n : Nat)
  | refList (l : List Nat)
  | none
  | alt
deriving DecidableEq, Repr, Inhabited

inductive Err | keyError | typeError | uniqueReference | assertion
deriving DecidableEq, Repr

/-- `getdefault()`: 0 for Ref, None for RefList. -/
def dflt : Kind → Cell
  | .ref => .ref 0
  | .refList => .none

/-- `type_obj.is_right_type(value)`:
    Reference: `type(value) is int`;  ReferenceList: `value is None or isinstance(value, list) and all ints`. -/
def rightType : Kind → Cell → Bool
  | .ref, .ref _ => true
  | .refList, .refList _ => true
  | .refList, .none => true
  | _, _ => false

/-- `_value_iterable(value)`:
      Ref:     `(value,) if value and is_right_type(value) else ()`
      RefList: `value if value and is_right_type(value) else ()`           -/
def refs : Kind → Cell → List Nat
  | .ref, .ref n => if n = 0 then [] else [n]
  | .refList, .refList l => l
  | _, _ => []

/-! ### python dict / set -/

/-- `m.get(t, d)` / `m[t]` -/
def aGet {β : Type} (d : β) : List (Nat × β) → Nat → β
  | [], _ => d
  | (k, v) :: rest, t => if k = t then v else aGet d rest t

/-- `t in m` -/
def aHas {β : Type} : List (Nat × β) → Nat → Bool
  | [], _ => false
  | (k, _) :: rest, t => if k = t then true else aHas rest t

/-- `m[t] = f(m.setdefault(t, d))` (a new key goes to the end: insertion order). -/
def aUpd {β : Type} (d : β) : List (Nat × β) → Nat → (β → β) → List (Nat × β)
  | [], t, f => [(t, f d)]
  | (k, v) :: rest, t, f => if k = t then (k, f v) :: rest else (k, v) :: aUpd d rest t f

/-- `s.add(r)` -/
def setAdd (s : List Nat) (r : Nat) : List Nat := if r ∈ s then s else s ++ [r]
/-- `s.discard(r)` -/
def setDiscard (s : List Nat) (r : Nat) : List Nat := s.filter (fun x => x ≠ r)

/-- `sorted(set)`. -/
def insertSorted (x : Nat) : List Nat → List Nat
  | [] => [x]
  | y :: ys => if x < y then x :: y :: ys else if x = y then y :: ys else y :: insertSorted x ys
def sortDedup (l : List Nat) : List Nat := l.foldr insertSorted []

/-! ### relation.py ReferenceRelation -/

/-- `inverse_map`: target row ↦ set of referring rows. -/
abbrev Inv := List (Nat × List Nat)

def invGet (m : Inv) (t : Nat) : List Nat := aGet [] m t

/-- `self.inverse_map.setdefault(target_row_id, set()).add(referring_row_id)` -/
def addReference (m : Inv) (r t : Nat) : Inv := aUpd [] m t (fun s => setAdd s r)

/-- `self.inverse_map[target_row_id].discard(referring_row_id)`  (KeyError if the key is absent) -/
def removeReference (m : Inv) (r t : Nat) : Except Err Inv :=
  if aHas m t then .ok (aUpd [] m t (fun s => setDiscard s r)) else .error .keyError

/-- `get_affected_rows(input_rows)`: union of the sets (here: concatenation; callers sort it). -/
def affectedRows (m : Inv) (ts : List Nat) : List Nat := ts.flatMap (invGet m)

/-! ### column.py -/

def removeRefs (m : Inv) (r : Nat) : List Nat → Except Err Inv
  | [] => .ok m
  | t :: ts => match removeReference m r t with
    | .ok m' => removeRefs m' r ts
    | .error e => .error e

def addRefs (m : Inv) (r : Nat) : List Nat → Inv
  | [] => m
  | t :: ts => addRefs (addReference m r t) r ts

/-- `_update_references(row_id, old_value, new_value)`:
      for r in self._value_iterable(old_value): self._relation.remove_reference(row_id, r)
      for r in self._value_iterable(new_value): self._relation.add_reference(row_id, r)      -/
def updateReferences (k : Kind) (m : Inv) (r : Nat) (old new : Cell) : Except Err Inv :=
  match removeRefs m r (refs k old) with
  | .ok m1 => .ok (addRefs m1 r (refs k new))
  | .error e => .error e

/-- One reference column: `_data` (index = row id, slot 0 = the empty record) and its relation. -/
structure Col where
  kind : Kind
  data : List Cell
  inv : Inv
deriving Repr, DecidableEq

def newCol (k : Kind) : Col := { kind := k, data := [dflt k], inv := [] }

/-- `raw_get`: `self._data[row_id]`, the default on IndexError. -/
def rawGet (c : Col) (r : Nat) : Cell := c.data.getD r (dflt c.kind)

/-- `safe_get`: raw if of the right type, else the default. -/
def safeGet (c : Col) (r : Nat) : Cell :=
  let v := rawGet c r
  if rightType c.kind v then v else dflt c.kind

/-- `BaseColumn.set`: `self._data[row_id] = value`, growing with defaults on IndexError. -/
def growSet (d : Cell) : List Cell → Nat → Cell → List Cell
  | [], 0, v => [v]
  | [], n + 1, v => d :: growSet d [] n v
  | _ :: xs, 0, v => v :: xs
  | x :: xs, n + 1, v => x :: growSet d xs n v

/-- `BaseReferenceColumn.set` (the value has been through `_clean_up_value`):
      old = self.safe_get(row_id); super().set(row_id, value); new = self.safe_get(row_id)
      self._update_references(row_id, old, new)                                          -/
def setCell (c : Col) (r : Nat) (v : Cell) : Except Err Col :=
  let old := safeGet c r
  let c1 : Col := { c with data := growSet (dflt c.kind) c.data r v }
  let new := safeGet c1 r
  match updateReferences c.kind c.inv r old new with
  | .ok m => .ok { c1 with inv := m }
  | .error e => .error e

/-- `unset`: `self.set(row_id, self.getdefault())`. -/
def unsetCell (c : Col) (r : Nat) : Except Err Col := setCell c r (dflt c.kind)

/-- the loop of `copy_from_column`:
      for row_id, value in enumerate(self._data):
        if self.type_obj.is_right_type(value): self._update_references(row_id, None, value)   -/
def addAll (k : Kind) (m : Inv) (i : Nat) : List Cell → Inv
  | [] => m
  | v :: vs => addAll k (if rightType k v then addRefs m i (refs k v) else m) (i + 1) vs

/-- `copy_from_column`: `self._data[:] = other._data; self._relation.clear();` + the loop. -/
def copyFrom (c : Col) (other : List Cell) : Col :=
  { c with data := other, inv := addAll c.kind [] 0 other }

/-- `BaseColumn.clear` (NOT overridden by reference columns: the relation is left alone):
      self._data = []; self.growto(1)                                                     -/
def clearData (c : Col) : Col := { c with data := [dflt c.kind] }

inductive Op
  | set (r : Nat) (v : Cell)
  | unset (r : Nat)
  | copyFrom (d : List Cell)
  | clear
deriving Repr, DecidableEq

def step (c : Col) : Op → Except Err Col
  | .set r v => setCell c r v
  | .unset r => unsetCell c r
  | .copyFrom d => .ok (copyFrom c d)
  | .clear => .ok (clearData c)

def run (c : Col) : List Op → Except Err Col
  | [] => .ok c
  | op :: ops => match step c op with
    | .ok c' => run c' ops
    | .error e => .error e

/-- `docactions.BulkUpdateRecord` restricted to one column: `for (row_id, value) in zip(..): col.set(..)` -/
def applyCells (c : Col) : List (Nat × Cell) → Except Err Col
  | [] => .ok c
  | (r, v) :: rest => match setCell c r v with
    | .ok c' => applyCells c' rest
    | .error e => .error e

/-- `docactions.BulkRemoveRecord` restricted to one column: `for row_id in row_ids: column.unset(row_id)` -/
def unsetRows (c : Col) : List Nat → Except Err Col
  | [] => .ok c
  | r :: rest => match unsetCell c r with
    | .ok c' => unsetRows c' rest
    | .error e => .error e

/-! ### C10: get_updates_for_removed_target_rows -/

/-- `_raw_get_without(row_id, target_row_ids)`:
      Ref:     `return self.getdefault()`
      RefList: `raw = self.raw_get(row_id)
                if self.type_obj.is_right_type(raw):
                  raw = [r for r in raw if r not in target_row_ids] or None     # TypeError if raw is None
                return raw`                                                                     -/
def rawGetWithout (c : Col) (r : Nat) (rows : List Nat) : Except Err Cell :=
  match c.kind with
  | .ref => .ok (dflt .ref)
  | .refList =>
    match rawGet c r with
    | .refList l =>
      let l' := l.filter (fun x => !(rows.contains x))
      .ok (if l'.isEmpty then .none else .refList l')
    | .none => .error .typeError
    | v => .ok v

def withoutAll (c : Col) (rows : List Nat) : List Nat → Except Err (List (Nat × Cell))
  | [] => .ok []
  | r :: rs => match rawGetWithout c r rows with
    | .ok v => match withoutAll c rows rs with
      | .ok rest => .ok ((r, v) :: rest)
      | .error e => .error e
    | .error e => .error e

/-- `get_updates_for_removed_target_rows(target_row_ids)`:
      affected_rows = sorted(self._relation.get_affected_rows(target_row_ids))
      return [(row_id, self._raw_get_without(row_id, target_row_ids)) for row_id in affected_rows] -/
def updatesForRemovedTargets (c : Col) (rows : List Nat) : Except Err (List (Nat × Cell)) :=
  withoutAll c rows (sortDedup (affectedRows c.inv rows))

/-- The clean-up step of `doBulkRemoveRecord` for one back-reference column: compute the updates,
    then apply them as a `BulkUpdateRecord` doc action. -/
def cleanRemoved (c : Col) (rows : List Nat) : Except Err Col :=
  match updatesForRemovedTargets c rows with
  | .ok ups => applyCells c ups
  | .error e => .error e

/-! ### C11: reverse_references.get_reverse_adjustments -/

/-- `defaultdict(_RefUpdates)`: target ↦ (removals, additions). -/
abbrev Affected := List (Nat × (List Nat × List Nat))

def addRemovals (a : Affected) (src : Nat) (ts : List Nat) : Affected :=
  ts.foldl (fun a t => aUpd ([], []) a t (fun p => (setAdd p.1 src, p.2))) a
def addAdditions (a : Affected) (src : Nat) (ts : List Nat) : Affected :=
  ts.foldl (fun a t => aUpd ([], []) a t (fun p => (p.1, setAdd p.2 src))) a

/-- for (source_row_id, old_value, new_value) in zip(row_ids, old_values, new_values):
      if new_value != old_value:
        for t in value_iterator(old_value): affected[t].removals.add(source_row_id)
        for t in value_iterator(new_value): affected[t].additions.add(source_row_id)   -/
def collect (k : Kind) : List (Nat × Cell × Cell) → Affected → Affected
  | [], a => a
  | (r, o, n) :: rest, a =>
    collect k rest (if n ≠ o then addAdditions (addRemovals a r (refs k o)) r (refs k n) else a)

/-- `zip(row_ids, old_values, new_values)` -/
def zip3 : List Nat → List Cell → List Cell → List (Nat × Cell × Cell)
  | r :: rs, o :: os, n :: ns => (r, o, n) :: zip3 rs os ns
  | _, _, _ => []

/-- for target_row_id, updates in affected_target_rows.items():
      reverse_value = relation.get_affected_rows((target_row_id,))
      for s in updates.removals: reverse_value.discard(s)
      for s in updates.additions: reverse_value.add(s)
      adjustments.append((target_row_id, sorted(reverse_value)))                       -/
def adjustOne (m : Inv) (e : Nat × (List Nat × List Nat)) : Nat × List Nat :=
  (e.1, sortDedup (e.2.2.foldl setAdd (e.2.1.foldl setDiscard (invGet m e.1))))

def reverseAdjustments (k : Kind) (m : Inv) (rows : List Nat) (olds news : List Cell) :
    List (Nat × List Nat) :=
  (collect k (zip3 rows olds news) []).map (adjustOne m)

/-- `_list_to_value`:
      Ref:     `if len(l) > 1: raise UniqueReferenceError; return l[0] if l else 0`
      RefList: `return l or None`                                                     -/
def listToValue : Kind → List Nat → Except Err Cell
  | .ref, l => if l.length > 1 then .error .uniqueReference else .ok (.ref (l.headD 0))
  | .refList, l => .ok (if l.isEmpty then .none else .refList l)

def toValues (k : Kind) : List (Nat × List Nat) → Except Err (List (Nat × Cell))
  | [] => .ok []
  | (t, l) :: rest => match listToValue k l with
    | .ok v => match toValues k rest with
      | .ok vs => .ok ((t, v) :: vs)
      | .error e => .error e
    | .error e => .error e

/-- Two columns linked as reverses of each other: `x` lives in table X and refers to rows of
    table Y, `y` lives in table Y and refers to rows of X.  `rowsX`/`rowsY` = the tables' row ids. -/
structure Pair where
  x : Col
  y : Col
  rowsX : List Nat
  rowsY : List Nat
deriving Repr, DecidableEq

def Pair.swap (p : Pair) : Pair := { x := p.y, y := p.x, rowsX := p.rowsY, rowsY := p.rowsX }

/-- `trim_update_action` for a single column: keep the rows whose value differs from the stored one. -/
def trimUpdate (c : Col) (rows : List Nat) (vals : List Cell) : List (Nat × Cell) :=
  (rows.zip vals).filter (fun e => e.2 ≠ rawGet c e.1)

/-- `assert row_id in table.row_ids` for every row of a `BulkUpdateRecord` doc action. -/
def rowsExist (rows : List Nat) (ups : List (Nat × Cell)) : Bool :=
  ups.all (fun e => rows.contains e.1)

/-- `doBulkUpdateRecord(X, rows, {x: vals})` on a two-way column (vals already converted/cleaned):
      prepare_new_values: old_values = [raw_get(r)]; adjustments = get_reverse_adjustments(...)
                          -> BulkUpdateRecord(Y, targets, {y: [_list_to_value(..)]})     (may raise Unique..)
      trim_update_action
      _do_extra_doc_action(adjustments)     (asserts target rows exist, sets y cells)
      _do_doc_action(trimmed main action)   (asserts rows exist, sets x cells)          -/
def updateX (p : Pair) (rows : List Nat) (vals : List Cell) : Except Err Pair :=
  let olds := rows.map (rawGet p.x)
  let adj := reverseAdjustments p.x.kind p.x.inv rows olds vals
  match toValues p.y.kind adj with
  | .error e => .error e
  | .ok adjVals =>
    let main := trimUpdate p.x rows vals
    if !rowsExist p.rowsY adjVals then .error .assertion else
    match applyCells p.y adjVals with
    | .error e => .error e
    | .ok y' =>
      if !rowsExist p.rowsX main then .error .assertion else
      match applyCells p.x main with
      | .error e => .error e
      | .ok x' => .ok { p with x := x', y := y' }

/-- `doBulkAddOrReplace(X, rows, {x: vals})` (BulkAddRecord) when X ≠ Y: `convert_action_values` calls
    `prepare_new_values` with `old_values = raw_get(new row id)`; the adjustments are applied first, then
    the `BulkAddRecord` doc action creates the rows and sets every given cell (no trimming). -/
def addX (p : Pair) (rows : List Nat) (vals : List Cell) : Except Err Pair :=
  let olds := rows.map (rawGet p.x)
  let adj := reverseAdjustments p.x.kind p.x.inv rows olds vals
  match toValues p.y.kind adj with
  | .error e => .error e
  | .ok adjVals =>
    if !rowsExist p.rowsY adjVals then .error .assertion else
    match applyCells p.y adjVals with
    | .error e => .error e
    | .ok y' =>
      match applyCells p.x (rows.zip vals) with
      | .error e => .error e
      | .ok x' => .ok { x := x', y := y', rowsX := p.rowsX ++ rows, rowsY := p.rowsY }

/-- the same for an update of the other side. -/
def updateY (p : Pair) (rows : List Nat) (vals : List Cell) : Except Err Pair :=
  match updateX p.swap rows vals with
  | .ok q => .ok q.swap
  | .error e => .error e

/-- `doBulkRemoveRecord(X, rem)` when X ≠ Y:
      BulkRemoveRecord doc action: `row_ids = [r for r in row_ids if r in table.row_ids]`, unset the
      cells of every column of X; then, for the back references of X (here: `y`), the clean-up as a
      plain doc action (no two-way logic).                                                     -/
def removeX (p : Pair) (rem : List Nat) : Except Err Pair :=
  let gone := rem.filter (fun r => p.rowsX.contains r)
  match unsetRows p.x gone with
  | .error e => .error e
  | .ok x' =>
    match cleanRemoved p.y rem with
    | .error e => .error e
    | .ok y' => .ok { x := x', y := y', rowsX := p.rowsX.filter (fun r => !(rem.contains r)), rowsY := p.rowsY }

def removeY (p : Pair) (rem : List Nat) : Except Err Pair :=
  match removeX p.swap rem with
  | .ok q => .ok q.swap
  | .error e => .error e

/-- `recalc_from_reverse_values` of `x` followed by the `BulkUpdateRecord` doc action on Y:
      for target_row_id in self._target_table.row_ids:
        reverse_adjustments.append((target_row_id, sorted(self._relation.get_affected_rows((target_row_id,)))))
      -> [(row, reverse_col._list_to_value(value))]                                            -/
def rebuildY (p : Pair) : Except Err Pair :=
  let adj := p.rowsY.map (fun t => (t, sortDedup (invGet p.x.inv t)))
  match toValues p.y.kind adj with
  | .error e => .error e
  | .ok vals =>
    match applyCells p.y vals with
    | .error e => .error e
    | .ok y' => .ok { p with y := y' }

/-- Build a column from its cells the way the engine does when loading (`copy_from_column` gives the
    same index as setting every cell of a fresh column). -/
def colOf (k : Kind) (data : List Cell) : Col := copyFrom (newCol k) data

end Grist.Refs
