/-
Model of sandbox/grist/functions/schedule.py (`SCHEDULE`, `Schedule`, `Delta`, `_parse_interval`,
`_parse_slot`, `_round_down_to_unit`) and of the part of functions/date.py it uses (`DATE`,
`DATEADD(months=)`).

Time is naive local time (the real code attaches the document zone, UTC in the harness, and never
converts).  A `datetime` is ONE `Int`: microseconds since 1970-01-01T00:00:00 (proleptic
Gregorian).  `datetime.date` / `datetime` field access is modelled by `civilFromDays`,
construction by `daysFromCivil` (the standard era-based algorithms).  A `timedelta` is an `Int`
of microseconds.  NOT modelled: Python's representable range (year 1..9999) and the 4300-digit
limit of `int()`; the check keeps inputs inside them.
-/
namespace Grist.Schedule

/-! ### civil calendar -/

def usSecond : Int := 1000000
def usMinute : Int := 60000000
def usHour : Int := 3600000000
def usDay : Int := 86400000000
def usWeek : Int := 604800000000

/-- `datetime.date(y, m, d).toordinal()` shifted so that 1970-01-01 is day 0
    (valid for `1 ≤ m ≤ 12`; linear in `d`). -/
def daysFromCivil (y m d : Int) : Int :=
  let y' := if m ≤ 2 then y - 1 else y
  let era := y' / 400
  let yoe := y' - era * 400
  let mp := if m > 2 then m - 3 else m + 9
  let doy := (153 * mp + 2) / 5 + d - 1
  let doe := yoe * 365 + yoe / 4 - yoe / 100 + doy
  era * 146097 + doe - 719468

/-- `(date.year, date.month, date.day)` of day number `z`
    (400-year era, century, 4-year cycle, year; years start on March 1 internally). -/
def civilFromDays (z : Int) : Int × Int × Int :=
  let n := z + 719468              -- days since 0000-03-01
  let era := n / 146097
  let doe := n % 146097            -- day of era, 0 .. 146096
  let c := min (doe / 36524) 3     -- century of era
  let r2 := doe - c * 36524
  let q := r2 / 1461               -- 4-year cycle of century
  let r3 := r2 % 1461
  let a := min (r3 / 365) 3        -- year of cycle
  let doy := r3 - a * 365          -- day of (March-based) year, 0 .. 365
  let yoe := c * 100 + q * 4 + a
  let mp := (5 * doy + 2) / 153
  let d := doy - (153 * mp + 2) / 5 + 1
  let m := if mp < 10 then mp + 3 else mp - 9
  (yoe + era * 400 + (if m ≤ 2 then 1 else 0), m, d)

/-- day number of a datetime -/
def dayOf (t : Int) : Int := t / usDay
/-- time of day (microseconds) of a datetime: `dtime.timetz()` -/
def todOf (t : Int) : Int := t % usDay

/-- date.py `DATE(year, month, day)` as a day number:
```
  if year < 1900: year += 1900
  norm_month = (month - 1) % 12 + 1
  norm_year = year + (month - 1) // 12
  return datetime.date(norm_year, norm_month, 1) + datetime.timedelta(days=day - 1)
``` -/
def dateNorm (year month day : Int) : Int :=
  let year := if year < 1900 then year + 1900 else year
  let normMonth := (month - 1) % 12 + 1
  let normYear := year + (month - 1) / 12
  daysFromCivil normYear normMonth 1 + (day - 1)

/-! ### units, Delta -/

inductive TUnit where
  | years | months | weeks | days | hours | minutes | seconds
deriving Repr, DecidableEq, Inhabited

def TUnit.name : TUnit → String
  | .years => "years" | .months => "months" | .weeks => "weeks" | .days => "days"
  | .hours => "hours" | .minutes => "minutes" | .seconds => "seconds"

/-- microseconds of one unit, for the units `timedelta(**{unit: n})` accepts -/
def TUnit.us : TUnit → Int
  | .weeks => usWeek | .days => usDay | .hours => usHour | .minutes => usMinute
  | .seconds => usSecond | _ => 0

inductive Err where
  | value      -- ValueError
  | overflow   -- OverflowError
deriving Repr, DecidableEq

def Err.name : Err → String
  | .value => "ValueError" | .overflow => "OverflowError"

/-- `class Delta`: `_months` and `_timedelta` (microseconds). -/
structure Delta where
  months : Int := 0
  us : Int := 0
deriving Repr, DecidableEq, Inhabited

/-- CPython: a timedelta must satisfy `-999999999 <= days <= 999999999`, else OverflowError. -/
def tdOk (us : Int) : Bool := decide (-999999999 ≤ us / usDay) && decide (us / usDay ≤ 999999999)

/-- `Delta.add_interval(number, unit)`:
```
    if unit == 'months':  self._months += number
    elif unit == 'years': self._months += number * 12
    else:                 self._timedelta += timedelta(**{unit: number})
``` -/
def Delta.addInterval (δ : Delta) (n : Int) (u : TUnit) : Except Err Delta :=
  match u with
  | .months => .ok { δ with months := δ.months + n }
  | .years => .ok { δ with months := δ.months + n * 12 }
  | u =>
    let t := n * u.us
    if !tdOk t then .error .overflow           -- timedelta(**{unit: number})
    else if !tdOk (δ.us + t) then .error .overflow   -- self._timedelta += ...
    else .ok { δ with us := δ.us + t }

/-- `Delta.add_to(dtime)`:
    `datetime.combine(DATEADD(dtime, months=self._months), dtime.timetz()) + self._timedelta`
    with `DATEADD(d, months=k) = DATE(d.year, d.month + k, d.day)`. -/
def Delta.addTo (δ : Delta) (t : Int) : Int :=
  let c := civilFromDays (dayOf t)
  dateNorm c.1 (c.2.1 + δ.months) c.2.2 * usDay + todOf t + δ.us

/-- `_round_down_to_unit(dtime, unit)`; weeks start on Sunday
    (`dtime - timedelta(days=dtime.isoweekday() % 7)`; 1970-01-01 is a Thursday). -/
def roundDown (t : Int) : TUnit → Int
  | .years => daysFromCivil (civilFromDays (dayOf t)).1 1 1 * usDay
  | .months => let c := civilFromDays (dayOf t); daysFromCivil c.1 c.2.1 1 * usDay
  | .weeks => (dayOf t - (dayOf t + 4) % 7) * usDay
  | .days => t - t % usDay
  | .hours => t - t % usHour
  | .minutes => t - t % usMinute
  | .seconds => t - t % usSecond

/-! ### the schedule and its series -/

structure Sched where
  unit : TUnit
  interval : Delta
  slots : List Delta
deriving Repr, DecidableEq

def pastEnd (stop : Option Int) (out : Int) : Bool :=
  match stop with
  | some e => decide (e < out)   -- `end_dtime is not None and out > end_dtime`
  | none => false

/-- One execution of `for slot in self._slots:` at boundary `dtime` with `c` results still wanted.
    Returns (values yielded, remaining count, generator returned?).
```
      for slot in self._slots:
        if count <= 0: return
        out = slot.add_to(dtime)
        if out < start_dtime: continue
        if end_dtime is not None and out > end_dtime: return
        yield out
        count -= 1
``` -/
def pass (start : Int) (stop : Option Int) (dtime : Int) : List Delta → Nat → List Int × Nat × Bool
  | [], c => ([], c, false)
  | s :: rest, c =>
    if c = 0 then ([], 0, true)
    else
      let out := s.addTo dtime
      if out < start then pass start stop dtime rest c
      else if pastEnd stop out then ([], c, true)
      else
        let r := pass start stop dtime rest (c - 1)
        (out :: r.1, r.2.1, r.2.2)

/-- `while True:` of `Schedule.series`, `fuel` = number of passes allowed; `none` = the loop is
    still running when the fuel is used up. -/
def seriesFuel (sch : Sched) (start : Int) (stop : Option Int) : Nat → Int → Nat → Option (List Int)
  | 0, _, _ => none
  | fuel + 1, dtime, c =>
    let r := pass start stop dtime sch.slots c
    if r.2.2 then some r.1
    else (seriesFuel sch start stop fuel (sch.interval.addTo dtime) r.2.1).map (r.1 ++ ·)

/-- `Schedule.series(start, end, count)` (already converted by `DTIME`). -/
def series (sch : Sched) (start : Int) (stop : Option Int) (count : Int) (fuel : Nat) :
    Option (List Int) :=
  seriesFuel sch start stop fuel (roundDown start sch.unit) count.toNat

/-! ### parser -/

/-- `str.isspace` / regex `\s` on ASCII -/
def isSpace (c : Char) : Bool :=
  c.toNat == 32 || (9 ≤ c.toNat && c.toNat ≤ 13) || (28 ≤ c.toNat && c.toNat ≤ 31)

def isDigit (c : Char) : Bool := c.isDigit
/-- `[a-z]` under re.IGNORECASE, ASCII -/
def isAlpha (c : Char) : Bool := c.isAlpha

def lowerS (s : List Char) : List Char := s.map Char.toLower

def natOfDigits (ds : List Char) : Nat := ds.foldl (fun a c => a * 10 + (c.toNat - 48)) 0

/-- `s.strip()` -/
def strip (s : List Char) : List Char :=
  ((s.dropWhile isSpace).reverse.dropWhile isSpace).reverse

/-- `s.split(sep)` for a one-character separator (always at least one piece). -/
def splitOn (sep : Char) : List Char → List (List Char)
  | [] => [[]]
  | c :: rest =>
    if c = sep then [] :: splitOn sep rest
    else match splitOn sep rest with
      | [] => [[c]]
      | p :: ps => (c :: p) :: ps

/-- `s.split(":", 1)`: `none` when there is no colon (`len(parts) != 2`). -/
def splitColon : List Char → Option (List Char × List Char)
  | [] => none
  | c :: rest =>
    if c = ':' then some ([], rest)
    else match splitColon rest with
      | none => none
      | some (a, b) => some (c :: a, b)

/-- `s.split()`: maximal runs of non-whitespace -/
def words (s : List Char) : List (List Char) :=
  let rec go : List Char → List Char → List (List Char)
    | [], cur => if cur.isEmpty then [] else [cur.reverse]
    | c :: rest, cur =>
      if isSpace c then (if cur.isEmpty then go rest [] else cur.reverse :: go rest [])
      else go rest (c :: cur)
  go s []

def singularUnit? (s : String) : Option TUnit :=
  match s with
  | "year" => some .years | "month" => some .months | "week" => some .weeks | "day" => some .days
  | "hour" => some .hours | "minute" => some .minutes | "second" => some .seconds
  | "years" => some .years | "months" => some .months | "weeks" => some .weeks
  | "days" => some .days | "hours" => some .hours | "minutes" => some .minutes
  | "seconds" => some .seconds
  | _ => none

/-- `_parse_interval(interval_str)`:
```
  interval_str = interval_str.lower()
  if interval_str in _INTERVAL_ALIASES: return _INTERVAL_ALIASES[interval_str]
  m = re.match(r'^(?P<num>\d+)[-\s]+(?P<unit>[a-z]+)$', interval_str, re.I)
  if not m: raise ValueError
  unit = _SINGULAR_UNITS.get(unit, unit);  if unit not in _VALID_UNITS: raise ValueError
``` -/
def parseInterval (s : List Char) : Except Err (Nat × TUnit) :=
  let s := lowerS s
  match String.ofList s with
  | "annual" => .ok (1, .years)
  | "monthly" => .ok (1, .months)
  | "weekly" => .ok (1, .weeks)
  | "daily" => .ok (1, .days)
  | "hourly" => .ok (1, .hours)
  | _ =>
    let (ds, r1) := s.span isDigit
    let (sep, r2) := r1.span (fun c => c == '-' || isSpace c)
    if ds.isEmpty || sep.isEmpty || r2.isEmpty || !r2.all isAlpha then .error .value
    else match singularUnit? (String.ofList r2) with
      | some u => .ok (natOfDigits ds, u)
      | none => .error .value

inductive SlotType where
  | date | mday | wday | time | mins | delta
deriving Repr, DecidableEq

/-- `_ALLOWED_SLOTS_BY_UNIT.get(parent_unit) or ('delta',)` -/
def allowedSlots : TUnit → List SlotType
  | .years => [.date, .time, .delta]
  | .months => [.mday, .time, .delta]
  | .weeks => [.wday, .time, .delta]
  | .days => [.time, .delta]
  | .hours => [.mins, .delta]
  | _ => [.delta]

/-- The groups of a successful `_SLOT_RE.match(part)`. -/
inductive SlotMatch where
  | dateName (name : List Char) (day : Nat)      -- `[a-z]+-\d+`
  | dateNum (month : Nat) (day : Nat)            -- `\d+/\d+`
  | mday (day : Nat)                             -- `/\d+`
  | wday (name : List Char)                      -- `[a-z]+`
  | time (h : Nat) (mins : Option Nat) (ampm : Option Bool)  -- `\d+(?::\d{2}(am|pm)?|(am|pm))`, true = pm
  | mins (m : Nat)                               -- `:\d{2}`
  | delta (count : Nat) (unit : List Char)       -- `\+\d+[a-z]+`
deriving Repr, DecidableEq

def SlotMatch.type : SlotMatch → SlotType
  | .dateName .. => .date | .dateNum .. => .date | .mday .. => .mday | .wday .. => .wday
  | .time .. => .time | .mins .. => .mins | .delta .. => .delta

/-- `am|pm` (case-insensitive) as the whole remaining input -/
def ampm? (s : List Char) : Option Bool :=
  match lowerS s with
  | ['a', 'm'] => some false
  | ['p', 'm'] => some true
  | _ => none

def allDigits (s : List Char) : Bool := !s.isEmpty && s.all isDigit

/-- `_SLOT_RE.match(part)` for a part without whitespace: the six alternatives start with
    different character classes, so the match is deterministic. -/
def matchSlot (p : List Char) : Option SlotMatch :=
  match p with
  | [] => none
  | c :: rest =>
    if isAlpha c then
      let (name, r) := p.span isAlpha
      match r with
      | [] => some (.wday name)
      | '-' :: ds => if allDigits ds then some (.dateName name (natOfDigits ds)) else none
      | _ => none
    else if isDigit c then
      let (ds, r) := p.span isDigit
      match r with
      | '/' :: ds2 => if allDigits ds2 then some (.dateNum (natOfDigits ds) (natOfDigits ds2)) else none
      | ':' :: d1 :: d2 :: r2 =>
        if isDigit d1 && isDigit d2 then
          (match r2 with
           | [] => some (.time (natOfDigits ds) (some (natOfDigits [d1, d2])) none)
           | _ => match ampm? r2 with
             | some pm => some (.time (natOfDigits ds) (some (natOfDigits [d1, d2])) (some pm))
             | none => none)
        else none
      | _ => match ampm? r with
        | some pm => some (.time (natOfDigits ds) none (some pm))
        | none => none
    else if c = '/' then
      if allDigits rest then some (.mday (natOfDigits rest)) else none
    else if c = ':' then
      match rest with
      | [d1, d2] => if isDigit d1 && isDigit d2 then some (.mins (natOfDigits rest)) else none
      | _ => none
    else if c = '+' then
      let (ds, r) := rest.span isDigit
      if !ds.isEmpty && !r.isEmpty && r.all isAlpha then some (.delta (natOfDigits ds) r) else none
    else none

def monthOffset? (name : String) : Option Nat :=
  match name with
  | "january" => some 0 | "jan" => some 0 | "february" => some 1 | "feb" => some 1
  | "march" => some 2 | "mar" => some 2 | "april" => some 3 | "apr" => some 3
  | "may" => some 4 | "june" => some 5 | "jun" => some 5 | "july" => some 6 | "jul" => some 6
  | "august" => some 7 | "aug" => some 7 | "september" => some 8 | "sep" => some 8
  | "october" => some 9 | "oct" => some 9 | "november" => some 10 | "nov" => some 10
  | "december" => some 11 | "dec" => some 11
  | _ => none

def weekdayOffset? (name : String) : Option Nat :=
  match name with
  | "sunday" => some 0 | "sun" => some 0 | "su" => some 0
  | "monday" => some 1 | "mon" => some 1 | "mo" => some 1
  | "tuesday" => some 2 | "tue" => some 2 | "tu" => some 2
  | "wednesday" => some 3 | "wed" => some 3 | "we" => some 3
  | "thursday" => some 4 | "thu" => some 4 | "th" => some 4
  | "friday" => some 5 | "fri" => some 5 | "fr" => some 5
  | "saturday" => some 6 | "sat" => some 6 | "sa" => some 6
  | _ => none

/-- `_SHORT_UNITS` (case-sensitive) -/
def shortUnit? (s : List Char) : Option TUnit :=
  match s with
  | ['y'] => some .years | ['m'] => some .months | ['w'] => some .weeks | ['d'] => some .days
  | ['H'] => some .hours | ['M'] => some .minutes | ['S'] => some .seconds
  | _ => none

/-- `_SLOT_PARSERS[slot_type](m)`: the list of `(count, unit)` of one slot part. -/
def slotItems : SlotMatch → Except Err (List (Int × TUnit))
  | .dateName name day =>
    match monthOffset? (String.ofList (lowerS name)) with
    | some mn => .ok [((mn : Int), .months), ((day : Int) - 1, .days)]
    | none => .error .value
  | .dateNum month day => .ok [((month : Int) - 1, .months), ((day : Int) - 1, .days)]
  | .mday day => .ok [((day : Int) - 1, .days)]
  | .wday name =>
    match weekdayOffset? (String.ofList (lowerS name)) with
    | some w => .ok [((w : Int), .days)]
    | none => .error .value
  | .time h mins ampm =>
    let minutes : Nat := mins.getD 0
    let hours : Nat := match ampm with
      | some pm => h % 12 + (if pm then 12 else 0)
      | none => h
    .ok [((hours : Int), .hours), ((minutes : Int), .minutes)]
  | .mins m => .ok [((m : Int), .minutes)]
  | .delta count unit =>
    match shortUnit? unit with
    | some u => .ok [((count : Int), u)]
    | none => .error .value

/-- One slot part: regex, allowed slot types for the interval unit, then the part's parser. -/
def classifyPart (unit : TUnit) (part : List Char) : Except Err (List (Int × TUnit)) :=
  match matchSlot part with
  | none => .error .value                                   -- "Invalid slot"
  | some m =>
    if (allowedSlots unit).contains m.type then slotItems m
    else .error .value                                      -- "Invalid slot ... for unit"

/-- ```
        for count, unit in _SLOT_PARSERS[slot_type](m):
          delta.add_interval(count, unit)
          if unit in seen_units: raise ValueError("Duplicate unit")
          seen_units.add(unit)
``` -/
def addItems : List (Int × TUnit) → Delta × List TUnit → Except Err (Delta × List TUnit)
  | [], st => .ok st
  | (n, u) :: rest, (δ, seen) =>
    match δ.addInterval n u with
    | .error e => .error e
    | .ok δ' =>
      if seen.contains u then .error .value
      else addItems rest (δ', u :: seen)

def parseParts (unit : TUnit) : List (List Char) → Delta × List TUnit → Except Err Delta
  | [], st => .ok st.1
  | part :: rest, st =>
    match classifyPart unit part with
    | .error e => .error e
    | .ok items =>
      match addItems items st with
      | .error e => .error e
      | .ok st' => parseParts unit rest st'

/-- `_parse_slot(slot_str, parent_unit)` -/
def parseSlot (unit : TUnit) (slotStr : List Char) : Except Err Delta :=
  match words slotStr with
  | [] => .error .value                                     -- "At least one slot must be specified"
  | parts => parseParts unit parts ({}, [])

def parseSlots (unit : TUnit) : List (List Char) → Except Err (List Delta)
  | [] => .ok []
  | s :: rest =>
    match parseSlot unit s with
    | .error e => .error e
    | .ok d =>
      match parseSlots unit rest with
      | .error e => .error e
      | .ok ds => .ok (d :: ds)

/-- `Schedule.__init__(spec_string)` -/
def parse (spec : List Char) : Except Err Sched :=
  match splitColon spec with
  | none => .error .value
  | some (a, b) =>
    match parseInterval (strip a) with
    | .error e => .error e
    | .ok (n, unit) =>
      match ({} : Delta).addInterval (n : Int) unit with
      | .error e => .error e
      | .ok iv =>
        match parseSlots unit (splitOn ',' b) with
        | .error e => .error e
        | .ok slots => .ok { unit := unit, interval := iv, slots := slots }

end Grist.Schedule
