/-
Model of `UserActions.RenameChoices` (sandbox/grist/useractions.py) and
`ChoiceColumn.rename_choices` / `_rename_cell_choice`, `ChoiceListColumn._rename_cell_choice`
(sandbox/grist/column.py), together with the two engine steps the produced update goes through
(`Engine.trim_update_action`, the row assertion of `DocActions.BulkUpdateRecord`).

Strings are `List Char` (so that `decide` evaluates the examples).  What is NOT modelled: the
lookup of the table / column objects (KeyError for unknown ids), type conversion of the new cell
values (`convert` is the identity on `str` and on tuples of `str`, which is all a `str -> str`
rename map can produce), recalculation of formulas that read the column, JSON text <-> value
(`json.loads` / `json.dumps` are parameters: the harness hands the parsed filter to the model).
-/
namespace Grist.Choices

abbrev Str := List Char

/-- A raw cell of the column (`col._data[i]`).
    `str`   a Python `str`            (the right type of a Choice column; alt-text of a ChoiceList),
    `strs`  a tuple/list of `str`     (the right type of a ChoiceList column),
    `none`  Python `None`,
    `other` anything else (numbers, tuples with non-strings, …), kept as an opaque token. -/
inductive Val where
  | none
  | str (s : Str)
  | strs (l : List Str)
  | other (tok : Str)
  deriving DecidableEq, Repr, Inhabited

/-- Column class: `ChoiceColumn`, `ChoiceListColumn`, or any other column class (which has no
    `rename_choices`). -/
inductive Kind where
  | choice | choiceList | other
  deriving DecidableEq, Repr, Inhabited

/-- The `renames` dict as its item list (keys distinct, as decoded from a JSON object). -/
abbrev Renames := List (Str × Str)

/-- `renames.get(choice, choice)` -/
def rn (m : Renames) (c : Str) : Str := (m.lookup c).getD c

/-- `type_obj.default`: `''` for Choice (a Text), `None` for ChoiceList. -/
def dflt : Kind → Val
  | .choice => .str []
  | _ => .none

/--
```
# ChoiceColumn.rename_choices:
      if value is not None and self.type_obj.is_right_type(value):
        value = self._rename_cell_choice(renames, value)
# ChoiceColumn:      return renames.get(value)
# ChoiceListColumn:  if any((v in renames) for v in value):
#                      return tuple(renames.get(choice, choice) for choice in value)
#                    return None
```
`is_right_type`: Choice = `str` (or None, excluded above); ChoiceList = tuple/list of `str`. -/
def renameCell : Kind → Renames → Val → Option Val
  | .choice, m, .str s => (m.lookup s).map Val.str
  | .choiceList, m, .strs l =>
      if l.any (fun v => (m.lookup v).isSome) then some (.strs (l.map (rn m))) else Option.none
  | _, _, _ => Option.none

/--
```
    for row_id, value in enumerate(self._data):
      ...
        if value is not None:
          row_ids.append(row_id)
          values.append(value)
```
Enumerates EVERY slot of `_data`: slot 0 (the empty record) and the slots of removed rows too. -/
def renameFrom (k : Kind) (m : Renames) : Nat → List Val → List (Nat × Val)
  | _, [] => []
  | i, v :: vs =>
    match renameCell k m v with
    | some nv => (i, nv) :: renameFrom k m (i + 1) vs
    | Option.none => renameFrom k m (i + 1) vs

/-- `Engine.trim_update_action`: keep only rows with `values[i] != col_obj.raw_get(row_id)`. -/
def trim (data : List Val) (upd : List (Nat × Val)) : List (Nat × Val) :=
  upd.filter (fun p => data[p.1]? != some p.2)

inductive Err where
  | assertion      -- AssertionError: docactions.[Bulk]UpdateRecord for non-existent record
  | attribute      -- AttributeError
  | typeError      -- TypeError
  | jsonDecode     -- json.JSONDecodeError
  deriving DecidableEq, Repr, Inhabited

def Err.name : Err → String
  | .assertion => "AssertionError"
  | .attribute => "AttributeError"
  | .typeError => "TypeError"
  | .jsonDecode => "JSONDecodeError"

/--
```
    if not col.is_formula():
      row_ids, values = col.rename_choices(renames)          # AttributeError for other classes
      values = [encode_object(v) for v in values]
      self.BulkUpdateRecord(table_id, row_ids, {col_id: values})
```
`BulkUpdateRecord` → `doBulkUpdateRecord`: convert (identity here), `trim_update_action`, then
`_do_doc_action` (skipped when no row is left) → `DocActions.BulkUpdateRecord`:
`assert row_id in table.row_ids` for every row.  The result is the doc action's (row, value) list. -/
def cellUpdates (k : Kind) (isFormula : Bool) (m : Renames) (data : List Val) (live : List Nat) :
    Except Err (List (Nat × Val)) :=
  if isFormula then .ok []
  else if k = .other then .error .attribute
  else
    let upd := trim data (renameFrom k m 0 data)
    if upd.all (fun p => live.contains p.1) then .ok upd else .error .assertion

/-! ### saved filters -/

/-- an element of a filter's value list: a string, or any other JSON value (opaque token) -/
inductive Elem where
  | str (s : Str)
  | other (tok : Str)
  deriving DecidableEq, Repr, Inhabited

/-- the JSON value under one key of the parsed filter -/
inductive FVal where
  | arr (l : List Elem)        -- a JSON array
  | str (s : Str)              -- a JSON string  (Python iterates its characters)
  | keys (ks : List Str)       -- a JSON object  (Python iterates its keys)
  | scalar (tok : Str)         -- number / true / false / null: not iterable
  deriving DecidableEq, Repr, Inhabited

/-- `json.loads(rec.filter)` -/
inductive FJ where
  | obj (kvs : List (Str × FVal))
  | nonObj (tok : Str)
  deriving DecidableEq, Repr, Inhabited

/-- the text of `rec.filter` -/
inductive FText where
  | empty                      -- '' (falsy: skipped)
  | invalid                    -- not JSON
  | json (j : FJ)
  deriving DecidableEq, Repr, Inhabited

structure FilterRec where
  id : Nat
  colRef : Nat
  filter : FText
  deriving DecidableEq, Repr, Inhabited

/-- `renames.get(value, value) if isinstance(value, str) else value` -/
def renameElem (m : Renames) : Elem → Elem
  | .str s => .str (rn m s)
  | e => e

/-- `for value in values` -/
def iterate : FVal → Except Err (List Elem)
  | .arr l => .ok l
  | .str s => .ok (s.map (fun c => Elem.str [c]))
  | .keys ks => .ok (ks.map Elem.str)
  | .scalar _ => .error .typeError

/--
```
      new_filter = {
        include_exclude: [rename(value) for value in values]
        for include_exclude, values in col_filter.items()
      }
``` -/
def renameKvs (m : Renames) : List (Str × FVal) → Except Err (List (Str × FVal))
  | [] => .ok []
  | (k, v) :: rest =>
    match iterate v with
    | .error e => .error e
    | .ok xs =>
      match renameKvs m rest with
      | .error e => .error e
      | .ok rest' => .ok ((k, FVal.arr (xs.map (renameElem m))) :: rest')

def renameFilter (m : Renames) : FJ → Except Err FJ
  | .obj kvs => (renameKvs m kvs).map FJ.obj
  | .nonObj _ => .error .attribute          -- `.items()` of a non-dict

/--
```
    col_filters = filters.filter_records(colRef=colRef)
    for rec in col_filters:
      if not rec.filter:
        continue
      col_filter = json.loads(rec.filter)
      new_filter = ...
      if col_filter != new_filter:
        row_ids.append(rec.id)
        values.append(json.dumps(new_filter))
```
`recs` = all records of `_grist_Filters` in row-id order. -/
def filterUpdates (m : Renames) (colRef : Nat) : List FilterRec → Except Err (List (Nat × FJ))
  | [] => .ok []
  | r :: rest =>
    if r.colRef != colRef then filterUpdates m colRef rest
    else match r.filter with
      | .empty => filterUpdates m colRef rest
      | .invalid => .error .jsonDecode
      | .json j =>
        match renameFilter m j with
        | .error e => .error e
        | .ok nj =>
          match filterUpdates m colRef rest with
          | .error e => .error e
          | .ok us => .ok (if j != nj then (r.id, nj) :: us else us)

structure Input where
  kind : Kind
  isFormula : Bool
  renames : Renames
  data : List Val          -- `col._data`, slot 0 included
  live : List Nat          -- `table.row_ids`
  colRef : Nat
  filters : List FilterRec
  deriving Repr, Inhabited

structure Result where
  cells : List (Nat × Val)      -- rows / values of the BulkUpdateRecord on the column
  filters : List (Nat × FJ)     -- rows / new parsed filter of the BulkUpdateRecord on _grist_Filters
  deriving DecidableEq, Repr, Inhabited

/-- `RenameChoices(table_id, col_id, renames)`; any error rolls the whole bundle back. -/
def renameChoices (x : Input) : Except Err Result :=
  match cellUpdates x.kind x.isFormula x.renames x.data x.live with
  | .error e => .error e
  | .ok cu =>
    match filterUpdates x.renames x.colRef x.filters with
    | .error e => .error e
    | .ok fu => .ok ⟨cu, fu⟩

end Grist.Choices
