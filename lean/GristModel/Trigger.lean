/-
Model of the trigger-formula recalculation MECHANISM of the data engine, for ONE trigger column
`c` (a data column with a formula) of one table, over ONE bundle (`apply_user_actions`).

Python (sandbox/grist), quoted where modelled:

engine.py  apply_user_actions:
    for user_action in user_actions:
      self._prevent_recompute_map.clear()          # exemptions cleared per USER ACTION
      ... self._apply_one_user_action(user_action)
    self._maybe_update_trigger_dependencies()      # edges rebuilt only HERE (end of bundle)
    self._bring_all_up_to_date()                   # recalculation only HERE (end of bundle)

engine.py  _maybe_update_trigger_dependencies:
    if col_rec.recalcWhen == RecalcWhen.DEFAULT:
      for dc in col_rec.recalcDeps: add_edge(out_node, Node(table_id, dc.colId), SingleRowsIdentityRelation)

relation.py SingleRowsIdentityRelation.get_affected_rows:
    return [] if input_rows == depend.ALL_ROWS else input_rows

engine.py  _recompute_step:    dirty_rows = recompute_map[node];  exempt = _prevent_recompute_map.get(node)
    dirty_rows = dirty_rows - exempt ; rows not in table.row_ids are skipped ("declare victory")

docactions.py BulkUpdateRecord:  for every written column: if not col.is_formula(): prevent_recalc(col.node, row_ids, True)
                                 invalidate_records(table_id, row_ids, col_ids=columns.keys())
docactions.py BulkAddRecord -> engine.add_records: ... self.invalidate_records(table_id, row_ids)   (NO prevent_recalc)
docactions.py BulkRemoveRecord:  self._engine.invalidate_records(table_id, row_ids)

useractions.py doBulkAddOrReplace:
    recalc_cols = {col_id not in column_values and col_rec.recalcWhen != NEVER}
    invalidate_records(table_id, filled_row_ids, data_cols_to_recompute=recalc_cols)
useractions.py doBulkUpdateRecord:
    action = trim_update_action(action)      # drops columns with no changed value, then rows with no changed value
    self._do_doc_action(action)
    if column_values:
      if col_rec.recalcWhen == MANUAL_UPDATES: invalidate_column(col_obj, row_ids, recompute_data_col=True)
      if col_id in column_values and col_rec.recalcOnChangesToSelf: prevent_recalc(col_obj.node, row_ids, False)
docmodel.py recalcOnChangesToSelf:  rec.recalcWhen == RecalcWhen.DEFAULT and rec.id in rec.recalcDeps

Abstractions (checked differentially by harness/gx/props/c15.py):
 * columns are metadata refs (`Nat`); `Env.ups f` = the plain data columns a formula column `f`
   reads in the same row (transitively): a write to one of them invalidates `f`'s cell of that row
   (IdentityRelation edges created when `f` was evaluated), and from there `c` if `f` is a dep;
 * recalcDeps are plain data columns, formula columns over plain data columns, or `c` itself;
 * a user-level update carries `diff` = the (row, col) cells whose new value differs from the
   stored one (that is all `trim_update_action` looks at);
 * "all columns of the table are invalidated" (add/remove) reaches `c` iff `c` has any edge.
-/
namespace Grist.Trigger

/-- schema.RecalcWhen: DEFAULT=0, NEVER=1, MANUAL_UPDATES=2 -/
inductive RecalcWhen
  | dflt | never | manual
deriving DecidableEq, Repr

structure Config where
  when : RecalcWhen
  deps : List Nat
deriving DecidableEq, Repr

structure Env where
  /-- the trigger column under observation -/
  c : Nat
  /-- formula column ↦ data columns whose write invalidates it (same row) -/
  ups : List (Nat × List Nat)
deriving Repr

def Env.upsOf (env : Env) (f : Nat) : List Nat := (env.ups.lookup f).getD []

/-- A record doc action applied verbatim (ApplyUndoActions / ApplyDocActions). -/
inductive DocStep
  | add (rows : List Nat)
  | update (rows : List Nat) (cols : List Nat)
  | remove (rows : List Nat)
deriving DecidableEq, Repr

/-- One user action of the bundle. -/
inductive UA
  /-- AddRecord / BulkAddRecord: `supplied` = columns given a value by the request -/
  | add (rows : List Nat) (supplied : List Nat)
  /-- UpdateRecord / BulkUpdateRecord as requested; `diff` = cells whose value differs -/
  | update (rows : List Nat) (cols : List Nat) (diff : List (Nat × Nat))
  | remove (rows : List Nat)
  /-- UpdateRecord on `_grist_Tables_column` of `c` changing recalcWhen / recalcDeps -/
  | setConfig (cfg : Config)
  /-- a schema change to column `col` (rename, type change, formula change): ALL_ROWS of it -/
  | schema (col : Nat)
  /-- ApplyUndoActions / ApplyDocActions: doc actions applied verbatim inside ONE user action -/
  | doc (steps : List DocStep)
deriving DecidableEq, Repr

/-- rows argument of `invalidate_deps`: `depend.ALL_ROWS` or specific rows -/
inductive Rows
  | all
  | some (l : List Nat)

/-- `SingleRowsIdentityRelation.get_affected_rows` -/
def singleRowsAffected : Rows → List Nat
  | .all => []
  | .some l => l

/-- `_maybe_update_trigger_dependencies`: in-nodes of the edges out of `c`. -/
def edgesOf (cfg : Config) : List Nat :=
  match cfg.when with
  | .dflt => cfg.deps
  | _ => []

/-- `recalcOnChangesToSelf` -/
def selfDep (env : Env) (cfg : Config) : Bool :=
  cfg.when == .dflt && cfg.deps.contains env.c

/-- Does invalidating column `x` reach `c` through the edges that currently exist?
    (`invalidate_deps(x.node, rows, include_self=False)`: direct edge, or via a formula column
    that reads `x`). -/
def hit (env : Env) (edges : List Nat) (x : Nat) : Bool :=
  edges.any (fun e => e == x || (env.upsOf e).contains x)

structure MState where
  /-- live metadata of `c` -/
  cfg : Config
  /-- dependency-graph edges out of `c` (rebuilt only at the end of a bundle) -/
  edges : List Nat
  /-- `table.row_ids` -/
  alive : List Nat
  /-- `recompute_map[c]` -/
  dirty : List Nat
  /-- `_prevent_recompute_map[c]` -/
  prevented : List Nat
deriving Repr

/-- `invalidate_column(x, rows)` for a column `x ≠ c` seen from `c`. -/
def invalidateCol (env : Env) (st : MState) (x : Nat) (rows : Rows) : MState :=
  if hit env st.edges x then { st with dirty := st.dirty ++ singleRowsAffected rows } else st

/-- `invalidate_records(table, rows, col_ids=cols)`: `invalidate_column` for every column of
    `cols` with the same rows, so `c` receives `rows` iff any of the columns reaches it. -/
def invalidateCols (env : Env) (st : MState) (cols : List Nat) (rows : Rows) : MState :=
  if cols.any (hit env st.edges) then { st with dirty := st.dirty ++ singleRowsAffected rows } else st

/-- `invalidate_records(table, rows)` over ALL columns of the table: reaches `c` iff it has an edge. -/
def invalidateAll (st : MState) (rows : List Nat) : MState :=
  if !st.edges.isEmpty then { st with dirty := st.dirty ++ rows } else st

/-- `trim_update_action`: columns for which any value changed. -/
def keptCols (rows cols : List Nat) (diff : List (Nat × Nat)) : List Nat :=
  cols.filter (fun x => rows.any (fun r => diff.contains (r, x)))

/-- `trim_update_action`: rows for which any (kept) column changed. -/
def keptRows (rows cols : List Nat) (diff : List (Nat × Nat)) : List Nat :=
  rows.filter (fun r => (keptCols rows cols diff).any (fun x => diff.contains (r, x)))

/-- docactions.BulkAddRecord (+ add_records) -/
def docAdd (st : MState) (rows : List Nat) : Except String MState :=
  if rows.any st.alive.contains then .error "AssertionError"
  else .ok (invalidateAll { st with alive := st.alive ++ rows } rows)

/-- docactions.BulkUpdateRecord -/
def docUpdate (env : Env) (st : MState) (rows cols : List Nat) : Except String MState :=
  if rows.any (fun r => !st.alive.contains r) then .error "AssertionError"
  else
    let st := if cols.contains env.c then { st with prevented := st.prevented ++ rows } else st
    .ok (invalidateCols env st cols (.some rows))

/-- docactions.BulkRemoveRecord ("Ignore records that don't exist") -/
def docRemove (st : MState) (rows : List Nat) : MState :=
  invalidateAll { st with alive := st.alive.filter (fun r => !rows.contains r) }
    (rows.filter st.alive.contains)

def stepDoc (env : Env) (st : MState) : DocStep → Except String MState
  | .add rows => docAdd st rows
  | .update rows cols => docUpdate env st rows cols
  | .remove rows => .ok (docRemove st rows)

def runDoc (env : Env) : MState → List DocStep → Except String MState
  | st, [] => .ok st
  | st, s :: rest => do
    let st' ← stepDoc env st s
    runDoc env st' rest

/-- useractions.doBulkAddOrReplace -/
def userAdd (env : Env) (st : MState) (rows supplied : List Nat) : Except String MState := do
  let st ← docAdd st rows
  -- recalc_cols: `if col_id in column_values: continue` / `if recalcWhen == NEVER: continue`
  let inRecalc := !supplied.contains env.c && st.cfg.when != .never
  -- invalidate_records(table, rows, data_cols_to_recompute=recalc_cols)
  let st := invalidateAll st rows
  pure (if inRecalc then { st with dirty := st.dirty ++ rows } else st)

/-- useractions.doBulkUpdateRecord, first half: `self._do_doc_action(action)` with the trimmed
    action; `action.simplify()` is None when no row is left -/
def userUpdateDoc (env : Env) (st : MState) (kr kc : List Nat) : Except String MState :=
  if kr.isEmpty then .ok st else docUpdate env st kr kc

/-- useractions.doBulkUpdateRecord, second half: `if column_values:` ... -/
def userUpdatePost (env : Env) (st : MState) (kr kc : List Nat) : MState :=
  if kc.isEmpty then st
  else
    -- MANUAL_UPDATES: invalidate_column(col_obj, row_ids, recompute_data_col=True)
    let st1 := if st.cfg.when == .manual then { st with dirty := st.dirty ++ kr } else st
    -- self-dependency: prevent_recalc(node, row_ids, should_prevent=False)
    if kc.contains env.c && selfDep env st1.cfg
    then { st1 with prevented := st1.prevented.filter (fun r => !kr.contains r) } else st1

/-- useractions.doBulkUpdateRecord -/
def userUpdate (env : Env) (st : MState) (rows cols : List Nat) (diff : List (Nat × Nat)) :
    Except String MState :=
  match userUpdateDoc env st (keptRows rows cols diff) (keptCols rows cols diff) with
  | .error e => .error e
  | .ok st1 => .ok (userUpdatePost env st1 (keptRows rows cols diff) (keptCols rows cols diff))

/-- One user action; the exemptions are cleared first. -/
def stepUA (env : Env) (st : MState) (ua : UA) : Except String MState :=
  let st := { st with prevented := [] }
  match ua with
  | .add rows supplied => userAdd env st rows supplied
  | .update rows cols diff => userUpdate env st rows cols diff
  | .remove rows => .ok (docRemove st rows)
  | .setConfig cfg => .ok { st with cfg := cfg }
  | .schema col => .ok (invalidateCol env st col .all)
  | .doc steps => runDoc env st steps

def runUAs (env : Env) : MState → List UA → Except String MState
  | st, [] => .ok st
  | st, ua :: rest => do
    let st' ← stepUA env st ua
    runUAs env st' rest

/-- `_recompute_step` at the end of the bundle: the cells of `c` that get evaluated. -/
def evaluatedOf (st : MState) : List Nat :=
  st.dirty.filter (fun r => st.alive.contains r && !st.prevented.contains r)

structure Result where
  evaluated : List Nat
  /-- state for the next bundle: recompute_map drained, edges rebuilt from the live metadata -/
  next : MState
deriving Repr

/-- A whole bundle.  `dirty0` = what `recompute_map[c]` holds when the bundle starts: empty after
    every successful bundle (the map is drained), but NOT after a failed one (the rollback
    re-applies the undo actions, which invalidate again, and nothing recalculates). -/
def runBundle (env : Env) (cfg : Config) (edges alive dirty0 : List Nat) (b : List UA) : Except String Result := do
  let st ← runUAs env { cfg := cfg, edges := edges, alive := alive, dirty := dirty0, prevented := [] } b
  pure { evaluated := evaluatedOf st,
         next := { st with dirty := [], prevented := [], edges := edgesOf st.cfg } }

/-! ## The specification (from the property text), independent of the mechanism

Per user action and row: does the action TRIGGER a recalculation of `c` in that row, and does it
PROTECT the cell (a value set explicitly in that user action)?  -/

/-- a recalcDeps cell of the row is written (among `cols`) or recomputed (a formula dep reading a written column) -/
def depTouched (env : Env) (cfg : Config) (cols : List Nat) : Bool :=
  cfg.deps.any (fun d => cols.contains d || (env.upsOf d).any cols.contains)

def trigDoc (env : Env) (cfg : Config) (r : Nat) : DocStep → Bool
  | .update rows cols => rows.contains r && (cfg.when == .dflt && depTouched env cfg cols)
  | _ => false

/-- doc actions set every cell they name; a re-added record has all its cells supplied -/
def protDoc (env : Env) (r : Nat) : DocStep → Bool
  | .add rows => rows.contains r
  | .update rows cols => rows.contains r && cols.contains env.c
  | .remove _ => false

def trig (env : Env) (cfg : Config) (r : Nat) : UA → Bool
  -- "a new record gets the formula's value unless recalcWhen is NEVER or the action supplied a value"
  -- (a supplied value of a self-dependent column is itself a written recalcDeps cell)
  | .add rows supplied =>
      rows.contains r && (cfg.when != .never && (!supplied.contains env.c || selfDep env cfg))
  -- DEFAULT: a recalcDeps cell of the row written or recomputed; MANUAL_UPDATES: the update changes the row
  | .update rows cols diff =>
      (keptRows rows cols diff).contains r &&
        ((cfg.when == .dflt && depTouched env cfg (keptCols rows cols diff)) || cfg.when == .manual)
  | .doc steps => steps.any (trigDoc env cfg r)
  -- "schema changes to dependencies never trigger recalculation"
  | _ => false

/-- "A value set explicitly in the same user action is kept (unless the column depends on itself)" -/
def prot (env : Env) (cfg : Config) (r : Nat) : UA → Bool
  | .add rows supplied => rows.contains r && (supplied.contains env.c && !selfDep env cfg)
  | .update rows cols _ => rows.contains r && (cols.contains env.c && !selfDep env cfg)
  | .doc steps => steps.any (protDoc env r)
  | _ => false

/-- DEFAULT, strict reading: a plain-data recalcDeps cell of the row CHANGES VALUE. -/
def mustTrig (env : Env) (cfg : Config) (r : Nat) : UA → Bool
  | .add rows supplied => trig env cfg r (.add rows supplied)
  | .update rows cols diff =>
      rows.contains r &&
        ((cfg.when == .dflt && cfg.deps.any (fun d => cols.contains d && diff.contains (r, d)))
          || (cfg.when == .manual && cols.any (fun x => diff.contains (r, x))))
  | _ => false

def cfgAfter (cfg : Config) : UA → Config
  | .setConfig c' => c'
  | _ => cfg

/-- every user action with the configuration that is live when it runs -/
def annot : Config → List UA → List (Config × UA)
  | _, [] => []
  | cfg, ua :: rest => (cfg, ua) :: annot (cfgAfter cfg ua) rest

def aliveAfterDoc (alive : List Nat) : DocStep → List Nat
  | .add rows => alive ++ rows
  | .update _ _ => alive
  | .remove rows => alive.filter (fun r => !rows.contains r)

def aliveAfterUA (alive : List Nat) : UA → List Nat
  | .add rows _ => alive ++ rows
  | .remove rows => alive.filter (fun r => !rows.contains r)
  | .doc steps => steps.foldl aliveAfterDoc alive
  | _ => alive

def aliveAfter (alive : List Nat) (b : List UA) : List Nat := b.foldl aliveAfterUA alive

/-- Declarative: the cell of row `r` is to be recalculated at the end of the bundle iff the row
    exists then, some user action triggers it without protecting it, and no later user action of
    the bundle sets it explicitly. -/
def RecalcSet (env : Env) (cfg : Config) (alive : List Nat) (b : List UA) (r : Nat) : Prop :=
  r ∈ aliveAfter alive b ∧
  ∃ pre cu post, annot cfg b = pre ++ cu :: post ∧
    trig env cu.1 r cu.2 = true ∧ prot env cu.1 r cu.2 = false ∧
    ∀ x ∈ post, prot env x.1 r x.2 = false

/-- Executable form: status of the cell after each user action (pending recalculation or not). -/
def pendingGo (env : Env) (r : Nat) : Bool → List (Config × UA) → Bool
  | p, [] => p
  | p, cu :: rest =>
    pendingGo env r (if prot env cu.1 r cu.2 then false else if trig env cu.1 r cu.2 then true else p) rest

def recalcB (env : Env) (cfg : Config) (alive : List Nat) (b : List UA) (r : Nat) : Bool :=
  (aliveAfter alive b).contains r && pendingGo env r false (annot cfg b)

/-! ## Domain of the partial theorem (all decidable, reported by the driver) -/

def isDocAdd : DocStep → Bool
  | .add _ => true
  | _ => false

/-- the user action names `c` in a record update -/
def namesC (env : Env) : UA → Bool
  | .update _ cols _ => cols.contains env.c
  | .doc steps => steps.any (fun s => match s with
      | .update _ cols => cols.contains env.c
      | _ => false)
  | _ => false

def addsRow (r : Nat) : UA → Bool
  | .add rows _ => rows.contains r
  | .doc steps => steps.any (fun s => match s with
      | .add rows => rows.contains r
      | _ => false)
  | _ => false

def mentionsDoc (r : Nat) : DocStep → Bool
  | .add rows => rows.contains r
  | .update rows _ => rows.contains r
  | .remove rows => rows.contains r

def mentions (r : Nat) : UA → Bool
  | .add rows _ => rows.contains r
  | .update rows _ _ => rows.contains r
  | .remove rows => rows.contains r
  | .doc steps => steps.any (mentionsDoc r)
  | _ => false

def addedRowsDoc : DocStep → List Nat
  | .add rows => rows
  | _ => []

/-- the record ids a user action adds -/
def addedRows : UA → List Nat
  | .add rows _ => rows
  | .doc steps => steps.flatMap addedRowsDoc
  | _ => []

/-- (H-edges) whenever a user action runs, the edges are those of the live configuration -/
def edgesCurrent (edges : List Nat) (l : List (Config × UA)) : Bool :=
  l.all (fun cu => edgesOf cu.1 == edges)

/-- (H-add) no value is supplied for `c` in a new record while `c` has dependency edges
    (unless self-dependent); no verbatim re-add of records while `c` has dependency edges -/
def addOk (env : Env) (cfg : Config) : UA → Bool
  | .add _ supplied => !supplied.contains env.c || selfDep env cfg || (edgesOf cfg).isEmpty
  | .doc steps => !steps.any isDocAdd || (edgesOf cfg).isEmpty
  | _ => true

/-- (H-trim) an explicit value for `c` survives `trim_update_action` in every row of the request -/
def trimOk (env : Env) (cfg : Config) : UA → Bool
  | .update rows cols diff =>
      !(cols.contains env.c && !selfDep env cfg) ||
        ((keptCols rows cols diff).contains env.c && rows.all (keptRows rows cols diff).contains)
  | _ => true

/-- (H-last) only the LAST user action of the bundle names `c` in a record update -/
def lastOk (env : Env) : List (Config × UA) → Bool
  | [] => true
  | cu :: rest => (rest.isEmpty || !namesC env cu.2) && lastOk env rest

/-- (H-fresh) a record id is added only if no earlier user action of the bundle mentions it -/
def freshOk : List (Config × UA) → Bool
  | [] => true
  | cu :: rest =>
    rest.all (fun x => (addedRows x.2).all (fun r => !mentions r cu.2)) && freshOk rest

def inDomain (env : Env) (cfg : Config) (edges : List Nat) (b : List UA) : Bool :=
  edgesCurrent edges (annot cfg b) &&
  (annot cfg b).all (fun cu => addOk env cu.1 cu.2 && trimOk env cu.1 cu.2) &&
  lastOk env (annot cfg b) && freshOk (annot cfg b)

end Grist.Trigger
