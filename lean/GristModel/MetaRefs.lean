/-
C09: references inside the metadata resolve.  A decidable predicate on the document model
(GristModel/Doc.lean) parameterised by the list of reference columns (from schema.py: every
Ref:/RefList: column of a `_grist_*` table), plus the clauses the property names that are not
plain reference resolution.  Also the shared clean-up mechanism of `doBulkRemoveRecord`:
before rows are removed every reference to them is cleared (Ref ↦ 0, RefList ↦ filtered / None).
-/
import GristModel.Engine
namespace Grist.Doc

structure RefSpec where
  table : String
  col : String
  target : String
  isList : Bool
deriving Repr, DecidableEq, Inhabited

/-- digits of a decimal literal -/
def natOfDigits (cs : List Char) : Option Nat :=
  if cs.isEmpty then none
  else cs.foldl (fun acc ch => match acc with
    | none => none
    | some n => if ch.isDigit then some (n * 10 + (ch.toNat - '0'.toNat)) else none) (some 0)

/-- row ids of an encoded list token `["L", 1, 4]` (as produced by the harness canonicaliser);
    `none` if the text is not such a list of non-negative integers -/
def parseRefList (s : String) : Option (List Nat) :=
  if s == "[\"L\"]" then some []
  else if s.startsWith "[\"L\", " && s.endsWith "]" then
    let body := ((s.drop 6).toString.dropEnd 1).toString
    (body.splitOn ", ").mapM (fun part => natOfDigits part.toList)
  else none

/-- rows a cell refers to; `none` = not a reference value (alt-text, error): ignored, as the
    engine's relation ignores wrong-typed values -/
def cellRefs (isList : Bool) (v : Val) : Option (List Nat) :=
  if isList then
    match v with
    | .null => some []
    | .other s => parseRefList s
    | _ => none
  else
    match v with
    | .int i => if i ≤ 0 then some [] else some [i.toNat]
    | .null => some []
    | _ => none

def specHolds (d : Doc) (sp : RefSpec) : Bool :=
  match findTable? d sp.table, findTable? d sp.target with
  | some tb, some tt =>
    match tb.findCol? sp.col with
    | some col => tb.rows.all (fun r =>
        match cellRefs sp.isList (col.cells r) with
        | some l => l.all (fun k => tt.rows.contains k)
        | none => true)
    | none => true
  | _, _ => true

/-- every reference of every listed column points at an existing row -/
def refsResolve (d : Doc) (specs : List RefSpec) : Bool := specs.all (specHolds d)

/-- first dangling reference, for reporting: (table, col, row, missing target row) -/
def firstDangling (d : Doc) (specs : List RefSpec) : Option (String × String × Nat × Nat) :=
  specs.findSome? (fun sp =>
    match findTable? d sp.table, findTable? d sp.target with
    | some tb, some tt =>
      match tb.findCol? sp.col with
      | some col => tb.rows.findSome? (fun r =>
          match cellRefs sp.isList (col.cells r) with
          | some l => (l.find? (fun k => !tt.rows.contains k)).map (fun k => (sp.table, sp.col, r, k))
          | none => none)
      | none => none
    | _, _ => none)

def intCell (tb : Table) (c : String) (r : Nat) : Nat :=
  match tb.findCol? c with
  | some col => match col.cells r with
    | .int i => i.toNat
    | _ => 0
  | none => 0

def strCell (tb : Table) (c : String) (r : Nat) : String :=
  match tb.findCol? c with
  | some col => match col.cells r with
    | .str s => s
    | _ => ""
  | none => ""

/-- a field's column belongs to the table its section shows -/
def fieldsMatchSection (d : Doc) : Bool :=
  match findTable? d "_grist_Views_section_field", findTable? d "_grist_Views_section",
        findTable? d "_grist_Tables_column" with
  | some ft, some st, some ct =>
    ft.rows.all (fun f =>
      let s := intCell ft "parentId" f
      let c := intCell ft "colRef" f
      s == 0 || c == 0 || !st.rows.contains s || !ct.rows.contains c ||
        intCell ct "parentId" c == intCell st "tableRef" s)
  | _, _, _ => true

def isUserTableId (t : String) : Bool := !(t.startsWith "_grist_")

/-- every user table has exactly one `_grist_Tables` record, and it has a raw view section -/
def userTablesHaveRecords (d : Doc) : Bool :=
  match findTable? d "_grist_Tables" with
  | some mt =>
    (d.filter (fun tb => isUserTableId tb.id)).all (fun tb =>
      let recs := mt.rows.filter (fun r => strCell mt "tableId" r == tb.id)
      recs.length == 1 && recs.all (fun r => intCell mt "rawViewSectionRef" r != 0))
  | none => true

/-- display / rule helper columns are still used by a column, field or section -/
def helpersUsed (d : Doc) : Bool :=
  match findTable? d "_grist_Tables_column", findTable? d "_grist_Views_section_field",
        findTable? d "_grist_Views_section" with
  | some ct, some ft, some st =>
    let listHas (tb : Table) (c : String) (k : Nat) : Bool :=
      tb.rows.any (fun r => match tb.findCol? c with
        | some col => match cellRefs true (col.cells r) with
          | some l => l.contains k
          | none => false
        | none => false)
    ct.rows.all (fun h =>
      let cid := strCell ct "colId" h
      if cid.startsWith "gristHelper_Display" then
        ct.rows.any (fun r => intCell ct "displayCol" r == h) || ft.rows.any (fun r => intCell ft "displayCol" r == h)
      else if cid.startsWith "gristHelper_ConditionalRule" || cid.startsWith "gristHelper_RowConditionalRule" then
        listHas ct "rules" h || listHas ft "rules" h || listHas st "rules" h
      else true)
  | _, _, _ => true

def metaRefsResolve (d : Doc) (specs : List RefSpec) : Bool :=
  refsResolve d specs && fieldsMatchSection d && userTablesHaveRecords d && helpersUsed d

/-! ### the clean-up performed before rows are removed (`doBulkRemoveRecord`) -/

def renderRefList (l : List Nat) : Val :=
  if l.isEmpty then .null
  else .other ("[\"L\", " ++ ", ".intercalate (l.map toString) ++ "]")

/-- new value of a referring cell once `gone` rows of its target disappear -/
def cleanedCell (isList : Bool) (gone : List Nat) (v : Val) : Val :=
  match cellRefs isList v with
  | none => v
  | some l =>
    if l.any (fun k => gone.contains k) then
      (if isList then renderRefList (l.filter (fun k => !gone.contains k)) else .int 0)
    else v

/-- the update actions clearing all references (in the listed columns) to `gone` rows of `t` -/
def cleanupUpdates (d : Doc) (specs : List RefSpec) (t : String) (gone : List Nat) : List DocAction :=
  (specs.filter (fun sp => sp.target == t)).filterMap (fun sp =>
    match findTable? d sp.table with
    | some tb =>
      match tb.findCol? sp.col with
      | some col =>
        let rows := tb.rows.filter (fun r => cleanedCell sp.isList gone (col.cells r) != col.cells r)
        if rows.isEmpty then none
        else some (.bulkUpdate sp.table rows [(sp.col, rows.map (fun r => cleanedCell sp.isList gone (col.cells r)))])
      | none => none
    | none => none)

end Grist.Doc
