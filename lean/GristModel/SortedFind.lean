/-
Model of the sorted searches of sandbox/grist:
  * sort_key.py   `make_sort_key` / `SortKey.__lt__` (incl. the type-rank fallback on TypeError)
  * records.py    `RecordSet._at/_get_sort_key/_find_eq/_bisect_index/_bisect_find`, `FindOps`
                  (previous / next / rank / lt / le / gt / ge / eq), Python's `bisect_left/right`
  * functions/prevnext.py  `PREVIOUS / NEXT / RANK / _sorted_lookup`
  * table.py      `lookup_records` only as far as: filter by the group key, `sorted(..., key=sort_key)`

Value universe (what the property names: "duplicate and mixed-type sort keys"): None, bool, int,
str.  Floats (NaN), lists, dates are outside the model.  `manualSort` positions are modelled as
ints (the check only uses integral positions).
-/
namespace Grist.SortedFind

/-! ### cell values and Python's `<` on them -/

inductive Val where
  | none
  | bool (b : Bool)
  | int (i : Int)
  | str (s : String)
deriving Repr, DecidableEq, Inhabited

/-- The numeric value of an `isinstance(a, Number)` value (`True == 1`, `False == 0`). -/
def Val.num? : Val → Option Int
  | .bool b => some (if b then 1 else 0)
  | .int i => some i
  | _ => Option.none

/-- Python `a < b`.  `none` = `TypeError` ('<' not supported between ...): any comparison with
    `None` (also `None < None`) and str against number.  bool/int compare numerically, str by code
    points. -/
def pyLt : Val → Val → Option Bool
  | .str a, .str b => some (decide (a < b))
  | a, b =>
    match a.num?, b.num? with
    | some x, some y => some (decide (x < y))
    | _, _ => none

/-- `type(a).__name__` -/
def typeName : Val → String
  | .none => "NoneType"
  | .bool _ => "bool"
  | .int _ => "int"
  | .str _ => "str"

/-- `af = ( (0 if a is None else 1), (0 if isinstance(a, Number) else 1), type(a).__name__ )` -/
def fallback (a : Val) : Nat × Nat × String :=
  ((if a = .none then 0 else 1), (if a.num?.isSome then 0 else 1), typeName a)

/-- Python tuple `<` on the fallback triples (lexicographic). -/
def tupLt (x y : Nat × Nat × String) : Bool :=
  if x.1 != y.1 then decide (x.1 < y.1)
  else if x.2.1 != y.2.1 then decide (x.2.1 < y.2.1)
  else decide (x.2.2 < y.2.2)

/-- One iteration of the loop in `SortKey.__lt__` for `(a, b, (col_obj, sign))`;
    `desc = true` means `sign == -1` (column id prefixed by '-').
    `some r` = `return r`, `none` = fall through to the next column.

      try:
        if a < b: return sign == 1
        if b < a: return sign == -1
      except TypeError:
        af = ...; bf = ...
        if af < bf: return sign == 1
        if bf < af: return sign == -1
-/
def cmp1 (desc : Bool) (a b : Val) : Option Bool :=
  let except_ : Option Bool :=
    if tupLt (fallback a) (fallback b) then some (!desc)
    else if tupLt (fallback b) (fallback a) then some desc
    else none
  match pyLt a b with
  | none => except_
  | some true => some (!desc)
  | some false =>
    match pyLt b a with
    | none => except_
    | some true => some desc
    | some false => none

/-! ### SortKey -/

/-- Row ids that a `SortKey` can carry: a real row id, or the sentinels of records.py
    `_min_row_id = -sys.float_info.max`, `_max_row_id = sys.float_info.max`. -/
inductive RowId where
  | negMax
  | id (n : Nat)
  | posMax
deriving Repr, DecidableEq, Inhabited

/-- `self.row_id < other.row_id` (int / float comparison). -/
def RowId.lt : RowId → RowId → Bool
  | .negMax, .negMax => false
  | .negMax, _ => true
  | .id _, .negMax => false
  | .id a, .id b => decide (a < b)
  | .id _, .posMax => true
  | .posMax, _ => false

/-- `SortKey(row_id, values)`; `values` already resolved (given, or the row's cells). -/
structure Key where
  rowId : RowId
  values : List Val
deriving Repr, DecidableEq, Inhabited

/-- `for (a, b, (col_obj, sign)) in zip(self.values, other.values, col_sort_spec): ...`
    (zip stops at the shortest of the three).  `none` = loop ended without returning. -/
def keyLtLoop : List Val → List Val → List Bool → Option Bool
  | a :: as, b :: bs, desc :: spec =>
    match cmp1 desc a b with
    | some r => some r
    | none => keyLtLoop as bs spec
  | _, _, _ => none

/-- `SortKey.__lt__`: the loop, then `return self.row_id < other.row_id`. -/
def keyLt (spec : List Bool) (x y : Key) : Bool :=
  match keyLtLoop x.values y.values spec with
  | some r => r
  | none => x.rowId.lt y.rowId

/-! ### table rows and record sets -/

/-- A row as the sorted lookup sees it: its id, the cell values of the sort-spec columns (in spec
    order, `tuple(c.get_cell_value(row_id) for (c, _) in col_sort_spec)`), and the cell values of
    the group_by columns. -/
structure Row where
  id : Nat
  cells : List Val
  group : List Val
deriving Repr, DecidableEq, Inhabited

/-- `key(row_id)` for a row of the table. -/
def key (r : Row) : Key := ⟨.id r.id, r.cells⟩

/-! ### Python's bisect (with `key=`)

  def bisect_left(a, x, lo=0, hi=None, *, key=None):     def bisect_right(...):
    if hi is None: hi = len(a)
    while lo < hi:
      mid = (lo + hi) // 2
      if key(a[mid]) < x: lo = mid + 1                      if x < key(a[mid]): hi = mid
      else: hi = mid                                        else: lo = mid + 1
    return lo
-/
def bisectLeft {α β : Type} (lt : β → β → Bool) (key : α → β) (a : List α) (x : β)
    (lo hi : Nat) : Nat :=
  if lo < hi then
    let mid := (lo + hi) / 2
    match a[mid]? with
    | none => lo            -- unreachable when hi ≤ len(a)  (Python: IndexError)
    | some e =>
      if lt (key e) x then bisectLeft lt key a x (mid + 1) hi
      else bisectLeft lt key a x lo mid
  else lo
termination_by hi - lo
decreasing_by all_goals omega

def bisectRight {α β : Type} (lt : β → β → Bool) (key : α → β) (a : List α) (x : β)
    (lo hi : Nat) : Nat :=
  if lo < hi then
    let mid := (lo + hi) / 2
    match a[mid]? with
    | none => lo
    | some e =>
      if lt x (key e) then bisectRight lt key a x lo mid
      else bisectRight lt key a x (mid + 1) hi
  else lo
termination_by hi - lo
decreasing_by all_goals omega

/-! ### RecordSet -/

/-- `RecordSet._at(index)`: `self._row_ids[index] if 0 <= index < len(self._row_ids) else 0`;
    `none` stands for the empty record `Record(0)`. -/
def atIndex (rs : List Row) (index : Int) : Option Row :=
  if 0 ≤ index ∧ index < (rs.length : Int) then rs[index.toNat]? else none

/-- Row id of a returned record (`0` for the empty record). -/
def recId : Option Row → Nat
  | some r => r.id
  | none => 0

/-- `_get_sort_key`: `if not self._sort_key: raise ValueError(...)`.  The sort key is absent exactly
    when the sort spec is empty (`order_by="id"` first / no manualSort), table.lookup_records. -/
def getSortKey (spec : List Bool) : Except String Unit :=
  if spec.isEmpty then throw "ValueError" else pure ()

/-- `key(search_row_id, search_values)` for the sentinel ids:
    `self.values = values or tuple(c.get_cell_value(row_id) ...)` — an empty `values` tuple is
    falsy, so the cells of row `±float max` are fetched: `TypeError: list indices must be integers`. -/
def probeKey (rid : RowId) (values : List Val) : Except String Key :=
  if values.isEmpty then throw "TypeError" else pure ⟨rid, values⟩

/-- `_bisect_index(bisect_func, search_row_id, search_values)` with the key already built. -/
def bisectIndex (spec : List Bool) (rs : List Row) (left : Bool) (k : Key) : Nat :=
  if left then bisectLeft (keyLt spec) key rs k 0 rs.length
  else bisectRight (keyLt spec) key rs k 0 rs.length

/-- `_bisect_find(bisect_func, shift, ...)`: `self._at(i + shift)` -/
def bisectFind (spec : List Bool) (rs : List Row) (left : Bool) (shift : Int) (k : Key) :
    Option Row :=
  atIndex rs ((bisectIndex spec rs left k : Nat) + shift)

/-! ### FindOps -/

/-- `lt(*values)`: `_bisect_find(bisect_left, -1, _min_row_id, values)` -/
def findLt (spec : List Bool) (rs : List Row) (values : List Val) : Except String (Option Row) := do
  getSortKey spec
  let k ← probeKey .negMax values
  pure (bisectFind spec rs true (-1) k)

/-- `le(*values)`: `_bisect_find(bisect_right, -1, _max_row_id, values)` -/
def findLe (spec : List Bool) (rs : List Row) (values : List Val) : Except String (Option Row) := do
  getSortKey spec
  let k ← probeKey .posMax values
  pure (bisectFind spec rs false (-1) k)

/-- `gt(*values)`: `_bisect_find(bisect_right, 0, _max_row_id, values)` -/
def findGt (spec : List Bool) (rs : List Row) (values : List Val) : Except String (Option Row) := do
  getSortKey spec
  let k ← probeKey .posMax values
  pure (bisectFind spec rs false 0 k)

/-- `ge(*values)`: `_bisect_find(bisect_left, 0, _min_row_id, values)` -/
def findGe (spec : List Bool) (rs : List Row) (values : List Val) : Except String (Option Row) := do
  getSortKey spec
  let k ← probeKey .negMax values
  pure (bisectFind spec rs true 0 k)

/-- `_find_eq(*values)`:
      found = self._bisect_find(bisect_left, 0, _min_row_id, values)
      if found:                                   # Record.__bool__ = bool(row_id)
        key = self._get_sort_key()
        if key(found._row_id, values) < key(found._row_id):
          return self._table.Record(0, ...)
      return found
-/
def findEq (spec : List Bool) (rs : List Row) (values : List Val) : Except String (Option Row) := do
  getSortKey spec
  let k ← probeKey .negMax values
  let found := bisectFind spec rs true 0 k
  match found with
  | none => pure found
  | some f =>
    if f.id != 0 then
      if keyLt spec ⟨.id f.id, values⟩ (key f) then pure none else pure found
    else pure found

/-- `previous(row)`: `_bisect_find(bisect_left, -1, row_id)` (the key is the row's own key) -/
def findPrevious (spec : List Bool) (rs : List Row) (r : Row) : Except String (Option Row) := do
  getSortKey spec
  pure (bisectFind spec rs true (-1) (key r))

/-- `next(row)`: `_bisect_find(bisect_right, 0, row_id)` -/
def findNext (spec : List Bool) (rs : List Row) (r : Row) : Except String (Option Row) := do
  getSortKey spec
  pure (bisectFind spec rs false 0 (key r))

/-- `rank(row, order="asc")`:
      index = self._rset._bisect_index(bisect_left, row_id)
      if order == "asc": return index + 1
      elif order == "desc": return len(self._rset) - index
      else: raise ValueError(...)
-/
def findRank (spec : List Bool) (rs : List Row) (r : Row) (order : String) : Except String Int := do
  getSortKey spec
  let index := bisectIndex spec rs true (key r)
  if order == "asc" then pure ((index : Int) + 1)
  else if order == "desc" then pure ((rs.length : Int) - (index : Int))
  else throw "ValueError"

/-! ### lookup_records (filter by group key, sort) and PREVIOUS / NEXT / RANK -/

/-- Python `==` on cell values as used by the lookup map's dict key (`True == 1`, `False == 0`). -/
def pyEq : Val → Val → Bool
  | .none, .none => true
  | .str a, .str b => a == b
  | a, b =>
    match a.num?, b.num? with
    | some x, some y => x == y
    | _, _ => false

def groupEq : List Val → List Val → Bool
  | [], [] => true
  | a :: as, b :: bs => pyEq a b && groupEq as bs
  | _, _ => false

/-- insertion of `x` into a sorted list (before the first element that `x` is strictly less than). -/
def insertSorted {α : Type} (lt : α → α → Bool) (x : α) : List α → List α
  | [] => [x]
  | y :: ys => if lt x y then x :: y :: ys else y :: insertSorted lt x ys

/-- `sorted(row_id_set, key=sort_key)`.  Modelled by an insertion sort: on rows with distinct ids
    `keyLt` is a strict total order, so the sorted permutation is unique (GristProps.C14
    `lookup_sorted_unique`) and neither the algorithm nor the set's iteration order matters. -/
def pySorted {α : Type} (lt : α → α → Bool) (l : List α) : List α :=
  l.foldr (insertSorted lt) []

/-- `table.lookup_records(**group, order_by=...)`: the rows whose group_by cells equal the given
    values, ordered by the sort key. -/
def lookupRecords (spec : List Bool) (tbl : List Row) (gvals : List Val) : List Row :=
  pySorted (fun a b => keyLt spec (key a) (key b)) (tbl.filter (fun r => groupEq r.group gvals))

/-- `_sorted_lookup(rec, group_by, order_by)` =
    `rec._table.lookup_records(**{c: getattr(rec, c) for c in group_by}, order_by=order_by)` -/
def sortedLookup (spec : List Bool) (tbl : List Row) (r : Row) : List Row :=
  lookupRecords spec tbl r.group

def PREVIOUS (spec : List Bool) (tbl : List Row) (r : Row) : Except String (Option Row) :=
  findPrevious spec (sortedLookup spec tbl r) r

def NEXT (spec : List Bool) (tbl : List Row) (r : Row) : Except String (Option Row) :=
  findNext spec (sortedLookup spec tbl r) r

def RANK (spec : List Bool) (tbl : List Row) (r : Row) (order : String) : Except String Int :=
  findRank spec (sortedLookup spec tbl r) r order

/-! ### vocabulary of the linear-scan specification -/

/-- "the sort values `a` come strictly before `b`" under the SortKey comparison itself: two keys with
    the SAME row id, so that the row-id tie-break never decides (exactly the test `_find_eq` uses). -/
def valuesBefore (spec : List Bool) (a b : List Val) : Bool :=
  keyLt spec ⟨.id 0, a⟩ ⟨.id 0, b⟩

/-- linear scans over the ordered record set: last / first row satisfying `p`, else the empty record -/
def scanLast (rs : List Row) (p : Row → Bool) : Option Row := (rs.filter p).getLast?
def scanFirst (rs : List Row) (p : Row → Bool) : Option Row := rs.find? p

end Grist.SortedFind
