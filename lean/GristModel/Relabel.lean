/-
Model of sandbox/grist/relabeling.py `prepare_inserts` (list labeling for row positions) and of the
bookkeeping around it (`_group_insertions`, `ungroup`, `ListWithAdjustments`).

ONE transcription, generic over the key type `K`:
  * comparisons are the only thing the bookkeeping needs (`<`, `≤`; Python's `==`/`!=` on floats is
    `keq`/`kne` below, which coincides with float equality when no NaN is present);
  * everything numeric (`get_range`, `range_around_float`, `begin + count + 1`, the density
    thresholds `1.14^i`/`1.3^i`, `0.0`, `-inf`, `math.isinf`) is a field of `FloatLike K`.
The driver instantiates `K := Float` with `floatOps` (bit-exact transcription of the arithmetic) and
is compared bit-for-bit with the real code.  The theorems (GristProps/C20.lean) are about an
arbitrary lawful linear order `K`; none of them mentions `Float`.

`relabels` / `renumbers` in `Work` are ghost counters (how many times `_adjust_range` /
`_adjust_all` ran); the real code has no such fields, the harness counts the calls by observation.
-/
namespace Grist.Relabel

/-- Python's `sorted(...)` / `list.sort()`: a stable insertion sort.  Every order it is used with
    below is total on the elements being sorted (they carry distinct indices), so any correct sorting
    algorithm produces the same list. -/
def insertBy {α : Type} (le : α → α → Bool) (a : α) : List α → List α
  | [] => [a]
  | b :: l => if le a b then a :: b :: l else b :: insertBy le a l

def isort {α : Type} (le : α → α → Bool) : List α → List α
  | [] => []
  | a :: l => insertBy le a (isort le l)

/-! ## order-level bookkeeping -/
section Generic
variable {K : Type} [LT K] [LE K] [DecidableLT K] [DecidableLE K]

/-- Python `x == y` on keys (floats, no NaN). -/
def keq (a b : K) : Bool := !(decide (a < b)) && !(decide (b < a))
/-- Python `x != y` on keys. -/
def kne (a b : K) : Bool := decide (a < b) || decide (b < a)

/-- `SortedList.bisect_left` / `bisect_key_left` on a list that is sorted by construction:
    the first index whose element is not `< k` (so a key equal to an existing one goes BEFORE it). -/
def bisectLeft : List K → K → Nat
  | [], _ => 0
  | x :: xs, k => if x < k then bisectLeft xs k + 1 else 0

/-- `SortedList.add(x)`: insert at `bisect_right` (after equal elements). -/
def insertRight : List K → K → List K
  | [], x => [x]
  | y :: ys, x => if x < y then x :: y :: ys else y :: insertRight ys x

/-- `SortedList.update(values)`. -/
def insertMany (xs : List K) (vs : List K) : List K := vs.foldl insertRight xs

/-- `SortedList.remove(x)`: `none` = ValueError (not present). -/
def removeFirst : List K → K → Option (List K)
  | [], _ => none
  | y :: ys, x => if keq y x then some ys else (removeFirst ys x).map (y :: ·)

/-- `SortedList.irange(lo, hi)` (both ends inclusive). -/
def irange (xs : List K) (lo hi : K) : List K := xs.filter (fun v => decide (lo ≤ v) && decide (v ≤ hi))

/-- `all_distinct`: no two CONSECUTIVE items are equal. -/
def allDistinct : List K → Bool
  | a :: b :: t => kne a b && allDistinct (b :: t)
  | _ => true

/-- `is_valid_range(begin, iterable, end)` = `all_distinct(chain((begin,), iterable, (end,)))`. -/
def isValidRange (b : K) (mid : List K) (e : K) : Bool := allDistinct (b :: mid ++ [e])

/-- tuple order on `(key, i)` as used by `sorted((key, i) for i, key in enumerate(keys))`. -/
def leKI (a b : K × Nat) : Bool := decide (a.1 < b.1) || (!(decide (b.1 < a.1)) && decide (a.2 ≤ b.2))

/-- `ins_keys = sorted((key, i) for i, key in enumerate(keys))`. -/
def insKeys (keys : List K) : List (K × Nat) := isort leKI keys.zipIdx

/-- `itertools.groupby` on consecutive equal values, keeping `(value, run length)`. -/
def groupRuns : List Nat → List (Nat × Nat)
  | [] => []
  | x :: xs =>
    match groupRuns xs with
    | (y, c) :: rest => if x = y then (y, c + 1) :: rest else (x, 1) :: (y, c) :: rest
    | [] => [(x, 1)]

/-- `ins_groups = [(index, len(list(it))) for index, it in groupby(ins_keys, key=bisect_key_left(pair[0]))]`. -/
def insGroups (existing keys : List K) : List (Nat × Nat) :=
  groupRuns ((insKeys keys).map (fun p => bisectLeft existing p.1))

/-- `indices = [i for key, i in ins_keys]`. -/
def indices (keys : List K) : List Nat := (insKeys keys).map (·.2)

/-- `ungroup(new_keys) = [key for _, key in sorted(zip(indices, new_keys))]`
    (the indices are distinct, so the tuple comparison never reaches the keys). -/
def ungroup (idx : List Nat) (newKeys : List K) : List K :=
  (isort (fun a b => decide (a.1 ≤ b.1)) (idx.zip newKeys)).map (·.2)

/-- What the caller does with the adjustments: write `key` at index `i` of the existing list. -/
def applyAdj (existing : List K) (adj : List (Nat × K)) : List K :=
  adj.foldl (fun acc p => acc.set p.1 p.2) existing

/-! ### the decidable checker `validOutcome` (adjacent comparisons only) -/

def strictlyInc : List K → Bool
  | a :: b :: t => decide (a < b) && strictlyInc (b :: t)
  | _ => true

/-- `s` fits into slot `b` of `final`: after `final[b-1]` (if any) and before `final[b]` (if any). -/
def slotOK (final : List K) (b : Nat) (s : K) : Bool :=
  (match b with
   | 0 => true
   | b' + 1 => match final[b']? with | some x => decide (x < s) | none => false) &&
  (match final[b]? with | some y => decide (s < y) | none => b == final.length)

def nodupNat : List Nat → Bool
  | [] => true
  | x :: xs => !(xs.contains x) && nodupNat xs

/-- Decidable checker of an outcome `(adjustments, new_keys)` of `prepare_inserts(existing, keys)`:
    uses only O(n + m log m) comparisons of neighbours. `checker_sound` derives the property's
    quantified clauses from it. -/
def validOutcome (isFin : K → Bool) (existing keys : List K) (adj : List (Nat × K))
    (newKeys : List K) : Bool :=
  let final := applyAdj existing adj
  let sk := insKeys keys
  newKeys.length == keys.length &&
  nodupNat (adj.map (·.1)) &&
  adj.all (fun p => decide (p.1 < existing.length) && isFin p.2) &&
  newKeys.all isFin &&
  strictlyInc final &&
  (match newKeys with
   | [] => true
   | d :: _ =>
     -- new keys taken in the order of the sorted requests are strictly increasing …
     strictlyInc (sk.map (fun p => newKeys.getD p.2 d)) &&
     -- … and each sits in the slot of `final` where its requested key bisects `existing`
     sk.all (fun p => slotOK final (bisectLeft existing p.1) (newKeys.getD p.2 d)))

/-! ## ListWithAdjustments -/

/-- Numeric operations of relabeling.py on keys. -/
structure FloatLike (K : Type) where
  /-- `0.0` -/
  zero : K
  /-- `float('-inf')` -/
  negInf : K
  /-- `math.isinf` -/
  isInf : K → Bool
  /-- `begin + count + 1` -/
  endAfter : K → Nat → K
  /-- `orig_len + ins_len + 1.0` -/
  allEnd : Nat → Nat → K
  /-- `get_range(start, end, count)` -/
  getRange : K → K → Nat → List K
  /-- `range_around_float(x, i)`; `none` = OverflowError from `math.ldexp` -/
  rangeAround : K → Nat → Option (K × K)
  /-- `count < thresh` where `thresh = frac^i`, `frac = (1.14, 1.3)[fracIdx]` -/
  sparse : Nat → Nat → Nat → Bool

inductive Err where
  | assertCount        -- assert count > 0
  | assertCountRange   -- assert self.count_range(begin, end) > 0        (prep_inserts_at_index)
  | assertSparse       -- assert self.count_range(rbegin, rend) > 0      (_find_sparse_enough_range)
  | assertValid        -- assert is_valid_range(begin, irange(begin, end), end)  after relabeling
  | notExpected        -- raise ValueError("This isn't expected")
  | removeMissing      -- ValueError from SortedList.remove
  | overflow           -- OverflowError from math.ldexp
  | index              -- IndexError
  | zeroDiv            -- ZeroDivisionError in get_range (count == -1)
deriving Repr, DecidableEq

def Err.name : Err → String
  | .assertCount => "AssertionError:count"
  | .assertCountRange => "AssertionError:count_range"
  | .assertSparse => "AssertionError:sparse"
  | .assertValid => "AssertionError:valid"
  | .notExpected => "ValueError:not_expected"
  | .removeMissing => "ValueError:remove"
  | .overflow => "OverflowError"
  | .index => "IndexError"
  | .zeroDiv => "ZeroDivisionError"

structure Work (K : Type) where
  /-- keys of `_orig_list` -/
  orig : List K
  /-- `_adjustments`: SortedListWithKey(key=pair[1]) of `(index, new_key)` -/
  adj : List (Nat × K)
  /-- `_insertions`: SortedList of new keys -/
  ins : List K
  relabels : Nat
  renumbers : Nat

/-- `SortedListWithKey.add((i, k))` with key = `k`: at `bisect_right` of the key. -/
def adjAdd : List (Nat × K) → Nat × K → List (Nat × K)
  | [], x => [x]
  | y :: ys, x => if x.2 < y.2 then x :: y :: ys else y :: adjAdd ys x

/-- `SortedListWithKey.discard((i, k))`: remove the first element equal to the pair, if any. -/
def adjDiscard : List (Nat × K) → Nat × K → List (Nat × K)
  | [], _ => []
  | y :: ys, x => if y.1 == x.1 && keq y.2 x.2 then ys else y :: adjDiscard ys x

/-- `bisect.bisect_left(self._adjustments, (index, float('-inf')))`: the textbook binary search over
    the sequence, comparing tuples. -/
def bsearchIdx (negInf : K) (a : List (Nat × K)) (index : Nat) : Nat → Nat → Nat → Nat
  | 0, lo, _ => lo
  | fuel + 1, lo, hi =>
    if lo < hi then
      let mid := (lo + hi) / 2
      match a[mid]? with
      | some e =>
        if e.1 < index || (e.1 == index && decide (e.2 < negInf)) then bsearchIdx negInf a index fuel (mid + 1) hi
        else bsearchIdx negInf a index fuel lo mid
      | none => lo
    else lo

variable (F : FloatLike K)

/-- `_adj_get_key(index)` -/
def adjGetKey (w : Work K) (index : Nat) : Except Err K :=
  let i := bsearchIdx F.negInf w.adj index (w.adj.length + 1) 0 w.adj.length
  let fromOrig : Except Err K := match w.orig[index]? with
    | some k => pure k
    | none => throw .index
  match w.adj[i]? with
  | some e => if e.1 == index then pure e.2 else fromOrig
  | none => fromOrig

/-- `_adj_bisect_key_left(key)` -/
def adjBisectKeyLeft (w : Work K) (key : K) : Nat :=
  let adjIndex := bisectLeft (w.adj.map (·.2)) key
  let adjNext : Nat := match w.adj[adjIndex]? with
    | some e => e.1
    | none => w.orig.length
  -- adj_prev = self._adjustments[adj_index - 1][0] if adj_index > 0 else -1
  let adjPrev : Int := match adjIndex with
    | 0 => -1
    | j + 1 => match w.adj[j]? with
      | some e => (e.1 : Int)
      | none => -1
  let origIndex := bisectLeft w.orig key
  if adjPrev < (origIndex : Int) && origIndex < adjNext then origIndex else adjNext

/-- `count_range(begin, end)` (a Python int; may be non-positive) -/
def countRange (w : Work K) (b e : K) : Int :=
  ((adjBisectKeyLeft w e : Int) - adjBisectKeyLeft w b) + ((bisectLeft w.ins e : Int) - bisectLeft w.ins b)

structure PrevKey (K : Type) where
  key : K
  isIns : Bool
  i : Nat

/-- tuple order on `(old_key, is_insert, i)` for `prev_keys.sort()` -/
def pkLe (a b : PrevKey K) : Bool :=
  decide (a.key < b.key) ||
  (!(decide (b.key < a.key)) &&
    ((!a.isIns && b.isIns) || (a.isIns == b.isIns && decide (a.i ≤ b.i))))

/-- `_do_adjust_range(adj_begin, adj_end, ins_begin, ins_end, new_begin_key, new_end_key)` -/
def doAdjustRange (w : Work K) (adjBegin adjEnd insBegin insEnd : Nat) (nb ne : K) :
    Except Err (Work K) := do
  -- count = (adj_end - adj_begin) + (ins_end - ins_begin)
  let count : Int := ((adjEnd : Int) - adjBegin) + ((insEnd : Int) - insBegin)
  let pk1 ← (List.range' adjBegin (adjEnd - adjBegin)).mapM
    (fun i => do let k ← adjGetKey F w i; pure (PrevKey.mk k false i))
  let pk2 ← (List.range' insBegin (insEnd - insBegin)).mapM
    (fun i => match w.ins[i]? with
      | some k => pure (PrevKey.mk k true i)
      | none => (throw .index : Except Err (PrevKey K)))
  let prev := isort pkLe (pk1 ++ pk2)
  -- new_keys = get_range(new_begin_key, new_end_key, count)
  if count == -1 then throw .zeroDiv
  let newKeys := if count ≤ 0 then [] else F.getRange nb ne count.toNat
  (prev.zip newKeys).foldlM (fun (w : Work K) (pn : PrevKey K × K) =>
    if pn.1.isIns then
      match removeFirst w.ins pn.1.key with
      | some ins' => pure { w with ins := insertRight ins' pn.2 }
      | none => throw .removeMissing
    else
      pure { w with adj := adjAdd (adjDiscard w.adj (pn.1.i, pn.1.key)) (pn.1.i, pn.2) }) w

/-- `_adjust_range(begin, end)` -/
def adjustRange (w : Work K) (b e : K) : Except Err (Work K) :=
  doAdjustRange F w (adjBisectKeyLeft w b) (adjBisectKeyLeft w e)
    (bisectLeft w.ins b) (bisectLeft w.ins e) b e

/-- `_adjust_all()` -/
def adjustAll (w : Work K) : Except Err (Work K) :=
  doAdjustRange F w 0 w.orig.length 0 w.ins.length F.zero (F.allEnd w.orig.length w.ins.length)

/-- inner loop of `_find_sparse_enough_range` for one `frac`: `i` runs over `range(64)`. -/
def findSparseGo (w : Work K) (b e : K) (fracIdx : Nat) : Nat → Nat → Except Err (Option (K × K))
  | 0, _ => pure none
  | fuel + 1, i =>
    match F.rangeAround b i with
    | none => throw .overflow
    | some (rb, re) =>
      let c := countRange w rb re
      if c ≤ 0 then throw .assertSparse
      else if decide (e ≤ re) && F.sparse fracIdx i c.toNat then pure (some (rb, re))
      else findSparseGo w b e fracIdx fuel (i + 1)

/-- `_find_sparse_enough_range(begin, end)` -/
def findSparse (w : Work K) (b e : K) : Except Err (K × K) := do
  match ← findSparseGo F w b e 0 64 0 with
  | some r => pure r
  | none =>
    match ← findSparseGo F w b e 1 64 0 with
    | some r => pure r
    | none => throw .notExpected

/-- Python `max(a, b)`: `b if b > a else a`. -/
def pyMax (a b : K) : K := if a < b then b else a

/-- `begin < 0 or end <= 0 or math.isinf(max(begin, end))` -/
def invalidEnds (b e : K) : Bool :=
  decide (b < F.zero) || decide (e ≤ F.zero) || F.isInf (pyMax b e)

/-- `begin = self._adj_get_key(index - 1) if index > 0 else 0.0` -/
def beginKey (w : Work K) (index : Nat) : Except Err K :=
  if index > 0 then adjGetKey F w (index - 1) else pure F.zero

/-- `end = self._adj_get_key(index) if index < len(self._orig_list) else begin + count + 1` -/
def endKey (w : Work K) (index count : Nat) (b : K) : Except Err K :=
  if index < w.orig.length then adjGetKey F w index else pure (F.endAfter b count)

/-- the branch for invalid positions ("just renumber everything 1 through n"):
      self._insertions.update([begin if index > 0 else float('-inf')] * count)
      self._adjust_all()                                                                    -/
def renumberBranch (w : Work K) (index count : Nat) (b : K) : Except Err (Work K) :=
  adjustAll F { w with ins := insertMany w.ins (List.replicate count (if index > 0 then b else F.negInf)) }

/-- the branch for a crowded neighbourhood (`w1` already holds the clipped `get_range` keys):
      assert self.count_range(begin, end) > 0
      min_key, max_key = self._find_sparse_enough_range(begin, end)
      self._adjust_range(min_key, max_key)
      assert is_valid_range(begin, self._insertions.irange(begin, end), end)                 -/
def relabelBranch (w1 : Work K) (b e : K) : Except Err (Work K) := do
  if countRange w1 b e ≤ 0 then throw .assertCountRange
  let (lo, hi) ← findSparse F w1 b e
  let w2 ← adjustRange F w1 lo hi
  if !(isValidRange b (irange w2.ins b e) e) then throw .assertValid
  pure w2

/-- `prep_inserts_at_index(index, count)`; the ghost counters are set at this level only. -/
def prepAt (w : Work K) (index count : Nat) : Except Err (Work K) :=
  if count = 0 then .error .assertCount
  else
    match beginKey F w index with
    | .error err => .error err
    | .ok b =>
      match endKey F w index count b with
      | .error err => .error err
      | .ok e =>
        if invalidEnds F b e then
          (renumberBranch F w index count b).map
            (fun w2 => { w2 with relabels := w.relabels, renumbers := w.renumbers + 1 })
        else
          -- self._insertions.update(get_range(begin, end, count))
          let w1 := { w with ins := insertMany w.ins (F.getRange b e count) }
          -- if not is_valid_range(begin, self._insertions.irange(begin, end), end):
          if isValidRange b (irange w1.ins b e) e then .ok w1
          else
            (relabelBranch F w1 b e).map
              (fun w2 => { w2 with relabels := w.relabels + 1, renumbers := w.renumbers })

structure Result (K : Type) where
  adj : List (Nat × K)
  newKeys : List K
  relabels : Nat
  renumbers : Nat

/-- `prepare_inserts(sortedlist, keys)`; `existing` = the keys of `sortedlist` in list order. -/
def prepareInserts (existing keys : List K) : Except Err (Result K) := do
  let w0 : Work K := { orig := existing, adj := [], ins := [], relabels := 0, renumbers := 0 }
  let w ← (insGroups existing keys).foldlM (fun w g => prepAt F w g.1 g.2) w0
  pure { adj := w.adj, newKeys := ungroup (indices keys) w.ins,
         relabels := w.relabels, renumbers := w.renumbers }

end Generic

/-! ## the `Float` instance (driver only) -/
namespace Flt

/-- `prevfloat(x)`:
      n = struct.unpack('<q', struct.pack('<d', x or 0.0))[0]
      n -= (1 if n >= 0 else -1)
      return struct.unpack('<d', struct.pack('<q', n))[0]                                   -/
def prevfloat (x : Float) : Float :=
  let x0 : Float := if x == 0.0 then 0.0 else x
  let n := x0.toBits
  -- as a signed 64-bit integer: n >= 0 iff the sign bit is clear; two's complement wraps like pack('<q')
  if n < 0x8000000000000000 then Float.ofBits (n - 1) else Float.ofBits (n + 1)

def nextfloat (x : Float) : Float :=
  let x0 : Float := if x == 0.0 then 0.0 else x
  let n := x0.toBits
  if n < 0x8000000000000000 then Float.ofBits (n + 1) else Float.ofBits (n - 1)

/-- `get_range(start, end, count)`:
      step = float(end - start) / (count + 1)
      limit = prevfloat(end)
      return [min(start + step * k, limit) for k in range(1, count + 1)]                    -/
def getRange (s e : Float) (count : Nat) : List Float :=
  let step := (e - s) / Float.ofNat (count + 1)
  let limit := prevfloat e
  (List.range' 1 count).map (fun k =>
    let v := s + step * Float.ofNat k
    if limit < v then limit else v)       -- Python min(v, limit): limit only if limit < v

/-- `math.ldexp(x, e)` incl. its OverflowError. -/
def ldexp (x : Float) (e : Int) : Option Float :=
  if x == 0.0 || !x.isFinite then some x
  else
    let r := x.scaleB e
    if r.isInf then none else some r

/-- `range_around_float(x, i)`:
      m, e = math.frexp(x)
      mf = math.floor(math.ldexp(m, 53 - i))
      exp = e + i - 53
      return (math.ldexp(mf, exp), math.ldexp(mf + 1, exp))                                  -/
def rangeAround (x : Float) (i : Nat) : Option (Float × Float) := do
  let (m, e) := x.frExp
  let t ← ldexp m (53 - (i : Int))
  let mf := t.floor
  let exp : Int := e + i - 53
  let lo ← ldexp mf exp
  let hi ← ldexp (mf + 1.0) exp
  pure (lo, hi)

/-- 1.14 and 1.3 as Python parses them (bit patterns, so no dependence on Lean's literal parser). -/
def frac (fracIdx : Nat) : Float :=
  if fracIdx == 0 then Float.ofBits 0x3FF23D70A3D70A3D else Float.ofBits 0x3FF4CCCCCCCCCCCD

/-- `thresh = 1; for i in range(64): … count < thresh …; thresh *= frac` -/
def sparse (fracIdx i count : Nat) : Bool :=
  let thresh := (List.range i).foldl (fun t _ => t * frac fracIdx) 1.0
  Float.ofNat count < thresh

def floatOps : FloatLike Float where
  zero := 0.0
  negInf := Float.ofBits 0xFFF0000000000000
  isInf := Float.isInf
  endAfter := fun b count => b + Float.ofNat count + 1.0
  allEnd := fun n m => Float.ofNat (n + m) + 1.0
  getRange := getRange
  rangeAround := rangeAround
  sparse := sparse

end Flt

end Grist.Relabel
