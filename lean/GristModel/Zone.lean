/-
Model of sandbox/grist/moment.py: `Zone`, `TzInfo`, `ts_to_dt`, `dt_to_ts`, `ts_to_date`,
`date_to_ts`, plus the proleptic Gregorian day-number <-> civil date pair that Python's
`datetime.date` implements (`date - DATE_EPOCH`, `DATE_EPOCH + timedelta`).

Units.  All instants and wall-clock values are INTEGER MILLISECONDS since 1970-01-01T00:00:00
(`utc_to_ts_ms`).  `untils` are the bundled transition instants in ms (the translator checks that
they are integral).  `offsets` are the bundled offsets scaled to integer SECONDS WEST of UTC (the
data has float minutes west; the translator checks `offset*60` is integral up to float noise and
that `timedelta(minutes=-offset)` is that whole number of seconds).  `offset * 60000` of the Python
is therefore `o * 1000` here, and `timedelta(minutes=-offset)` is the east offset `-(o*1000)` ms.

A timestamp argument of `ts_to_dt` (seconds) is represented by its value in ms; an integer-second
timestamp `s` is `1000*s`.  Float rounding at microsecond resolution is out of scope.
-/
namespace Grist.Zone

/-- `Zone.__init__`:
      self.untils  = zone_data.untils[:-1]    # ms, trailing `inf` sentinel dropped
      self.offsets = zone_data.offsets        # here: whole seconds west (Python: minutes west) -/
structure Zone where
  untils : List Int
  offsets : List Int
deriving Repr, DecidableEq

/-- Python exceptions that the modelled code can raise. -/
inductive Err where
  | indexError
deriving Repr, DecidableEq

/-- `lst[i]` for `i ≥ 0`: `IndexError` when out of range. -/
def getE (l : List Int) (i : Nat) : Except Err Int :=
  match l[i]? with
  | some v => .ok v
  | none => .error .indexError

/-- CPython `bisect.bisect_right(a, x)` (lo=0, hi=len(a)):
      while lo < hi:
        mid = (lo + hi) // 2
        if x < a[mid]: hi = mid
        else: lo = mid + 1
      return lo
    `fuel` bounds the loop (hi-lo shrinks each round).  `a[mid]` is always in range
    (`mid < hi ≤ len a`), so the default of `getD` is never used. -/
def bisectGo (a : List Int) (x : Int) : Nat → Nat → Nat → Nat
  | 0, lo, _ => lo
  | fuel + 1, lo, hi =>
    if lo < hi then
      let mid := (lo + hi) / 2
      if x < a.getD mid 0 then bisectGo a x fuel lo mid
      else bisectGo a x fuel (mid + 1) hi
    else lo

def bisectRight (a : List Int) (x : Int) : Nat := bisectGo a x (a.length + 1) 0 a.length

/-- `Zone._index(timestamp)`: `bisect.bisect_right(self.untils, timestamp)`. -/
def index (z : Zone) (tsMs : Int) : Nat := bisectRight z.untils tsMs

/-- `self.offset_untils = [until - offset * 60000 for (until, offset) in zip(untils, offsets)]`. -/
def offsetUntils (z : Zone) : List Int :=
  List.zipWith (fun u o => u - o * 1000) z.untils z.offsets

/-- `timedelta(minutes=-self.offsets[i])` in ms (east of UTC); `IndexError` if out of range. -/
def eastAt (z : Zone) (i : Nat) : Except Err Int := do
  let o ← getE z.offsets i
  pure (-(o * 1000))

/-- `Zone.offset(timestamp_ms)`: `i = self._index(ts); timedelta(minutes=-self.offsets[i])`. -/
def offset (z : Zone) (tsMs : Int) : Except Err Int := eastAt z (index z tsMs)

/-- `Zone._index_dt(dt, favor_offset)` with `wall = utc_to_ts_ms(dt)`:
      i = bisect.bisect_right(self.offset_untils, timestamp)
      if i < len(self.offset_untils) and timestamp >= self.untils[i] - self.offsets[i + 1] * 60000:
        if timedelta(minutes=-self.offsets[i + 1]) == favor_offset:
          return i + 1
      return i
    `favor = none` is Python's `favor_offset=None` (never equal to a timedelta). -/
def indexDt (z : Zone) (wall : Int) (favor : Option Int) : Except Err Nat := do
  let ou := offsetUntils z
  let i := bisectRight ou wall
  if i < ou.length then
    let u ← getE z.untils i
    let o ← getE z.offsets (i + 1)
    if wall ≥ u - o * 1000 then
      if some (-(o * 1000)) = favor then
        return i + 1
  return i

/-- `Zone.dt_offset(dt, favor_offset)`: `timedelta(minutes=-self.offsets[self._index_dt(..)])`. -/
def dtOffset (z : Zone) (wall : Int) (favor : Option Int) : Except Err Int := do
  let i ← indexDt z wall favor
  eastAt z i

/-- An aware local datetime produced by `TzInfo.fromutc`: naive wall-clock value (ms since the
    naive epoch) and the `favor_offset` of the attached `TzInfo` (east, ms). -/
structure LocalDt where
  wall : Int
  favor : Option Int
deriving Repr, DecidableEq

/-- `ts_to_dt(timestamp, zone)`:
      (EPOCH_UTC + timedelta(seconds=timestamp)).astimezone(zone.get_tzinfo(None))
    `astimezone` subtracts the UTC zone's offset (0) and calls `TzInfo.fromutc`:
      offset = self.zone.offset(utc_to_ts_ms(dt))
      return (dt + offset).replace(tzinfo=self.zone.get_tzinfo(offset))
    (When the target tzinfo IS `TZ_UTC`, `astimezone` returns the datetime unchanged: same wall and
    offset, `favor_offset` None instead of 0 — indistinguishable for a zone without transitions.) -/
def tsToDt (z : Zone) (tsMs : Int) : Except Err LocalDt := do
  let e ← offset z tsMs
  pure { wall := tsMs + e, favor := some e }

/-- `dt_to_ts(dt, timezone)` for an aware `dt` (tzinfo = `TzInfo(zone, favor)`) or a naive `dt`
    with `timezone=zone` (then `favor = none`):
      offset = dt.utcoffset()            # = zone.dt_offset(dt, favor)
      return (dt.replace(tzinfo=None) - offset - EPOCH).total_seconds()
    Result in ms. -/
def dtToTs (z : Zone) (wall : Int) (favor : Option Int) : Except Err Int := do
  let e ← dtOffset z wall favor
  pure (wall - e)

def dtToTs' (z : Zone) (d : LocalDt) : Except Err Int := dtToTs z d.wall d.favor

/-! ### dates (day number = days since 1970-01-01; timestamps here in whole SECONDS) -/

/-- `ts_to_date(timestamp)`: `DATE_EPOCH + timedelta(seconds=timestamp)`; `date + timedelta` uses
    only `timedelta.days`, i.e. floor(ts / 86400). -/
def tsToDay (tsSec : Int) : Int := tsSec / 86400

/-- `date_to_ts(date)` (UTC): `(date - DATE_EPOCH).total_seconds()`. -/
def dayToTsUtc (day : Int) : Int := day * 86400

/-- `date_to_ts(date, timezone)`:
      ts = (date - DATE_EPOCH).total_seconds()
      return ts - timezone.offset(ts * 1000).total_seconds()
    NOTE the offset is looked up at the instant of the UTC midnight, not of the local midnight. -/
def dayToTs (z : Zone) (day : Int) : Except Err Int := do
  let ts := day * 86400
  let e ← offset z (ts * 1000)
  pure (ts - e / 1000)

/-- The date part of `ts_to_dt(ts, zone)` (`.date()`), as a day number: floor(wall / 86400000). -/
def localDay (z : Zone) (tsSec : Int) : Except Err Int := do
  let d ← tsToDt z (tsSec * 1000)
  pure (d.wall / 86400000)

/-! ### proleptic Gregorian calendar (what `datetime.date` arithmetic does) -/

structure Civil where
  y : Int
  m : Int
  d : Int
deriving Repr, DecidableEq

def isLeap (y : Int) : Bool := y % 4 = 0 ∧ (y % 100 ≠ 0 ∨ y % 400 = 0)

/-- `_DAYS_IN_MONTH[month] + (month == 2 and leapyear)` with the leap flag given. -/
def daysInMonthL (leap : Bool) (m : Int) : Int :=
  if m = 2 then (if leap then 29 else 28)
  else if m = 4 ∨ m = 6 ∨ m = 9 ∨ m = 11 then 30 else 31

/-- CPython `_days_in_month(year, month)`. -/
def daysInMonth (y m : Int) : Int := daysInMonthL (isLeap y) m

def Civil.Valid (c : Civil) : Prop := 1 ≤ c.m ∧ c.m ≤ 12 ∧ 1 ≤ c.d ∧ c.d ≤ daysInMonth c.y c.m

instance (c : Civil) : Decidable c.Valid := by unfold Civil.Valid; infer_instance

/-- CPython `_days_before_year(year)`: `y = year - 1; y*365 + y//4 - y//100 + y//400`. -/
def daysBeforeYear (year : Int) : Int :=
  let y := year - 1
  y * 365 + y / 4 - y / 100 + y / 400

/-- CPython `_DAYS_BEFORE_MONTH[month]` (`-1` placeholder at index 0 is never read). -/
def dbmTable (m : Int) : Int :=
  if m = 1 then 0 else if m = 2 then 31 else if m = 3 then 59 else if m = 4 then 90
  else if m = 5 then 120 else if m = 6 then 151 else if m = 7 then 181 else if m = 8 then 212
  else if m = 9 then 243 else if m = 10 then 273 else if m = 11 then 304 else 334

/-- CPython `_days_before_month(year, month)`: `_DAYS_BEFORE_MONTH[month] + (month > 2 and _is_leap(year))`. -/
def daysBeforeMonth (leap : Bool) (m : Int) : Int :=
  dbmTable m + (if m > 2 ∧ leap = true then 1 else 0)

/-- CPython `_ymd2ord(year, month, day)` (`date.toordinal()`; 0001-01-01 is day 1). -/
def ymd2ord (c : Civil) : Int :=
  daysBeforeYear c.y + daysBeforeMonth (isLeap c.y) c.m + c.d

/-- CPython `_ord2ymd(n)` (`date.fromordinal(n)`):
      n -= 1
      n400, n = divmod(n, _DI400Y); year = n400 * 400 + 1
      n100, n = divmod(n, _DI100Y)
      n4, n = divmod(n, _DI4Y)
      n1, n = divmod(n, 365)
      year += n100 * 100 + n4 * 4 + n1
      if n1 == 4 or n100 == 4: return year-1, 12, 31
      leapyear = n1 == 3 and (n4 != 24 or n100 == 3)
      month = (n + 50) >> 5
      preceding = _DAYS_BEFORE_MONTH[month] + (month > 2 and leapyear)
      if preceding > n:
        month -= 1
        preceding -= _DAYS_IN_MONTH[month] + (month == 2 and leapyear)
      n -= preceding
      return year, month, n+1
    (`divmod` is floor division; the divisors are positive, so Lean's `/`, `%` on `Int` agree.) -/
def ord2ymd (n0 : Int) : Civil :=
  let n := n0 - 1
  let n400 := n / 146097
  let n := n % 146097
  let n100 := n / 36524
  let n := n % 36524
  let n4 := n / 1461
  let n := n % 1461
  let n1 := n / 365
  let n := n % 365
  let year := n400 * 400 + 1 + (n100 * 100 + n4 * 4 + n1)
  if n1 = 4 ∨ n100 = 4 then { y := year - 1, m := 12, d := 31 }
  else
    let leap : Bool := n1 = 3 ∧ (n4 ≠ 24 ∨ n100 = 3)
    let month := (n + 50) / 32
    let preceding := daysBeforeMonth leap month
    if preceding > n then
      let month := month - 1
      let preceding := preceding - (daysInMonthL leap month)
      { y := year, m := month, d := n - preceding + 1 }
    else
      { y := year, m := month, d := n - preceding + 1 }

/-- `(date(y,m,d) - DATE_EPOCH).days`: difference of ordinals, `DATE_EPOCH.toordinal() = 719163`. -/
def daysFromCivil (c : Civil) : Int := ymd2ord c - 719163

/-- `DATE_EPOCH + timedelta(days=n)` = `date.fromordinal(719163 + n)`. -/
def civilFromDays (n : Int) : Civil := ord2ymd (n + 719163)

/-- `date_to_ts(date)` and `ts_to_date(ts)` on civil dates. -/
def dateToTsUtc (c : Civil) : Int := dayToTsUtc (daysFromCivil c)
def tsToDate (tsSec : Int) : Civil := civilFromDays (tsToDay tsSec)

/-! ### well-formedness of a zone record -/

/-- `untils[j]` (ms) and the east offset of period `j` (ms), total versions for specifications. -/
def U (z : Zone) (j : Nat) : Int := z.untils.getD j 0
def E (z : Zone) (j : Nat) : Int := -(z.offsets.getD j 0 * 1000)

/-- What the round trip and the offset-adjacency rely on.  Period `j` is `[U (j-1), U j)` with east
    offset `E j`; `U j + E j` is the local time at which period `j` ends (`offset_untils[j]`) and
    `U j + E (j+1)` the local time at which period `j+1` starts. -/
structure ZoneWF (z : Zone) : Prop where
  /-- one more offset than transitions -/
  len : z.offsets.length = z.untils.length + 1
  /-- `untils` strictly increasing -/
  untils_lt : ∀ j, j + 1 < z.untils.length → U z j < U z (j + 1)
  /-- `offset_untils` strictly increasing -/
  ou_lt : ∀ j, j + 1 < z.untils.length → U z j + E z j < U z (j + 1) + E z (j + 1)
  /-- local end of period `j` is not after the local start of period `j+2` -/
  end_le_start : ∀ j, j + 1 < z.untils.length → U z j + E z j ≤ U z (j + 1) + E z (j + 2)
  /-- period `j+1` is at least as long as the forward jump into period `j+2` -/
  gap_le_period : ∀ j, j + 1 < z.untils.length → U z j + E z (j + 2) ≤ U z (j + 1) + E z (j + 1)

/-- One pass over the record deciding `ZoneWF` (cheap for `decide +kernel`). -/
def wfGo : List Int → List Int → Bool
  | u0 :: u1 :: us, o0 :: o1 :: o2 :: os =>
    decide (u0 < u1) && decide (u0 - o0 * 1000 < u1 - o1 * 1000)
      && decide (u0 - o0 * 1000 ≤ u1 - o2 * 1000) && decide (u0 - o2 * 1000 ≤ u1 - o1 * 1000)
      && wfGo (u1 :: us) (o1 :: o2 :: os)
  | [_], [_, _] => true
  | [], [_] => true
  | _, _ => false

def zoneWFb (z : Zone) : Bool := wfGo z.untils z.offsets

end Grist.Zone
