/-
Model of sandbox/grist/table_data_set.py `TableDataSet`: the "dumb" interpreter of doc actions that
migrations.py runs against (and that `test_migrations` uses to apply the emitted migration actions).

Unlike the engine's `DocActions` (GristModel/Engine.lean, strict preconditions, sorted row sets,
`Column.set` normalisation) a `TableDataSet` is two plain Python dicts

    self.all_tables = { tableId: TableData(tableId, row_ids, { colId: [values] }) }
    self._schema    = { tableId: { colId: col_info } }

and every method is a handful of dict/list operations that fail only where a dict subscript or a
list index fails (`KeyError` / `IndexError`).  The model keeps exactly that shape: two
insertion-ordered dicts (`Dict`), row ids as a LIST in insertion order (duplicates and `None` row
ids are possible: migrations 25/26/30/40 emit `BulkAddRecord(t, [None]*n, ..)`), one value list per
column (the lists may get out of step with `row_ids` when an action carries value lists of the
wrong length — the Python does not check, neither does the model).

Abstraction: a `col_info` dict is a `ColInfo` (type, isFormula, formula, reverseColId); the
redundant `'id'` entry that `schema.make_column` puts into `col_info` is not modelled (the harness
checks `col_info['id'] == col_id` on every emitted AddColumn/AddTable and that no RenameColumn is
emitted — RenameColumn would leave a stale `'id'` in the real dict).
-/
import GristModel.Doc
namespace Grist.Doc

/-- a Python row id as `TableDataSet` sees it: `None` or an int -/
abbrev RowId := Option Int

/-- insertion-ordered Python dict with `str` keys (keys are unique by construction) -/
abbrev Dict (α : Type) := List (String × α)

namespace Dict
variable {α : Type}
/-- `d.get(k)` / `d[k]` -/
def get? (d : Dict α) (k : String) : Option α := d.lookup k
/-- `k in d` -/
def has (d : Dict α) (k : String) : Bool := d.any (fun e => e.1 == k)
/-- `d[k] = v`: an existing key keeps its position, a new key goes last -/
def set (d : Dict α) (k : String) (v : α) : Dict α :=
  if d.has k then d.map (fun e => if e.1 == k then (k, v) else e) else d ++ [(k, v)]
/-- `d.pop(k, None)`; also `del d[k]` / `d.pop(k)` once presence has been tested -/
def erase (d : Dict α) (k : String) : Dict α := d.filter (fun e => !(e.1 == k))
end Dict

/-- `actions.TableData(table_id, row_ids, columns)` without the id -/
structure TData where
  rowIds : List RowId
  columns : Dict (List Val)
deriving DecidableEq, Repr, Inhabited

abbrev SDoc := Dict (Dict ColInfo)

structure LDoc where
  allTables : Dict TData        -- self.all_tables
  schema : SDoc                 -- self._schema
deriving DecidableEq, Repr, Inhabited

/-- The doc actions as `TableDataSet` receives them (same vocabulary as `DocAction`, but row ids may
    be `None`); the single-record forms are the bulk forms with one row, exactly as
    `AddRecord`/`RemoveRecord`/`UpdateRecord` delegate in table_data_set.py. -/
inductive LAction where
  | bulkAdd (t : String) (rows : List RowId) (cols : Dict (List Val))
  | bulkRemove (t : String) (rows : List RowId)
  | bulkUpdate (t : String) (rows : List RowId) (cols : Dict (List Val))
  | replaceData (t : String) (rows : List RowId) (cols : Dict (List Val))
  | addColumn (t c : String) (info : ColInfo)
  | removeColumn (t c : String)
  | renameColumn (t old new : String)
  | modifyColumn (t c : String) (p : ColPatch)
  | addTable (t : String) (cols : List (String × ColInfo))
  | removeTable (t : String)
  | renameTable (old new : String)
deriving DecidableEq, Repr, Inhabited

def rowsOfNat (rows : List Nat) : List RowId := rows.map (fun r => some (Int.ofNat r))

/-- every engine doc action is a `TableDataSet` action -/
def LAction.ofDocAction : DocAction → LAction
  | .bulkAdd t rows cols => .bulkAdd t (rowsOfNat rows) cols
  | .bulkRemove t rows => .bulkRemove t (rowsOfNat rows)
  | .bulkUpdate t rows cols => .bulkUpdate t (rowsOfNat rows) cols
  | .replaceData t rows cols => .replaceData t (rowsOfNat rows) cols
  | .addColumn t c i => .addColumn t c i
  | .removeColumn t c => .removeColumn t c
  | .renameColumn t o n => .renameColumn t o n
  | .modifyColumn t c p => .modifyColumn t c p
  | .addTable t cols => .addTable t cols
  | .removeTable t => .removeTable t
  | .renameTable o n => .renameTable o n

/-- `actions.schema_actions`: names ending in "Column" or "Table" -/
def LAction.isSchema : LAction → Bool
  | .addColumn .. | .removeColumn .. | .renameColumn .. | .modifyColumn ..
  | .addTable .. | .removeTable .. | .renameTable .. => true
  | _ => false

/-- the table ids an action names -/
def LAction.targets : LAction → List String
  | .bulkAdd t .. | .bulkRemove t .. | .bulkUpdate t .. | .replaceData t ..
  | .addColumn t .. | .removeColumn t .. | .renameColumn t .. | .modifyColumn t ..
  | .addTable t .. | .removeTable t => [t]
  | .renameTable o n => [o, n]

/-- `dict.update(col_info)` on a col_info dict, restricted to the modelled keys -/
def ColInfo.update (old : ColInfo) (p : ColPatch) : ColInfo :=
  { type := p.type.getD old.type,
    isFormula := p.isFormula.getD old.isFormula,
    formula := p.formula.getD old.formula,
    reverseColId := p.reverseColId.getD old.reverseColId }

/-- `{c['id']: c.copy() for c in columns}` (a repeated id keeps the first position, last value) -/
def schemaOfCols (cols : List (String × ColInfo)) : Dict ColInfo :=
  cols.foldl (fun acc c => acc.set c.1 c.2) []

/-- `{c['id']: [] for c in columns}` -/
def emptyColumns (cols : List (String × ColInfo)) : Dict (List Val) :=
  cols.foldl (fun acc c => acc.set c.1 []) []

/-- `rowid_map = {r:i for i, r in enumerate(row_ids)}; rowid_map[r]` — the LAST position of `r`. -/
def lastIndexAux : List RowId → RowId → Nat → Option Nat → Option Nat
  | [], _, _, acc => acc
  | x :: xs, r, i, acc => lastIndexAux xs r (i + 1) (if x == r then some i else acc)

def lastIndex? (l : List RowId) (r : RowId) : Option Nat := lastIndexAux l r 0 none

/-- `for i, v in zip(table_indices, values): col_values[i] = v` -/
def setAll (vals : List Val) : List (Nat × Val) → Except String (List Val)
  | [] => .ok vals
  | (i, v) :: rest => if i < vals.length then setAll (vals.set i v) rest else .error "IndexError"

/-
  def BulkAddRecord(self, table_id, row_ids, columns):
    table_data = self.all_tables[table_id]
    table_data.row_ids.extend(row_ids)
    for col, values in table_data.columns.items():
      if col in columns:
        values.extend(columns[col])
      else:
        col_info = self._schema[table_id][col]
        default = get_type_default(col_info['type'])
        values.extend([default] * len(row_ids))
-/
def extendColumns (sc : Option (Dict ColInfo)) (n : Nat) (cols : Dict (List Val)) :
    Dict (List Val) → Except String (Dict (List Val))
  | [] => .ok []
  | (c, vals) :: rest =>
    match cols.get? c with
    | some nv => (extendColumns sc n cols rest).map (fun r => (c, vals ++ nv) :: r)
    | none =>
      match sc with
      | none => .error "KeyError"
      | some sc =>
        match sc.get? c with
        | none => .error "KeyError"
        | some ci =>
          (extendColumns (some sc) n cols rest).map
            (fun r => (c, vals ++ List.replicate n (typeDefault ci.type)) :: r)

def lBulkAdd (d : LDoc) (t : String) (rows : List RowId) (cols : Dict (List Val)) : Except String LDoc :=
  match d.allTables.get? t with
  | none => .error "KeyError"
  | some td =>
    match extendColumns (d.schema.get? t) rows.length cols td.columns with
    | .error e => .error e
    | .ok cs => .ok { d with allTables := d.allTables.set t { rowIds := td.rowIds ++ rows, columns := cs } }

/-
  def BulkRemoveRecord(self, table_id, row_ids):
    table_data = self.all_tables[table_id]
    remove_set = set(row_ids)
    for col, values in table_data.columns.items():
      values[:] = [v for r, v in zip(table_data.row_ids, values) if r not in remove_set]
    table_data.row_ids[:] = [r for r in table_data.row_ids if r not in remove_set]
-/
def lBulkRemove (d : LDoc) (t : String) (rows : List RowId) : Except String LDoc :=
  match d.allTables.get? t with
  | none => .error "KeyError"
  | some td =>
    let keep : RowId → Bool := fun r => !rows.contains r
    let td' : TData :=
      { rowIds := td.rowIds.filter keep,
        columns := td.columns.map (fun cv =>
          (cv.1, ((td.rowIds.zip cv.2).filter (fun p => keep p.1)).map (·.2))) }
    .ok { d with allTables := d.allTables.set t td' }

/-
  def BulkUpdateRecord(self, table_id, row_ids, columns):
    table_data = self.all_tables[table_id]
    rowid_map = {r:i for i, r in enumerate(table_data.row_ids)}
    table_indices = [rowid_map[r] for r in row_ids]
    for col, values in columns.items():
      if col in table_data.columns:
        col_values = table_data.columns[col]
        for i, v in zip(table_indices, values):
          col_values[i] = v
-/
def updateColumns (idx : List Nat) : Dict (List Val) → Dict (List Val) → Except String (Dict (List Val))
  | [], acc => .ok acc
  | (c, values) :: rest, acc =>
    match acc.get? c with
    | none => updateColumns idx rest acc
    | some colValues =>
      match setAll colValues (idx.zip values) with
      | .error e => .error e
      | .ok nv => updateColumns idx rest (acc.set c nv)

def lBulkUpdate (d : LDoc) (t : String) (rows : List RowId) (cols : Dict (List Val)) : Except String LDoc :=
  match d.allTables.get? t with
  | none => .error "KeyError"
  | some td =>
    match rows.mapM (lastIndex? td.rowIds) with
    | none => .error "KeyError"
    | some idx =>
      match updateColumns idx cols td.columns with
      | .error e => .error e
      | .ok cs => .ok { d with allTables := d.allTables.set t ({ td with columns := cs } : TData) }

/-
  def ReplaceTableData(self, table_id, row_ids, columns):
    table_data = self.all_tables[table_id]
    del table_data.row_ids[:]
    for col, values in table_data.columns.items():
      del values[:]
    self.BulkAddRecord(table_id, row_ids, columns)
-/
def lReplaceData (d : LDoc) (t : String) (rows : List RowId) (cols : Dict (List Val)) : Except String LDoc :=
  match d.allTables.get? t with
  | none => .error "KeyError"
  | some td =>
    let cleared : TData := { rowIds := [], columns := td.columns.map (fun cv => (cv.1, [])) }
    lBulkAdd { d with allTables := d.allTables.set t cleared } t rows cols

/-- One `TableDataSet.apply_doc_action`.  `.error` = the exception class the Python raises. -/
def applyL (d : LDoc) : LAction → Except String LDoc
  | .bulkAdd t rows cols => lBulkAdd d t rows cols
  | .bulkRemove t rows => lBulkRemove d t rows
  | .bulkUpdate t rows cols => lBulkUpdate d t rows cols
  | .replaceData t rows cols => lReplaceData d t rows cols
  /-
    def AddColumn(self, table_id, col_id, col_info):
      self._schema[table_id][col_id] = col_info
      default = get_type_default(col_info['type'])
      table_data = self.all_tables[table_id]
      table_data.columns[col_id] = [default] * len(table_data.row_ids)
  -/
  | .addColumn t c info =>
    match d.schema.get? t with
    | none => .error "KeyError"
    | some sc =>
      match d.allTables.get? t with
      | none => .error "KeyError"
      | some td =>
        .ok { schema := d.schema.set t (sc.set c info),
              allTables := d.allTables.set t ({ td with
                columns := td.columns.set c (List.replicate td.rowIds.length (typeDefault info.type)) } : TData) }
  /-
    def RemoveColumn(self, table_id, col_id):
      self._schema[table_id].pop(col_id, None)
      table_data = self.all_tables[table_id]
      table_data.columns.pop(col_id, None)
  -/
  | .removeColumn t c =>
    match d.schema.get? t with
    | none => .error "KeyError"
    | some sc =>
      match d.allTables.get? t with
      | none => .error "KeyError"
      | some td =>
        .ok { schema := d.schema.set t (sc.erase c),
              allTables := d.allTables.set t ({ td with columns := td.columns.erase c } : TData) }
  /-
    def RenameColumn(self, table_id, old_col_id, new_col_id):
      self._schema[table_id][new_col_id] = self._schema[table_id].pop(old_col_id)
      table_data = self.all_tables[table_id]
      table_data.columns[new_col_id] = table_data.columns.pop(old_col_id)
  -/
  | .renameColumn t old new =>
    match d.schema.get? t with
    | none => .error "KeyError"
    | some sc =>
      match sc.get? old with
      | none => .error "KeyError"
      | some ci =>
        match d.allTables.get? t with
        | none => .error "KeyError"
        | some td =>
          match td.columns.get? old with
          | none => .error "KeyError"
          | some vals =>
            .ok { schema := d.schema.set t ((sc.erase old).set new ci),
                  allTables := d.allTables.set t ({ td with columns := (td.columns.erase old).set new vals } : TData) }
  /-
    def ModifyColumn(self, table_id, col_id, col_info):
      self._schema[table_id][col_id].update(col_info)
  -/
  | .modifyColumn t c p =>
    match d.schema.get? t with
    | none => .error "KeyError"
    | some sc =>
      match sc.get? c with
      | none => .error "KeyError"
      | some ci => .ok { d with schema := d.schema.set t (sc.set c (ci.update p)) }
  /-
    def AddTable(self, table_id, columns):
      self.all_tables[table_id] = actions.TableData(table_id, [], {c['id']: [] for c in columns})
      self._schema[table_id] = {c['id']: c.copy() for c in columns}
  -/
  | .addTable t cols =>
    .ok { allTables := d.allTables.set t { rowIds := [], columns := emptyColumns cols },
          schema := d.schema.set t (schemaOfCols cols) }
  /-
    def RemoveTable(self, table_id):
      del self.all_tables[table_id]
      del self._schema[table_id]
  -/
  | .removeTable t =>
    if d.allTables.has t then
      if d.schema.has t then .ok { allTables := d.allTables.erase t, schema := d.schema.erase t }
      else .error "KeyError"
    else .error "KeyError"
  /-
    def RenameTable(self, old_table_id, new_table_id):
      table_data = self.all_tables.pop(old_table_id)
      self.all_tables[new_table_id] = actions.TableData(new_table_id, table_data.row_ids,
                                                table_data.columns)
      self._schema[new_table_id] = self._schema.pop(old_table_id)
  -/
  | .renameTable old new =>
    match d.allTables.get? old with
    | none => .error "KeyError"
    | some td =>
      match d.schema.get? old with
      | none => .error "KeyError"
      | some sc =>
        .ok { allTables := (d.allTables.erase old).set new td,
              schema := (d.schema.erase old).set new sc }

/-- `apply_doc_actions`: stop at the first exception -/
def runL (d : LDoc) : List LAction → Except String LDoc
  | [] => .ok d
  | a :: rest =>
    match applyL d a with
    | .error e => .error e
    | .ok d' => runL d' rest

/-- The lenient interpreter on the engine's `DocAction` vocabulary. -/
def applyLenient (d : LDoc) (a : DocAction) : Except String LDoc := applyL d (LAction.ofDocAction a)

/-! ### the schema alone (`self._schema`), with no data at all -/

/-- What an action does to `_schema`, computed WITHOUT `all_tables` (record actions: nothing). -/
def applySchemaLenient (s : SDoc) : LAction → Except String SDoc
  | .bulkAdd .. | .bulkRemove .. | .bulkUpdate .. | .replaceData .. => .ok s
  | .addColumn t c info =>
    match s.get? t with
    | none => .error "KeyError"
    | some sc => .ok (s.set t (sc.set c info))
  | .removeColumn t c =>
    match s.get? t with
    | none => .error "KeyError"
    | some sc => .ok (s.set t (sc.erase c))
  | .renameColumn t old new =>
    match s.get? t with
    | none => .error "KeyError"
    | some sc =>
      match sc.get? old with
      | none => .error "KeyError"
      | some ci => .ok (s.set t ((sc.erase old).set new ci))
  | .modifyColumn t c p =>
    match s.get? t with
    | none => .error "KeyError"
    | some sc =>
      match sc.get? c with
      | none => .error "KeyError"
      | some ci => .ok (s.set t (sc.set c (ci.update p)))
  | .addTable t cols => .ok (s.set t (schemaOfCols cols))
  | .removeTable t => if s.has t then .ok (s.erase t) else .error "KeyError"
  | .renameTable old new =>
    match s.get? old with
    | none => .error "KeyError"
    | some sc => .ok ((s.erase old).set new sc)

def runSchema (s : SDoc) : List LAction → Except String SDoc
  | [] => .ok s
  | a :: rest =>
    match applySchemaLenient s a with
    | .error e => .error e
    | .ok s' => runSchema s' rest

/-! ### metadata tables -/

/-- a metadata table id (`_grist_` prefix; ActiveDoc._migrate and create_migrations use the same test) -/
def isMetaTable (t : String) : Bool := t.startsWith "_grist_"

def metaOf (s : SDoc) : SDoc := s.filter (fun e => isMetaTable e.1)

def LAction.targetsMeta (a : LAction) : Bool := a.targets.all isMetaTable
def LAction.targetsUser (a : LAction) : Bool := a.targets.all (fun t => !isMetaTable t)

/-- Python `dict.__eq__` on two dicts of plain values: same key set, equal values (order ignored). -/
def dictEqv {α : Type} (eq : α → α → Bool) (a b : Dict α) : Bool :=
  a.length == b.length && a.all (fun e => match b.get? e.1 with | some v => eq e.2 v | none => false)

/-- `migrated_schema == current_schema` of test_migrations.py (dict of dict of col_info) -/
def schemaEqv (a b : SDoc) : Bool := dictEqv (dictEqv (fun (x y : ColInfo) => x == y)) a b

def dictKeysNodup {α : Type} (a : Dict α) : Bool := (a.map (·.1)).eraseDups.length == a.length

end Grist.Doc
