/-
Model of row-id allocation and temporary (negative) row ids.

Python mirrored here (quoted next to each definition):
  useractions.py   UserActions.doBulkAddOrReplace (the id-filling loop), doBulkUpdateRecord,
                   doBulkRemoveRecord (first lines: translate_new_row_ids)
  action_summary.py ActionSummary.update_new_rows_map / translate_new_row_ids, TableDelta.temp_row_ids
  column.py        ReferenceColumn / ReferenceListColumn.prepare_new_values,
                   BaseReferenceColumn._reject_unresolved_temp_ids
  table.py         Table.RowIDs.__contains__ / max, Table.next_row_id
  docactions.py    DocActions.BulkAddRecord (assertion on existing rows), BulkUpdateRecord (assertion),
                   BulkRemoveRecord (ignores absent rows), ReplaceTableData
  engine.py        Engine.add_records (id_column.set(row_id, row_id))

Core Lean only.  The model describes the code that exists, quirks included:
  * an explicit id 0 is passed through (`0 > 1000000` is false) and `id_column.set(0, 0)` creates no row;
  * explicit ids are never compared with each other or with ids handed out earlier in the loop.
-/
namespace Grist.RowIds

-- lets `decide` evaluate the concrete examples; kept inside the namespace to avoid clashes
deriving instance DecidableEq for Except

/-! ## Table.RowIDs -/

/-- `RowIDs.max()`: the largest row id, 0 for an empty table (row ids are positive). -/
def maxId : List Nat → Nat
  | [] => 0
  | x :: xs => max x (maxId xs)

/-- `Table.next_row_id`: `return self.row_ids.max() + 1`. -/
def nextRowId (rows : List Nat) : Nat := maxId rows + 1

/-- `RowIDs.__contains__`: `0 < row_id < size and id_column.raw_get(row_id) > 0`. -/
def hasRow (rows : List Nat) (r : Nat) : Bool := decide (0 < r) && rows.contains r

/-! ## doBulkAddOrReplace: the filling loop

    next_row_id = 1 if replace else table.next_row_id()
    filled_row_ids = row_ids[:]
    for i, row_id in enumerate(filled_row_ids):
      if row_id is None or row_id < 0:
        filled_row_ids[i] = row_id = next_row_id
      elif row_id > 1000000:
        raise ValueError("Row ID too high")
      next_row_id = max(next_row_id, row_id) + 1
-/

/-- A requested id is automatic when it is `None` or negative. -/
def isAuto : Option Int → Bool
  | none => true
  | some i => decide (i < 0)

def fillIds : Nat → List (Option Int) → Except String (List Nat)
  | _, [] => .ok []
  | next, none :: rest =>
    -- row_id = next_row_id; next_row_id = max(next_row_id, next_row_id) + 1
    match fillIds (next + 1) rest with
    | .ok t => .ok (next :: t)
    | .error e => .error e
  | next, some i :: rest =>
    if i < 0 then
      match fillIds (next + 1) rest with
      | .ok t => .ok (next :: t)
      | .error e => .error e
    else if i > 1000000 then .error "ValueError"
    else
      -- 0 is passed through like any other explicit id
      match fillIds (max next i.toNat + 1) rest with
      | .ok t => .ok (i.toNat :: t)
      | .error e => .error e

/-! ## ActionSummary: the map of temporary ids (one per table)

    def update_new_rows_map(self, table_id, temp_row_ids, final_row_ids):
      t.temp_row_ids.update((a, b) for (a, b) in zip(temp_row_ids, final_row_ids) if a and a < 0)
    def translate_new_row_ids(self, table_id, row_ids):
      return [t.temp_row_ids.get(r, r) for r in row_ids]
-/

/-- The dict `temp_row_ids` as an association list; the FIRST pair for a key is the live one
    (a later `dict.update` of the same key is a pair put in front). -/
abbrev TempMap := List (Int × Nat)

def updateNewRowsMap (m : TempMap) : List (Option Int) → List Nat → TempMap
  | some a :: ts, b :: fs =>
    -- `if a and a < 0`: None and 0 are falsy, positive ids are not remembered
    updateNewRowsMap (if a < 0 then (a, b) :: m else m) ts fs
  | none :: ts, _ :: fs => updateNewRowsMap m ts fs
  | _, _ => m      -- zip stops at the shorter list

/-- `temp_row_ids.get(r, r)` -/
def translate1 (m : TempMap) (r : Int) : Int :=
  match m.lookup r with
  | some b => (b : Int)
  | none => r

def translate (m : TempMap) (ids : List Int) : List Int := ids.map (translate1 m)

/-! ## Reference values: column.py

    ReferenceColumn.prepare_new_values:
      if action_summary and values:
        values = action_summary.translate_new_row_ids(self._target_table.table_id, values)
        self._reject_unresolved_temp_ids(values)
    ReferenceListColumn.prepare_new_values:
      if action_summary:
        values = [action_summary.translate_new_row_ids(target, v)
                  if isinstance(v, list) and any(r < 0 for r in v) else v for v in values]
        self._reject_unresolved_temp_ids(values)
    _reject_unresolved_temp_ids:
      for value in values:
        for r in (value if isinstance(value, list) else (value,)):
          if isinstance(r, int) and r < 0: raise ValueError(...)
-/

/-- A converted cell value of a reference column: an int (Ref), a list of ints (RefList), or
    anything else (None, alt-text string, error object), which the code leaves alone. -/
inductive Cell where
  | ref (i : Int)
  | refs (l : List Int)
  | other
deriving Repr, DecidableEq, Inhabited

/-- the inner loop of `_reject_unresolved_temp_ids` for one value: is some int in it negative? -/
def Cell.hasNeg : Cell → Bool
  | .ref i => decide (i < 0)
  | .refs l => l.any (fun r => decide (r < 0))
  | .other => false

def rejectUnresolved (values : List Cell) : Except String Unit :=
  if values.any Cell.hasNeg then .error "ValueError" else .ok ()

/-- translation of one Ref cell: `temp_row_ids.get(r, r)` (non-ints are not keys: unchanged). -/
def trRefCell (m : TempMap) : Cell → Cell
  | .ref i => .ref (translate1 m i)
  | c => c

/-- translation of one RefList cell: only lists holding a negative id are translated. -/
def trRefListCell (m : TempMap) : Cell → Cell
  | .refs l => if l.any (fun r => decide (r < 0)) then .refs (translate m l) else .refs l
  | c => c

/-- `ReferenceColumn.prepare_new_values` (the part before `super()`); `m` is the target table's map.
    (`if action_summary and values`: an empty list skips both steps, with the same result.) -/
def prepareRef (m : TempMap) (values : List Cell) : Except String (List Cell) :=
  let vs := values.map (trRefCell m)
  match rejectUnresolved vs with
  | .ok () => .ok vs
  | .error e => .error e

/-- `ReferenceListColumn.prepare_new_values` (the part before `super()`). -/
def prepareRefList (m : TempMap) (values : List Cell) : Except String (List Cell) :=
  let vs := values.map (trRefListCell m)
  match rejectUnresolved vs with
  | .ok () => .ok vs
  | .error e => .error e

/-! ## The doc actions' effect on the set of rows -/

/-- `Engine.add_records`: `id_column.set(row_id, row_id)` for every id; a row exists iff its id cell
    is > 0, so id 0 creates nothing and a repeated id creates one row.  The result keeps `rows`
    duplicate-free. -/
def addRows (rows : List Nat) : List Nat → List Nat
  | [] => rows
  | r :: rest => addRows (if 0 < r ∧ ¬ rows.contains r then rows ++ [r] else rows) rest

/-- `DocActions.BulkAddRecord`:
      for row_id in row_ids: assert row_id not in table.row_ids
      ...; self._engine.add_records(table_id, row_ids, column_values) -/
def docBulkAdd (rows : List Nat) (ids : List Nat) : Except String (List Nat) :=
  if ids.any (hasRow rows) then .error "AssertionError" else .ok (addRows rows ids)

/-- `DocActions.ReplaceTableData`: old rows unset, `load_table` → `add_records`; no assertion. -/
def docReplace (ids : List Nat) : List Nat := addRows [] ids

/-- `DocActions.BulkUpdateRecord`: `for row_id in row_ids: assert row_id in table.row_ids`
    (row ids are ints here: temp ids that were not translated stay negative). -/
def docBulkUpdate (rows : List Nat) (ids : List Int) : Except String Unit :=
  if ids.all (fun r => decide (0 < r) && rows.contains r.toNat) then .ok () else .error "AssertionError"

/-- `DocActions.BulkRemoveRecord`: `row_ids = [r for r in row_ids if r in table.row_ids]`, those go. -/
def docBulkRemove (rows : List Nat) (ids : List Int) : List Nat :=
  rows.filter (fun x => !(ids.contains (x : Int)))

/-! ## One add / replace request against one table -/

structure AddResult where
  ids : List Nat          -- filled_row_ids = retValues = row ids of the stored action
  rows : List Nat         -- rows existing afterwards
  map : TempMap           -- the table's temp map afterwards
deriving Repr, DecidableEq

/-- `BulkAddRecord` user action on a table holding `rows` (no reference columns involved). -/
def addRequest (rows : List Nat) (m : TempMap) (req : List (Option Int)) : Except String AddResult :=
  match fillIds (nextRowId rows) req with
  | .error e => .error e
  | .ok ids =>
    let m' := updateNewRowsMap m req ids
    match docBulkAdd rows ids with
    | .error e => .error e
    | .ok rows' => .ok { ids := ids, rows := rows', map := m' }

/-- `ReplaceTableData` user action. -/
def replaceRequest (m : TempMap) (req : List (Option Int)) : Except String AddResult :=
  match fillIds 1 req with
  | .error e => .error e
  | .ok ids => .ok { ids := ids, rows := docReplace ids, map := updateNewRowsMap m req ids }

/-! ## A bundle over several tables (what the driver replays) -/

inductive ColKind where
  | ref | refList
deriving Repr, DecidableEq

/-- values supplied for one reference column: column id, target table, kind, one cell per row -/
structure RefCol where
  col : String
  target : String
  kind : ColKind
  values : List Cell
deriving Repr

inductive Step where
  | add (table : String) (req : List (Option Int)) (cols : List RefCol)
  | replace (table : String) (req : List (Option Int)) (cols : List RefCol)
  | update (table : String) (rows : List Int) (cols : List RefCol)
  | remove (table : String) (rows : List Int)
deriving Repr

structure TableSt where
  rows : List Nat := []
  map : TempMap := []
deriving Repr

abbrev DocSt := List (String × TableSt)

def getT (d : DocSt) (t : String) : Except String TableSt :=
  match d.lookup t with
  | some s => .ok s
  | none => .error "KeyError"

def setT (d : DocSt) (t : String) (s : TableSt) : DocSt :=
  d.map (fun p => if p.1 == t then (t, s) else p)

/-- what one step did, as far as ids are concerned -/
structure StepOut where
  ids : List Int                        -- add/replace: filled ids; update/remove: translated row ids
  cols : List (String × List Cell)      -- translated reference values, in the given column order
deriving Repr

/-- `convert_action_values`: `prepare_new_values` of each mentioned column, in order. -/
def prepareCols (d : DocSt) : List RefCol → Except String (List (String × List Cell))
  | [] => .ok []
  | c :: cs => do
    let tgt ← getT d c.target
    let vs ← match c.kind with
      | .ref => prepareRef tgt.map c.values
      | .refList => prepareRefList tgt.map c.values
    let rest ← prepareCols d cs
    pure ((c.col, vs) :: rest)

def runStep (d : DocSt) : Step → Except String (DocSt × StepOut)
  | .add t req cols => do
    let s ← getT d t
    let ids ← fillIds (nextRowId s.rows) req
    -- update_new_rows_map comes BEFORE convert_action_values: values may name this very request's rows
    let d1 := setT d t { s with map := updateNewRowsMap s.map req ids }
    let cs ← prepareCols d1 cols
    let rows' ← docBulkAdd s.rows ids
    let s1 ← getT d1 t
    pure (setT d1 t { s1 with rows := rows' }, { ids := ids.map (fun (n : Nat) => (n : Int)), cols := cs })
  | .replace t req cols => do
    let s ← getT d t
    let ids ← fillIds 1 req
    let d1 := setT d t { s with map := updateNewRowsMap s.map req ids }
    let cs ← prepareCols d1 cols
    let s1 ← getT d1 t
    pure (setT d1 t { s1 with rows := docReplace ids }, { ids := ids.map (fun (n : Nat) => (n : Int)), cols := cs })
  | .update t rows cols => do
    let s ← getT d t
    let rows' := translate s.map rows
    let cs ← prepareCols d cols
    docBulkUpdate s.rows rows'
    pure (d, { ids := rows', cols := cs })
  | .remove t rows => do
    let s ← getT d t
    let rows' := translate s.map rows
    pure (setT d t { s with rows := docBulkRemove s.rows rows' }, { ids := rows', cols := [] })

/-- Run the steps in order; the first error rejects the bundle (`Engine.apply_user_actions` reverts). -/
def runBundle (d : DocSt) : List Step → Except String (DocSt × List StepOut)
  | [] => .ok (d, [])
  | st :: rest => do
    let (d1, o) ← runStep d st
    let (d2, os) ← runBundle d1 rest
    pure (d2, o :: os)

end Grist.RowIds
