/-
Model for C38 "Node and the engine agree on metadata schema and type defaults".

Python side      : sandbox/grist/schema.py  (SCHEMA_VERSION, schema_create_actions()),
                   sandbox/grist/usertypes.py (_type_defaults, get_type_default)
generator        : sandbox/gen_js_schema.py (get_ts_type, main)
TypeScript side  : app/common/schema.ts (generated), app/common/gristTypes.ts (_defaultValues,
                   getDefaultForType, extractTypeFromColType)

Core Lean only.  The data (`PySchema`, `TsSchema`, default tables) is produced from the current
tree by harness/gx/translate.py (lean/Generated/*.lean) and, for the driver, decoded from JSON.
-/
namespace Grist.SchemaGen

/-! ## Data -/

/-- `schema.make_column(col_id, col_type, formula='', isFormula=False)` -/
structure ColSchema where
  id : String
  type : String
  isFormula : Bool
  formula : String
deriving DecidableEq, Repr

/-- `actions.AddTable(table_id, columns)` -/
structure TableSchema where
  tableId : String
  columns : List ColSchema
deriving DecidableEq, Repr

/-- `schema.SCHEMA_VERSION` and `schema.schema_create_actions()` -/
structure PySchema where
  version : Int
  tables : List TableSchema
deriving DecidableEq, Repr

/-- one `name: value` entry of a table block in schema.ts -/
structure TsEntry where
  id : String
  ty : String
deriving DecidableEq, Repr

/-- one `"<table>": { ... }` block of schema.ts -/
structure TsTable where
  tableId : String
  entries : List TsEntry
deriving DecidableEq, Repr

/-- what app/common/schema.ts says: `SCHEMA_VERSION`, `export const schema = {..}` (Grist column
types) and `export interface SchemaTypes {..}` (TypeScript types). -/
structure TsSchema where
  version : Int
  schema : List TsTable
  iface : List TsTable
deriving DecidableEq, Repr

/-! ## gen_js_schema.py -/

/-- `col_type.split(':', 1)[0]`  (gen_js_schema.get_ts_type, usertypes.get_pure_type) and
`extractTypeFromColType` of gristTypes.ts: the text before the first colon. -/
def pureType (s : String) : String := String.ofList (s.toList.takeWhile (· != ':'))

/--
```
_ts_types = {
  "Bool":           "boolean",
  "DateTime":       "number",
  "Int":            "number",
  "PositionNumber": "number",
  "Ref":            "number",
  "RefList":        "[GristObjCode.List, ...number[]]|null",  # Non-primitive values are encoded
  "ChoiceList":     "[GristObjCode.List, ...string[]]|null",
  "Text":           "string",
}
``` -/
def tsTypes : List (String × String) := [
  ("Bool",           "boolean"),
  ("DateTime",       "number"),
  ("Int",            "number"),
  ("PositionNumber", "number"),
  ("Ref",            "number"),
  ("RefList",        "[GristObjCode.List, ...number[]]|null"),
  ("ChoiceList",     "[GristObjCode.List, ...string[]]|null"),
  ("Text",           "string")]

/--
```
def get_ts_type(col_type):
  col_type = col_type.split(':', 1)[0]      # Strip suffix for Ref:, DateTime:, etc.
  return _ts_types.get(col_type, "CellValue")
``` -/
def tsTypeOf (colType : String) : String :=
  (tsTypes.lookup (pureType colType)).getD "CellValue"

/-- the `schema = {` block the generator prints for the Python schema:
```
  for table in schema.schema_create_actions():
    print('  "%s": {' % table.table_id)
    for column in table.columns:
      print('    %-20s: "%s",' % (column['id'], column['type']))
``` -/
def expectedSchema (p : PySchema) : List TsTable :=
  p.tables.map fun t => ⟨t.tableId, t.columns.map fun c => ⟨c.id, c.type⟩⟩

/-- the `interface SchemaTypes {` block the generator prints:
```
    for column in table.columns:
      print('    %s: %s;' % (column['id'], get_ts_type(column['type'])))
``` -/
def expectedIface (p : PySchema) : List TsTable :=
  p.tables.map fun t => ⟨t.tableId, t.columns.map fun c => ⟨c.id, tsTypeOf c.type⟩⟩

/-- Same version; same tables in the same order; in each, the same columns in the same order with
the same Grist types (`schema`) resp. with `get_ts_type` of them (`SchemaTypes`). -/
def agree (p : PySchema) (t : TsSchema) : Bool :=
  decide (p.version = t.version) && decide (expectedSchema p = t.schema) &&
    decide (expectedIface p = t.iface)

/-- first-match lookups by name (used to state `agree_lookup`): the Grist type schema.py gives to
column `col` of table `tbl`, and the type text a list of schema.ts blocks gives to it. -/
def pyColType (p : PySchema) (tbl col : String) : Option String :=
  (p.tables.find? (·.tableId == tbl)).bind fun t => (t.columns.find? (·.id == col)).map (·.type)
def tsColType (ts : List TsTable) (tbl col : String) : Option String :=
  (ts.find? (·.tableId == tbl)).bind fun t => (t.entries.find? (·.id == col)).map (·.ty)

/-! ### the generator's text (used by the correspondence run and by `schema_ts_text_matches`) -/

/-- `'%-20s' % s` : left-justified, padded with blanks to 20 characters (never truncated). -/
def ljust20 (s : String) : String := s ++ String.ofList (List.replicate (20 - s.length) ' ')

/-- `'%d' % n` -/
def fmtInt (n : Int) : String :=
  match n with
  | .ofNat k => String.ofList (Nat.toDigits 10 k)
  | .negSucc k => String.ofList ('-' :: Nat.toDigits 10 (k + 1))

/-- The lines printed by `gen_js_schema.main()` (each `print` emits its text and a newline; a
text containing newlines yields several lines).  The whole output is these lines, each followed
by `"\n"`. -/
def renderLines (p : PySchema) : List String :=
  [ "/* eslint-disable */",
    "",
    "/*** THIS FILE IS AUTO-GENERATED BY core/sandbox/gen_js_schema.py ***/",
    "",
    "import { GristObjCode } from \"app/plugin/GristData\";",
    "",
    "// tslint:disable:object-literal-key-quotes",
    "",
    "export const SCHEMA_VERSION = " ++ fmtInt p.version ++ ";",
    "",
    "export const schema = {",
    "" ] ++
  (p.tables.flatMap fun t =>
    ["  \"" ++ t.tableId ++ "\": {"] ++
    (t.columns.map fun c => "    " ++ ljust20 c.id ++ ": \"" ++ c.type ++ "\",") ++
    ["  },", ""]) ++
  [ "};", "", "export interface SchemaTypes {", "" ] ++
  (p.tables.flatMap fun t =>
    ["  \"" ++ t.tableId ++ "\": {"] ++
    (t.columns.map fun c => "    " ++ c.id ++ ": " ++ tsTypeOf c.type ++ ";") ++
    ["  };", ""]) ++
  [ "}" ]

/-- stdout of the generator -/
def render (p : PySchema) : String :=
  String.join ((renderLines p).map (· ++ "\n"))

/-! ## Type defaults -/

/-- A canonical default value.  Python `None` / JS `null`; booleans; numbers (all JS numbers are
doubles, so Python `0` and `0.0` are the same value `num 0`; non-integral finite numbers keep
their shortest round-trip text); `float('inf')` / `Number.POSITIVE_INFINITY`; strings; lists
(elements as canonical JSON text); `other` = a Python value that is none of these (its `repr`,
never produced for the TypeScript side, so it never equals a TypeScript default). -/
inductive DefVal where
  | null
  | bool (b : Bool)
  | num (n : Int)
  | frac (text : String)
  | posInf
  | negInf
  | nan
  | str (s : String)
  | list (items : List String)
  | other (text : String)
deriving DecidableEq, Repr

abbrev DefaultTable := List (String × DefVal)

/-- gristTypes.ts:
```
export function getDefaultForType(colType: string, options = {}) {
  const type = extractTypeFromColType(colType);
  return (_defaultValues[type as GristType] || _defaultValues.Any)[options.sqlFormatted ? 1 : 0];
}
```
`none` = the TypeError JS raises when neither the type nor `Any` is in the table. -/
def tsDefault (tbl : DefaultTable) (colType : String) : Option DefVal :=
  match tbl.lookup (pureType colType) with
  | some v => some v
  | none => tbl.lookup "Any"

/-- usertypes.py:
```
def get_type_default(col_type):
  return _type_defaults.get(get_pure_type(col_type), None)
``` -/
def pyDefault (tbl : DefaultTable) (colType : String) : DefVal :=
  (tbl.lookup (pureType colType)).getD .null

/-- Every type named in either table, and every further column type given in `extra` (full
column types such as `Ref:_grist_Tables`), has the same default on both sides. -/
def defaultsAgree (py ts : DefaultTable) (extra : List String) : Bool :=
  (py.map (·.1) ++ ts.map (·.1) ++ extra).all fun ty =>
    decide (tsDefault ts ty = some (pyDefault py ty))

end Grist.SchemaGen
