/-
Model of sandbox/grist/textbuilder.py : Patch, validate_patch, Text, Replacer, Combiner.

Strings are `List Char` (Python `str` = sequence of code points; lone surrogates are outside the
model).  Positions are `Int` and slicing is Python slicing (negative indices wrap, everything is
clamped), so the model is total over every integer the real code accepts.  `bisect.bisect_right`
is modelled as the binary search CPython runs (it is also applied to offset tables that are NOT
sorted when the patches handed to a Replacer overlap).

Errors: `valueError` (validate_patch / Combiner refusal), `assertionError` (Text.map_back_patch's
assert), `attributeError` (a plain `str` used where a Builder is needed), `indexError` (list index
out of range; proved unreachable in GristProofs/Textbuilder.lean).
-/
namespace Grist.Textbuilder

abbrev Str := List Char

inductive Err where
  | valueError | assertionError | attributeError | indexError
deriving Repr, DecidableEq

instance instDecEqExcept {ε α : Type} [DecidableEq ε] [DecidableEq α] : DecidableEq (Except ε α)
  | .ok a, .ok b => if h : a = b then isTrue (by rw [h]) else isFalse (by intro h'; cases h'; exact h rfl)
  | .error a, .error b => if h : a = b then isTrue (by rw [h]) else isFalse (by intro h'; cases h'; exact h rfl)
  | .ok _, .error _ => isFalse (by intro h; cases h)
  | .error _, .ok _ => isFalse (by intro h; cases h)

/-- `Patch = namedtuple('Patch', ('start', 'end', 'old_text', 'new_text'))` -/
structure Patch where
  start : Int
  end_ : Int
  oldText : Str
  newText : Str
deriving Repr, DecidableEq

/-! ### Python primitives -/

/-- `PySlice_AdjustIndices` for step 1: `i<0 → i+=n, clamp at 0`; `i>n → n`. -/
def pyIdx (n : Nat) (i : Int) : Nat :=
  if i < 0 then (i + n).toNat else min i.toNat n

/-- `s[a:b]` -/
def slice (s : Str) (a b : Int) : Str :=
  (s.take (pyIdx s.length b)).drop (pyIdx s.length a)

/-- `s[a:]` -/
def sliceFrom (s : Str) (a : Int) : Str := s.drop (pyIdx s.length a)

/-- `l[i]` for a Python list (negative `i` counts from the end; out of range → IndexError). -/
def pyGet (l : List Int) (i : Int) : Except Err Int :=
  let j : Int := if i < 0 then i + l.length else i
  if j < 0 then .error .indexError else
  match l[j.toNat]? with
  | some v => .ok v
  | none => .error .indexError

/-- The loop of `bisect.bisect_right(a, x)`:
      while lo < hi: mid = (lo+hi)//2;  if x < a[mid]: hi = mid  else: lo = mid+1
    (`fuel` = an upper bound on the number of iterations). -/
def bisectGo (a : List Int) (x : Int) : Nat → Nat → Nat → Nat
  | 0, lo, _ => lo
  | fuel + 1, lo, hi =>
    if lo < hi then
      let mid := (lo + hi) / 2
      if x < a.getD mid 0 then bisectGo a x fuel lo mid else bisectGo a x fuel (mid + 1) hi
    else lo

def bisectRight (a : List Int) (x : Int) : Nat := bisectGo a x (a.length + 1) 0 a.length

/-- Python compares Patch tuples lexicographically: ints, ints, str (by code point), str. -/
def strLe (a b : Str) : Bool := !(decide (b < a))

def Patch.le (p q : Patch) : Bool :=
  if p.start != q.start then decide (p.start < q.start) else
  if p.end_ != q.end_ then decide (p.end_ < q.end_) else
  if p.oldText != q.oldText then strLe p.oldText q.oldText else
  strLe p.newText q.newText

/-- `sorted(patches)`.  (Tuples that compare equal are equal in all four fields, so every sorting
    algorithm returns the same list.) -/
def sortPatches (ps : List Patch) : List Patch := ps.mergeSort Patch.le

/-- `validate_patch(text, patch)` does not raise. -/
def validPatch (text : Str) (p : Patch) : Bool := slice text p.start p.end_ == p.oldText

/-! ### Replacer -/

/-- Loop state of `Replacer.__init__` (`out` = `''.join(out_parts)` so far). -/
structure RState where
  inPos : Int
  outPos : Int
  inOffs : List Int
  outOffs : List Int
  out : Str
deriving Repr, DecidableEq

def RState.init : RState := ⟨0, 0, [0], [0], []⟩

/-- One iteration (after `validate_patch` passed):
      out_parts.append(text[in_pos:in_patch.start]); out_parts.append(in_patch.new_text)
      out_pos += (in_patch.start - in_pos) + len(in_patch.new_text)
      in_pos = in_patch.end
      if len(in_patch.new_text) != in_patch.end - in_patch.start:
        self._input_offsets.append(in_pos); self._output_offsets.append(out_pos) -/
def rStep (text : Str) (st : RState) (p : Patch) : RState :=
  let out := st.out ++ slice text st.inPos p.start ++ p.newText
  let outPos := st.outPos + (p.start - st.inPos) + (p.newText.length : Int)
  let inPos := p.end_
  if (p.newText.length : Int) ≠ p.end_ - p.start then
    ⟨inPos, outPos, st.inOffs ++ [inPos], st.outOffs ++ [outPos], out⟩
  else
    ⟨inPos, outPos, st.inOffs, st.outOffs, out⟩

def rLoop (text : Str) : RState → List Patch → RState
  | st, [] => st
  | st, p :: ps => rLoop text (rStep text st p) ps

/-- What a constructed Replacer remembers. -/
structure Tables where
  inOffs : List Int
  outOffs : List Int
  outText : Str
deriving Repr, DecidableEq

/-- `Replacer.__init__(in_builder, patches)` given `text = in_builder.get_text()`.
    `validate_patch` is the only thing that can raise inside the loop and the loop has no effect
    outside the object under construction, so "some sorted patch is invalid" is checked up front. -/
def replacerBuild (text : Str) (patches : List Patch) : Except Err Tables :=
  let sorted := sortPatches patches
  if sorted.all (validPatch text) then
    let st := rLoop text RState.init sorted
    .ok ⟨st.inOffs, st.outOffs, st.out ++ sliceFrom text st.inPos⟩
  else .error .valueError

/-- `Replacer.get_input_pos(out_pos)`:
      index = bisect.bisect_right(self._output_offsets, out_pos) - 1
      offset = out_pos - self._output_offsets[index]
      return self._input_offsets[index] + offset -/
def getInputPos (tb : Tables) (outPos : Int) : Except Err Int :=
  let index : Int := (bisectRight tb.outOffs outPos : Int) - 1
  match pyGet tb.outOffs index with
  | .error e => .error e
  | .ok o =>
    match pyGet tb.inOffs index with
    | .error e => .error e
    | .ok i => .ok (i + (outPos - o))

/-- `Replacer.map_back_patch` up to the recursive call: validate against the output text, map both
    ends, `make_patch(in_text, in_start, in_end, patch.new_text)`. -/
def replacerInPatch (inText : Str) (tb : Tables) (p : Patch) : Except Err Patch :=
  if !validPatch tb.outText p then .error .valueError else
  match getInputPos tb p.start with
  | .error e => .error e
  | .ok inStart =>
    match getInputPos tb p.end_ with
    | .error e => .error e
    | .ok inEnd => .ok ⟨inStart, inEnd, slice inText inStart inEnd, p.newText⟩

/-! ### Combiner -/

/-- `offset = 0; for t in text_parts: self._offsets.append(offset); offset += len(t)` -/
def combOffsets : Int → List Str → List Int
  | _, [] => []
  | off, t :: ts => off :: combOffsets (off + t.length) ts

/-- `''.join(text_parts)` -/
def joinStrs (ts : List Str) : Str := ts.flatten

/-- `Combiner.map_back_patch` up to the recursive call: the index of the part and the shifted patch,
    or ValueError:
      validate_patch(self._text, patch)
      start_index = bisect_right(self._offsets, patch.start)
      end_index = bisect_right(self._offsets, patch.end - 1)
      if start_index <= 0 or end_index <= 0 or start_index != end_index: raise ValueError
      offset = self._offsets[start_index - 1]
      in_patch = Patch(patch.start - offset, patch.end - offset, patch.old_text, patch.new_text) -/
def combLocate (texts : List Str) (p : Patch) : Except Err (Nat × Patch) :=
  let offsets := combOffsets 0 texts
  if !validPatch (joinStrs texts) p then .error .valueError else
  let startIndex := bisectRight offsets p.start
  let endIndex := bisectRight offsets (p.end_ - 1)
  if startIndex = 0 ∨ endIndex = 0 ∨ startIndex ≠ endIndex then .error .valueError else
  match pyGet offsets ((startIndex : Int) - 1) with
  | .error e => .error e
  | .ok offset => .ok (startIndex - 1, ⟨p.start - offset, p.end_ - offset, p.oldText, p.newText⟩)

/-! ### Builder trees -/

/-- A Builder object, or (constructor `raw`) a plain `str` / `bytes` (given decoded) element of a
    Combiner's parts.  `value` of a Text is an opaque tag. -/
inductive Builder where
  | text (s : Str) (value : Nat)
  | raw (s : Str) (isBytes : Bool)
  | replacer (inner : Builder) (patches : List Patch)
  | combiner (parts : List Builder)
deriving Repr

/-- Result of `map_back_patch`: `None` (plain-string part of a Combiner) or `(text, value, patch)`. -/
abbrev MapBack := Option (Str × Nat × Patch)

mutual
/-- Constructing the tree bottom-up (children first, left to right) and `get_text()` of the root;
    an exception raised by a constructor propagates. -/
def getText : Builder → Except Err Str
  | .text s _ => .ok s
  | .raw s _ => .ok s        -- Combiner: `p if isinstance(p, str) else p.decode('utf8') if isinstance(p, bytes)`
  | .replacer inner patches =>
    match inner with
    | .raw _ _ => .error .attributeError  -- 'str' object has no attribute 'get_text'
    | _ =>
      match getText inner with
      | .error e => .error e
      | .ok t =>
        match replacerBuild t patches with
        | .error e => .error e
        | .ok tb => .ok tb.outText
  | .combiner parts =>
    match getTexts parts with
    | .error e => .error e
    | .ok ts => .ok (joinStrs ts)

def getTexts : List Builder → Except Err (List Str)
  | [] => .ok []
  | b :: bs =>
    match getText b with
    | .error e => .error e
    | .ok t =>
      match getTexts bs with
      | .error e => .error e
      | .ok ts => .ok (t :: ts)
end

mutual
/-- `map_back_patch` on a constructed tree. -/
def mapBack : Builder → Patch → Except Err MapBack
  | .text s v, p =>
    -- assert self._text[patch.start:patch.end] == patch.old_text
    if slice s p.start p.end_ == p.oldText then .ok (some (s, v, p)) else .error .assertionError
  -- Combiner: `None if isinstance(part, str) else part.map_back_patch(in_patch)`; a `bytes` part is
  -- not a `str`, and 'bytes' object has no attribute 'map_back_patch'
  | .raw _ isBytes, _ => if isBytes then .error .attributeError else .ok none
  | .replacer inner patches, p =>
    match getText inner with
    | .error e => .error e
    | .ok t =>
      match replacerBuild t patches with
      | .error e => .error e
      | .ok tb =>
        match replacerInPatch t tb p with
        | .error e => .error e
        | .ok q => mapBack inner q
  | .combiner parts, p =>
    match getTexts parts with
    | .error e => .error e
    | .ok ts =>
      match combLocate ts p with
      | .error e => .error e
      | .ok (i, q) => mapBackNth parts i q

/-- `self._parts[i].map_back_patch(q)` -/
def mapBackNth : List Builder → Nat → Patch → Except Err MapBack
  | [], _, _ => .error .indexError
  | b :: _, 0, q => mapBack b q
  | _ :: bs, i + 1, q => mapBackNth bs i q
end

/-- `Replacer.map_back_offset(out_pos)` (only a Replacer has this method):
      input_pos = self.get_input_pos(out_pos)
      if isinstance(self._in_builder, Replacer): return self._in_builder.map_back_offset(input_pos)
      return input_pos -/
def mapBackOffset : Builder → Int → Except Err Int
  | .replacer inner patches, x =>
    match getText inner with
    | .error e => .error e
    | .ok t =>
      match replacerBuild t patches with
      | .error e => .error e
      | .ok tb =>
        match getInputPos tb x with
        | .error e => .error e
        | .ok pos =>
          match inner with
          | .replacer _ _ => mapBackOffset inner pos
          | _ => .ok pos
  | _, _ => .error .attributeError

/-- Python evaluation order: the tree is constructed first (constructor exceptions win), then
    `root.map_back_patch(p)`. -/
def buildAndMapBack (b : Builder) (p : Patch) : Except Err MapBack :=
  match getText b with
  | .error e => .error e
  | .ok _ => mapBack b p

/-- `(text, value)` is a `Text` leaf of the tree. -/
inductive Leaf : Builder → Str → Nat → Prop
  | text (s v) : Leaf (.text s v) s v
  | replacer {inner ps s v} : Leaf inner s v → Leaf (.replacer inner ps) s v
  | combiner {parts b s v} : b ∈ parts → Leaf b s v → Leaf (.combiner parts) s v

end Grist.Textbuilder
