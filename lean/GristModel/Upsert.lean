/-
Model of sandbox/grist/useractions.py `UserActions.BulkAddOrUpdateRecord` / `AddOrUpdateRecord`
("upsert"), of the two bulk user actions it ends with (as far as they act on plain data columns of
one table: `BulkAddRecord` with all ids `None`, `BulkUpdateRecord` with `Engine.trim_update_action`),
and of the per-row reference behaviour its docstring describes.

What is a PARAMETER (computed by the harness from the live engine, not modelled):
  * cell values are opaque tokens `α` with decidable equality = Python `==` on the values the engine
    works with.  Every `require` cell comes as a triple: `raw` (the value as sent, after
    `decode_bulk_values`; only used by the "require values must be unique" check), `conv`
    (= `col.convert(raw)`, what `table.lookup_records` searches for) and `store` (what `BulkAddRecord`
    stores; = `conv` for data columns).
    `col_values` cells come converted (`col.convert`), which is what both bulk actions store and what
    `trim_update_action` compares with the current cell.
  * `next` = `table.next_row_id()`, `dflt` = `col.getdefault()` of every data column.
  * `lookup_records(**key)` = the rows whose cells equal the key, in row-id order (the lookup index
    is exact: C13/C05).
  * EMPTY columns (isFormula with an empty formula: the state of a freshly added column) accept data:
    `_ensure_column_accepts_data` converts them to data columns on the first non-blank write, with a
    type guessed from the values of THAT bulk action (`guess_col_info`).  The guess and the new
    type's conversion are parameters: a `require` cell carries a third token `store` (what
    `BulkAddRecord` stores for it: `conv` is what the lookup, done while the column is still empty
    and of type Any, searches for - they only differ on empty columns), `col_values` cells come as
    they are stored, and `upsertImplConv` gets, for each of the two bulk actions, the columns that
    it converts with the new type's default (`ModifyColumn {isFormula: False}` writes that default
    into every row that exists at that moment).  `upsertImpl` is the case without conversions.
Columns named `id` / `manualSort` and compound values are outside the model.
-/
deriving instance DecidableEq for Except

namespace Grist.Upsert

/-! ### association lists (Python dicts with a fixed iteration order) -/
section Assoc
variable {κ β : Type} [DecidableEq κ]

/-- `d.get(c)` : first entry with key `c`. -/
def aget : List (κ × β) → κ → Option β
  | [], _ => none
  | (k, v) :: r, c => if k = c then some v else aget r c

/-- `d[c] = v` : replace the first entry with key `c`, or append. -/
def aset : List (κ × β) → κ → β → List (κ × β)
  | [], c, v => [(c, v)]
  | (k, w) :: r, c, v => if k = c then (k, v) :: r else (k, w) :: aset r c v

def akeys (l : List (κ × β)) : List κ := l.map (·.1)

end Assoc

/-- `len(set(l))` as a list: the distinct elements of `l`. -/
def distinct {β : Type} [DecidableEq β] : List β → List β
  | [] => []
  | x :: xs => if x ∈ xs then distinct xs else x :: distinct xs

/-! ### tables -/

/-- A record: column id ↦ cell value. -/
abbrev Rec (κ α : Type) := List (κ × α)
/-- A table: (row id, record) in row-id order. -/
abbrev Table (κ α : Type) := List (Nat × Rec κ α)

section Tables
variable {κ α : Type} [DecidableEq κ] [DecidableEq α]

def tids (t : Table κ α) : List Nat := t.map (·.1)

/-- The cell of row `r`, column `c` (`col.raw_get(r)`). -/
def cell (t : Table κ α) (r : Nat) (c : κ) : Option α := (aget t r).bind (fun rc => aget rc c)

/-- `{**rc, **vals}` : the cells of `vals` written over `rc`. -/
def setAll (rc vals : Rec κ α) : Rec κ α := vals.foldr (fun p acc => aset acc p.1 p.2) rc

/-- The doc action `UpdateRecord(r, vals)` on the table. -/
def updateRow (t : Table κ α) (r : Nat) (vals : Rec κ α) : Table κ α :=
  t.map (fun p => if p.1 = r then (p.1, setAll p.2 vals) else p)

/-- Row `i` of a column-major block `{key: [v0, v1, …]}` : `{key: vals[i] for key, vals in …}`. -/
def rowAt {β : Type} (cols : List (κ × List β)) (i : Nat) : List (κ × β) :=
  cols.filterMap (fun p => (p.2[i]?).map (fun v => (p.1, v)))

/-- Does record `rc` carry every cell of `key`? -/
def recMatches (rc key : Rec κ α) : Bool := key.all (fun p => decide (aget rc p.1 = some p.2))

/-- `table.lookup_records(**key)` (default `order_by='id'`): matching row ids in row-id order. -/
def lookupRecords (t : Table κ α) (key : Rec κ α) : List Nat :=
  (t.filter (fun p => recMatches p.2 key)).map (·.1)

/-! ### the request -/

/-- `data`: isFormula = False.  `formula`: isFormula = True with formula text.  `empty`: isFormula =
    True with formula '' (accepts data, see `_ensure_column_accepts_data`). -/
inductive ColKind | data | formula | empty
deriving DecidableEq, Repr

/-- Column id ↦ kind; columns absent from the schema do not exist (`KeyError`). -/
abbrev Schema (κ : Type) := List (κ × ColKind)

/-- `options["on_many"]`; `bad` = anything that is not "first" / "none" / "all". -/
inductive OnMany | first | skip | all | bad
deriving DecidableEq, Repr

structure Options where
  update : Bool := true            -- options.get("update", True)
  add : Bool := true               -- options.get("add", True)
  onMany : OnMany := .first        -- options.get("on_many", "first")
  allowEmptyRequire : Bool := false
deriving DecidableEq, Repr

inductive Err
  | badOnMany        -- ValueError("on_many should be 'first', 'none', or 'all', not %r")
  | emptyRequire     -- ValueError("require is empty but allow_empty_require isn't set")
  | lengths          -- ValueError("Value lists must all have the same length, got …")
  | notUnique        -- ValueError("require values must be unique")
  | unknownColumn    -- KeyError (table.get_column / schema lookup)
  | formulaColumn    -- ValueError("Can't save value to formula column …")
deriving DecidableEq, Repr

structure Cell (α : Type) where
  raw : α      -- the value as sent (uniqueness check)
  conv : α     -- col.convert(raw) with the column as it is when the lookups are done
  store : α    -- what BulkAddRecord stores for it (= conv unless the column is an empty column)
deriving DecidableEq, Repr

structure Request (κ α : Type) where
  require : List (κ × List (Cell α))
  colValues : List (κ × List α)

structure Result where
  recordIds : List (List Nat)
  addRecordIds : List Nat
  updateRecordIds : List (List Nat)
deriving DecidableEq, Repr

def Result.empty : Result := ⟨[], [], []⟩

/-- All list lengths of the request (`lengths.values()`). -/
def lens (rq : Request κ α) : List Nat :=
  rq.require.map (·.2.length) ++ rq.colValues.map (·.2.length)

/-- `zip(*decoded_require.values())` : the tuples of values as sent. -/
def rawKeys (rq : Request κ α) (n : Nat) : List (List α) :=
  (List.range n).map (fun i => (rowAt rq.require i).map (·.2.raw))

/-- `current_require` after the conversion done inside `lookup_records`. -/
def convKey (rq : Request κ α) (i : Nat) : Rec κ α :=
  (rowAt rq.require i).map (fun p => (p.1, p.2.conv))

/--
The argument checks at the top of `BulkAddOrUpdateRecord`, in the order of the code.
`.ok none` = the early `return result`; `.ok (some n)` = go on with `n` input rows.

    on_many = options.get("on_many", "first")
    if on_many not in ("first", "none", "all"): raise ValueError(…)
    if not require and not allow_empty_require: raise ValueError(…)
    if not require and not col_values: return result
    unique_lengths = set(lengths.values())
    if len(unique_lengths) != 1: raise ValueError(…)
    [length] = unique_lengths
    num_unique_keys = len(set(zip(*decoded_require.values())))
    if require and num_unique_keys < length: raise ValueError("require values must be unique")
    require_add_keys = {key for key in require
                        if not (table.get_column(key).is_formula() and get_column_rec(table_id, key).formula)}
-/
def validate (sch : Schema κ) (rq : Request κ α) (opt : Options) : Except Err (Option Nat) :=
  if opt.onMany = .bad then .error .badOnMany
  else if rq.require.isEmpty && !opt.allowEmptyRequire then .error .emptyRequire
  else if rq.require.isEmpty && rq.colValues.isEmpty then .ok none
  else match distinct (lens rq) with
    | [n] =>
      if !rq.require.isEmpty && decide ((distinct (rawKeys rq n)).length < n) then .error .notUnique
      else if rq.require.any (fun p => (aget sch p.1).isNone) then .error .unknownColumn
      else .ok (some n)
    | _ => .error .lengths

/-- `values` of a row to be added:
      values = {key: require[key][i] for key in require_add_keys}   -- no real formula columns,
                                                                    -- but empty columns stay
      values.update({key: vals[i] for key, vals in col_values.items()})
    (the cells taken from `require` are stored converted by BulkAddRecord). -/
def addValues (sch : Schema κ) (rq : Request κ α) (i : Nat) : Rec κ α :=
  setAll (((rowAt rq.require i).filter (fun p => decide (aget sch p.1 ≠ some ColKind.formula))).map
            (fun p => (p.1, p.2.store)))
         (rowAt rq.colValues i)

/-- `if len(records) > 1:  first → records[:1];  none → continue` (`Option.none` = continue). -/
def selectMany (opt : Options) (records : List Nat) : Option (List Nat) :=
  if records.length > 1 then
    match opt.onMany with
    | .first => some (records.take 1)
    | .skip => none
    | _ => some records
  else some records

/-! ### the implementation: accumulate, then one BulkAddRecord and one BulkUpdateRecord -/

/-- The accumulators of the loop.  Python keeps `add_record_values` / `update_record_values`
    column-major (`{key: [..]}`); here one entry per record.  `recordIds` holds `none` where Python
    remembers the index in `new_record_indexes` to fill in the new id later. -/
structure Acc (κ α : Type) where
  adds : List (Rec κ α) := []               -- add_record_ids (all None) / add_record_values
  upds : List (Nat × Rec κ α) := []         -- update_record_ids / update_record_values
  recordIds : List (Option (List Nat)) := []
  updateRecordIds : List (List Nat) := []

/--
    for i in range(length):
      records = list(table.lookup_records(**current_require))
      if not records and add:
        … add_record_ids.append(None); add_record_values[key].append(value); new_record_indexes.append(i)
      if records and update:
        if len(records) > 1: (first → records[:1]; none → continue)
        for record in records: update_record_ids.append(record.id); update_record_values[key].append(vals[i])
        result['recordIds'][i] = matched_record_ids; result['updateRecordIds'].append(matched_record_ids)
-/
def implStep (sch : Schema κ) (t0 : Table κ α) (rq : Request κ α) (opt : Options)
    (acc : Acc κ α) (i : Nat) : Acc κ α :=
  let records := lookupRecords t0 (convKey rq i)
  if records.isEmpty then
    if opt.add then
      { acc with adds := acc.adds ++ [addValues sch rq i], recordIds := acc.recordIds ++ [none] }
    else { acc with recordIds := acc.recordIds ++ [some []] }
  else if opt.update then
    match selectMany opt records with
    | none => { acc with recordIds := acc.recordIds ++ [some []] }
    | some recs =>
      { acc with upds := acc.upds ++ recs.map (fun r => (r, rowAt rq.colValues i)),
                 recordIds := acc.recordIds ++ [some recs],
                 updateRecordIds := acc.updateRecordIds ++ [recs] }
  else { acc with recordIds := acc.recordIds ++ [some []] }

/-- `_ensure_column_accepts_data` for each column of a bulk action, in order:
      if not schema_col.isFormula: return values          -- data column
      if schema_col.formula: raise ValueError("Can't save value to formula column …")
      … (empty column: convert it to data, see `fillCols`) -/
def checkCols (sch : Schema κ) : List κ → Except Err Unit
  | [] => .ok ()
  | k :: ks =>
    match aget sch k with
    | none => .error .unknownColumn
    | some .formula => .error .formulaColumn
    | some .data => checkCols sch ks
    | some .empty => checkCols sch ks

/-- The rows created by `BulkAddRecord(table, [None, …], values)`: ids `next, next+1, …`, cells =
    the column defaults overwritten with the given values. -/
def newRows (dflt : Rec κ α) : Nat → List (Rec κ α) → Table κ α
  | _, [] => []
  | nx, v :: vs => (nx, setAll dflt v) :: newRows dflt (nx + 1) vs

/-- `values[i] != col_obj.raw_get(row_id)` in `trim_update_action`. -/
def differs (t : Table κ α) (e : Nat × Rec κ α) (c : κ) : Bool :=
  decide (aget e.2 c ≠ cell t e.1 c)

/--
`BulkUpdateRecord(table, row_ids, columns)` = `trim_update_action` followed by the doc action:

    cols = [(col_obj, values) … if any(values[i] != col_obj.raw_get(row_id) for i, row_id …)]
    row_subset = [i … if any(values[i] != col_obj.raw_get(row_id) for (col_obj, values) in cols)]
    BulkUpdateRecord(table_id, [row_ids[i] for i in row_subset], {col: [values[i] for i in row_subset] …})

Both comparisons look at the table BEFORE the action, also when a row id is repeated.
-/
def bulkUpdate (t : Table κ α) (es : List (Nat × Rec κ α)) (cols : List κ) : Table κ α :=
  let cols' := cols.filter (fun c => es.any (fun e => differs t e c))
  let es' := es.filter (fun e => cols'.any (fun c => differs t e c))
  es'.foldl (fun tb e => updateRow tb e.1 (e.2.filter (fun p => decide (p.1 ∈ cols')))) t

/-- `result['recordIds'][new_record_index] = [new_record_ids[i]]`. -/
def fillIds : List (Option (List Nat)) → Nat → List (List Nat)
  | [], _ => []
  | none :: r, nx => [nx] :: fillIds r (nx + 1)
  | some l :: r, nx => l :: fillIds r nx

/-- `require_add_keys`: every `require` column but the real formula columns (empty columns stay). -/
def requireAddKeys (sch : Schema κ) (rq : Request κ α) : List κ :=
  (akeys rq.require).filter (fun k => decide (aget sch k ≠ some ColKind.formula))

/-- The loop of `BulkAddOrUpdateRecord`. -/
def implAcc (sch : Schema κ) (t0 : Table κ α) (rq : Request κ α) (opt : Options) (n : Nat) :
    Acc κ α :=
  (List.range n).foldl (implStep sch t0 rq opt) {}

/-- `BulkAddOrUpdateRecord(table, require, col_values, options)` on table `t0`. -/
def upsertImpl (sch : Schema κ) (t0 : Table κ α) (next : Nat) (dflt : Rec κ α)
    (rq : Request κ α) (opt : Options) : Except Err (Table κ α × Result) :=
  match validate sch rq opt with
  | .error e => .error e
  | .ok none => .ok (t0, Result.empty)
  | .ok (some n) =>
    let acc := implAcc sch t0 rq opt n
    let colKeys := akeys rq.colValues
    -- if add_record_ids: new_record_ids = self.BulkAddRecord(table_id, add_record_ids, add_record_values)
    --   (add_record_values has the keys  col_keys | require_add_keys)
    let r1 : Except Err (Table κ α) :=
      if acc.adds.isEmpty then .ok t0
      else match checkCols sch (colKeys ++ (requireAddKeys sch rq).filter (fun k => decide (k ∉ colKeys))) with
        | .error e => .error e
        | .ok _ => .ok (t0 ++ newRows dflt next acc.adds)
    match r1 with
    | .error e => .error e
    | .ok t1 =>
      -- if update_record_ids: self.BulkUpdateRecord(table_id, update_record_ids, update_record_values)
      let r2 : Except Err (Table κ α) :=
        if acc.upds.isEmpty then .ok t1
        else match checkCols sch colKeys with
          | .error e => .error e
          | .ok _ => .ok (bulkUpdate t1 acc.upds colKeys)
      match r2 with
      | .error e => .error e
      | .ok t2 =>
        .ok (t2, { recordIds := fillIds acc.recordIds next,
                   addRecordIds := (List.range acc.adds.length).map (fun k => next + k),
                   updateRecordIds := acc.updateRecordIds })

/-! ### empty columns that the two bulk actions convert to data columns -/

/--
`ModifyColumn(table, col, {isFormula: False})` issued by `_ensure_column_accepts_data` for an empty
column that receives a non-blank value: every row that exists at that moment gets the new type's
default in that column (`f` : converted column ↦ default of the guessed type).

    col_info, values = guess_col_info(values, self._docmodel)
    if not col_info: return values            -- all blank: the column stays empty
    self._docmodel.update([col_rec], **col_info)
    self.ModifyColumn(table_id, col_id, {'isFormula': False})
-/
def fillCols (t : Table κ α) (f : Rec κ α) : Table κ α := t.map (fun p => (p.1, setAll p.2 f))

/-- `BulkAddOrUpdateRecord` with the conversions of empty columns: `cvAdd` = the columns converted by
    the `_ensure_column_accepts_data` calls of `BulkAddRecord` (before the rows are added), `cvUpd` =
    those converted by the calls of `BulkUpdateRecord` (after the rows are added, before
    `trim_update_action` compares with the current cells).  Same text as `upsertImpl` otherwise. -/
def upsertImplConv (sch : Schema κ) (t0 : Table κ α) (next : Nat) (dflt : Rec κ α)
    (rq : Request κ α) (opt : Options) (cvAdd cvUpd : Rec κ α) : Except Err (Table κ α × Result) :=
  match validate sch rq opt with
  | .error e => .error e
  | .ok none => .ok (t0, Result.empty)
  | .ok (some n) =>
    let acc := implAcc sch t0 rq opt n
    let colKeys := akeys rq.colValues
    let r1 : Except Err (Table κ α) :=
      if acc.adds.isEmpty then .ok t0
      else match checkCols sch (colKeys ++ (requireAddKeys sch rq).filter (fun k => decide (k ∉ colKeys))) with
        | .error e => .error e
        | .ok _ => .ok (fillCols t0 cvAdd ++ newRows dflt next acc.adds)
    match r1 with
    | .error e => .error e
    | .ok t1 =>
      let r2 : Except Err (Table κ α) :=
        if acc.upds.isEmpty then .ok t1
        else match checkCols sch colKeys with
          | .error e => .error e
          | .ok _ => .ok (bulkUpdate (fillCols t1 cvUpd) acc.upds colKeys)
      match r2 with
      | .error e => .error e
      | .ok t2 =>
        .ok (t2, { recordIds := fillIds acc.recordIds next,
                   addRecordIds := (List.range acc.adds.length).map (fun k => next + k),
                   updateRecordIds := acc.updateRecordIds })

/-- The row ids that the accumulated `BulkUpdateRecord` names (with repetitions). -/
def updTargets (sch : Schema κ) (t0 : Table κ α) (rq : Request κ α) (opt : Options) : List Nat :=
  match validate sch rq opt with
  | .ok (some n) => (implAcc sch t0 rq opt n).upds.map (·.1)
  | _ => []

/-! ### the reference: one input row at a time, each applied at once -/

/-- Which of the matching records receive `col_values` (docstring: the first by default, "all" or
    "none" of them when several match). -/
def receivers (opt : Options) (ms : List Nat) : List Nat :=
  match opt.onMany with
  | .first => ms.head?.toList
  | .skip => if ms.length ≤ 1 then ms else []
  | _ => ms

structure SpecState (κ α : Type) where
  table : Table κ α
  next : Nat
  recordIds : List (List Nat) := []
  addIds : List Nat := []
  updIds : List (List Nat) := []

/-- One input row: look `require` up in the table as it was BEFORE the action (`t0`); no match and
    adding allowed → add `{**require, **col_values}` (formula columns of `require` left out) under the
    next free id; matches and updating allowed → write `col_values` to the receivers. -/
def specStep (sch : Schema κ) (t0 : Table κ α) (dflt : Rec κ α) (rq : Request κ α) (opt : Options)
    (st : SpecState κ α) (i : Nat) : SpecState κ α :=
  let ms := lookupRecords t0 (convKey rq i)
  if ms.isEmpty then
    if opt.add then
      { st with table := st.table ++ [(st.next, setAll dflt (addValues sch rq i))],
                next := st.next + 1,
                recordIds := st.recordIds ++ [[st.next]],
                addIds := st.addIds ++ [st.next] }
    else { st with recordIds := st.recordIds ++ [[]] }
  else
    let sel := if opt.update then receivers opt ms else []
    { st with table := sel.foldl (fun tb r => updateRow tb r (rowAt rq.colValues i)) st.table,
              recordIds := st.recordIds ++ [sel],
              updIds := if sel.isEmpty then st.updIds else st.updIds ++ [sel] }

/-- The documented behaviour: the argument checks, then every input row in turn; if any record is
    added or updated, every `col_values` column must be a writable (data) column. -/
def upsertSpec (sch : Schema κ) (t0 : Table κ α) (next : Nat) (dflt : Rec κ α)
    (rq : Request κ α) (opt : Options) : Except Err (Table κ α × Result) :=
  match validate sch rq opt with
  | .error e => .error e
  | .ok none => .ok (t0, Result.empty)
  | .ok (some n) =>
    let st := (List.range n).foldl (specStep sch t0 dflt rq opt) { table := t0, next := next }
    if st.addIds.isEmpty && st.updIds.isEmpty then .ok (st.table, ⟨st.recordIds, st.addIds, st.updIds⟩)
    else match checkCols sch (akeys rq.colValues) with
      | .error e => .error e
      | .ok _ => .ok (st.table, ⟨st.recordIds, st.addIds, st.updIds⟩)

/-- Two outcomes say the same: same error, or same returned ids, same rows and same cells. -/
def SameOutcome (a b : Except Err (Table κ α × Result)) : Prop :=
  match a, b with
  | .ok (ta, ra), .ok (tb, rb) => ra = rb ∧ tids ta = tids tb ∧ ∀ r c, cell ta r c = cell tb r c
  | .error ea, .error eb => ea = eb
  | _, _ => False

/-! ### AddOrUpdateRecord (one record) -/

inductive Action | none | add | update
deriving DecidableEq, Repr

structure SingleResult where
  recordIds : List Nat
  action : Action
deriving DecidableEq, Repr

/--
    if not require and not col_values: return {'recordIds': [], 'action': 'NONE'}
    require = {k: [v] …}; col_values = {k: [v] …}
    result = self.BulkAddOrUpdateRecord(table_id, require, col_values, options)
    if len(result['recordIds']) == 0 or result['recordIds'] == [None]: return NONE
    ids = result['recordIds'][0]
    action = 'UPDATE' if len(result['updateRecordIds']) > 0 else 'ADD' if len(result['addRecordIds']) > 0 else 'NONE'
-/
def addOrUpdateImpl (sch : Schema κ) (t0 : Table κ α) (next : Nat) (dflt : Rec κ α)
    (require : List (κ × Cell α)) (colValues : List (κ × α)) (opt : Options) :
    Except Err (Table κ α × SingleResult) :=
  if require.isEmpty && colValues.isEmpty then .ok (t0, ⟨[], .none⟩)
  else
    let rq : Request κ α := { require := require.map (fun p => (p.1, [p.2])),
                              colValues := colValues.map (fun p => (p.1, [p.2])) }
    match upsertImpl sch t0 next dflt rq opt with
    | .error e => .error e
    | .ok (t, res) =>
      match res.recordIds with
      | [] => .ok (t, ⟨[], .none⟩)
      | ids :: _ =>
        .ok (t, ⟨ids, if res.updateRecordIds.length > 0 then .update
                      else if res.addRecordIds.length > 0 then .add else .none⟩)

/-- `AddOrUpdateRecord` with the conversions of empty columns (see `upsertImplConv`). -/
def addOrUpdateImplConv (sch : Schema κ) (t0 : Table κ α) (next : Nat) (dflt : Rec κ α)
    (require : List (κ × Cell α)) (colValues : List (κ × α)) (opt : Options) (cvAdd cvUpd : Rec κ α) :
    Except Err (Table κ α × SingleResult) :=
  if require.isEmpty && colValues.isEmpty then .ok (t0, ⟨[], .none⟩)
  else
    let rq : Request κ α := { require := require.map (fun p => (p.1, [p.2])),
                              colValues := colValues.map (fun p => (p.1, [p.2])) }
    match upsertImplConv sch t0 next dflt rq opt cvAdd cvUpd with
    | .error e => .error e
    | .ok (t, res) =>
      match res.recordIds with
      | [] => .ok (t, ⟨[], .none⟩)
      | ids :: _ =>
        .ok (t, ⟨ids, if res.updateRecordIds.length > 0 then .update
                      else if res.addRecordIds.length > 0 then .add else .none⟩)

end Tables

end Grist.Upsert
