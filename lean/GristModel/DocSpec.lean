/-
Specification-level notions for the document model: well-formedness and observational equality
("what fetch_table of every table shows").  Used by the property theorems (GristProps/C01..C04).
-/
import GristModel.Engine
namespace Grist.Doc

/-- A table is well formed: distinct column ids; ascending duplicate-free positive row ids; every
    cell of a row that does not exist reads as the column type's default (`unset` on removal). -/
def Table.WF (tb : Table) : Prop :=
  (tb.cols.map (·.id)).Nodup ∧
  tb.rows.Pairwise (· < ·) ∧
  (∀ r ∈ tb.rows, 0 < r) ∧
  (∀ col ∈ tb.cols, ∀ r, r ∉ tb.rows → col.cells r = typeDefault col.info.type)

def WF (d : Doc) : Prop := (d.map (·.id)).Nodup ∧ ∀ tb ∈ d, tb.WF

/-- Two columns show the same: same schema info and same cell values at the given rows. -/
def Col.SameOn (rows : List Nat) (a b : Col) : Prop :=
  a.info = b.info ∧ ∀ r ∈ rows, a.cells r = b.cells r

/-- Two tables show the same: same rows, same set of columns, each column the same. -/
def Table.Same (a b : Table) : Prop :=
  a.rows = b.rows ∧
  ∀ c, match a.findCol? c, b.findCol? c with
    | none, none => True
    | some ca, some cb => Col.SameOn a.rows ca cb
    | _, _ => False

/-- Observational equality of documents: the same tables (by id), each showing the same.
    Order of tables and of columns is irrelevant, as for `fetch_table` of every table. -/
def Same (a b : Doc) : Prop :=
  ∀ t, match findTable? a t, findTable? b t with
    | none, none => True
    | some ta, some tb => Table.Same ta tb
    | _, _ => False

/-- Run a list of doc actions (each through the `DocActions` method), collecting the undo actions
    in the order the engine appends them. -/
def runActs (d : Doc) : List DocAction → Except String (Doc × List DocAction)
  | [] => .ok (d, [])
  | a :: rest =>
    match docAction d {} a with
    | .error e => .error e
    | .ok r =>
      match runActs r.doc rest with
      | .error e => .error e
      | .ok (d', u) => .ok (d', r.undo ++ u)

/-- Row ids an action may name when adding rows: positive (row 0 is the engine's "empty record";
    the user-action layer never produces it, see C27). -/
def DocAction.rowsPositive : DocAction → Prop
  | .bulkAdd _ rows _ => ∀ r ∈ rows, 0 < r
  | .replaceData _ rows _ => ∀ r ∈ rows, 0 < r
  | _ => True

end Grist.Doc
