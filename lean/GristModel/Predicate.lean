/-
Model of sandbox/grist/predicate_formula.py: `parse_predicate_formula` / `TreeConverter`.

What is a PARAMETER (Python's, not modelled): the tokenizer/parser (`ast.parse(text, mode='eval')`,
`tokenize.generate_tokens`) and the textual `$x` → `rec.x` replacement of `get_dollar_replacer`.
The model starts from Python's own AST (`PExpr`), with one extra leaf `dollar x` standing for the
source text `$x` (which the real code rewrites to `rec.x` before parsing), and the text of the first
COMMENT token (if any).  The correspondence harness dumps Python's `ast` to `PExpr` and compares
`convert` with the real `parse_predicate_formula` on the same text.

Documented node list (docstring of parse_predicate_formula):
    And|Or                  ...values
    Add|Sub|Mult|Div|Mod    left, right
    Not                     operand
    Eq|NotEq|Lt|LtE|Gt|GtE  left, right
    Is|IsNot|In|NotIn       left, right
    List                    ...elements
    Const                   value (number, string, bool)
    Name                    name (string)
    Attr                    node, attr_name
    Comment                 node, comment
  (+ undocumented in the docstring but produced by visit_Call:  Call func, ...args, [keywords, [k, v]...])
Node semantics = Python's (DESIGN App. B): And/Or short-circuit and return the deciding operand.
Tuples are not distinguished from lists (comment in visit_Tuple) — `evalExpr` reads a tuple display
as a list display, the documented identification.
-/
namespace Grist.Predicate

/-! ## Values and Python operator semantics (shared by both evaluators) -/

abbrev Err := String

/-- Value universe.  `float` carries the IEEE-754 bits; `record` is an object with identity `id`
    and attributes; `builtin` a function bound in the environment (`len`); `method` a bound
    `str` method (`'x'.lower`). -/
inductive Value where
  | none
  | bool (b : Bool)
  | int (i : Int)
  | float (bits : UInt64)
  | str (s : String)
  | list (xs : List Value)
  | record (id : Nat) (fields : List (String × Value))
  | builtin (name : String)
  | method (recv : String) (name : String)
deriving Inhabited

abbrev Res := Except Err Value

def eType : Err := "TypeError"
def eName : Err := "NameError"
def eAttr : Err := "AttributeError"
def eZero : Err := "ZeroDivisionError"
/-- Outcome exists in Python but is outside the model (float `%`, `str % x`, identity of
    non-singleton objects, huge int→float conversions, non-ASCII case mapping, …). -/
def eUnmodelled : Err := "Unmodelled"
/-- A tree that `convert` never produces (wrong arity / unknown tag). -/
def eMalformed : Err := "Malformed"

/-- numeric view: Python `bool` is an `int`. -/
inductive Num where
  | i (n : Int)
  | f (x : Float)

def Value.num? : Value → Option Num
  | .bool b => some (.i (if b then 1 else 0))
  | .int n => some (.i n)
  | .float b => some (.f (Float.ofBits b))
  | _ => Option.none

def Value.intLike? : Value → Option Int
  | .bool b => some (if b then 1 else 0)
  | .int n => some n
  | _ => Option.none

def exactBound : Int := 9007199254740992   -- 2^53: ints up to here convert to float exactly

/-- int → float, only where the conversion is exact (otherwise Python may round or raise
    OverflowError: unmodelled). -/
def toFloat (n : Int) : Except Err Float :=
  if -exactBound ≤ n ∧ n ≤ exactBound then pure (Float.ofInt n) else throw eUnmodelled

def Num.toF : Num → Except Err Float
  | .i n => toFloat n
  | .f x => pure x

def truthy : Value → Bool
  | .none => false
  | .bool b => b
  | .int n => n != 0
  | .float b => !(Float.ofBits b == 0.0)
  | .str s => s != ""
  | .list xs => !xs.isEmpty
  | _ => true

def numEq : Num → Num → Except Err Bool
  | .i a, .i b => pure (a == b)
  | a, b => do let x ← a.toF; let y ← b.toF; pure (x == y)

/-- `==` on non-list values (lists are handled by `valEq`). -/
def scalarEq (a b : Value) : Except Err Bool :=
  match a, b with
  | .method _ _, _ => throw eUnmodelled
  | _, .method _ _ => throw eUnmodelled
  | .none, .none => pure true
  | .str s, .str t => pure (s == t)
  | .record i _, .record j _ => pure (i == j)
  | .builtin s, .builtin t => pure (s == t)
  | a, b => match a.num?, b.num? with
    | some x, some y => numEq x y
    | _, _ => pure false

mutual
/-- Python `a == b`. Lists: different lengths are unequal without looking at the elements,
    otherwise elementwise, stopping at the first unequal pair. -/
def valEq : Value → Value → Except Err Bool
  | .list xs, .list ys => if xs.length != ys.length then pure false else listEq xs ys
  | a, b => scalarEq a b
def listEq : List Value → List Value → Except Err Bool
  | x :: xs, y :: ys => do
    if (← valEq x y) then listEq xs ys else pure false
  | _, _ => pure true
end

inductive OrdOp where | lt | le | gt | ge
deriving DecidableEq, Repr

def OrdOp.onInt : OrdOp → Int → Int → Bool
  | .lt, a, b => a < b | .le, a, b => a ≤ b | .gt, a, b => a > b | .ge, a, b => a ≥ b
def OrdOp.onFloat : OrdOp → Float → Float → Bool
  | .lt, a, b => a < b | .le, a, b => a ≤ b | .gt, a, b => a > b | .ge, a, b => a ≥ b
def OrdOp.onStr : OrdOp → String → String → Bool
  | .lt, a, b => a < b | .le, a, b => a ≤ b | .gt, a, b => a > b | .ge, a, b => a ≥ b
def OrdOp.onNat : OrdOp → Nat → Nat → Bool
  | .lt, a, b => a < b | .le, a, b => a ≤ b | .gt, a, b => a > b | .ge, a, b => a ≥ b

def numOrd (op : OrdOp) : Num → Num → Except Err Bool
  | .i a, .i b => pure (op.onInt a b)
  | a, b => do let x ← a.toF; let y ← b.toF; pure (op.onFloat x y)

/-- ordering on non-list values: numbers with numbers, strings with strings (code-point
    lexicographic), anything else is a TypeError. -/
def scalarOrd (op : OrdOp) (a b : Value) : Except Err Bool :=
  match a, b with
  | .str s, .str t => pure (op.onStr s t)
  | a, b => match a.num?, b.num? with
    | some x, some y => numOrd op x y
    | _, _ => throw eType

mutual
/-- Python `a < b` etc.  Lists: first pair that is not `==` decides with the same operator,
    otherwise the lengths decide. -/
def valOrd (op : OrdOp) : Value → Value → Except Err Bool
  | .list xs, .list ys => listOrd op xs ys
  | a, b => scalarOrd op a b
def listOrd (op : OrdOp) : List Value → List Value → Except Err Bool
  | x :: xs, y :: ys => do
    if (← valEq x y) then listOrd op xs ys else valOrd op x y
  | xs, ys => pure (op.onNat xs.length ys.length)
end

/-- Python `a is b`: decided for the singletons (None/True/False) and for records (object
    identity); for two non-singleton values identity is an implementation detail. -/
def isOp (a b : Value) : Except Err Bool :=
  match a, b with
  | .none, .none => pure true
  | .none, _ => pure false
  | _, .none => pure false
  | .bool x, .bool y => pure (x == y)
  | .bool _, _ => pure false
  | _, .bool _ => pure false
  | .record i _, .record j _ => pure (i == j)
  | .record _ _, _ => pure false
  | _, .record _ _ => pure false
  | .builtin s, .builtin t => pure (s == t)
  | .builtin _, _ => pure false
  | _, .builtin _ => pure false
  | _, _ => throw eUnmodelled

def isInfixChars : List Char → List Char → Bool
  | p, [] => p.isEmpty
  | p, c :: cs => p.isPrefixOf (c :: cs) || isInfixChars p cs

def listContains (x : Value) : List Value → Except Err Bool
  | [] => pure false
  | y :: ys => do if (← valEq y x) then pure true else listContains x ys

/-- Python `x in c`. -/
def inOp (x c : Value) : Except Err Bool :=
  match c with
  | .list ys => listContains x ys
  | .str s => match x with
    | .str p => pure (isInfixChars p.toList s.toList)
    | _ => throw eType
  | _ => throw eType

inductive BinOp where
  | add | sub | mult | div | mod
  | other (name : String)   -- Pow, FloorDiv, MatMult, BitOr, BitAnd, BitXor, LShift, RShift
deriving DecidableEq, Repr

def BinOp.name? : BinOp → Option String
  | .add => some "Add" | .sub => some "Sub" | .mult => some "Mult" | .div => some "Div"
  | .mod => some "Mod" | .other _ => Option.none

def repeatLimit : Nat := 100000

def repeatList {α} (xs : List α) (n : Int) : List α :=
  (List.replicate n.toNat xs).flatten

def numArith (op : BinOp) : Num → Num → Res
  | .i a, .i b => match op with
    | .add => pure (.int (a + b))
    | .sub => pure (.int (a - b))
    | .mult => pure (.int (a * b))
    | .div => if b == 0 then throw eZero else do
        let x ← toFloat a; let y ← toFloat b; pure (.float (x / y).toBits)
    | .mod => if b == 0 then throw eZero else pure (.int (Int.fmod a b))
    | .other _ => throw eMalformed
  | a, b => do
    let x ← a.toF; let y ← b.toF
    match op with
    | .add => pure (.float (x + y).toBits)
    | .sub => pure (.float (x - y).toBits)
    | .mult => pure (.float (x * y).toBits)
    | .div => if y == 0.0 then throw eZero else pure (.float (x / y).toBits)
    | .mod => throw eUnmodelled
    | .other _ => throw eMalformed

/-- `seq * n`; a count that does not fit a machine index is an OverflowError in CPython
    (left unmodelled), `n ≤ 0` gives the empty sequence. -/
def seqRepeat (v : Value) (n : Int) : Res :=
  if n > 4611686018427387904 || n < -4611686018427387904 then throw eUnmodelled else
  match v with
  | .str s => if n ≤ 0 || s.length == 0 then pure (.str "")
              else if n.toNat * s.length > repeatLimit then throw eUnmodelled
              else pure (.str (String.ofList (repeatList s.toList n)))
  | .list xs => if n ≤ 0 || xs.isEmpty then pure (.list [])
                else if n.toNat * xs.length > repeatLimit then throw eUnmodelled
                else pure (.list (repeatList xs n))
  | _ => throw eType

/-- Python `a + b`, `a - b`, `a * b`, `a / b`, `a % b`. -/
def arith (op : BinOp) (a b : Value) : Res :=
  match a.num?, b.num? with
  | some x, some y => numArith op x y
  | _, _ =>
    match op, a, b with
    | .add, .str s, .str t => pure (.str (s ++ t))
    | .add, .list xs, .list ys => pure (.list (xs ++ ys))
    | .mult, .str s, b => match b.intLike? with | some n => seqRepeat (.str s) n | _ => throw eType
    | .mult, .list xs, b => match b.intLike? with | some n => seqRepeat (.list xs) n | _ => throw eType
    | .mult, a, .str s => match a.intLike? with | some n => seqRepeat (.str s) n | _ => throw eType
    | .mult, a, .list xs => match a.intLike? with | some n => seqRepeat (.list xs) n | _ => throw eType
    | .mod, .str _, _ => throw eUnmodelled        -- printf-style formatting
    | _, _, _ => throw eType

inductive CmpOp where
  | eq | notEq | lt | ltE | gt | gtE | is | isNot | «in» | notIn
deriving DecidableEq, Repr

def CmpOp.name : CmpOp → String
  | .eq => "Eq" | .notEq => "NotEq" | .lt => "Lt" | .ltE => "LtE" | .gt => "Gt" | .gtE => "GtE"
  | .is => "Is" | .isNot => "IsNot" | .in => "In" | .notIn => "NotIn"

def compareOp (op : CmpOp) (a b : Value) : Res :=
  match op with
  | .eq => do pure (.bool (← valEq a b))
  | .notEq => do pure (.bool (!(← valEq a b)))
  | .lt => do pure (.bool (← valOrd .lt a b))
  | .ltE => do pure (.bool (← valOrd .le a b))
  | .gt => do pure (.bool (← valOrd .gt a b))
  | .gtE => do pure (.bool (← valOrd .ge a b))
  | .is => do pure (.bool (← isOp a b))
  | .isNot => do pure (.bool (!(← isOp a b)))
  | .in => do pure (.bool (← inOp a b))
  | .notIn => do pure (.bool (!(← inOp a b)))

def lookupField (fs : List (String × Value)) (a : String) : Option Value :=
  match fs.find? (fun p => p.1 == a) with
  | some p => some p.2
  | Option.none => Option.none

/-- Python `v.a`.  ASSUMPTION: for non-record receivers the attribute name is not one of
    Python's built-in attributes other than `str.lower` / `str.upper`. -/
def getAttr (v : Value) (a : String) : Res :=
  match v with
  | .record _ fs => match lookupField fs a with
    | some x => pure x
    | Option.none => throw eAttr
  | .str s => if a == "lower" || a == "upper" then pure (.method s a) else throw eAttr
  | _ => throw eAttr

def asciiOnly (s : String) : Bool := s.toList.all (fun c => c.toNat < 128)

/-- Python call `f(*args, k=v, ...)` for the callables of the universe (`**m` is dealt with while
    the arguments are evaluated: the universe has no mapping, so it is a TypeError there). -/
def applyCall (f : Value) (args : List Value) (kws : List (String × Value)) : Res :=
  match f with
  | .builtin "len" =>
    if !kws.isEmpty then throw eType else
    match args with
    | [.str s] => pure (.int s.length)
    | [.list xs] => pure (.int xs.length)
    | _ => throw eType
  | .builtin _ => throw eUnmodelled
  | .method s m =>
    if !kws.isEmpty || !args.isEmpty then throw eType
    else if !asciiOnly s then throw eUnmodelled
    else if m == "lower" then pure (.str s.toLower)
    else if m == "upper" then pure (.str s.toUpper)
    else throw eUnmodelled
  | _ => throw eType

structure Env where
  vars : List (String × Value)

def Env.lookup (ρ : Env) (x : String) : Res :=
  match lookupField ρ.vars x with
  | some v => pure v
  | Option.none => throw eName

/-! ## Python AST subset -/

inductive BoolOp where | and | or
deriving DecidableEq, Repr

def BoolOp.name : BoolOp → String | .and => "And" | .or => "Or"

inductive UnOp where
  | not
  | other (name : String)   -- USub, UAdd, Invert
deriving DecidableEq, Repr

/-- `ast.Constant.value`: the JSON-representable kinds, and `other` = bytes / Ellipsis / complex. -/
inductive Const where
  | none
  | bool (b : Bool)
  | int (i : Int)
  | float (bits : UInt64)
  | str (s : String)
  | other (kind : String)
deriving DecidableEq, Repr

mutual
inductive PExpr where
  | boolOp (op : BoolOp) (values : List PExpr)
  | binOp (op : BinOp) (left right : PExpr)
  | unaryOp (op : UnOp) (operand : PExpr)
  | compare (left : PExpr) (ops : List CmpOp) (comparators : List PExpr)
  | name (id : String)
  | dollar (name : String)                 -- source `$name` (rewritten to `rec.name` before parsing)
  | const (c : Const)
  | attr (value : PExpr) (attr : String)
  | list (elts : List PExpr)
  | tuple (elts : List PExpr)
  | call (func : PExpr) (args : List PExpr) (keywords : List Keyword)
  | unsupported (kind : String) (children : List PExpr)   -- every other ast node class
inductive Keyword where
  | mk (arg : Option String) (value : PExpr)   -- `arg` is None for `**value`
end

/-! ## Parse tree = nested lists / JSON scalars, exactly what the code returns -/

inductive PTree where
  | null
  | bool (b : Bool)
  | int (i : Int)
  | float (bits : UInt64)
  | str (s : String)
  | opaque (kind : String)        -- a Python object json cannot encode (bytes / Ellipsis / complex)
  | list (xs : List PTree)
deriving Inhabited

def node (tag : String) (args : List PTree) : PTree := .list (.str tag :: args)

def eUnsupported : String := "Unsupported syntax"
def eChained : String := "Can't use chained comparisons"

/-- named_constants = {'True': True, 'False': False, 'None': None} -/
def namedConstant : String → Option Const
  | "True" => some (.bool true)
  | "False" => some (.bool false)
  | "None" => some .none
  | _ => Option.none

def constTree : Const → PTree
  | .none => .null
  | .bool b => .bool b
  | .int i => .int i
  | .float b => .float b
  | .str s => .str s
  | .other k => .opaque k

mutual
/-- `TreeConverter().visit(node)`; `Except.error` = `raise SyntaxError(msg)`. -/
def convert : PExpr → Except String PTree
  -- def visit_BoolOp(self, node):
  --   return [node.op.__class__.__name__] + [self.visit(v) for v in node.values]
  | .boolOp op vs => do
    let ts ← convertList vs
    pure (node op.name ts)
  -- def visit_BinOp(self, node):
  --   if not isinstance(node.op, (ast.Add, ast.Sub, ast.Mult, ast.Div, ast.Mod)):
  --     return self.generic_visit(node)
  --   return [node.op.__class__.__name__, self.visit(node.left), self.visit(node.right)]
  | .binOp op l r =>
    match op.name? with
    | Option.none => throw eUnsupported
    | some n => do
      let a ← convert l
      let b ← convert r
      pure (node n [a, b])
  -- def visit_UnaryOp(self, node):
  --   if not isinstance(node.op, (ast.Not)): return self.generic_visit(node)
  --   return [node.op.__class__.__name__, self.visit(node.operand)]
  | .unaryOp op e =>
    match op with
    | .other _ => throw eUnsupported
    | .not => do
      let a ← convert e
      pure (node "Not" [a])
  -- def visit_Compare(self, node):
  --   if len(node.ops) != 1 or len(node.comparators) != 1:
  --     raise SyntaxError("Can't use chained comparisons")
  --   return [node.ops[0].__class__.__name__, self.visit(node.left), self.visit(node.comparators[0])]
  | .compare l ops cs =>
    match ops, cs with
    | [op], [c] => do
      let a ← convert l
      let b ← convert c
      pure (node op.name [a, b])
    | _, _ => throw eChained
  -- def visit_Name(self, node):
  --   if node.id in named_constants: return ["Const", named_constants[node.id]]
  --   return ["Name", node.id]
  | .name id =>
    match namedConstant id with
    | some c => pure (node "Const" [constTree c])
    | Option.none => pure (node "Name" [.str id])
  -- `$x` is text-replaced by `rec.x` first, i.e. Attribute(Name('rec'), 'x')
  | .dollar x => pure (node "Attr" [node "Name" [.str "rec"], .str x])
  -- def visit_Constant(self, node): return ["Const", node.value]
  | .const c => pure (node "Const" [constTree c])
  -- def visit_Attribute(self, node): return ["Attr", self.visit(node.value), node.attr]
  | .attr e a => do
    let t ← convert e
    pure (node "Attr" [t, .str a])
  -- def visit_List(self, node): return ["List"] + [self.visit(e) for e in node.elts]
  | .list es => do
    let ts ← convertList es
    pure (node "List" ts)
  -- def visit_Tuple(self, node): return self.visit_List(node)
  | .tuple es => do
    let ts ← convertList es
    pure (node "List" ts)
  -- def visit_Call(self, node):
  --   args = [self.visit(v) for v in node.args]
  --   if node.keywords:
  --     args.append(['keywords'] + [[v.arg, self.visit(v.value)] for v in node.keywords])
  --   return ["Call", self.visit(node.func)] + args
  | .call f args kws => do
    let as ← convertList args
    let ks ← convertKws kws
    let fn ← convert f
    pure (node "Call" (fn :: (as ++ (if kws.isEmpty then [] else [node "keywords" ks]))))
  -- def generic_visit(self, node): raise SyntaxError("Unsupported syntax at %s:%s" % ...)
  | .unsupported _ _ => throw eUnsupported
def convertList : List PExpr → Except String (List PTree)
  | [] => pure []
  | e :: es => do
    let t ← convert e
    let ts ← convertList es
    pure (t :: ts)
def convertKws : List Keyword → Except String (List PTree)
  | [] => pure []
  | .mk arg v :: ks => do
    let t ← convert v
    let ts ← convertKws ks
    pure (.list [match arg with | some s => .str s | Option.none => .null, t] :: ts)
end

/-! ### the comment wrapper -/

/-- `str.isspace` characters (what `str.strip()` removes). -/
def pySpace (c : Char) : Bool :=
  let n := c.toNat
  (9 ≤ n && n ≤ 13) || (28 ≤ n && n ≤ 32) || n == 0x85 || n == 0xA0 || n == 0x1680 ||
  (0x2000 ≤ n && n ≤ 0x200A) || n == 0x2028 || n == 0x2029 || n == 0x202F || n == 0x205F ||
  n == 0x3000

def stripChars (cs : List Char) : List Char :=
  ((cs.dropWhile pySpace).reverse.dropWhile pySpace).reverse

def pyStrip (s : String) : String := String.ofList (stripChars s.toList)

/-- `parse_predicate_formula` after parsing: `comment` is the text of the first COMMENT token
    (including its `#`) if there is one.
      result = TreeConverter().visit(tree)
      for part in tokenize.generate_tokens(...):
        if part[0] == tokenize.COMMENT and part[1].startswith('#'):
          result = ['Comment', result, part[1][1:].strip()]
          break -/
def parseFormula (e : PExpr) (comment : Option String) : Except String PTree := do
  let result ← convert e
  match comment with
  | some c =>
    match c.toList with
    | '#' :: rest => pure (node "Comment" [result, .str (String.ofList (stripChars rest))])
    | _ => pure result
  | Option.none => pure result

/-! ## Evaluating the Python expression (reference semantics) -/

def constValue : Const → Res
  | .none => pure .none
  | .bool b => pure (.bool b)
  | .int i => pure (.int i)
  | .float b => pure (.float b)
  | .str s => pure (.str s)
  | .other _ => throw eUnmodelled

mutual
/-- Python `eval(e, ρ)`, with `$x` read as `rec.x`, tuple displays read as list displays. -/
def evalExpr (ρ : Env) : PExpr → Res
  | .boolOp .and vs => evalAndE ρ vs
  | .boolOp .or vs => evalOrE ρ vs
  | .binOp op l r => do
    let a ← evalExpr ρ l
    let b ← evalExpr ρ r
    match op with
    | .other _ => throw eMalformed      -- not in the subset
    | op => arith op a b
  | .unaryOp op e => do
    let a ← evalExpr ρ e
    match op with
    | .not => pure (.bool (!truthy a))
    | .other _ => throw eMalformed      -- not in the subset
  | .compare l ops cs =>
    match ops, cs with
    | [op], [c] => do
      let a ← evalExpr ρ l
      let b ← evalExpr ρ c
      compareOp op a b
    | _, _ => throw eMalformed          -- chained: not in the subset
  | .name id =>
    match namedConstant id with
    | some c => constValue c             -- Python 2 spelling; the Python 3 parser never produces it
    | Option.none => ρ.lookup id
  | .dollar x => do
    let r ← ρ.lookup "rec"
    getAttr r x
  | .const c => constValue c
  | .attr e a => do
    let v ← evalExpr ρ e
    getAttr v a
  | .list es => do
    let vs ← evalExprs ρ es
    pure (.list vs)
  | .tuple es => do
    let vs ← evalExprs ρ es
    pure (.list vs)
  | .call f args kws => do
    let fv ← evalExpr ρ f
    let vs ← evalExprs ρ args
    let ks ← evalKwsE ρ kws
    applyCall fv vs ks
  | .unsupported _ _ => throw eMalformed
def evalExprs (ρ : Env) : List PExpr → Except Err (List Value)
  | [] => pure []
  | e :: es => do
    let v ← evalExpr ρ e
    let vs ← evalExprs ρ es
    pure (v :: vs)
/-- `a and b and c`: the first falsy operand, else the last one. -/
def evalAndE (ρ : Env) : List PExpr → Res
  | [] => throw eMalformed
  | [e] => evalExpr ρ e
  | e :: es => do
    let v ← evalExpr ρ e
    if truthy v then evalAndE ρ es else pure v
/-- `a or b or c`: the first truthy operand, else the last one. -/
def evalOrE (ρ : Env) : List PExpr → Res
  | [] => throw eMalformed
  | [e] => evalExpr ρ e
  | e :: es => do
    let v ← evalExpr ρ e
    if truthy v then pure v else evalOrE ρ es
/-- keyword arguments, left to right; `**v` with `v` not a mapping raises TypeError as soon as `v`
    has been evaluated (CPython's DICT_MERGE), before the later keywords are looked at. -/
def evalKwsE (ρ : Env) : List Keyword → Except Err (List (String × Value))
  | [] => pure []
  | .mk arg e :: ks => do
    let v ← evalExpr ρ e
    match arg with
    | Option.none => throw eType
    | some k => do
      let vs ← evalKwsE ρ ks
      pure ((k, v) :: vs)
end

/-! ## Evaluating the parse tree with the documented node semantics -/

def constNode : List PTree → Res
  | [.null] => pure .none
  | [.bool b] => pure (.bool b)
  | [.int i] => pure (.int i)
  | [.float b] => pure (.float b)
  | [.str s] => pure (.str s)
  | [.opaque _] => throw eUnmodelled
  | _ => throw eMalformed

/-- the eager binary/unary nodes, applied to the already evaluated arguments. -/
def applyOp (tag : String) (vs : List Value) : Res :=
  match tag, vs with
  | "Add", [a, b] => arith .add a b
  | "Sub", [a, b] => arith .sub a b
  | "Mult", [a, b] => arith .mult a b
  | "Div", [a, b] => arith .div a b
  | "Mod", [a, b] => arith .mod a b
  | "Not", [a] => pure (.bool (!truthy a))
  | "Eq", [a, b] => compareOp .eq a b
  | "NotEq", [a, b] => compareOp .notEq a b
  | "Lt", [a, b] => compareOp .lt a b
  | "LtE", [a, b] => compareOp .ltE a b
  | "Gt", [a, b] => compareOp .gt a b
  | "GtE", [a, b] => compareOp .gtE a b
  | "Is", [a, b] => compareOp .is a b
  | "IsNot", [a, b] => compareOp .isNot a b
  | "In", [a, b] => compareOp .in a b
  | "NotIn", [a, b] => compareOp .notIn a b
  | "List", vs => pure (.list vs)
  | _, _ => throw eMalformed

mutual
def evalTree (ρ : Env) : PTree → Res
  | .list (.str tag :: args) =>
    if tag = "And" then evalAndT ρ args
    else if tag = "Or" then evalOrT ρ args
    else if tag = "Const" then constNode args
    else if tag = "Name" then
      match args with
      | [.str id] => ρ.lookup id
      | _ => throw eMalformed
    else if tag = "Attr" then
      match args with
      | [t, .str a] => do
        let v ← evalTree ρ t
        getAttr v a
      | _ => throw eMalformed
    else if tag = "Comment" then
      match args with
      | [t, .str _] => evalTree ρ t
      | _ => throw eMalformed
    else if tag = "Call" then
      match args with
      | f :: rest => do
        let fv ← evalTree ρ f
        let (vs, ks) ← evalCallArgs ρ rest
        applyCall fv vs ks
      | [] => throw eMalformed
    else do
      let vs ← evalTrees ρ args
      applyOp tag vs
  | _ => throw eMalformed
def evalTrees (ρ : Env) : List PTree → Except Err (List Value)
  | [] => pure []
  | t :: ts => do
    let v ← evalTree ρ t
    let vs ← evalTrees ρ ts
    pure (v :: vs)
def evalAndT (ρ : Env) : List PTree → Res
  | [] => throw eMalformed
  | [t] => evalTree ρ t
  | t :: ts => do
    let v ← evalTree ρ t
    if truthy v then evalAndT ρ ts else pure v
def evalOrT (ρ : Env) : List PTree → Res
  | [] => throw eMalformed
  | [t] => evalTree ρ t
  | t :: ts => do
    let v ← evalTree ρ t
    if truthy v then pure v else evalOrT ρ ts
/-- arguments of a `Call` node: positional nodes, then possibly one final `["keywords", ...]`
    list (no node type is called "keywords", so the reading is unambiguous). -/
def evalCallArgs (ρ : Env) : List PTree → Except Err (List Value × List (String × Value))
  | [] => pure ([], [])
  | [.list (.str "keywords" :: kws)] => do
    let ks ← evalKwsT ρ kws
    pure ([], ks)
  | t :: ts => do
    let v ← evalTree ρ t
    let (vs, ks) ← evalCallArgs ρ ts
    pure (v :: vs, ks)
def evalKwsT (ρ : Env) : List PTree → Except Err (List (String × Value))
  | [] => pure []
  | .list [.str k, t] :: rest => do
    let v ← evalTree ρ t
    let vs ← evalKwsT ρ rest
    pure ((k, v) :: vs)
  | .list [.null, t] :: _ => do        -- [null, node] is `**node`
    let _ ← evalTree ρ t
    throw eType
  | _ => throw eMalformed
end

/-! ## JSON-safety and the supported subset -/

def finiteBits (b : UInt64) : Bool := (b >>> 52) &&& 0x7FF != 0x7FF

mutual
/-- only lists, strings, numbers (finite), bools, null. -/
def jsonSafe : PTree → Bool
  | .null => true
  | .bool _ => true
  | .int _ => true
  | .float b => finiteBits b
  | .str _ => true
  | .opaque _ => false
  | .list xs => jsonSafeList xs
def jsonSafeList : List PTree → Bool
  | [] => true
  | t :: ts => jsonSafe t && jsonSafeList ts
end

def Const.jsonOk : Const → Bool
  | .other _ => false
  | .float b => finiteBits b
  | _ => true

mutual
/-- every constant in the expression is a JSON scalar (None, bool, int, finite float, str). -/
def constsOk : PExpr → Bool
  | .boolOp _ vs => constsOkList vs
  | .binOp _ l r => constsOk l && constsOk r
  | .unaryOp _ e => constsOk e
  | .compare l _ cs => constsOk l && constsOkList cs
  | .name _ => true
  | .dollar _ => true
  | .const c => c.jsonOk
  | .attr e _ => constsOk e
  | .list es => constsOkList es
  | .tuple es => constsOkList es
  | .call f args kws => constsOk f && constsOkList args && constsOkKws kws
  | .unsupported _ cs => constsOkList cs
def constsOkList : List PExpr → Bool
  | [] => true
  | e :: es => constsOk e && constsOkList es
def constsOkKws : List Keyword → Bool
  | [] => true
  | .mk _ e :: ks => constsOk e && constsOkKws ks
end

mutual
/-- the supported subset: no `unsupported` node, no operator outside the lists, no chained
    comparison, anywhere in the expression. -/
def supported : PExpr → Bool
  | .boolOp _ vs => supportedList vs
  | .binOp op l r => op.name?.isSome && supported l && supported r
  | .unaryOp op e => (match op with | .not => true | .other _ => false) && supported e
  | .compare l ops cs =>
    match ops, cs with
    | [_], [c] => supported l && supported c
    | _, _ => false
  | .name _ => true
  | .dollar _ => true
  | .const _ => true
  | .attr e _ => supported e
  | .list es => supportedList es
  | .tuple es => supportedList es
  | .call f args kws => supported f && supportedList args && supportedKws kws
  | .unsupported _ _ => false
def supportedList : List PExpr → Bool
  | [] => true
  | e :: es => supported e && supportedList es
def supportedKws : List Keyword → Bool
  | [] => true
  | .mk _ e :: ks => supported e && supportedKws ks
end

end Grist.Predicate
