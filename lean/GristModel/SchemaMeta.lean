/-
C08: the schema described by the metadata tables (`schema.build_schema` over `_grist_Tables` and
`_grist_Tables_column`) against the internal schema (`engine.schema`, here: the tables and columns
of the document itself), as compared by `Engine.assert_schema_consistent`.

The metadata tables are ordinary tables of the document:
  _grist_Tables          tableId : str
  _grist_Tables_column   parentId : int (row id of the table record), colId : str, type : str,
                         isFormula : bool, formula : str, reverseCol : int (row id of a column
                         record, 0 = none); parentPos only orders the columns (ignored: the
                         comparison is between dicts).
Core Lean only (linked into the driver).
-/
import GristModel.Doc
namespace Grist.Doc

/-- table ids starting with "_grist_" (written on the character list so that it evaluates in the
    kernel on literals) -/
def isMetaId (t : String) : Bool := t.toList.take 7 == "_grist_".toList

def valStr : Val → String
  | .str s => s
  | _ => ""

def valNat : Val → Nat
  | .int i => i.toNat
  | _ => 0

/-- `bool(c.isFormula)` -/
def valBool : Val → Bool
  | .bool b => b
  | .int i => i != 0
  | _ => false

def Table.cell (tb : Table) (c : String) (r : Nat) : Val :=
  match tb.findCol? c with
  | some col => col.cells r
  | none => .null

/-- the schema-bearing fields of the two metadata tables -/
def tableFields : List String := ["tableId"]
def columnFields : List String := ["parentId", "colId", "type", "isFormula", "formula", "reverseCol"]

/-- `SchemaColumn(c.colId, c.type, bool(c.isFormula), c.formula, reverse_col_id(c))` for the column
    record with row id `r`; `reverse_col_id` looks `reverseCol` up among the existing records. -/
def colRecInfo (mc : Table) (r : Nat) : String × ColInfo :=
  (valStr (mc.cell "colId" r),
   { type := valStr (mc.cell "type" r),
     isFormula := valBool (mc.cell "isFormula" r),
     formula := valStr (mc.cell "formula" r),
     reverseColId :=
       if mc.rows.contains (valNat (mc.cell "reverseCol" r))
       then some (valStr (mc.cell "colId" (valNat (mc.cell "reverseCol" r)))) else none })

def colRecsOf (mc : Table) (tr : Nat) : List (String × ColInfo) :=
  (mc.rows.filter (fun cr => valNat (mc.cell "parentId" cr) == tr)).map (colRecInfo mc)

def metaSchemaOf (mt mc : Table) : List (String × List (String × ColInfo)) :=
  mt.rows.map (fun tr => (valStr (mt.cell "tableId" tr), colRecsOf mc tr))

/-- `build_schema` (without the built-in tables), in `_grist_Tables` row order -/
def metaSchema (d : Doc) : List (String × List (String × ColInfo)) :=
  match findTable? d "_grist_Tables", findTable? d "_grist_Tables_column" with
  | some mt, some mc => metaSchemaOf mt mc
  | _, _ => []

/-- `engine.schema` restricted to user tables -/
def userSchema (d : Doc) : List (String × List (String × ColInfo)) :=
  (d.filter (fun tb => !isMetaId tb.id)).map (fun tb => (tb.id, tb.cols.map (fun c => (c.id, c.info))))

/-- a Python dict built by successive insertion: the last entry for a key wins -/
def lookupLast {β : Type} : List (String × β) → String → Option β
  | [], _ => none
  | (k', v) :: rest, k =>
    match lookupLast rest k with
    | some x => some x
    | none => if k' == k then some v else none

/-- the internal schema read the way the model reads it (`findTable?` / `findCol?`) -/
def userTable? (d : Doc) (t : String) : Option Table :=
  if isMetaId t then none else findTable? d t

def Table.infoOf? (tb : Table) (c : String) : Option ColInfo := (tb.findCol? c).map (·.info)

/-- no stray column records: every `parentId` is the row id of a table record -/
def noStrayB (d : Doc) : Bool :=
  match findTable? d "_grist_Tables", findTable? d "_grist_Tables_column" with
  | some mt, some mc => mc.rows.all (fun cr => mt.rows.contains (valNat (mc.cell "parentId" cr)))
  | _, _ => true

/-- table `t` agrees: absent on both sides, or present on both with the same column map -/
def TableAgrees (d : Doc) (t : String) : Prop :=
  match userTable? d t, lookupLast (metaSchema d) t with
  | none, none => True
  | some tb, some recs => ∀ c, tb.infoOf? c = lookupLast recs c
  | _, _ => False

/-- `assert_schema_consistent`: the two schemas are equal as maps table ↦ (column ↦ info), and there
    are no stray column records. -/
def SchemaConsistent (d : Doc) : Prop := (∀ t, TableAgrees d t) ∧ noStrayB d = true

def tableAgreesB (d : Doc) (t : String) : Bool :=
  match userTable? d t, lookupLast (metaSchema d) t with
  | none, none => true
  | some tb, some recs =>
    (tb.cols.map (·.id) ++ recs.map (·.1)).all (fun c => tb.infoOf? c == lookupLast recs c)
  | _, _ => false

/-- decision procedure (only the keys occurring on either side need checking) -/
def schemaConsistentB (d : Doc) : Bool :=
  ((userSchema d).map (·.1) ++ (metaSchema d).map (·.1)).all (tableAgreesB d) && noStrayB d

end Grist.Doc
