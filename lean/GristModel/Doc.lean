/-
Model of the document store and the 13 doc actions of sandbox/grist/docactions.py, with the undo
action(s) each `DocActions.*` method appends and the `ActionSummary` bookkeeping it performs.

A document is a list of tables; a table has an id, schema columns (`engine.schema[table].columns`)
each with its cells, and the set of row ids.  Cells are total functions `Nat → Val` (a Python
column is a list indexed by row id that reads as the type default where never set; `unset` on
removal writes the default back).  Cell values are *tokens* of Grist-encoded values, exact in
type (int vs float), compound values opaque.
-/
namespace Grist.Doc

inductive Val where
  | null
  | bool (b : Bool)
  | int (i : Int)
  | flt (s : String)      -- canonical float text: "1.5", "2.0", "inf", "nan"
  | str (s : String)
  | other (s : String)    -- canonical JSON of a compound encoded value (['L',..], ['E',..], ..)
deriving DecidableEq, Repr, Inhabited

structure ColInfo where
  type : String
  isFormula : Bool
  formula : String
  reverseColId : Option String
deriving DecidableEq, Repr, Inhabited

/-- `col_info` of a ModifyColumn action: only the keys that are present. -/
structure ColPatch where
  type : Option String := none
  isFormula : Option Bool := none
  formula : Option String := none
  reverseColId : Option (Option String) := none
deriving DecidableEq, Repr, Inhabited

structure Col where
  id : String
  info : ColInfo
  cells : Nat → Val

structure Table where
  id : String
  cols : List Col
  rows : List Nat          -- duplicate-free, ascending

abbrev Doc := List Table

inductive DocAction where
  | bulkAdd (t : String) (rows : List Nat) (cols : List (String × List Val))
  | bulkRemove (t : String) (rows : List Nat)
  | bulkUpdate (t : String) (rows : List Nat) (cols : List (String × List Val))
  | replaceData (t : String) (rows : List Nat) (cols : List (String × List Val))
  | addColumn (t c : String) (info : ColInfo)
  | removeColumn (t c : String)
  | renameColumn (t old new : String)
  | modifyColumn (t c : String) (p : ColPatch)
  | addTable (t : String) (cols : List (String × ColInfo))
  | removeTable (t : String)
  | renameTable (old new : String)
deriving DecidableEq, Repr, Inhabited

/-! ### types, defaults, `column.set` normalisation -/

/-- `usertypes.get_pure_type`: the part before ':'. -/
def pureType (t : String) : String := (t.splitOn ":").headD t

/-- `usertypes._type_defaults` (exact tokens). -/
def typeDefault (t : String) : Val :=
  match pureType t with
  | "Bool" => .bool false
  | "Choice" => .str ""
  | "Text" => .str ""
  | "Id" => .int 0
  | "Int" => .int 0
  | "Ref" => .int 0
  | "Numeric" => .flt "0.0"
  | "ManualSortPos" => .flt "inf"
  | "PositionNumber" => .flt "inf"
  | _ => .null

def isNumericLike (t : String) : Bool :=
  match pureType t with
  | "Numeric" | "Date" | "DateTime" | "ManualSortPos" | "PositionNumber" => true
  | _ => false

/-- positive integral float text "k.0" ↦ k -/
def posIntegralFloat? (s : String) : Option Int :=
  if s.endsWith ".0" then
    match (s.dropEnd 2).toString.toNat? with
    | some n => if n > 0 then some (Int.ofNat n) else none
    | none => none
  else none

/-- What `Column.set` stores for a value (BoolColumn, NumericColumn and subclasses,
    ReferenceColumn._clean_up_value); other column classes store the value as given. -/
def colSet (t : String) (v : Val) : Val :=
  match pureType t with
  | "Bool" =>
    match v with
    | .int 1 => .bool true
    | .int 0 => .bool false
    | .flt "1.0" => .bool true
    | .flt "0.0" => .bool false
    | .flt "-0.0" => .bool false
    | v => v
  | "Ref" =>
    match v with
    | .flt s => match posIntegralFloat? s with | some k => .int k | none => v
    | v => v
  | _ =>
    if isNumericLike t then
      match v with
      | .int i => .flt (toString i ++ ".0")
      | v => v
    else v

/-! ### lookups -/

def findTable? (d : Doc) (t : String) : Option Table := d.find? (·.id == t)
def Table.findCol? (tb : Table) (c : String) : Option Col := tb.cols.find? (·.id == c)
def hasTable (d : Doc) (t : String) : Bool := (findTable? d t).isSome
def Table.hasCol (tb : Table) (c : String) : Bool := (tb.findCol? c).isSome

def replaceTable (d : Doc) (t : String) (tb : Table) : Doc :=
  d.map (fun x => if x.id == t then tb else x)

def Table.replaceCol (tb : Table) (c : String) (col : Col) : Table :=
  { tb with cols := tb.cols.map (fun x => if x.id == c then col else x) }

/-- insert into an ascending duplicate-free list -/
def insertRow (r : Nat) : List Nat → List Nat
  | [] => [r]
  | x :: xs => if r < x then r :: x :: xs else if r == x then x :: xs else x :: insertRow r xs

def insertRows (rs : List Nat) (l : List Nat) : List Nat := rs.foldl (fun acc r => insertRow r acc) l

def setCell (f : Nat → Val) (r : Nat) (v : Val) : Nat → Val := fun k => if k = r then v else f k

/-- `for (row_id, value) in zip(row_ids, values): col.set(row_id, value)` -/
def setCells (t : String) (f : Nat → Val) : List Nat → List Val → (Nat → Val)
  | r :: rs, v :: vs => setCells t (setCell f r (colSet t v)) rs vs
  | _, _ => f

/-! ### ActionSummary (action_summary.py) -/

/-- `LabelRenames._new_to_old`: latest name ↦ original name (`none` = created here). -/
abbrev Renames := List (String × Option String)

def Renames.get? (m : Renames) (k : String) : Option (Option String) := m.lookup k
def Renames.erase (m : Renames) (k : String) : Renames := m.filter (·.1 != k)
def Renames.set (m : Renames) (k : String) (v : Option String) : Renames := (m.erase k) ++ [(k, v)]

/-- `add_rename(before, after)`: `original = pop(before, before); new_to_old[after] = original`.
    `before = none` encodes Python `None` (creation). -/
def Renames.addRename (m : Renames) (before : Option String) (after : String) : Renames :=
  match before with
  | none => m.set after none
  | some b =>
    match m.get? b with
    | some orig => (m.erase b).set after orig
    | none => m.set after (some b)

/-- `is_created(latest)`: `_new_to_old.get(latest, latest) is None` -/
def Renames.isCreated (m : Renames) (latest : String) : Bool :=
  match m.get? latest with
  | some none => true
  | _ => false

def defunctName (n : String) : String := "-" ++ n
def isDefunct (n : String) : Bool := n.startsWith "-"
def rootName (n : String) : String := if n.startsWith "-" then (n.drop 1).toString else n

/-- `original_name(latest)` -/
def Renames.originalName (m : Renames) (latest : String) : String :=
  match m.get? latest with
  | some (some o) => o
  | some none => rootName latest
  | none => latest

structure TableDelta where
  presentBefore : List (Nat × Bool) := []
  presentAfter : List (Nat × Bool) := []
  colRenames : Renames := []
  colDeltas : List (String × List (Nat × Val × Val)) := []   -- col ↦ row ↦ (before, after)
deriving Inhabited

structure Summary where
  tables : List (String × TableDelta) := []
  tableRenames : Renames := []
deriving Inhabited

def Summary.get (s : Summary) (t : String) : TableDelta := (s.tables.lookup t).getD {}
def Summary.put (s : Summary) (t : String) (td : TableDelta) : Summary :=
  { s with tables := (s.tables.filter (·.1 != t)) ++ [(t, td)] }

def amSetDefault (m : List (Nat × Bool)) (k : Nat) (v : Bool) : List (Nat × Bool) :=
  if (m.lookup k).isSome then m else m ++ [(k, v)]
def amSet (m : List (Nat × Bool)) (k : Nat) (v : Bool) : List (Nat × Bool) :=
  (m.filter (·.1 != k)) ++ [(k, v)]

def Summary.addRecords (s : Summary) (t : String) (rows : List Nat) : Summary :=
  let td := s.get t
  let td' := rows.foldl (fun td r =>
    { td with presentBefore := amSetDefault td.presentBefore r false,
              presentAfter := amSet td.presentAfter r true }) td
  s.put t td'

def Summary.removeRecords (s : Summary) (t : String) (rows : List Nat) : Summary :=
  let td := s.get t
  let td' := rows.foldl (fun td r =>
    { td with presentBefore := amSetDefault td.presentBefore r true,
              presentAfter := amSet td.presentAfter r false }) td
  s.put t td'

/-- one `(row, before, after)`: keep an earlier `before`, take the new `after` -/
def addChange (m : List (Nat × Val × Val)) (r : Nat) (b a : Val) : List (Nat × Val × Val) :=
  match m.lookup r with
  | some (b0, _) => (m.filter (·.1 != r)) ++ [(r, b0, a)]
  | none => m ++ [(r, b, a)]

def Summary.addChanges (s : Summary) (t c : String) (chs : List (Nat × Val × Val)) : Summary :=
  let td := s.get t
  let cur := (td.colDeltas.lookup c).getD []
  let cur' := chs.foldl (fun m ch => addChange m ch.1 ch.2.1 ch.2.2) cur
  s.put t { td with colDeltas := (td.colDeltas.filter (·.1 != c)) ++ [(c, cur')] }

/-- `rename_column(table, old, new)` (add = old none, remove = new defunct) -/
def Summary.renameColumn (s : Summary) (t : String) (old : Option String) (new : String) : Summary :=
  let td := s.get t
  let td1 := { td with colRenames := td.colRenames.addRename old new }
  let td2 := match old with
    | some o =>
      match td1.colDeltas.lookup o with
      | some dl => { td1 with colDeltas := ((td1.colDeltas.filter (·.1 != o)).filter (·.1 != new)) ++ [(new, dl)] }
      | none => td1
    | none => td1
  s.put t td2

def Summary.renameTable (s : Summary) (old : Option String) (new : String) : Summary :=
  let s1 := { s with tableRenames := s.tableRenames.addRename old new }
  match old with
  | some o =>
    match s1.tables.lookup o with
    | some td => { s1 with tables := ((s1.tables.filter (·.1 != o)).filter (·.1 != new)) ++ [(new, td)] }
    | none => s1
  | none => s1

/-- `is_created(table_id, col_id)` -/
def Summary.isCreated (s : Summary) (t c : String) : Bool :=
  s.tableRenames.isCreated t ||
  (match s.tables.lookup t with
   | some td => td.colRenames.isCreated c
   | none => false)

def Summary.filterOutNewRows (s : Summary) (t : String) (rows : List Nat) : List Nat :=
  match s.tables.lookup t with
  | none => rows
  | some td => rows.filter (fun r => td.presentBefore.lookup r != some false)

def Summary.filterOutGoneRows (s : Summary) (t : String) (rows : List Nat) : List Nat :=
  match s.tables.lookup t with
  | none => rows
  | some td => rows.filter (fun r => td.presentAfter.lookup r != some false)

/-- `equal_encoding` on tokens: ints and integral floats are the same value, bools only equal bools. -/
def equalEncoding (a b : Val) : Bool :=
  match a, b with
  | .int i, .flt s => s == toString i ++ ".0"
  | .flt s, .int i => s == toString i ++ ".0"
  | a, b => a == b

def updateAction (t c : String) (rows : List Nat) (vals : List Val) : DocAction :=
  .bulkUpdate t rows [(c, vals)]

/-- `_changes_to_actions` (with the delta-table lookup as in the current source). Returns the
    actions to append to `stored`, to append to `undo`, and to insert at the FRONT of `undo`. -/
def Summary.changesToActions (s : Summary) (tKey cKey : String) (delta : List (Nat × Val × Val)) :
    List DocAction × List DocAction × List DocAction :=
  if delta.isEmpty then ([], [], []) else
  let changed := (delta.filter (fun e => !equalEncoding e.2.1 e.2.2)).map (·.1)
  let fullRows := changed.mergeSort (· ≤ ·)
  let defunct := isDefunct tKey || isDefunct cKey
  let td := s.get tKey
  let origT := s.tableRenames.originalName tKey
  let origC := td.colRenames.originalName cKey
  let t := rootName tKey
  let c := rootName cKey
  let valsOf (rows : List Nat) (idx : Bool) : List Val :=
    rows.map (fun r => match delta.lookup r with
      | some (b, a) => if idx then a else b
      | none => .null)
  let stored :=
    if !defunct then
      let rowsAfter := s.filterOutGoneRows t fullRows
      if rowsAfter.isEmpty then [] else [updateAction t c rowsAfter (valsOf rowsAfter true)]
    else []
  if s.isCreated t c && !defunct then (stored, [], []) else
  let rowsBefore := s.filterOutNewRows tKey fullRows
  let preserved := if defunct then [] else s.filterOutGoneRows t rowsBefore
  let defunctRows := rowsBefore.filter (fun r => !preserved.contains r)
  let undoApp := if preserved.isEmpty then [] else [updateAction t c preserved (valsOf preserved false)]
  let undoFront := if defunctRows.isEmpty then [] else [updateAction origT origC defunctRows (valsOf defunctRows false)]
  (stored, undoApp, undoFront)

end Grist.Doc
