/-
Model of `Engine.fetch_table(table_id, formulas=True, private=False, query=None)`
(sandbox/grist/engine.py) with the pieces it relies on: `Table.RowIDs.__iter__` (table.py),
`BaseColumn.raw_get` (column.py), `column.is_virtual_column`, and Python's `==` / `hash` / `in`
on a small universe of cell values.

Strings are `List Char`.  Value universe: None, bool, int, float (integral floats carry their exact
integer value; other finite floats are an opaque canonical token, equal iff the tokens are equal;
NaN is excluded), str, list (unhashable), tuple (hashable iff all its elements are).
-/
namespace Grist.FetchQuery

abbrev Str := List Char

inductive Val where
  | none
  | bool (b : Bool)
  | int (n : Int)
  | flt (n : Int)          -- a float with integral value n (1.0, -0.0 = 0.0, 1e20, …)
  | fother (tok : Str)     -- any other finite float, canonical repr
  | str (s : Str)
  | list (l : List Val)
  | tuple (l : List Val)
  deriving Repr, Inhabited

mutual
/-- `hash(v)` succeeds -/
def hashable : Val → Bool
  | .list _ => false
  | .tuple l => hashableL l
  | _ => true
def hashableL : List Val → Bool
  | [] => true
  | v :: vs => hashable v && hashableL vs
end

/-- numeric value of bool / int / integral float (`True == 1 == 1.0`) -/
def numOf : Val → Option Int
  | .bool b => some (if b then 1 else 0)
  | .int n => some n
  | .flt n => some n
  | _ => Option.none

mutual
/-- Python `a == b` -/
def pyEq : Val → Val → Bool
  | .none, .none => true
  | .str a, .str b => a == b
  | .fother a, .fother b => a == b
  | .list a, .list b => pyEqL a b
  | .tuple a, .tuple b => pyEqL a b
  | a, b =>
    match numOf a, numOf b with
    | some x, some y => x == y
    | _, _ => false
def pyEqL : List Val → List Val → Bool
  | [], [] => true
  | a :: as, b :: bs => pyEq a b && pyEqL as bs
  | _, _ => false
end

/-- what `values` is after
```
        try:
          values = set(values)
        except TypeError:
          pass        # Values contains an unhashable value, leave it as a list.
``` -/
inductive Values where
  | set (vs : List Val)     -- all elements hashable
  | list (vs : List Val)
  deriving Repr, Inhabited

def prepValues (vs : List Val) : Values :=
  if hashableL vs then .set vs else .list vs

/-- `x in values`: `none` = TypeError (unhashable `x` looked up in a set).  For hashable `x`,
    set membership is `any(x == v)` (equal builtin values have equal hashes); list membership is
    `any(v is x or v == x)`. -/
def cellIn (x : Val) : Values → Option Bool
  | .set vs => if hashable x then some (vs.any (pyEq x)) else Option.none
  | .list vs => some (vs.any (fun v => pyEq v x))

structure Col where
  id : Str
  isFormula : Bool
  isPrivate : Bool
  data : List Val        -- `_data`
  dflt : Val             -- `getdefault()`
  deriving Repr, Inhabited

/-- `raw_get`: `self._data[row_id]`, on IndexError the default -/
def Col.rawGet (c : Col) (r : Nat) : Val := c.data.getD r c.dflt

/-- `RowIDs.__iter__`: `for row_id in range(size): if id_column.raw_get(row_id) > 0: yield row_id` -/
def rowIds (idData : List Int) : List Nat :=
  (List.range idData.length).filter (fun i => idData.getD i 0 > 0)

/-- `table.get_column(col_id)` (KeyError when absent) -/
def getColumn (cols : List Col) (cid : Str) : Option Col := cols.find? (fun c => c.id == cid)

/--
```
    if query:
      for col_id, values in query.items():
        col = table.get_column(col_id)
        ... values = set(values) ...
        query_cols.append((col, values))
``` -/
def queryCols (cols : List Col) : List (Str × List Val) → Option (List (Col × Values))
  | [] => some []
  | (cid, vs) :: rest =>
    match getColumn cols cid with
    | Option.none => Option.none
    | some c =>
      match queryCols cols rest with
      | Option.none => Option.none
      | some qs => some ((c, prepValues vs) :: qs)

/--
```
      for (c, values) in query_cols:
        try:
          if c.raw_get(r) not in values:
            break
        except TypeError:
          break
      else:
        row_ids.append(r)
``` -/
def rowMatches (r : Nat) : List (Col × Values) → Bool
  | [] => true
  | (c, vs) :: rest =>
    match cellIn (c.rawGet r) vs with
    | some true => rowMatches r rest
    | _ => false

/-- `column.is_virtual_column`: `col_id.startswith('#')` -/
def isVirtual (cid : Str) : Bool :=
  match cid with
  | '#' :: _ => true
  | _ => false

/--
```
      if ((formulas or not c.is_formula())
          and (private or not c.is_private())
          and c.col_id != "id" and not column.is_virtual_column(c.col_id)):
``` -/
def selected (formulas priv : Bool) (c : Col) : Bool :=
  (formulas || !c.isFormula) && (priv || !c.isPrivate) && (c.id != ['i', 'd']) && !isVirtual c.id

structure Result where
  rows : List Nat
  cols : List (Str × List Val)
  deriving Repr, Inhabited

/-- `fetch_table`; `none` = KeyError (unknown query column).  `query = none` or an empty dict is
    falsy (`if query:`). -/
def fetchTable (idData : List Int) (cols : List Col) (formulas priv : Bool)
    (query : Option (List (Str × List Val))) : Option Result :=
  match queryCols cols (query.getD []) with
  | Option.none => Option.none
  | some qcs =>
    let rows := (rowIds idData).filter (fun r => rowMatches r qcs)
    some ⟨rows, (cols.filter (selected formulas priv)).map (fun c => (c.id, rows.map c.rawGet))⟩

end Grist.FetchQuery
