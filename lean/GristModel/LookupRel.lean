/-
LookupRel: the invalidation bookkeeping of ONE `_LookupRelation` of sandbox/grist/lookup.py, i.e. the
mechanism that decides WHICH referring rows are handed to `engine.invalidate_records` when a lookup
index announces that some keys changed.  (GristModel/Recalc.lean abstracts all of this as "lookup
nodes are brought up to date first"; GristModel/Lookup.lean (C13) models the index itself.)

State of a relation (lookup.py `_LookupRelation.__init__`):
    self._row_key_map = twowaymap.TwoWayMap(left=set, right=set)
        # Maps referring rows to keys, where multiple rows may map to the same key AND one row may
        # map to multiple keys (if a formula does multiple lookup calls).
    self._invalidated_keys_cache = set()
        # ... By remembering the keys we invalidated, we can avoid that waste.
A set/set TwoWayMap never overwrites; its two dicts `_fwd` / `_bwd` always represent one relation
(that is C13's theorem `TwoWayMap.run_wf` for the container bins), so the map is modelled as that
relation: a list of pairs (referring row, key) without duplicates.  The harness compares the model's
pairs with BOTH `_fwd` and `_bwd` of the real object.

Rows are the engine's integer row ids.  Keys are tokens: the harness numbers the distinct key tuples
of a relation 1, 2, .. by Python equality/hash (what the dicts and sets of the code use); token 0 is
Python's `None` (which `get_affected_rows_by_keys` skips).

Python sets are lists without duplicates; iteration order is not observed by the modelled code (the
rows end in a `set`, the driver prints sorted).

Besides the two real fields the state carries GHOST fields (never read by the operations' results):
`handed`, `live`, `clean` -- see `Ghost`.  They exist so that the safety theorems of
GristProps/C05.lean can talk about "handed over since the cache was last cleared" and "looked up by
the row's latest evaluation"; GristProofs/LookupRel.lean characterises each of them by the operation
sequence alone.
-/
namespace Grist.LookupRel

abbrev Row := Nat
abbrev Key := Nat

/-- token of Python's `None` -/
def noneKey : Key := 0

/-! ### Python sets as duplicate-free lists -/

/-- `s.add(x)` -/
def sadd {α : Type} [BEq α] (x : α) (l : List α) : List α :=
  if l.contains x then l else l ++ [x]

/-- `s.update(b)` -/
def sunion {α : Type} [BEq α] (a b : List α) : List α :=
  b.foldl (fun acc x => sadd x acc) a

/-- `a - b` -/
def sdiff {α : Type} [BEq α] (a b : List α) : List α :=
  a.filter (fun x => !b.contains x)

/-! ### the relation -/

structure Rel where
  /-- `_row_key_map` as a relation: (referring row, key) -/
  map : List (Row × Key) := []
  /-- `_invalidated_keys_cache` -/
  cache : List Key := []
deriving Repr, DecidableEq, Inhabited

/-- `self._row_key_map.lookup_right(key, default=())` -/
def lookupRight (m : List (Row × Key)) (k : Key) : List Row :=
  (m.filter (fun p => p.2 == k)).map (·.1)

/-- `TwoWayMap.remove_left(left)`:
      right_removed = self._right_bin.remove_key(self._fwd, left)
      for x in right_removed: self._left_bin.remove_item(self._bwd, x, left)
    every pair of that row disappears from both dicts -/
def removeLeft (m : List (Row × Key)) (r : Row) : List (Row × Key) :=
  m.filter (fun p => !(p.1 == r))

/-- lookup.py `get_affected_rows_by_keys`:
      affected_rows = set()
      for key in keys:
        if key is not None:
          affected_rows.update(self._row_key_map.lookup_right(key, default=()))
      return affected_rows -/
def affectedRowsByKeys (m : List (Row × Key)) (keys : List Key) : List Row :=
  keys.foldl (fun acc k => if k != noneKey then sunion acc (lookupRight m k) else acc) []

/-- lookup.py `_reset_invalidated_keys_cache`:  self._invalidated_keys_cache.clear() -/
def resetCache (s : Rel) : Rel := { s with cache := [] }

/-- lookup.py `_add_lookup`:
      self._row_key_map.insert(referring_row_id, key)
      self._reset_invalidated_keys_cache()
    `clear = false` is the VARIANT in which the second line is missing (the seeded defect
    seeded/C05-c05); the model of the code is `addLookup = addLookupWith true`. -/
def addLookupWith (clear : Bool) (s : Rel) (r : Row) (k : Key) : Rel :=
  let s1 := { s with map := sadd (r, k) s.map }
  if clear then resetCache s1 else s1

def addLookup (s : Rel) (r : Row) (k : Key) : Rel := addLookupWith true s r k

/-- `depend.ALL_ROWS` or an iterable of row ids -/
inductive Rows where
  | all
  | some (rows : List Row)
deriving Repr, DecidableEq, Inhabited

/-- lookup.py `reset_rows`:
      if referring_rows == depend.ALL_ROWS:
        self._row_key_map.clear()
      else:
        for row_id in referring_rows:
          self._row_key_map.remove_left(row_id)
      self._reset_invalidated_keys_cache() -/
def resetRows (s : Rel) : Rows → Rel
  | .all => resetCache { s with map := [] }
  | .some rows => resetCache { s with map := rows.foldl removeLeft s.map }

/-- lookup.py `reset_all`:
      self._row_key_map.clear()
      self._relation_tracker._delete_relation(self._referring_node)     (detaches the relation, see below)
      self._reset_invalidated_keys_cache() -/
def resetAll (s : Rel) : Rel := resetCache { s with map := [] }

/-- lookup.py `invalidate_affected_keys`:
      affected_rows = self.get_affected_rows_by_keys(affected_keys - self._invalidated_keys_cache)
      if affected_rows:
        node = self._referring_node
        engine.invalidate_records(node.table_id, affected_rows, col_ids=(node.col_id,))
        self._invalidated_keys_cache.update(affected_keys)
    Second component: the rows handed to `engine.invalidate_records` (`none` = not called). -/
def invalidateAffectedKeys (s : Rel) (ks : List Key) : Rel × Option (List Row) :=
  let rows := affectedRowsByKeys s.map (sdiff ks s.cache)
  if rows.isEmpty then (s, none)
  else ({ s with cache := sunion s.cache ks }, some rows)

/-- the pairs (row, key) behind a hand-over: key among `ks`, not cached, not None, row mapped to it -/
def handedPairs (s : Rel) (ks : List Key) : List (Row × Key) :=
  s.map.filter (fun p => ks.contains p.2 && !s.cache.contains p.2 && p.2 != noneKey)

/-- the rows an `invalidate_affected_keys(ks)` hands over, `[]` when it does not call the engine -/
def handedBy (s : Rel) (ks : List Key) : List Row :=
  ((invalidateAffectedKeys s ks).2).getD []

/-! ### ghost state

* `handed`  pairs (row, key): the row was handed to `invalidate_records` by an
            `invalidate_affected_keys(ks)` with `key ∈ ks`, `key` not cached at that moment, and the
            cache has not been cleared since ("already handed over for that key").
* `live`    the lookups (row, key) recorded since the row's latest `beginEval` — i.e. by the
            evaluation of that cell which the engine started last (an evaluation that is aborted by
            an OrderError and retried starts again with `beginEval`).
* `clean`   rows for which an evaluation has begun AFTER the row was last handed over / reset.
            The engine may treat only such rows as up to date; rows outside `clean` are owed a
            (re-)evaluation by the engine (they sit in `recompute_map`).
-/
structure Ghost where
  handed : List (Row × Key) := []
  live : List (Row × Key) := []
  clean : List Row := []
deriving Repr, DecidableEq, Inhabited

structure St where
  rel : Rel := {}
  g : Ghost := {}
deriving Repr, DecidableEq, Inhabited

/-- Operations on one relation, as the harness records them on the real object. -/
inductive Op where
  /-- `_add_lookup(row, key)` returned -/
  | add (r : Row) (k : Key)
  /-- `_add_lookup(row, key)` raised: an unhashable key makes `TwoWayMap.insert` raise TypeError in
      its first `add_item`, before anything is stored; `_reset_invalidated_keys_cache` is not reached -/
  | addRaise (r : Row)
  /-- `reset_rows(rows)` -/
  | resetRows (rows : List Row)
  /-- `reset_rows(depend.ALL_ROWS)` -/
  | resetAllRows
  /-- `reset_all()` -/
  | resetAll
  /-- `invalidate_affected_keys(ks, engine)` -/
  | invalidate (ks : List Key)
  /-- `get_affected_rows_by_keys(ks)` called by `get_affected_rows` (depend.invalidate_deps) -/
  | query (ks : List Key)
  /-- ENGINE event, no effect on the relation: `Engine._recompute_one_cell` starts evaluating cell
      (referring node, r) -/
  | beginEval (r : Row)
  /-- ENGINE observation, no effect on anything: at this point (end of a bundle) the engine treats
      exactly these referring rows (among those the relation has seen) as existing and up to date -/
  | settled (rows : List Row)
deriving Repr, DecidableEq, Inhabited

/-- does the operation clear `_invalidated_keys_cache` (in the code, i.e. with `_add_lookup` clearing it)? -/
def Op.clearsCache : Op → Bool
  | .add _ _ | .resetRows _ | .resetAllRows | .resetAll => true
  | _ => false

/-- does the operation remove row `r`'s pairs from `_row_key_map`? -/
def Op.resets (r : Row) : Op → Bool
  | .resetRows rows => rows.contains r
  | .resetAllRows | .resetAll => true
  | _ => false

/-- One operation: new state and the rows it hands over / answers (`none` where the code returns
    nothing or does not call the engine).  `clear` selects the code (`true`) or the variant whose
    `_add_lookup` does not clear the cache (`false`). -/
def step (clear : Bool) (st : St) : Op → St × Option (List Row)
  | .add r k =>
    ({ rel := addLookupWith clear st.rel r k,
       g := { st.g with handed := if clear then [] else st.g.handed,
                        live := sadd (r, k) st.g.live } }, none)
  | .addRaise _ => (st, none)
  | .resetRows rows =>
    ({ rel := resetRows st.rel (.some rows),
       g := { st.g with handed := [], clean := sdiff st.g.clean rows } }, none)
  | .resetAllRows =>
    ({ rel := resetRows st.rel .all, g := { st.g with handed := [], clean := [] } }, none)
  | .resetAll =>
    -- the relation is detached from its tracker and never used again: nothing is live any more
    ({ rel := resetAll st.rel, g := { handed := [], live := [], clean := [] } }, none)
  | .invalidate ks =>
    match invalidateAffectedKeys st.rel ks with
    | (rel', none) => ({ st with rel := rel' }, none)
    | (rel', some rows) =>
      ({ rel := rel', g := { st.g with handed := sunion st.g.handed (handedPairs st.rel ks),
                                       clean := sdiff st.g.clean rows } }, some rows)
  | .query ks => (st, some (affectedRowsByKeys st.rel.map ks))
  | .beginEval r =>
    ({ st with g := { st.g with live := st.g.live.filter (fun p => !(p.1 == r)),
                                clean := sadd r st.g.clean } }, none)
  | .settled _ => (st, none)

/-- state after a sequence of operations -/
def run (clear : Bool) (st : St) (ops : List Op) : St :=
  ops.foldl (fun s op => (step clear s op).1) st

/-- the per-operation outputs of a sequence -/
def outputs (clear : Bool) : St → List Op → List (Option (List Row))
  | _, [] => []
  | st, op :: ops => (step clear st op).2 :: outputs clear (step clear st op).1 ops

/-! ### the explicit hypothesis about the engine (checked on every recorded trace)

`EngineSettled`: whenever the engine treats a referring row as up to date (a `settled` observation),
and the relation holds lookups of that row's latest evaluation, then that evaluation began after the
row was last handed to `invalidate_records` / passed to `reset_rows`.  In engine terms: a row put
into `recompute_map` by the relation, or announced by `reset_rows` as "about to be recomputed", is
not dropped from `recompute_map` without being evaluated from the start.  `Engine._recompute_step`
removes a dirty row after `_recompute_one_cell`, when it is absent from the table, or -- without
evaluating it -- when it was already evaluated earlier in the same update (`_recompute_done_map`);
the last case is where the hypothesis can fail: the engine has then lost the invalidation.  It is a
hypothesis of the theorem, not a fact about the engine; the harness evaluates it on every trace. -/
def settledOk (st : St) (rows : List Row) : Bool :=
  rows.all (fun r => !(st.g.live.any (fun p => p.1 == r)) || st.g.clean.contains r)

/-- every `settled` observation of the sequence holds at its position -/
def engineSettled (clear : Bool) : St → List Op → Bool
  | _, [] => true
  | st, op :: ops =>
    (match op with
     | .settled rows => settledOk st rows
     | _ => true) && engineSettled clear (step clear st op).1 ops

/-- index of the first violated `settled` observation -/
def firstUnsettled (clear : Bool) : St → List Op → Nat → Option Nat
  | _, [], _ => none
  | st, op :: ops, i =>
    match op with
    | .settled rows =>
      if settledOk st rows then firstUnsettled clear (step clear st op).1 ops (i + 1) else some i
    | _ => firstUnsettled clear (step clear st op).1 ops (i + 1)

/-- The assumption under which the VARIANT (no cache clear in `_add_lookup`) would behave like the
    code: no lookup is ever recorded while the cache is non-empty (i.e. `reset_rows` always comes
    between an invalidation and the next lookup).  The engine does NOT satisfy it (`reset_rows` runs
    once per node and update, retried evaluations record lookups again without it); the harness
    counts the real traces that violate it. -/
def addsOnEmptyCache (clear : Bool) : St → List Op → Bool
  | _, [] => true
  | st, op :: ops =>
    (match op with
     | .add _ _ => st.rel.cache.isEmpty
     | _ => true) && addsOnEmptyCache clear (step clear st op).1 ops

/-- start state for a relation first observed in mid-life (the unobserved past is summarised as):
    map and cache as found; the pairs under cached keys count as handed over; the pairs under
    non-cached keys count as live; every row counts as clean -/
def St.ofSnapshot (m : List (Row × Key)) (cache : List Key) : St :=
  { rel := { map := m, cache := cache },
    g := { handed := m.filter (fun p => cache.contains p.2 && p.2 != noneKey),
           live := m.filter (fun p => !cache.contains p.2),
           clean := sunion [] (m.map (·.1)) } }

/-! ### tracker level (lookup.py `_RelationTracker`) -- not modelled

    self._lookup_relations = {}      # referring Node -> _LookupRelation
  `_get_relation(node)` returns the existing relation or a new EMPTY one (the start state `{}` of the
  theorems); `update_relation_from_current_node(key)` calls `rel._add_lookup(engine._current_row_id,
  key)` on it (the `add` operation; which row is "current" is the engine's business);
  `invalidate_affected_keys(keys)` calls `rel.invalidate_affected_keys(keys, engine)` for every
  known relation.  Relations do not share state, so a tracker is just one operation sequence per
  referring node.  The harness audits the fan-out at run time (every call must reach every known
  relation) and records each relation's sequence separately. -/

end Grist.LookupRel
