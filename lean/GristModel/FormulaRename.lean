/-
C16  Renames never change formula results — the formula language `FExpr`.

What is modelled here
---------------------
* `FExpr`: the reference forms property C16 lists, as an abstract syntax whose NAME occurrences
  carry the table they are resolved in (what `codebuilder.parse_grist_names` obtains by astroid
  inference; the agreement of that inference with these annotations is validated differentially by
  harness/gx/props/c16.py, it is *modelled-not-verified*):
    int / str literals, `+ - * == != < <=`, `rec`, a comprehension variable, `$col`, `e.col`
    (`rec.col`, reference chains, attributes of lookup results / record sets),
    `T.lookupRecords(k=e, …, order_by=…)`, `T.lookupOne(…)`, `T.all`, `[body for x in recordset]`,
    `len/sum/max`, `PREVIOUS/NEXT/RANK(e, group_by=…, order_by=…)`, `IF(c, a, b)`.
* `print : FExpr → List Tok`: the formula text as a list of text pieces; a piece that is a name
  occurrence carries its denotation `(table, some column)` / `(table, none)`.  `render` interleaves
  arbitrary trivia strings (spaces, comments, line breaks, parentheses) between the pieces.
* `rename ρ : FExpr → FExpr` for `ρ = .col T old new` or `.tab T T'`.
* `eval : Doc → … → FExpr → Val`: a compositional evaluator over a tiny document model (tables with
  Int / Text / Ref / RefList columns, lookups by equality, ordering by key columns then row id).
  The evaluator is dynamic like Python: an attribute is looked up in the table of the record it is
  applied to (not in the annotated table); `HasTy` is the schema-directed typing under which the
  two agree.
* `prepareFormula`: `UserActions._prepare_formula_renames` for one formula:

      for (formula_info, pos, table_id, col_id) in self._engine.gencode.grist_names():
        new_name = renames.get((table_id, col_id))
        if new_name:
          name = col_id or table_id
          patch = textbuilder.make_patch(formula, pos, pos + len(name), new_name)
          patches_map.setdefault(col_rec, []).append(patch)
      for col_rec, patches in patches_map.items():
        replacer = textbuilder.Replacer(textbuilder.Text(formula), patches)
        result[col_rec] = replacer.get_text()

  on top of the `Replacer` model of GristModel/Textbuilder.lean (C37).
-/
import GristModel.Textbuilder
namespace Grist.FormulaRename
open Grist.Textbuilder (Str Patch)

abbrev Name := List Char

/-! ## Documents -/

inductive ColType where
  | int | text | ref (t : Name) | refList (t : Name)
deriving DecidableEq, Repr

/-- A stored cell (a Ref column stores the bare row id; its table comes from the column type). -/
inductive Cell where
  | int (n : Int) | text (s : Name) | ref (id : Nat) | refs (ids : List Nat)
deriving DecidableEq, Repr

structure Col where
  name : Name
  ty : ColType
  data : List Cell
deriving Repr

structure Table where
  name : Name
  ids : List Nat
  cols : List Col
deriving Repr

abbrev Doc := List Table

def findTable (d : Doc) (t : Name) : Option Table := d.find? (fun tb => tb.name == t)
def findCol (tb : Table) (c : Name) : Option Col := tb.cols.find? (fun col => col.name == c)

/-- The stored cell of row `id`, `none` when the row does not exist (row 0 = the empty record). -/
def rawCell (ids : List Nat) (data : List Cell) (id : Nat) : Option Cell :=
  match ids.idxOf? id with
  | some i => data[i]?
  | none => none

def colTypeOf (d : Doc) (t c : Name) : Option ColType :=
  match findTable d t with
  | none => none
  | some tb => (findCol tb c).map (·.ty)

/-! ## Renamings -/

/-- `.col T old new`: column `old` of table `T` becomes `new`;  `.tab old new`: table rename. -/
inductive Ren where
  | col (t old new : Name)
  | tab (old new : Name)
deriving DecidableEq, Repr

def Ren.tabOf (ρ : Ren) (t : Name) : Name :=
  match ρ with
  | .col _ _ _ => t
  | .tab o n => if t = o then n else t

/-- New name of column `c` of the table that WAS called `t`. -/
def Ren.colOf (ρ : Ren) (t c : Name) : Name :=
  match ρ with
  | .col T o n => if t = T ∧ c = o then n else c
  | .tab _ _ => c

def renColType (ρ : Ren) : ColType → ColType
  | .ref t => .ref (ρ.tabOf t)
  | .refList t => .refList (ρ.tabOf t)
  | .int => .int
  | .text => .text

def renCol (ρ : Ren) (t : Name) (c : Col) : Col :=
  { name := ρ.colOf t c.name, ty := renColType ρ c.ty, data := c.data }

def renTable (ρ : Ren) (tb : Table) : Table :=
  { name := ρ.tabOf tb.name, ids := tb.ids, cols := tb.cols.map (renCol ρ tb.name) }

/-- The document after the schema action `RenameColumn` / `RenameTable` (data untouched, the types
    `Ref:T` / `RefList:T` of referencing columns follow a table rename). -/
def renameDoc (ρ : Ren) (d : Doc) : Doc := d.map (renTable ρ)

/-- The new name is not in use (what `identifiers.pick_col_ident` / `pick_table_ident` guarantee,
    property C21). -/
def Fresh (ρ : Ren) (d : Doc) : Prop :=
  match ρ with
  | .col T _ n => ∀ tb ∈ d, tb.name = T → ∀ c ∈ tb.cols, c.name ≠ n
  | .tab _ n => ∀ tb ∈ d, tb.name ≠ n

/-! ## Values -/

inductive Atom where
  | int (n : Int) | str (s : Name) | bool (b : Bool) | rcd (t : Name) (id : Nat)
deriving DecidableEq, Repr

inductive Err where
  | typeError | valueError | attributeError | nameError | keyError
deriving DecidableEq, Repr

/-- `kws` is the evaluated keyword-argument list of a lookup call (table, `k=v` pairs, order_by). -/
inductive Val where
  | atom (a : Atom)
  | recs (t : Name) (ids : List Nat)
  | list (as : List Atom)
  | kws (t : Name) (l : List (Name × Atom)) (ob : Option (List (Bool × Name)))
  | err (e : Err)
deriving DecidableEq, Repr

def renAtom (ρ : Ren) : Atom → Atom
  | .rcd t id => .rcd (ρ.tabOf t) id
  | a => a

/-- A value "keyed through the rename": records / record sets of a renamed table carry the new
    table name; everything else is untouched. -/
def renameVal (ρ : Ren) : Val → Val
  | .atom a => .atom (renAtom ρ a)
  | .recs t ids => .recs (ρ.tabOf t) ids
  | .list as => .list (as.map (renAtom ρ))
  | .kws t l ob => .kws (ρ.tabOf t) (l.map (fun p => (ρ.colOf t p.1, renAtom ρ p.2)))
      (ob.map (fun o => o.map (fun p => (p.1, ρ.colOf t p.2))))
  | .err e => .err e

/-! ## Syntax -/

inductive Op where
  | add | sub | mul | eq | ne | lt | le
deriving DecidableEq, Repr

inductive PN where
  | prev | next | rank
deriving DecidableEq, Repr

/-- `order_by=` / `group_by=` argument: `"c"`, `"-c"` or a tuple of such strings (`sq`: single
    quotes). -/
structure OrderBy where
  items : List (Bool × Name)
  tuple : Bool
  sq : Bool
deriving DecidableEq, Repr

inductive FExpr where
  | lit (n : Nat)
  | str (s : Name) (sq : Bool)
  | binop (op : Op) (a b : FExpr)
  | recv                                  -- `rec`
  | var (x : Name)                        -- comprehension variable
  | dollar (t c : Name)                   -- `$c` (t = the formula's own table)
  | attr (e : FExpr) (t c : Name)         -- `e.c`, `e` a record / record set of table t
  | kwEnd (t : Name) (ob : Option OrderBy)        -- end of a keyword list: nothing or `order_by=…`
  | kw (t k : Name) (v rest : FExpr)              -- `k=v, rest`
  | lookup (one : Bool) (t : Name) (args : FExpr) -- `t.lookupOne(args)` / `t.lookupRecords(args)`
  | all (t : Name)                        -- `t.all`
  | compr (body : FExpr) (x : Name) (src : FExpr) -- `[body for x in src]`
  | len (e : FExpr)
  | sum (e : FExpr)
  | max (e : FExpr)
  | prevNext (f : PN) (e : FExpr) (t : Name) (gb : Option OrderBy) (ob : OrderBy)
  | ifE (c a b : FExpr)
deriving Repr

def renOB (ρ : Ren) (t : Name) (ob : OrderBy) : OrderBy :=
  { ob with items := ob.items.map (fun p => (p.1, ρ.colOf t p.2)) }

/-- The renaming of the syntax tree: every occurrence resolved in the renamed entity gets the new
    name (and every table annotation follows a table rename). -/
def rename (ρ : Ren) : FExpr → FExpr
  | .lit n => .lit n
  | .str s q => .str s q
  | .binop op a b => .binop op (rename ρ a) (rename ρ b)
  | .recv => .recv
  | .var x => .var x
  | .dollar t c => .dollar (ρ.tabOf t) (ρ.colOf t c)
  | .attr e t c => .attr (rename ρ e) (ρ.tabOf t) (ρ.colOf t c)
  | .kwEnd t ob => .kwEnd (ρ.tabOf t) (ob.map (renOB ρ t))
  | .kw t k v rest => .kw (ρ.tabOf t) (ρ.colOf t k) (rename ρ v) (rename ρ rest)
  | .lookup one t args => .lookup one (ρ.tabOf t) (rename ρ args)
  | .all t => .all (ρ.tabOf t)
  | .compr body x src => .compr (rename ρ body) x (rename ρ src)
  | .len e => .len (rename ρ e)
  | .sum e => .sum (rename ρ e)
  | .max e => .max (rename ρ e)
  | .prevNext f e t gb ob => .prevNext f (rename ρ e) (ρ.tabOf t) (gb.map (renOB ρ t)) (renOB ρ t ob)
  | .ifE c a b => .ifE (rename ρ c) (rename ρ a) (rename ρ b)

/-! ## Printing -/

/-- A piece of formula text.  `den = some (t, some c)`: an occurrence of column `c` of table `t`;
    `some (t, none)`: an occurrence of the table name `t`; `none`: anything else (punctuation,
    function names, `rec`, local variables, string literals, …). -/
structure Tok where
  text : Str
  den : Option (Name × Option Name) := none
deriving DecidableEq, Repr

def p (s : String) : Tok := ⟨s.toList, none⟩
def colTok (t c : Name) : Tok := ⟨c, some (t, some c)⟩
def tabTok (t : Name) : Tok := ⟨t, some (t, none)⟩

def quote (sq : Bool) : Tok := if sq then p "'" else p "\""

def opTok : Op → Tok
  | .add => p "+" | .sub => p "-" | .mul => p "*" | .eq => p "==" | .ne => p "!="
  | .lt => p "<" | .le => p "<="

def pnTok : PN → Tok
  | .prev => p "PREVIOUS" | .next => p "NEXT" | .rank => p "RANK"

/-- `"c"` / `"-c"`: the column name is a piece of its own inside the string literal. -/
def printItem (sq : Bool) (t : Name) (it : Bool × Name) : List Tok :=
  [quote sq] ++ (if it.1 then [p "-"] else []) ++ [colTok t it.2, quote sq]

def joinItems : List (List Tok) → List Tok
  | [] => []
  | [x] => x
  | x :: y :: rest => x ++ [p ","] ++ joinItems (y :: rest)

def printOB (t : Name) (ob : OrderBy) : List Tok :=
  if ob.tuple then
    [p "("] ++ joinItems (ob.items.map (printItem ob.sq t)) ++
      (if ob.items.length = 1 then [p ","] else []) ++ [p ")"]
  else
    joinItems (ob.items.map (printItem ob.sq t))

def isEnd : FExpr → Bool
  | .kwEnd _ none => true
  | _ => false

def print : FExpr → List Tok
  | .lit n => [⟨Nat.toDigits 10 n, none⟩]
  | .str s q => [⟨(quote q).text ++ s ++ (quote q).text, none⟩]
  | .binop op a b => [p "("] ++ print a ++ [opTok op] ++ print b ++ [p ")"]
  | .recv => [p "rec"]
  | .var x => [⟨x, none⟩]
  | .dollar t c => [p "$", colTok t c]
  | .attr e t c => print e ++ [p ".", colTok t c]
  | .kwEnd _ none => []
  | .kwEnd t (some ob) => [p "order_by", p "="] ++ printOB t ob
  | .kw t k v rest =>
    [colTok t k, p "="] ++ print v ++ (if isEnd rest then [] else [p ","]) ++ print rest
  | .lookup one t args =>
    [tabTok t, p ".", p (if one then "lookupOne" else "lookupRecords"), p "("] ++ print args ++ [p ")"]
  | .all t => [tabTok t, p ".", p "all"]
  | .compr body x src =>
    [p "["] ++ print body ++ [p "for", ⟨x, none⟩, p "in"] ++ print src ++ [p "]"]
  | .len e => [p "len", p "("] ++ print e ++ [p ")"]
  | .sum e => [p "sum", p "("] ++ print e ++ [p ")"]
  | .max e => [p "max", p "("] ++ print e ++ [p ")"]
  | .prevNext f e t gb ob =>
    [pnTok f, p "("] ++ print e ++ [p ","] ++
      (match gb with
       | some g => [p "group_by", p "="] ++ printOB t g ++ [p ","]
       | none => []) ++
      [p "order_by", p "="] ++ printOB t ob ++ [p ")"]
  | .ifE c a b => [p "IF", p "("] ++ print c ++ [p ","] ++ print a ++ [p ","] ++ print b ++ [p ")"]

/-- The formula text: `triv[i]` precedes piece `i`, one more trivia string closes the text
    (missing trivia = empty). -/
def render (triv : List Str) : List Tok → Str
  | [] => triv.headD []
  | tk :: tks => triv.headD [] ++ tk.text ++ render triv.tail tks

/-- An entry of `gencode.grist_names()` for this formula: `(pos, table_id, col_id)`. -/
abbrev Occ := Nat × Name × Option Name

/-- The name occurrences of the rendered text, in text order, with their start positions. -/
def occs (off : Nat) (triv : List Str) : List Tok → List Occ
  | [] => []
  | tk :: tks =>
    let pos := off + (triv.headD []).length
    (match tk.den with
     | some dn => [(pos, dn.1, dn.2)]
     | none => []) ++ occs (pos + tk.text.length) triv.tail tks

/-- What the rename does to one piece. -/
def renTok (ρ : Ren) (tk : Tok) : Tok :=
  match tk.den with
  | some (t, some c) => ⟨ρ.colOf t c, some (ρ.tabOf t, some (ρ.colOf t c))⟩
  | some (t, none) => ⟨ρ.tabOf t, some (ρ.tabOf t, none)⟩
  | none => tk

/-! ## `_prepare_formula_renames` for one formula -/

/-- `renames.get((table_id, col_id))` for the single-entry dict of one rename. -/
def renamesGet (ρ : Ren) (t : Name) (c : Option Name) : Option Name :=
  match ρ, c with
  | .col T o n, some c => if t = T ∧ c = o then some n else none
  | .tab o n, none => if t = o then some n else none
  | _, _ => none

/-- `name = col_id or table_id; make_patch(formula, pos, pos + len(name), new_name)`;
    `if new_name:` also skips an empty new name. -/
def makePatches (ρ : Ren) (formula : Str) (os : List Occ) : List Patch :=
  os.filterMap (fun o =>
    match renamesGet ρ o.2.1 o.2.2 with
    | some new =>
      if new = [] then none else
      let name := match o.2.2 with
        | some c => if c = [] then o.2.1 else c
        | none => o.2.1
      some ⟨(o.1 : Int), (o.1 : Int) + name.length,
            Textbuilder.slice formula o.1 ((o.1 : Int) + name.length), new⟩
    | none => none)

/-- The new formula text, `none` when the formula is not in `patches_map` (no update). -/
def prepareFormula (ρ : Ren) (formula : Str) (os : List Occ) : Except Textbuilder.Err (Option Str) :=
  match makePatches ρ formula os with
  | [] => .ok none
  | ps =>
    match Textbuilder.replacerBuild formula ps with
    | .error e => .error e
    | .ok tb => .ok (some tb.outText)

/-! ## Evaluation -/

/-- `record.col`: the cell as a Python value (defaults for a row that does not exist). -/
def fieldVal (ty : ColType) (c : Option Cell) : Val :=
  match ty, c with
  | .int, some (.int n) => .atom (.int n)
  | .int, none => .atom (.int 0)
  | .text, some (.text s) => .atom (.str s)
  | .text, none => .atom (.str [])
  | .ref u, some (.ref id) => .atom (.rcd u id)
  | .ref u, none => .atom (.rcd u 0)
  | .refList u, some (.refs ids) => .recs u ids
  | .refList u, none => .recs u []
  | _, _ => .err .typeError     -- a cell that is not of the column's type: outside the model

def collectAtoms : List Val → Val
  | [] => .list []
  | v :: vs =>
    match v with
    | .atom a =>
      match collectAtoms vs with
      | .list as => .list (a :: as)
      | other => other
    | .err e => .err e
    | _ => .err .typeError

def refId : Option Cell → Option Nat
  | some (.ref id) => some id
  | none => some 0
  | _ => none

/-- `record_set.col` (`Table._get_col_obj_subset`): a RecordSet for a Ref column, a list else. -/
def fieldVals (ty : ColType) (cs : List (Option Cell)) : Val :=
  match ty with
  | .int => collectAtoms (cs.map (fieldVal .int))
  | .text => collectAtoms (cs.map (fieldVal .text))
  | .ref u =>
    match cs.mapM refId with
    | some ids => .recs u ids
    | none => .err .typeError
  | .refList _ => .err .typeError   -- not modelled

def fieldOf (d : Doc) (t : Name) (id : Nat) (c : Name) : Val :=
  match findTable d t with
  | none => .err .attributeError
  | some tb =>
    match findCol tb c with
    | none => .err .attributeError
    | some col => fieldVal col.ty (rawCell tb.ids col.data id)

def fieldsOf (d : Doc) (t : Name) (ids : List Nat) (c : Name) : Val :=
  match findTable d t with
  | none => .err .attributeError
  | some tb =>
    match findCol tb c with
    | none => .err .attributeError
    | some col => fieldVals col.ty (ids.map (rawCell tb.ids col.data))

def evalOp (op : Op) (a b : Val) : Val :=
  match a, b with
  | .err e, _ => .err e
  | _, .err e => .err e
  | .atom (.int x), .atom (.int y) =>
    match op with
    | .add => .atom (.int (x + y))
    | .sub => .atom (.int (x - y))
    | .mul => .atom (.int (x * y))
    | .eq => .atom (.bool (x == y))
    | .ne => .atom (.bool (x != y))
    | .lt => .atom (.bool (decide (x < y)))
    | .le => .atom (.bool (decide (x ≤ y)))
  | .atom (.str x), .atom (.str y) =>
    match op with
    | .eq => .atom (.bool (x == y))
    | .ne => .atom (.bool (x != y))
    | _ => .err .typeError
  | _, _ => .err .typeError

/-- Does the stored cell match a lookup key?  (A Ref cell matches the row id or a record.) -/
def matchCell (c : Option Cell) (a : Atom) : Bool :=
  match c, a with
  | some (.int n), .int m => n == m
  | some (.text s), .str s' => s == s'
  | some (.ref i), .int m => (i : Int) == m
  | some (.ref i), .rcd _ j => i == j
  | _, _ => false

def cellLt (a b : Option Cell) : Bool :=
  match a, b with
  | some (.int x), some (.int y) => decide (x < y)
  | some (.text x), some (.text y) => decide (x < y)
  | some (.ref x), some (.ref y) => decide (x < y)
  | _, _ => false

/-- Lexicographic comparison of sort keys (`True` = descending component), row id last. -/
def keyLe : List (Bool × Option Cell) → List (Bool × Option Cell) → Nat → Nat → Bool
  | (desc, a) :: as, (_, b) :: bs, i, j =>
    if cellLt a b then !desc
    else if cellLt b a then desc
    else keyLe as bs i j
  | _, _, i, j => decide (i ≤ j)

def insertBy (le : Nat → Nat → Bool) (x : Nat) : List Nat → List Nat
  | [] => [x]
  | y :: ys => if le x y then x :: y :: ys else y :: insertBy le x ys

/-- Insertion sort (the order is total with the row id as last component, so every sorting
    algorithm gives the same list). -/
def sortIds (key : Nat → List (Bool × Option Cell)) (ids : List Nat) : List Nat :=
  ids.foldr (insertBy (fun i j => keyLe (key i) (key j) i j)) []

/-- Column data for every `k=v` (none: some column does not exist). -/
def resolveKws (tb : Table) : List (Name × Atom) → Option (List (List Cell × Atom))
  | [] => some []
  | (k, a) :: rest =>
    match findCol tb k, resolveKws tb rest with
    | some col, some r => some ((col.data, a) :: r)
    | _, _ => none

def resolveOrder (tb : Table) : List (Bool × Name) → Option (List (Bool × List Cell))
  | [] => some []
  | (desc, c) :: rest =>
    match findCol tb c, resolveOrder tb rest with
    | some col, some r => some ((desc, col.data) :: r)
    | _, _ => none

/-- `Table.lookup_records(**kwargs, order_by=…)` / `lookup_one_record`. -/
def doLookup (d : Doc) (t : Name) (l : List (Name × Atom)) (ob : Option (List (Bool × Name)))
    (one : Bool) : Val :=
  match findTable d t with
  | none => .err .nameError
  | some tb =>
    match resolveKws tb l, resolveOrder tb (ob.getD []) with
    | some kcs, some ocs =>
      let ids := tb.ids.filter (fun id => kcs.all (fun kc => matchCell (rawCell tb.ids kc.1 id) kc.2))
      let sorted := sortIds (fun id => ocs.map (fun oc => (oc.1, rawCell tb.ids oc.2 id))) ids
      if one then .atom (.rcd t (sorted.headD 0)) else .recs t sorted
    | _, _ => .err .keyError

/-- `PREVIOUS/NEXT/RANK(rec, group_by=…, order_by=…)`:
    `rec._table.lookup_records(**{c: getattr(rec, c) for c in group_by}, order_by=order_by)._find.<f>(rec)`. -/
def doPrevNext (d : Doc) (f : PN) (t : Name) (id : Nat) (gb : List (Bool × Name))
    (ob : List (Bool × Name)) : Val :=
  match findTable d t with
  | none => .err .nameError
  | some tb =>
    match resolveOrder tb gb, resolveOrder tb ob with
    | some gcs, some ocs =>
      let group := tb.ids.filter (fun j => gcs.all (fun gc => rawCell tb.ids gc.2 j == rawCell tb.ids gc.2 id))
      let sorted := sortIds (fun j => ocs.map (fun oc => (oc.1, rawCell tb.ids oc.2 j))) group
      match sorted.idxOf? id with
      | none => .err .valueError      -- the record is not a row of its table
      | some i =>
        match f with
        | .prev => .atom (.rcd t (if i = 0 then 0 else sorted.getD (i - 1) 0))
        | .next => .atom (.rcd t (sorted.getD (i + 1) 0))
        | .rank => .atom (.int ((i : Int) + 1))
    | _, _ => .err .keyError

/-- `order_by` / `sort_by` are parameters of the lookup methods themselves
    (`lookup_records(self, **field_value_pairs)` pops them): as keywords they are not filters.  A
    column carrying one of these ids cannot be looked up by keyword. -/
def reservedKw (k : Name) : Bool := k == "order_by".toList || k == "sort_by".toList

def pnName : PN → Name
  | .prev => "PREVIOUS".toList
  | .next => "NEXT".toList
  | .rank => "RANK".toList

def ifName : Name := "IF".toList

/-- The `functions` exports that formulas of this grammar call.  In the generated module the table
    classes are defined after `from functions import *`, so a table with such an id shadows the
    function: calling it raises TypeError. -/
def funcNames : List Name := [ifName, pnName .prev, pnName .next, pnName .rank]

def shadowed (d : Doc) (f : Name) : Bool := (findTable d f).isSome

/-- The rename does not touch the names the generated module gives another meaning to: the new column
    id is not a lookup parameter, neither table id is a function formulas call. -/
def Ren.Safe : Ren → Prop
  | .col _ _ n => reservedKw n = false
  | .tab o n => o ∉ funcNames ∧ n ∉ funcNames

def lookupVar : List (Name × Name × Nat) → Name → Option (Name × Nat)
  | [], _ => none
  | (y, t, id) :: rest, x => if y = x then some (t, id) else lookupVar rest x

def sumInts : List Atom → Option Int
  | [] => some 0
  | .int n :: rest => (sumInts rest).map (n + ·)
  | _ :: _ => none

def maxInts : List Atom → Option Int
  | [] => none
  | [.int n] => some n
  | .int n :: rest => (maxInts rest).map (fun m => if n < m then m else n)
  | _ :: _ => none

/-- The value of the formula in row `row` of table `cur`, with comprehension variables `env`. -/
def eval (d : Doc) (cur : Name) (row : Nat) : List (Name × Name × Nat) → FExpr → Val
  | _, .lit n => .atom (.int n)
  | _, .str s _ => .atom (.str s)
  | env, .binop op a b => evalOp op (eval d cur row env a) (eval d cur row env b)
  | _, .recv => .atom (.rcd cur row)
  | env, .var x =>
    match lookupVar env x with
    | some (t, id) => .atom (.rcd t id)
    | none => .err .nameError
  | _, .dollar _ c => fieldOf d cur row c
  | env, .attr e _ c =>
    match eval d cur row env e with
    | .atom (.rcd t id) => fieldOf d t id c
    | .recs t ids => fieldsOf d t ids c
    | .err x => .err x
    | _ => .err .attributeError
  | _, .kwEnd t ob => .kws t [] (ob.map (·.items))
  | env, .kw t k v rest =>
    match eval d cur row env v with
    | .atom a =>
      if reservedKw k then .err .typeError else
      match eval d cur row env rest with
      | .kws t' l ob => if t' = t then .kws t ((k, a) :: l) ob else .err .typeError
      | .err x => .err x
      | _ => .err .typeError
    | .err x => .err x
    | _ => .err .typeError
  | env, .lookup one t args =>
    match eval d cur row env args with
    | .kws t' l ob => if t' = t then doLookup d t l ob one else .err .typeError
    | .err x => .err x
    | _ => .err .typeError
  | _, .all t =>
    match findTable d t with
    | some tb => .recs t tb.ids
    | none => .err .nameError
  | env, .compr body x src =>
    match eval d cur row env src with
    | .recs t ids => collectAtoms (ids.map (fun id => eval d cur row ((x, t, id) :: env) body))
    | .err e => .err e
    | _ => .err .typeError
  | env, .len e =>
    match eval d cur row env e with
    | .recs _ ids => .atom (.int ids.length)
    | .list as => .atom (.int as.length)
    | .err x => .err x
    | _ => .err .typeError
  | env, .sum e =>
    match eval d cur row env e with
    | .list as =>
      match sumInts as with
      | some n => .atom (.int n)
      | none => .err .typeError
    | .err x => .err x
    | _ => .err .typeError
  | env, .max e =>
    match eval d cur row env e with
    | .list as =>
      match as with
      | [] => .err .valueError
      | _ =>
        match maxInts as with
        | some n => .atom (.int n)
        | none => .err .typeError
    | .err x => .err x
    | _ => .err .typeError
  | env, .prevNext f e _ gb ob =>
    match eval d cur row env e with
    | .atom (.rcd t id) =>
      if shadowed d (pnName f) then .err .typeError
      else doPrevNext d f t id ((gb.map (·.items)).getD []) ob.items
    | .err x => .err x
    | _ => .err .typeError
  | env, .ifE c a b =>
    match eval d cur row env c with
    | .atom (.bool true) => if shadowed d ifName then .err .typeError else eval d cur row env a
    | .atom (.bool false) => if shadowed d ifName then .err .typeError else eval d cur row env b
    | .err x => .err x
    | _ => .err .typeError

/-! ## Schema-directed typing -/

inductive ATy where
  | int | text | bool | rcd (t : Name)
deriving DecidableEq, Repr

inductive Ty where
  | atom (a : ATy) | recs (t : Name) | list (a : ATy) | kws (t : Name)
deriving DecidableEq, Repr

def fieldTy : ColType → Ty
  | .int => .atom .int
  | .text => .atom .text
  | .ref u => .atom (.rcd u)
  | .refList u => .recs u

def fieldTyS : ColType → Option Ty
  | .int => some (.list .int)
  | .text => some (.list .text)
  | .ref u => some (.recs u)
  | .refList _ => none

/-- Which keys a lookup column accepts. -/
def kwOk : ColType → ATy → Bool
  | .int, .int => true
  | .text, .text => true
  | .ref _, .int => true
  | .ref _, .rcd _ => true
  | _, _ => false

def lookupTy : List (Name × Name) → Name → Option Name
  | [], _ => none
  | (y, t) :: rest, x => if y = x then some t else lookupTy rest x

def colsExist (d : Doc) (t : Name) (items : List (Bool × Name)) : Prop :=
  ∀ it ∈ items, (colTypeOf d t it.2).isSome = true

def arithOp : Op → Bool
  | .add | .sub | .mul => true
  | _ => false

def orderOp : Op → Bool
  | .lt | .le => true
  | _ => false

def eqOp : Op → Bool
  | .eq | .ne => true
  | _ => false

/-- `HasTy d cur Γ e τ`: in a formula of table `cur` (comprehension variables `Γ`), with the
    schema of `d`, every name annotation of `e` is the table the schema assigns, and `e : τ`. -/
inductive HasTy (d : Doc) (cur : Name) : List (Name × Name) → FExpr → Ty → Prop
  | lit {Γ n} : HasTy d cur Γ (.lit n) (.atom .int)
  | str {Γ s q} : HasTy d cur Γ (.str s q) (.atom .text)
  | arith {Γ op a b} : arithOp op = true → HasTy d cur Γ a (.atom .int) → HasTy d cur Γ b (.atom .int) →
      HasTy d cur Γ (.binop op a b) (.atom .int)
  | order {Γ op a b} : orderOp op = true → HasTy d cur Γ a (.atom .int) → HasTy d cur Γ b (.atom .int) →
      HasTy d cur Γ (.binop op a b) (.atom .bool)
  | eqInt {Γ op a b} : eqOp op = true → HasTy d cur Γ a (.atom .int) → HasTy d cur Γ b (.atom .int) →
      HasTy d cur Γ (.binop op a b) (.atom .bool)
  | eqText {Γ op a b} : eqOp op = true → HasTy d cur Γ a (.atom .text) → HasTy d cur Γ b (.atom .text) →
      HasTy d cur Γ (.binop op a b) (.atom .bool)
  | recv {Γ} : HasTy d cur Γ .recv (.atom (.rcd cur))
  | var {Γ x t} : lookupTy Γ x = some t → HasTy d cur Γ (.var x) (.atom (.rcd t))
  | dollar {Γ c ct} : colTypeOf d cur c = some ct → HasTy d cur Γ (.dollar cur c) (fieldTy ct)
  | attrRec {Γ e t c ct} : HasTy d cur Γ e (.atom (.rcd t)) → colTypeOf d t c = some ct →
      HasTy d cur Γ (.attr e t c) (fieldTy ct)
  | attrRecs {Γ e t c ct τ} : HasTy d cur Γ e (.recs t) → colTypeOf d t c = some ct →
      fieldTyS ct = some τ → HasTy d cur Γ (.attr e t c) τ
  | kwEnd {Γ t ob} : (findTable d t).isSome = true → colsExist d t ((ob.map (·.items)).getD []) →
      HasTy d cur Γ (.kwEnd t ob) (.kws t)
  | kw {Γ t k v rest ct a} : colTypeOf d t k = some ct → HasTy d cur Γ v (.atom a) → kwOk ct a = true →
      HasTy d cur Γ rest (.kws t) → reservedKw k = false → HasTy d cur Γ (.kw t k v rest) (.kws t)
  | lookupOne {Γ t args} : HasTy d cur Γ args (.kws t) → HasTy d cur Γ (.lookup true t args) (.atom (.rcd t))
  | lookupRecords {Γ t args} : HasTy d cur Γ args (.kws t) → HasTy d cur Γ (.lookup false t args) (.recs t)
  | all {Γ t} : (findTable d t).isSome = true → HasTy d cur Γ (.all t) (.recs t)
  | compr {Γ body x src t a} : HasTy d cur Γ src (.recs t) → HasTy d cur ((x, t) :: Γ) body (.atom a) →
      HasTy d cur Γ (.compr body x src) (.list a)
  | lenRecs {Γ e t} : HasTy d cur Γ e (.recs t) → HasTy d cur Γ (.len e) (.atom .int)
  | lenList {Γ e a} : HasTy d cur Γ e (.list a) → HasTy d cur Γ (.len e) (.atom .int)
  | sum {Γ e} : HasTy d cur Γ e (.list .int) → HasTy d cur Γ (.sum e) (.atom .int)
  | max {Γ e} : HasTy d cur Γ e (.list .int) → HasTy d cur Γ (.max e) (.atom .int)
  | prevNext {Γ f e t gb ob} : HasTy d cur Γ e (.atom (.rcd t)) → (findTable d t).isSome = true →
      colsExist d t ((gb.map (·.items)).getD []) → colsExist d t ob.items →
      HasTy d cur Γ (.prevNext f e t gb ob) (if f = .rank then .atom .int else .atom (.rcd t))
  | ifE {Γ c a b τ} : HasTy d cur Γ c (.atom .bool) → HasTy d cur Γ a τ → HasTy d cur Γ b τ →
      HasTy d cur Γ (.ifE c a b) τ

/-! ### The computable checker used by the driver (`check_sound` in GristProps/C16.lean) -/

def colsExistB (d : Doc) (t : Name) (items : List (Bool × Name)) : Bool :=
  items.all (fun it => (colTypeOf d t it.2).isSome)

def check (d : Doc) (cur : Name) : List (Name × Name) → FExpr → Option Ty
  | _, .lit _ => some (.atom .int)
  | _, .str _ _ => some (.atom .text)
  | Γ, .binop op a b =>
    match check d cur Γ a, check d cur Γ b with
    | some (.atom .int), some (.atom .int) =>
      if arithOp op then some (.atom .int) else some (.atom .bool)
    | some (.atom .text), some (.atom .text) => if eqOp op then some (.atom .bool) else none
    | _, _ => none
  | _, .recv => some (.atom (.rcd cur))
  | Γ, .var x => (lookupTy Γ x).map (fun t => .atom (.rcd t))
  | _, .dollar t c => if t = cur then (colTypeOf d cur c).map fieldTy else none
  | Γ, .attr e t c =>
    match check d cur Γ e with
    | some (.atom (.rcd t')) => if t' = t then (colTypeOf d t c).map fieldTy else none
    | some (.recs t') => if t' = t then (colTypeOf d t c).bind fieldTyS else none
    | _ => none
  | _, .kwEnd t ob =>
    if (findTable d t).isSome && colsExistB d t ((ob.map (·.items)).getD []) then some (.kws t) else none
  | Γ, .kw t k v rest =>
    match colTypeOf d t k, check d cur Γ v, check d cur Γ rest with
    | some ct, some (.atom a), some (.kws t') =>
      if kwOk ct a && t' == t && !reservedKw k then some (.kws t) else none
    | _, _, _ => none
  | Γ, .lookup one t args =>
    match check d cur Γ args with
    | some (.kws t') => if t' = t then some (if one then .atom (.rcd t) else .recs t) else none
    | _ => none
  | _, .all t => if (findTable d t).isSome then some (.recs t) else none
  | Γ, .compr body x src =>
    match check d cur Γ src with
    | some (.recs t) =>
      match check d cur ((x, t) :: Γ) body with
      | some (.atom a) => some (.list a)
      | _ => none
    | _ => none
  | Γ, .len e =>
    match check d cur Γ e with
    | some (.recs _) => some (.atom .int)
    | some (.list _) => some (.atom .int)
    | _ => none
  | Γ, .sum e =>
    match check d cur Γ e with
    | some (.list .int) => some (.atom .int)
    | _ => none
  | Γ, .max e =>
    match check d cur Γ e with
    | some (.list .int) => some (.atom .int)
    | _ => none
  | Γ, .prevNext f e t gb ob =>
    match check d cur Γ e with
    | some (.atom (.rcd t')) =>
      if t' = t && (findTable d t).isSome && colsExistB d t ((gb.map (·.items)).getD []) &&
          colsExistB d t ob.items then
        some (if f = .rank then .atom .int else .atom (.rcd t))
      else none
    | _ => none
  | Γ, .ifE c a b =>
    match check d cur Γ c, check d cur Γ a, check d cur Γ b with
    | some (.atom .bool), some τ, some τ' => if τ = τ' then some τ else none
    | _, _, _ => none

end Grist.FormulaRename
