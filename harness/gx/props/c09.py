"""
C09  Metadata references always resolve.

Theorems: GristProps/C09.lean about GristModel/MetaRefs.lean: the decidable predicate
`metaRefsResolve` (every Ref/RefList cell of every metadata reference column points at existing
rows; a field's column belongs to its section's table; every user table has exactly one
_grist_Tables record with a raw view section; display/rule helper columns are still used) and the
shared clean-up mechanism of doBulkRemoveRecord (`cleanupUpdates` then removal preserves
resolution; additions of resolving records and neutral updates preserve it).
Tie: after every bundle the Lean predicate is evaluated by the driver on the replica document
(fed only the stored actions) and must agree, clause by clause, with the Python twin evaluated on
the real engine's tables.
Search: the Python twin on the engine after every successful bundle of removal-heavy histories.
Interpretation (DESIGN App. B): histories use the structural user actions and record actions on
user tables; raw writes of arbitrary reference ids into _grist_* tables are not generated.
The reference columns are read from the CURRENT schema.py on every run.
"""
import json

from gx.props import _hist

PROP = "C09"
PROFILE = {# raw doc actions of an OLD undo list replayed against a document that has moved on are raw writes into
           # the metadata (no clean-up runs), outside this property's histories (see Interpretation)
           "stale_undo": 0,
           "remove_table": 4, "remove_column": 7, "remove_view_stuff": 6, "summary": 5, "update_summary": 2,
           "detach_summary": 1, "display_formula": 4, "add_rule": 4, "add_ref_column": 4, "reverse_column": 2,
           "rename_column": 3, "rename_table": 2, "duplicate_table": 1.5, "add_table": 4, "add_column": 5,
           "add_formula_column": 4, "modify_type": 3, "undo_earlier": 3, "malformed": 2, "add_record": 6,
           "update_record": 6, "remove_record": 4, "ref_into_summary": 4, "remove_summary_widget": 4, "hide_field": 4, "summary_chain": 3, "show_group_field": 5}
CFG = {"oracles": ("replica",), "n_bundles": 14, "profile": PROFILE, "hook": "gx.props.c09.install"}
TIE_KINDS = ("meta-refs", "doc-P", "driver")


def ref_specs():
  import schema
  out = []
  for a in schema.schema_create_actions():
    for c in a.columns:
      t = c["type"]
      if t.startswith("Ref:"):
        out.append([a.table_id, c["id"], t[4:], False])
      elif t.startswith("RefList:"):
        out.append([a.table_id, c["id"], t[8:], True])
  return out


def twin(doc, specs):
  """The four clauses on the real engine's tables. Returns dict clause -> (bool, detail)."""
  snap = {}
  def table(t):
    if t not in snap:
      td = doc.engine.fetch_table(t, formulas=True)
      snap[t] = (list(td.row_ids), td.columns)
    return snap[t]
  res = {"refs": (True, ""), "fields": (True, ""), "tables": (True, ""), "helpers": (True, "")}
  for (t, c, tg, is_list) in specs:
    if t not in doc.engine.tables or tg not in doc.engine.tables:
      continue
    rows, cols = table(t)
    trows = set(table(tg)[0])
    if c not in cols:
      continue
    for r, v in zip(rows, cols[c]):
      if is_list:
        ids = list(v) if isinstance(v, (list, tuple)) else ([] if v is None else None)
        if ids is None or not all(isinstance(x, int) and not isinstance(x, bool) for x in ids):
          continue
      else:
        if isinstance(v, bool) or not isinstance(v, int):
          continue
        ids = [v] if v > 0 else []
      for k in ids:
        if k not in trows and res["refs"][0]:
          res["refs"] = (False, "%s[%s].%s -> %s[%s] does not exist" % (t, r, c, tg, k))
  frows, fcols = table("_grist_Views_section_field")
  srows, scols = table("_grist_Views_section")
  crows, ccols = table("_grist_Tables_column")
  sec_table = dict(zip(srows, scols["tableRef"]))
  col_parent = dict(zip(crows, ccols["parentId"]))
  for f, s, c in zip(frows, fcols["parentId"], fcols["colRef"]):
    if s and s in sec_table and not c:
      # a field of an existing section that shows NO column (its column went away and the field stayed behind)
      res["fields"] = (False, "field %s of section %s has colRef=%r: it points at no column" % (f, s, c))
      break
    if s and c and s in sec_table and c in col_parent and col_parent[c] != sec_table[s]:
      res["fields"] = (False, "field %s: column %s belongs to table %s, section %s shows table %s" % (
        f, c, col_parent[c], s, sec_table[s]))
      break
  trows_, tcols = table("_grist_Tables")
  for tid in doc.user_tables():
    recs = [i for i, x in enumerate(tcols["tableId"]) if x == tid]
    if len(recs) != 1:
      res["tables"] = (False, "user table %s has %d metadata records" % (tid, len(recs))); break
    if not tcols["rawViewSectionRef"][recs[0]]:
      res["tables"] = (False, "user table %s has no raw view section" % tid); break
  def list_has(cols, name, k):
    return any(isinstance(v, (list, tuple)) and k in v for v in cols.get(name, []))
  for h, cid in zip(crows, ccols["colId"]):
    if cid.startswith("gristHelper_Display"):
      if h not in ccols["displayCol"] and h not in fcols["displayCol"]:
        res["helpers"] = (False, "display helper column %s (#%s) has no user" % (cid, h)); break
    elif cid.startswith("gristHelper_ConditionalRule") or cid.startswith("gristHelper_RowConditionalRule"):
      if not (list_has(ccols, "rules", h) or list_has(fcols, "rules", h) or list_has(scols, "rules", h)):
        res["helpers"] = (False, "rule helper column %s (#%s) has no user" % (cid, h)); break
  return res


def setup_cascade(h):
  """Set-up bundles (each sees the document left by the previous one) for a chain of automatic removals:
  a summary table with one widget, a reference column pointing into it shown through a display helper
  column, a filter on the widget; then (half of the time here, otherwise left to the generated part)
  the widget or its page is removed: the summary table goes, the reference column is converted, and
  only then do the helper column and the filter lose their user."""
  from gx.gen_hist import World
  rng, gen = h.rng, h.gen
  w = World(h.doc)
  ts = w.user_tables()
  if not ts:
    return
  t = rng.choice(ts)
  cands = [c for c in w.data_cols(t) if c["type"].split(":")[0] in ("Int", "Text", "Choice", "Bool", "Numeric")]
  gb = [c["ref"] for c in rng.sample(cands, min(len(cands), rng.choice([0, 1, 1, 2])))]
  yield [["CreateViewSection", t["ref"], 0, "record", gb, None]]
  w = World(h.doc)
  sums = w.user_tables(summary=True)
  if not sums:
    return
  st = sums[-1]
  secs = [x for x in w.sections if x.get("tableRef") == st["ref"] and x.get("parentId")]
  k = rng.randint(1, 4)
  cols = w.data_cols(t)
  yield [["BulkAddRecord", t["tableId"], [None] * k,
          {c["colId"]: [gen.value_for(w, c, allow_bad=False) for _ in range(k)] for c in cols}]]
  src = rng.choice(w.user_tables())
  name = gen.new_name()
  yield [["AddColumn", src["tableId"], name, {"type": "Ref:%s" % st["tableId"], "isFormula": False}]]
  w = World(h.doc)
  col = [c for c in w.tables[src["tableId"]]["cols"] if c["colId"] == name]
  st = w.tables.get(st["tableId"])
  vcs = [c for c in (w.visible_cols(st) if st else []) if c["colId"] != "group"]
  if col and vcs:
    vc = rng.choice(vcs)
    acts = [["SetDisplayFormula", src["tableId"], None, col[0]["ref"], "$%s.%s" % (name, vc["colId"])]]
    if rng.random() < 0.7:
      acts.insert(0, ["UpdateRecord", "_grist_Tables_column", col[0]["ref"], {"visibleCol": vc["ref"]}])
    yield acts
    if src["rows"] and st["rows"]:
      yield [["BulkUpdateRecord", src["tableId"], list(src["rows"]), {name: [rng.choice(st["rows"]) for _ in src["rows"]]}]]
  if secs and vcs and rng.random() < 0.6:
    yield [["AddRecord", "_grist_Filters", None, {"viewSectionRef": secs[0]["id"], "colRef": rng.choice(vcs)["ref"],
                                                  "filter": json.dumps({"excluded": []})}]]
  if secs and rng.random() < 0.5:
    sec = secs[0]
    pages = [p for p in w.pages if p.get("viewRef") == sec["parentId"]]
    if pages and rng.random() < 0.4:
      yield [["RemoveRecord", "_grist_Pages", pages[0]["id"]]]
    elif rng.random() < 0.5:
      yield [["RemoveView", sec["parentId"]]]
    else:
      yield [["RemoveViewSection", sec["id"]]]


def setup_hidden_groupby(h):
  """A summary widget grouped by two columns, one of whose group-by fields is hidden; then that source column is
  removed (the summary table must be re-pointed / replaced for EVERY widget showing it) and columns are added
  to whatever summary tables remain."""
  from gx.gen_hist import World
  rng, gen = h.rng, h.gen
  w = World(h.doc)
  ts = [t for t in w.user_tables()]
  if not ts:
    return
  t = rng.choice(ts)
  cands = [c for c in w.data_cols(t) if c["type"].split(":")[0] in ("Int", "Text", "Choice", "Bool", "Numeric")]
  if len(cands) < 2:
    return
  gbc = rng.sample(cands, 2)
  yield [["CreateViewSection", t["ref"], 0, "record", [c["ref"] for c in gbc], None]]
  if rng.random() < 0.4:
    yield [["CreateViewSection", t["ref"], 0, "record", [gbc[0]["ref"]], None]]
  k = rng.randint(1, 4)
  w = World(h.doc)
  yield [["BulkAddRecord", t["tableId"], [None] * k,
          {c["colId"]: [gen.value_for(w, c, allow_bad=False) for _ in range(k)] for c in w.data_cols(w.tables[t["tableId"]])}]]
  victim = rng.choice(gbc)
  w = World(h.doc)
  widgets = set(s_["id"] for s_ in w.sections if s_.get("parentId"))
  mine = [f for f in w.fields if f.get("parentId") in widgets and
          w.cols_by_ref.get(f["colRef"], {}).get("summarySourceCol") == victim["ref"]]
  if mine and rng.random() < 0.8:
    yield [["RemoveRecord", "_grist_Views_section_field", rng.choice(mine)["id"]]]
  else:
    ua = gen.g_hide_field(w)
    if ua:
      yield [ua]
  yield [["RemoveColumn", t["tableId"], victim["colId"]]]
  w = World(h.doc)
  for st in w.user_tables(summary=True):
    if rng.random() < 0.8:
      yield [["AddColumn", st["tableId"], gen.new_name(), {"type": "Any", "isFormula": True, "formula": "len($group)"}]]


def install(h, cfg):
  specs = ref_specs()
  r = h.rng.random()
  if r < 0.3:
    h.setup = setup_cascade
  elif r < 0.65:
    h.setup = setup_hidden_groupby
  h.extra_oracles.append(lambda hh, rec: oracle(hh, rec, specs))
  if h.tie is not None:
    def extra(doc, res):
      tw = twin(doc, specs)
      def chk(ans, tw=tw):
        if "error" in ans:
          return [("driver", ans["error"])]
        out = []
        for k in ("refs", "fields", "tables", "helpers"):
          if ans[k] != tw[k][0]:
            out.append(("meta-refs", "clause %s: model %s, engine twin %s (%s) dangling=%r" % (
              k, ans[k], tw[k][0], tw[k][1], ans.get("dangling"))))
        return out
      return [({"m": "engine", "op": "meta_refs", "sid": "P", "specs": specs}, chk)]
    h.tie.extra = [extra]


def oracle(h, rec, specs):
  tw = twin(h.doc, specs)
  for k, (ok, detail) in tw.items():
    if not ok:
      acts = "+".join(sorted(set(a[0] for a in rec["actions"])))
      what = detail.split("[")[0] + "." + detail.split("].")[1].split(" ")[0] if k == "refs" and "]." in detail else k
      h._find(PROP, "%s clause violated (%s) after %s" % (k, what, acts), detail, rec)
  kinds = set(rec["kinds"])
  if kinds & {"remove_table", "remove_column", "remove_view_stuff", "detach_summary", "update_summary", "undo_earlier",
               "remove_summary_widget"}:
    rec["nontrivial"] = True


def run(ck):
  ck.rule = ("removal-heavy seeded histories over tables, columns, views, sections, fields, pages, summary tables, display "
             "and rule helper columns, two-way references; the predicate is evaluated after every successful bundle; "
             "non-trivial = bundle containing a removal / regrouping / undo; distinct by user actions")
  ck.assumptions = ["reference columns = every Ref:/RefList: column of schema.schema_create_actions() of the current tree",
                    "wrong-typed cells in reference columns are ignored (as the engine's relations ignore them)",
                    "raw writes of arbitrary ids into metadata reference columns are outside the quantifier (not generated)"]
  ck.lean(["GristProps.C09"])
  merged = _hist.run_histories(ck, CFG, n_quick=24, n_thorough=1500)
  _hist.report(ck, merged, PROP, TIE_KINDS)


def replay(ck, rp):
  ck.lean(["GristProps.C09"])
  import random
  from gx import common
  common.setup_repo_path()
  from gx.hist_run import HistoryRun
  r = rp["replay"]
  hist, idx = r["history"], r.get("bundle_index", len(r["history"]) - 1)
  h = HistoryRun(random.Random(0), n_bundles=0, oracles=())
  install(h, CFG)
  for b in hist[:idx]:
    h._raw(b)
  h.apply(hist[idx], ["replay"])
  for f in h.findings:
    print("replay finding:", f[0], f[1], f[2][:300])
    if f[0] == PROP:
      ck.violation(f[1], f[2], {"history": hist, "bundle_index": idx})
  if not h.findings:
    print("replay: property holds on this history")
  ck.evaluated(); ck.nontrivial_case("replay"); ck.nontrivial_case("replay2")
