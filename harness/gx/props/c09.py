"""
C09  Metadata references always resolve.

Theorems: GristProps/C09.lean about GristModel/MetaRefs.lean: the decidable predicate
`metaRefsResolve` (every Ref/RefList cell of every metadata reference column points at existing
rows; a field's column belongs to its section's table; every user table has exactly one
_grist_Tables record with a raw view section; display/rule helper columns are still used) and the
shared clean-up mechanism of doBulkRemoveRecord (`cleanupUpdates` then removal preserves
resolution; additions of resolving records and neutral updates preserve it).
Tie: after every bundle the Lean predicate is evaluated by the driver on the replica document
(fed only the stored actions) and must agree, clause by clause, with the Python twin evaluated on
the real engine's tables.
Search: the Python twin on the engine after every successful bundle of removal-heavy histories.
Interpretation (DESIGN App. B): histories use the structural user actions and record actions on
user tables; raw writes of arbitrary reference ids into _grist_* tables are not generated.
The reference columns are read from the CURRENT schema.py on every run.
"""
from gx.props import _hist

PROP = "C09"
PROFILE = {"remove_table": 4, "remove_column": 7, "remove_view_stuff": 6, "summary": 5, "update_summary": 2,
           "detach_summary": 1, "display_formula": 4, "add_rule": 4, "add_ref_column": 4, "reverse_column": 2,
           "rename_column": 3, "rename_table": 2, "duplicate_table": 1.5, "add_table": 4, "add_column": 5,
           "add_formula_column": 4, "modify_type": 3, "undo_earlier": 3, "malformed": 2, "add_record": 6,
           "update_record": 6, "remove_record": 4}
CFG = {"oracles": ("replica",), "n_bundles": 14, "profile": PROFILE, "hook": "gx.props.c09.install"}
TIE_KINDS = ("meta-refs", "doc-P", "driver")


def ref_specs():
  import schema
  out = []
  for a in schema.schema_create_actions():
    for c in a.columns:
      t = c["type"]
      if t.startswith("Ref:"):
        out.append([a.table_id, c["id"], t[4:], False])
      elif t.startswith("RefList:"):
        out.append([a.table_id, c["id"], t[8:], True])
  return out


def twin(doc, specs):
  """The four clauses on the real engine's tables. Returns dict clause -> (bool, detail)."""
  snap = {}
  def table(t):
    if t not in snap:
      td = doc.engine.fetch_table(t, formulas=True)
      snap[t] = (list(td.row_ids), td.columns)
    return snap[t]
  res = {"refs": (True, ""), "fields": (True, ""), "tables": (True, ""), "helpers": (True, "")}
  for (t, c, tg, is_list) in specs:
    if t not in doc.engine.tables or tg not in doc.engine.tables:
      continue
    rows, cols = table(t)
    trows = set(table(tg)[0])
    if c not in cols:
      continue
    for r, v in zip(rows, cols[c]):
      if is_list:
        ids = list(v) if isinstance(v, (list, tuple)) else ([] if v is None else None)
        if ids is None or not all(isinstance(x, int) and not isinstance(x, bool) for x in ids):
          continue
      else:
        if isinstance(v, bool) or not isinstance(v, int):
          continue
        ids = [v] if v > 0 else []
      for k in ids:
        if k not in trows and res["refs"][0]:
          res["refs"] = (False, "%s[%s].%s -> %s[%s] does not exist" % (t, r, c, tg, k))
  frows, fcols = table("_grist_Views_section_field")
  srows, scols = table("_grist_Views_section")
  crows, ccols = table("_grist_Tables_column")
  sec_table = dict(zip(srows, scols["tableRef"]))
  col_parent = dict(zip(crows, ccols["parentId"]))
  for f, s, c in zip(frows, fcols["parentId"], fcols["colRef"]):
    if s and c and s in sec_table and c in col_parent and col_parent[c] != sec_table[s]:
      res["fields"] = (False, "field %s: column %s belongs to table %s, section %s shows table %s" % (
        f, c, col_parent[c], s, sec_table[s]))
      break
  trows_, tcols = table("_grist_Tables")
  for tid in doc.user_tables():
    recs = [i for i, x in enumerate(tcols["tableId"]) if x == tid]
    if len(recs) != 1:
      res["tables"] = (False, "user table %s has %d metadata records" % (tid, len(recs))); break
    if not tcols["rawViewSectionRef"][recs[0]]:
      res["tables"] = (False, "user table %s has no raw view section" % tid); break
  def list_has(cols, name, k):
    return any(isinstance(v, (list, tuple)) and k in v for v in cols.get(name, []))
  for h, cid in zip(crows, ccols["colId"]):
    if cid.startswith("gristHelper_Display"):
      if h not in ccols["displayCol"] and h not in fcols["displayCol"]:
        res["helpers"] = (False, "display helper column %s (#%s) has no user" % (cid, h)); break
    elif cid.startswith("gristHelper_ConditionalRule") or cid.startswith("gristHelper_RowConditionalRule"):
      if not (list_has(ccols, "rules", h) or list_has(fcols, "rules", h) or list_has(scols, "rules", h)):
        res["helpers"] = (False, "rule helper column %s (#%s) has no user" % (cid, h)); break
  return res


def install(h, cfg):
  specs = ref_specs()
  h.extra_oracles.append(lambda hh, rec: oracle(hh, rec, specs))
  if h.tie is not None:
    def extra(doc, res):
      tw = twin(doc, specs)
      def chk(ans, tw=tw):
        if "error" in ans:
          return [("driver", ans["error"])]
        out = []
        for k in ("refs", "fields", "tables", "helpers"):
          if ans[k] != tw[k][0]:
            out.append(("meta-refs", "clause %s: model %s, engine twin %s (%s) dangling=%r" % (
              k, ans[k], tw[k][0], tw[k][1], ans.get("dangling"))))
        return out
      return [({"m": "engine", "op": "meta_refs", "sid": "P", "specs": specs}, chk)]
    h.tie.extra = [extra]


def oracle(h, rec, specs):
  tw = twin(h.doc, specs)
  for k, (ok, detail) in tw.items():
    if not ok:
      acts = "+".join(sorted(set(a[0] for a in rec["actions"])))
      what = detail.split("[")[0] + "." + detail.split("].")[1].split(" ")[0] if k == "refs" and "]." in detail else k
      h._find(PROP, "%s clause violated (%s) after %s" % (k, what, acts), detail, rec)
  kinds = set(rec["kinds"])
  if kinds & {"remove_table", "remove_column", "remove_view_stuff", "detach_summary", "update_summary", "undo_earlier"}:
    rec["nontrivial"] = True


def run(ck):
  ck.rule = ("removal-heavy seeded histories over tables, columns, views, sections, fields, pages, summary tables, display "
             "and rule helper columns, two-way references; the predicate is evaluated after every successful bundle; "
             "non-trivial = bundle containing a removal / regrouping / undo; distinct by user actions")
  ck.assumptions = ["reference columns = every Ref:/RefList: column of schema.schema_create_actions() of the current tree",
                    "wrong-typed cells in reference columns are ignored (as the engine's relations ignore them)",
                    "raw writes of arbitrary ids into metadata reference columns are outside the quantifier (not generated)"]
  ck.lean(["GristProps.C09"])
  merged = _hist.run_histories(ck, CFG, n_quick=16, n_thorough=1500)
  _hist.report(ck, merged, PROP, TIE_KINDS)


def replay(ck, rp):
  ck.lean(["GristProps.C09"])
  import random
  from gx import common
  common.setup_repo_path()
  from gx.hist_run import HistoryRun
  r = rp["replay"]
  hist, idx = r["history"], r.get("bundle_index", len(r["history"]) - 1)
  h = HistoryRun(random.Random(0), n_bundles=0, oracles=())
  install(h, CFG)
  for b in hist[:idx]:
    h._raw(b)
  h.apply(hist[idx], ["replay"])
  for f in h.findings:
    print("replay finding:", f[0], f[1], f[2][:300])
    if f[0] == PROP:
      ck.violation(f[1], f[2], {"history": hist, "bundle_index": idx})
  if not h.findings:
    print("replay: property holds on this history")
  ck.evaluated(); ck.nontrivial_case("replay"); ck.nontrivial_case("replay2")
