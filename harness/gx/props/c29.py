"""
C29  Read-only calls leave the document untouched.

Theorems: GristProps/C29.lean (get_formula_value_restores = C04's rollback theorem at a checkpoint
taken anywhere; no_side_effects_noop) on the EngineModel.
Tie: the undo-to-checkpoint step word emitted while the read-only call runs (the recorder sees the
side-effect doc actions and the rollback) is replayed through the model like any bundle: it must
end with unchanged lists and an unchanged document (done through the shared Tie on the Calculate
bundle that follows every probe).
Search (the property itself): on documents with summary tables and formulas with side effects
(lookupOrAddDerived), call fetch_table, fetch_meta_tables, get_formula_error, evaluate_formula,
get_formula_prompt, autocomplete, find_col_from_values with generated arguments; afterwards every
table equals the snapshot taken before and a following Calculate emits no changes.
Partial: rlcompleter / formula_prompt introspection is not modelled (searched only).
"""
import json
import random

from gx.props import _hist

PROP = "C29"
PROFILE = {"summary": 5, "add_formula_column": 8, "add_ref_column": 3, "side_effect_formula": 8, "add_record": 12,
           "update_record": 10, "remove_record": 5, "rename_column": 2, "modify_type": 2, "malformed": 1,
           "undo_earlier": 1}
CFG = {"oracles": (), "n_bundles": 10, "profile": PROFILE, "hook": "gx.props.c29.install", "tie": False}


def g_side_effect_formula(self, w):
  """A user formula with a side effect: lookupOrAddDerived adds a record to another table."""
  ts = w.user_tables()
  if len(ts) < 2:
    return None
  t, t2 = self.rng.sample(ts, 2)
  c1 = [c for c in w.data_cols(t) if c["type"] in ("Int", "Text", "Choice")]
  c2 = [c for c in w.data_cols(t2) if c["type"] in ("Int", "Text", "Choice")]
  if not c1 or not c2:
    return None
  a, b = self.rng.choice(c1), self.rng.choice(c2)
  nums = [c for c in w.data_cols(t) if c["type"] in ("Int", "Numeric")]
  if nums and self.rng.random() < 0.5:
    # a trigger formula that RAISES for some rows (division by a cell that is often 0) and is not re-run when
    # its input is edited later: the stored cell keeps the old error while a fresh evaluation succeeds
    x = self.rng.choice(nums)["colId"]
    return ["AddColumn", t["tableId"], self.new_name(),
            {"type": "Any", "isFormula": False, "formula": "10 / $%s + 1 / ($%s - 1)" % (x, x), "recalcWhen": 0}]
  f = "%s.lookupOrAddDerived(%s=$%s).id" % (t2["tableId"], b["colId"], a["colId"])
  if self.rng.random() < 0.5:
    # trigger formula: evaluated for new records only, so after $a is edited the derived record is
    # missing and a read-only evaluation of the cell really performs (and must revert) the addition
    return ["AddColumn", t["tableId"], self.new_name(), {"type": "Any", "isFormula": False, "formula": f, "recalcWhen": 0}]
  return ["AddColumn", t["tableId"], self.new_name(), {"type": "Any", "isFormula": True, "formula": f}]


def setup_left_over_errors(h):
  """Set-up bundles: a data column with a trigger formula that raises for some new records; then the inputs of
  some of those records are edited (the trigger does not run again), so their cells hold errors 'left over
  from before' while a fresh evaluation of the formula succeeds."""
  from gx.gen_hist import World
  rng, gen = h.rng, h.gen
  w = World(h.doc)
  ts = w.user_tables()
  if not ts:
    return
  t = rng.choice(ts)
  nums = [c for c in w.data_cols(t) if c["type"] in ("Int", "Numeric")]
  if not nums:
    name = gen.new_name()
    yield [["AddColumn", t["tableId"], name, {"type": "Int", "isFormula": False}]]
    x = name
  else:
    x = rng.choice(nums)["colId"]
  f = gen.new_name()
  yield [["AddColumn", t["tableId"], f, {"type": rng.choice(["Any", "Numeric", "Text"]), "isFormula": False,
                                          "formula": "10 / $%s + 1 / ($%s - 1)" % (x, x), "recalcWhen": 0}]]
  k = rng.randint(3, 5)
  yield [["BulkAddRecord", t["tableId"], [None] * k, {x: [rng.choice([0, 1, 0, 5]) for _ in range(k)]}]]
  w = World(h.doc)
  rows = w.tables[t["tableId"]]["rows"][-k:]
  for r in rng.sample(rows, min(len(rows), rng.randint(1, 3))):
    yield [["UpdateRecord", t["tableId"], r, {x: rng.choice([5, 7, 0, 1])}]]


def install(h, cfg):
  if h.rng.random() < 0.4:
    h.setup = setup_left_over_errors
  from gx.gen_hist import Gen
  Gen.g_side_effect_formula = g_side_effect_formula     # gen_hist.py only has a stub
  h.extra_oracles.append(probe)


_reverts = [0]


def _count_reverts():
  """Count read-only evaluations whose side effects were really reverted (non-vacuity of the probe)."""
  import engine as engine_mod
  E = engine_mod.Engine
  if getattr(E, "_c29_counted", False):
    return
  orig = E._undo_to_checkpoint

  def _undo_to_checkpoint(self, checkpoint):
    if self._get_undo_checkpoint() != checkpoint:
      _reverts[0] += 1
    return orig(self, checkpoint)
  E._undo_to_checkpoint = _undo_to_checkpoint
  E._c29_counted = True


def full_encoding(doc):
  """Every cell of every table exactly as it is sent to Node (objtypes.encode_object), error messages and
  details included - the canonical snapshot keeps only the error class."""
  import objtypes
  out = {}
  for tid in doc.table_ids():
    td = doc.engine.fetch_table(tid, formulas=True)
    out[tid] = json.dumps([list(td.row_ids), {c: [objtypes.encode_object(v) for v in vals] for c, vals in td.columns.items()}],
                          sort_keys=True, default=repr)
  return out


def probe(h, rec):
  _count_reverts()
  reverts0 = _reverts[0]
  full0 = full_encoding(h.doc)
  from gx import engine_driver as ed
  from gx.gen_hist import World
  import formula_prompt
  doc, eng, rng = h.doc, h.doc.engine, h.rng
  w = World(doc)
  calls = []
  tables = list(w.tables.values())
  if not tables:
    return
  import objtypes
  errcells = []
  for t in tables:
    tab = eng.tables.get(t["tableId"])
    for c in w.visible_cols(t):
      if c["formula"] and tab is not None and tab.has_column(c["colId"]):
        col = tab.get_column(c["colId"])
        errcells += [(t["tableId"], c["colId"], r) for r in t["rows"] if isinstance(col.raw_get(r), objtypes.RaisedException)]
  h.stats["probe_error_cells"] = h.stats.get("probe_error_cells", 0) + len(errcells)
  for _ in range(6):
    t = rng.choice(tables)
    tid = t["tableId"]
    cols = w.visible_cols(t)
    kind = rng.choice(["fetch_table", "fetch_query", "fetch_meta", "formula_error", "evaluate", "prompt",
                       "autocomplete", "find_col", "formula_error", "evaluate"])
    row = rng.choice(t["rows"] + [t["rows"][-1] + 1 if t["rows"] else 1, 0]) if True else 0
    fcols = [c for c in cols if c["formula"]]
    secols = [c for c in fcols if "lookupOrAddDerived" in c["formula"]]
    try:
      if kind == "fetch_table":
        calls.append(kind); eng.fetch_table(tid, formulas=rng.random() < 0.7)
      elif kind == "fetch_query" and cols:
        c = rng.choice(cols)
        calls.append(kind); eng.fetch_table(tid, query={c["colId"]: [1, "x", None, [1], rng.randint(0, 5)]})
      elif kind == "fetch_meta":
        calls.append(kind); eng.fetch_meta_tables(formulas=rng.random() < 0.5)
      elif kind == "formula_error" and errcells and rng.random() < 0.6:
        # a cell that HOLDS an error (e.g. left over by a trigger formula that has not run since)
        (etid, ecol, erow) = rng.choice(errcells)
        calls.append("%s %s.%s[%s]" % (kind, etid, ecol, erow)); eng.get_formula_error(etid, ecol, erow)
      elif kind == "formula_error" and fcols:
        c = rng.choice(secols if secols and rng.random() < 0.6 else fcols)
        calls.append("%s %s.%s[%s]" % (kind, tid, c["colId"], row)); eng.get_formula_error(tid, c["colId"], row)
      elif kind == "evaluate" and fcols:
        c = rng.choice(secols if secols and rng.random() < 0.6 else fcols)
        calls.append("%s %s.%s[%s]" % (kind, tid, c["colId"], row)); formula_prompt.evaluate_formula(eng, tid, c["colId"], row)
      elif kind == "prompt" and cols:
        c = rng.choice(cols)
        calls.append(kind); formula_prompt.get_formula_prompt(eng, tid, c["colId"], rng.random() < 0.5, rng.random() < 0.5)
      elif kind == "autocomplete" and cols:
        c = rng.choice(cols)
        txt = rng.choice(["$", "rec.", tid + ".", "$" + c["colId"][:1], tid + ".lookupRecords(", "$" + c["colId"] + ".", "su", ""])
        calls.append("autocomplete %r" % txt); eng.autocomplete(txt, tid, c["colId"], row, {})
      elif kind == "find_col":
        calls.append(kind); eng.find_col_from_values((1, "x", 2.5, "a"), 3, rng.choice([None, tid]))
    except Exception as e:
      # the property is about the document, not about the call succeeding
      h.stats["probe_exceptions"] = h.stats.get("probe_exceptions", 0) + 1
  h.stats["probes"] = h.stats.get("probes", 0) + len(calls)
  h.stats["probe_reverts"] = h.stats.get("probe_reverts", 0) + (_reverts[0] - reverts0)
  after = doc.snapshot()
  d = ed.diff_snapshots(rec["after"], after)
  if d:
    what = "formula evaluation with a side effect" if any(c.startswith(("formula_error", "evaluate")) for c in calls) else "read-only call"
    h._find(PROP, "tables changed by a %s (%s differs)" % (what, d[0].split(" ")[0]), "; ".join(d[:3]) + " after " + "; ".join(calls), rec,
            {"calls": calls})
  if not d:
    full1 = full_encoding(doc)
    chg = sorted(t for t in full0 if full0[t] != full1.get(t))
    if chg:
      h._find(PROP, "encoded cells changed by a read-only call although the canonical values are equal (error message / details)",
              "tables %r after %s" % (chg, "; ".join(calls)), rec, {"calls": calls})
  c = h._raw([["Calculate"]])
  if not c.ok:
    h._find(PROP, "Calculate fails after read-only calls: " + c.error[0], c.error[1], rec, {"calls": calls})
  elif c.stored:
    h._find(PROP, "Calculate emits changes after read-only calls", json.dumps(c.stored[:2])[:300] + " after " + "; ".join(calls), rec,
            {"calls": calls})
  if any(s.startswith(("formula_error", "evaluate")) for s in calls):
    rec["nontrivial"] = True


def run(ck):
  ck.rule = ("seeded histories on documents with summary tables and side-effecting formulas; after every successful bundle "
             "6 read-only calls with generated arguments (incl. rows that do not exist, row 0); non-trivial = probe batch "
             "containing a formula evaluation (get_formula_error / evaluate_formula); distinct by user actions")
  ck.assumptions = ["calls are made in-process on the Engine / formula_prompt functions that main.py exports",
                    "a call may raise; only its effect on the document is judged"]
  ck.lean(["GristProps.C29"])
  merged = _hist.run_histories(ck, CFG, n_quick=14, n_thorough=1000)
  ck.extra["read_only_calls"] = merged["stats"].get("probes", 0)
  ck.extra["calls_that_raised"] = merged["stats"].get("probe_exceptions", 0)
  ck.extra["calls_whose_side_effects_were_reverted"] = merged["stats"].get("probe_reverts", 0)
  _hist.report(ck, merged, PROP, ())


def replay(ck, rp):
  ck.lean(["GristProps.C29"])
  from gx import common
  common.setup_repo_path()
  from gx.hist_run import HistoryRun
  r = rp["replay"]
  hist, idx = r["history"], r.get("bundle_index", len(r["history"]) - 1)
  found = False
  for attempt in range(20):
    h = HistoryRun(random.Random(attempt), n_bundles=0, oracles=())
    install(h, CFG)
    for b in hist[:idx]:
      h._raw(b)
    h.apply(hist[idx], ["replay"])
    if h.findings:
      for f in h.findings:
        print("replay finding:", f[0], f[1], f[2][:300])
        if f[0] == PROP:
          ck.violation(f[1], f[2], {"history": hist, "bundle_index": idx})
      found = True
      break
  if not found:
    print("replay: property holds on this history (20 probe batches)")
  ck.evaluated(); ck.nontrivial_case("replay"); ck.nontrivial_case("replay2")
