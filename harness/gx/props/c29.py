"""
C29  Read-only calls leave the document untouched.

Theorems: GristProps/C29.lean (get_formula_value_restores = C04's rollback theorem at a checkpoint
taken anywhere; no_side_effects_noop) on the EngineModel.
Tie: the undo-to-checkpoint step word emitted while the read-only call runs (the recorder sees the
side-effect doc actions and the rollback) is replayed through the model like any bundle: it must
end with unchanged lists and an unchanged document (done through the shared Tie on the Calculate
bundle that follows every probe).
Search (the property itself): on documents with summary tables and formulas with side effects
(lookupOrAddDerived), call fetch_table, fetch_meta_tables, get_formula_error, evaluate_formula,
get_formula_prompt, autocomplete, find_col_from_values with generated arguments; afterwards every
table equals the snapshot taken before and a following Calculate emits no changes.
Partial: rlcompleter / formula_prompt introspection is not modelled (searched only).
"""
import json
import random

from gx.props import _hist

PROP = "C29"
PROFILE = {"summary": 5, "add_formula_column": 8, "add_ref_column": 3, "side_effect_formula": 4, "add_record": 12,
           "update_record": 10, "remove_record": 5, "rename_column": 2, "modify_type": 2, "malformed": 1,
           "undo_earlier": 1}
CFG = {"oracles": (), "n_bundles": 10, "profile": PROFILE, "hook": "gx.props.c29.install", "tie": False}


def g_side_effect_formula(self, w):
  """A user formula with a side effect: lookupOrAddDerived adds a record to another table."""
  ts = w.user_tables()
  if len(ts) < 2:
    return None
  t, t2 = self.rng.sample(ts, 2)
  c1 = [c for c in w.data_cols(t) if c["type"] in ("Int", "Text", "Choice")]
  c2 = [c for c in w.data_cols(t2) if c["type"] in ("Int", "Text", "Choice")]
  if not c1 or not c2:
    return None
  a, b = self.rng.choice(c1), self.rng.choice(c2)
  f = "%s.lookupOrAddDerived(%s=$%s).id" % (t2["tableId"], b["colId"], a["colId"])
  if self.rng.random() < 0.5:
    # trigger formula: evaluated for new records only, so after $a is edited the derived record is
    # missing and a read-only evaluation of the cell really performs (and must revert) the addition
    return ["AddColumn", t["tableId"], self.new_name(), {"type": "Any", "isFormula": False, "formula": f, "recalcWhen": 0}]
  return ["AddColumn", t["tableId"], self.new_name(), {"type": "Any", "isFormula": True, "formula": f}]


def install(h, cfg):
  from gx.gen_hist import Gen
  Gen.g_side_effect_formula = g_side_effect_formula     # gen_hist.py only has a stub
  h.extra_oracles.append(probe)


_reverts = [0]


def _count_reverts():
  """Count read-only evaluations whose side effects were really reverted (non-vacuity of the probe)."""
  import engine as engine_mod
  E = engine_mod.Engine
  if getattr(E, "_c29_counted", False):
    return
  orig = E._undo_to_checkpoint

  def _undo_to_checkpoint(self, checkpoint):
    if self._get_undo_checkpoint() != checkpoint:
      _reverts[0] += 1
    return orig(self, checkpoint)
  E._undo_to_checkpoint = _undo_to_checkpoint
  E._c29_counted = True


def probe(h, rec):
  _count_reverts()
  reverts0 = _reverts[0]
  from gx import engine_driver as ed
  from gx.gen_hist import World
  import formula_prompt
  doc, eng, rng = h.doc, h.doc.engine, h.rng
  w = World(doc)
  calls = []
  tables = list(w.tables.values())
  if not tables:
    return
  for _ in range(6):
    t = rng.choice(tables)
    tid = t["tableId"]
    cols = w.visible_cols(t)
    kind = rng.choice(["fetch_table", "fetch_query", "fetch_meta", "formula_error", "evaluate", "prompt",
                       "autocomplete", "find_col", "formula_error", "evaluate"])
    row = rng.choice(t["rows"] + [t["rows"][-1] + 1 if t["rows"] else 1, 0]) if True else 0
    fcols = [c for c in cols if c["formula"]]
    secols = [c for c in fcols if "lookupOrAddDerived" in c["formula"]]
    try:
      if kind == "fetch_table":
        calls.append(kind); eng.fetch_table(tid, formulas=rng.random() < 0.7)
      elif kind == "fetch_query" and cols:
        c = rng.choice(cols)
        calls.append(kind); eng.fetch_table(tid, query={c["colId"]: [1, "x", None, [1], rng.randint(0, 5)]})
      elif kind == "fetch_meta":
        calls.append(kind); eng.fetch_meta_tables(formulas=rng.random() < 0.5)
      elif kind == "formula_error" and fcols:
        c = rng.choice(secols if secols and rng.random() < 0.6 else fcols)
        calls.append("%s %s.%s[%s]" % (kind, tid, c["colId"], row)); eng.get_formula_error(tid, c["colId"], row)
      elif kind == "evaluate" and fcols:
        c = rng.choice(secols if secols and rng.random() < 0.6 else fcols)
        calls.append("%s %s.%s[%s]" % (kind, tid, c["colId"], row)); formula_prompt.evaluate_formula(eng, tid, c["colId"], row)
      elif kind == "prompt" and cols:
        c = rng.choice(cols)
        calls.append(kind); formula_prompt.get_formula_prompt(eng, tid, c["colId"], rng.random() < 0.5, rng.random() < 0.5)
      elif kind == "autocomplete" and cols:
        c = rng.choice(cols)
        txt = rng.choice(["$", "rec.", tid + ".", "$" + c["colId"][:1], tid + ".lookupRecords(", "$" + c["colId"] + ".", "su", ""])
        calls.append("autocomplete %r" % txt); eng.autocomplete(txt, tid, c["colId"], row, {})
      elif kind == "find_col":
        calls.append(kind); eng.find_col_from_values((1, "x", 2.5, "a"), 3, rng.choice([None, tid]))
    except Exception as e:
      # the property is about the document, not about the call succeeding
      h.stats["probe_exceptions"] = h.stats.get("probe_exceptions", 0) + 1
  h.stats["probes"] = h.stats.get("probes", 0) + len(calls)
  h.stats["probe_reverts"] = h.stats.get("probe_reverts", 0) + (_reverts[0] - reverts0)
  after = doc.snapshot()
  d = ed.diff_snapshots(rec["after"], after)
  if d:
    what = "formula evaluation with a side effect" if any(c.startswith(("formula_error", "evaluate")) for c in calls) else "read-only call"
    h._find(PROP, "tables changed by a %s (%s differs)" % (what, d[0].split(" ")[0]), "; ".join(d[:3]) + " after " + "; ".join(calls), rec,
            {"calls": calls})
  c = h._raw([["Calculate"]])
  if not c.ok:
    h._find(PROP, "Calculate fails after read-only calls: " + c.error[0], c.error[1], rec, {"calls": calls})
  elif c.stored:
    h._find(PROP, "Calculate emits changes after read-only calls", json.dumps(c.stored[:2])[:300] + " after " + "; ".join(calls), rec,
            {"calls": calls})
  if any(s.startswith(("formula_error", "evaluate")) for s in calls):
    rec["nontrivial"] = True


def run(ck):
  ck.rule = ("seeded histories on documents with summary tables and side-effecting formulas; after every successful bundle "
             "6 read-only calls with generated arguments (incl. rows that do not exist, row 0); non-trivial = probe batch "
             "containing a formula evaluation (get_formula_error / evaluate_formula); distinct by user actions")
  ck.assumptions = ["calls are made in-process on the Engine / formula_prompt functions that main.py exports",
                    "a call may raise; only its effect on the document is judged"]
  ck.lean(["GristProps.C29"])
  merged = _hist.run_histories(ck, CFG, n_quick=14, n_thorough=1000)
  ck.extra["read_only_calls"] = merged["stats"].get("probes", 0)
  ck.extra["calls_that_raised"] = merged["stats"].get("probe_exceptions", 0)
  ck.extra["calls_whose_side_effects_were_reverted"] = merged["stats"].get("probe_reverts", 0)
  _hist.report(ck, merged, PROP, ())


def replay(ck, rp):
  ck.lean(["GristProps.C29"])
  from gx import common
  common.setup_repo_path()
  from gx.hist_run import HistoryRun
  r = rp["replay"]
  hist, idx = r["history"], r.get("bundle_index", len(r["history"]) - 1)
  found = False
  for attempt in range(20):
    h = HistoryRun(random.Random(attempt), n_bundles=0, oracles=())
    install(h, CFG)
    for b in hist[:idx]:
      h._raw(b)
    h.apply(hist[idx], ["replay"])
    if h.findings:
      for f in h.findings:
        print("replay finding:", f[0], f[1], f[2][:300])
        if f[0] == PROP:
          ck.violation(f[1], f[2], {"history": hist, "bundle_index": idx})
      found = True
      break
  if not found:
    print("replay: property holds on this history (20 probe batches)")
  ck.evaluated(); ck.nontrivial_case("replay"); ck.nontrivial_case("replay2")
