"""
C18  Circular references terminate and are reported on the cycle.

Theorems: GristProps/C18.lean about GristModel/Recalc.lean (machine: write / eval / circ):
  every run terminates within |dirty| steps, some transition is enabled while a cell is dirty,
  at quiescence every cell on or depending on a cycle holds CircularRefError and every other
  cell its unique value; hence the result does not depend on the schedule.
Tie: exhaustive small dependency graphs (every subset of references per formula column) are built
  in the real engine; the order in which the engine finished cells (eval / cycle branch) must be an
  ACCEPTED run of the Lean machine, and the engine's values must equal the machine's.
Search: independent reachability computation of which cells lie on / depend on a cycle; engine
  must terminate without an internal error, hold CircularRefError exactly there (the property
  demands it for cells that depend on themselves; for cells that merely depend on a cycle the
  property is silent, they are compared with the model only), normal values elsewhere; the
  same after incremental edits that create and break cycles; under several schedules.
Interpretation: formulas are sums of references (strict in errors: no IFERROR / try).
"""
import itertools
import json
import random

from gx import common

MODS = ["GristProps.C18"]


def run(ck):
  common.setup_repo_path()
  from gx import engine_driver as ed
  from gx import recalc_harness as rh
  ck.rule = ("dependency graphs over k formula columns (each references any subset of the k columns and a data "
             "column): k=2 all 64, k=3 all 4096 (quick: 500 sampled), k=4 sampled; 1-2 rows; each under 2 schedules "
             "and followed by incremental edits; non-trivial = graph with at least one cycle AND at least one cell "
             "off every cycle; distinct by (k, deps)")
  ck.assumptions = ["formulas are sums of cell references, strict in errors (no IFERROR/try)",
                    "same-row references only in the exhaustive family (cross-row cycles are in the history-based C05/C06 runs)"]
  ck.lean(MODS)
  rng = ck.rng
  graphs = []
  for k in (1, 2):
    for g in rh.all_graphs(k):
      graphs.append((k, [list(x) for x in g]))
  g3 = [(3, [list(x) for x in g]) for g in rh.all_graphs(3)]
  if ck.tier == "quick":
    graphs += rng.sample(g3, 350)
    n4 = 80
  else:
    graphs += g3
    n4 = 6000
  subsets4 = [[j for j in range(5) if m >> j & 1] for m in range(32)]
  for _ in range(n4):
    graphs.append((4, [list(rng.choice(subsets4)) for _ in range(4)]))

  ops, metas = [], []
  doc = ed.Doc()
  n_in_doc = 0
  tnum = 0
  for (k, deps) in graphs:
    if n_in_doc >= 150:
      doc = ed.Doc(); n_in_doc = 0
    n_in_doc += 1
    tnum += 1
    konst = [rng.randint(1, 3) for _ in range(k)]
    rows = rng.choice([1, 1, 2])
    dvals = [rng.randint(0, 9) for _ in range(rows)]
    tid = "G%d" % tnum
    seed = rng.randint(0, 10 ** 6)
    for perm in (None, seed):
      with rh.Recording(perm_seed=perm, trace=True, reads=True) as rec:
        r1 = doc.apply([["AddTable", tid, rh.graph_columns(k, deps, konst)],
                        ["BulkAddRecord", tid, [None] * rows, {"d": dvals}]])
      ck.evaluated()
      if not r1.ok:
        ck.violation("recalculation raised an internal error: " + r1.error[0], "%s k=%d deps=%r" % (r1.error[1], k, deps),
                     {"k": k, "deps": deps, "konst": konst, "dvals": dvals, "perm": perm})
        break
      check_graph(ck, doc, tid, k, deps, konst, dvals, rec, perm, ops, metas, "initial")
      # incremental edits: change d, then rewire one column (may create or break a cycle)
      with rh.Recording(perm_seed=perm, trace=True, reads=True) as rec2:
        dvals2 = [v + 1 for v in dvals]
        r2 = doc.apply([["BulkUpdateRecord", tid, list(range(1, rows + 1)), {"d": dvals2}]])
      if not r2.ok:
        ck.violation("recalculation raised an internal error: " + r2.error[0], r2.error[1], {"k": k, "deps": deps, "edit": "d"})
        break
      check_graph(ck, doc, tid, k, deps, konst, dvals2, rec2, perm, None, None, "after data edit")
      i = rng.randrange(k)
      deps2 = [list(x) for x in deps]
      deps2[i] = [j for j in range(k + 1) if rng.random() < 0.5]
      with rh.Recording(perm_seed=perm, trace=True, reads=True) as rec3:
        r3 = doc.apply([["ModifyColumn", tid, "c%d" % i, {"formula": rh.graph_columns(k, deps2, konst)[i + 1]["formula"]}]])
      if not r3.ok:
        ck.violation("recalculation raised an internal error: " + r3.error[0], r3.error[1],
                     {"k": k, "deps": deps, "deps2": deps2, "edit": "formula"})
        break
      check_graph(ck, doc, tid, k, deps2, konst, dvals2, rec3, perm, None, None, "after formula edit")
      doc.apply([["RemoveTable", tid]])
      if perm is None:
        tnum += 1
        tid = "G%d" % tnum
  # model side
  answers = ck.driver(ops)
  mism = None
  for (meta, ans) in zip(metas, answers):
    if "error" in ans:
      raise common.Infra("driver: %s" % ans["error"])
    k, rows = meta["k"], meta["rows"]
    model_vals = ans["values"]
    eng = meta["engine_cells"]
    m = ["circ" if v == "circ" else "i%d" % v for v in model_vals]
    e = [("circ" if v == rh.CIRC else v) for v in eng]
    if m != e or not ans["trace"]["accepted"] or ans["trace"].get("dirty_left") or ans["dirty_left"]:
      ck.count("model_impl_disagreements")
      if mism is None:
        mism = {"graph": meta, "model": ans, "engine": e}
  if mism and not ck.has_impl_violation():
    ck.broken("correspondence engine update loop vs Grist.Recalc machine",
              "engine values or finishing order are not an accepted run of the model", mism)


def check_graph(ck, doc, tid, k, deps, konst, dvals, rec, perm, ops, metas, when):
  from gx import recalc_harness as rh
  snap = doc.snapshot(tables=[tid])[tid]
  nontriv = False
  eng_cells = []
  for ri, dv in enumerate(dvals):
    exp, on_cycle, bad = rh.expected_values(k, deps, konst, dv)
    if any(on_cycle) and not all(bad):
      nontriv = True
    for i in range(k):
      got = snap["cols"]["c%d" % i][ri]
      eng_cells.append(got)
      if on_cycle[i] and got != rh.CIRC:
        ck.violation("cell on a cycle does not hold CircularRefError (%s)" % when,
                     "k=%d deps=%r col c%d got %r" % (k, deps, i, got),
                     {"k": k, "deps": deps, "konst": konst, "dvals": dvals, "perm": perm, "when": when})
      elif not bad[i] and got != exp[i]:
        ck.violation("cell off every cycle has a wrong value (%s)" % when,
                     "k=%d deps=%r col c%d got %r expected %r" % (k, deps, i, got, exp[i]),
                     {"k": k, "deps": deps, "konst": konst, "dvals": dvals, "perm": perm, "when": when})
      elif bad[i] and not on_cycle[i] and got != rh.CIRC:
        ck.count("depends_on_cycle_but_not_circ")
    eng_cells.append("i%d" % dv)
  bad_reads = rh.dirty_read_violations(rec.reads)
  if bad_reads:
    ck.violation("an evaluation completed although it read a dirty cell", repr(bad_reads[:2]),
                 {"k": k, "deps": deps, "konst": konst, "dvals": dvals, "perm": perm, "when": when})
  if nontriv:
    ck.nontrivial_case([k, deps])
    ck.sample({"k": k, "deps": deps, "konst": konst, "d": dvals, "engine": eng_cells, "schedule_seed": perm})
  if ops is not None:
    rows = len(dvals)
    n = rows * (k + 1)
    formula, mdeps, mk = [], [], []
    for ri in range(rows):
      base = ri * (k + 1)
      for i in range(k):
        formula.append(True); mdeps.append([base + j for j in deps[i]]); mk.append(konst[i])
      formula.append(False); mdeps.append([]); mk.append(dvals[ri])
    trace = []
    for (kind, t, c, r) in rec.trace:
      if t == tid and c.startswith("c") and c[1:].isdigit():
        trace.append([kind, (r - 1) * (k + 1) + int(c[1:])])
    ops.append({"m": "recalc", "op": "graph", "n": n, "formula": formula, "deps": mdeps, "konst": mk,
                "order": list(range(n)), "trace": trace})
    metas.append({"k": k, "rows": rows, "deps": deps, "konst": konst, "dvals": dvals, "perm": perm,
                  "engine_cells": eng_cells, "trace": trace})


def replay(ck, rp):
  common.setup_repo_path()
  from gx import engine_driver as ed
  from gx import recalc_harness as rh
  ck.lean(MODS)
  r = rp["replay"]
  if "graph" in r:
    r = r["graph"]
  k, deps, konst, dvals = r["k"], r["deps"], r["konst"], r["dvals"]
  doc = ed.Doc()
  with rh.Recording(perm_seed=r.get("perm"), trace=True, reads=True) as rec:
    res = doc.apply([["AddTable", "G", rh.graph_columns(k, deps, konst)],
                     ["BulkAddRecord", "G", [None] * len(dvals), {"d": dvals}]])
  print("replay:", res.ok, res.error, doc.snapshot(tables=["G"])["G"] if res.ok else None)
  if not res.ok:
    ck.violation("recalculation raised an internal error: " + res.error[0], res.error[1], r)
  else:
    check_graph(ck, doc, "G", k, deps, konst, dvals, rec, r.get("perm"), None, None, "replay")
  ck.evaluated(); ck.nontrivial_case("replay"); ck.nontrivial_case("replay2")
