"""
C18  Circular references terminate and are reported on the cycle.

Theorems: GristProps/C18.lean about GristModel/Recalc.lean (machine: write / eval / circ):
  every run terminates within |dirty| steps, some transition is enabled while a cell is dirty,
  at quiescence every cell on or depending on a cycle holds CircularRefError and every other
  cell its unique value; hence the result does not depend on the schedule.
Tie: exhaustive small dependency graphs (every subset of references per formula column) are built
  in the real engine; the order in which the engine finished cells (eval / cycle branch) must be an
  ACCEPTED run of the Lean machine, and the engine's values must equal the machine's.
Search: independent reachability computation of which cells lie on / depend on a cycle; engine
  must terminate without an internal error, hold CircularRefError exactly there (the property
  demands it for cells that depend on themselves; for cells that merely depend on a cycle the
  property is silent, they are compared with the model only), normal values elsewhere; the
  same after incremental edits that create and break cycles; under several schedules.
Interpretation: formulas are sums of references (strict in errors: no IFERROR / try).

Cycles whose cells hold DECODED error values when they are recalculated (second half of the file).
  A live engine stores error cells as objtypes.RaisedException objects that carry the python
  exception (.error).  The same cell value also travels in encoded form (["E", "CircularRefError"])
  in action reprs and in stored documents; decoding gives a RaisedException whose .error is None.
  The recalculation then starts from cells that hold such decoded objects:
    * undo of a record removal  (RemoveRecord / BulkRemoveRecord of rows of a table with circular
      formulas, then ApplyUndoActions of the JSON round trip of the undo: its AddRecord /
      BulkAddRecord carries the formula columns' encoded errors; the re-added rows are recalculated),
    * undo of a table removal   (same, every row, after AddTable),
    * undo of a column removal  (the BulkUpdateRecords of the undo restore the encoded errors of the
      columns that read the removed one; AddColumn recalculates it and its readers),
    * loading a stored document (load_meta_tables / load_table with values decoded the way the
      action-repr (JSON) and the database (marshalled blob) paths decode them, then load_done() or
      the Calculate user action; every formula cell is recalculated).
  Each is followed by a data edit (and for the witnesses and a sample of the others by a formula
  edit) so that readers are evaluated again on top of the restored cells.  The live-engine part
  (build, data edit, formula edit) comes first and is unchanged.
  Direct oracle in these situations (the property's clauses, nothing from the model):
    - no step raises;
    - every cell on a cycle holds CircularRefError, every cell off every cycle its normal value;
    - a cell that merely depends on a cycle and held CircularRefError in the live engine before the
      step still holds it afterwards (a value that a removal+undo or store+load must give back);
    - "holds a CircularRefError value" includes what a reader of the cell gets: for every cell on or
      behind a cycle that reports CircularRefError, column.get_cell_value (the way every formula
      reads a cell) must raise an error whose root is depend.CircularRefError (this is what the
      next formula that reads the cell will store), and must not raise for any cell off the cycles.
  Tie in these situations: record-removal undo (re-added rows), table-removal undo and document
  load recalculate EVERY formula cell of the rows concerned, which is exactly the start state of the
  driver's "graph" op (all formula cells dirty, their old contents immaterial), so the engine's
  finishing order and values are replayed in the Lean machine as well.  Column-removal undo and the
  data / formula edits recalculate only a part and are judged by the direct oracle only.
"""
import itertools
import json
import marshal
import random

from gx import common

MODS = ["GristProps.C18"]

# Fixed witnesses (k, deps): always run, in every family, under both schedules.
WITNESSES = [
  (5, [[1, 5], [0], [2], [1], [5]]),     # 2-cycle through data, self loop, dependent of the cycle, bystander
  (1, [[0]]),                            # lone self loop: nobody reads the flagged cell (reader probe only)
  (2, [[0], [0]]),                       # self loop + one dependent
  (3, [[1], [2], [0]]),                  # 3-cycle
  (5, [[1], [0], [3], [2], [5]]),        # two disjoint 2-cycles + bystander
  (3, [[1, 3], [0], [1]]),               # 2-cycle + dependent
  (4, [[1], [0, 2], [1], [2, 0]]),       # two cycles sharing a cell + dependent of both
]


def run(ck):
  common.setup_repo_path()
  from gx import engine_driver as ed
  from gx import recalc_harness as rh
  ck.rule = ("dependency graphs over k formula columns (each references any subset of the k columns and a data "
             "column): k=2 all 64, k=3 all 4096 (quick: 500 sampled), k=4 sampled, 7 fixed witnesses (k<=5); 1-2 rows; "
             "each under 2 schedules and followed by incremental edits, by a removal of rows + undo (decoded error "
             "values recalculated), and (all witnesses, 10% of the others each; thorough 5%) by removal of a column / of the table "
             "+ undo; a sample of cyclic graphs is stored and loaded into a new engine (JSON-repr and DB-blob decoding; "
             "load_done and Calculate); non-trivial = graph with at least one cycle AND at least one cell "
             "off every cycle; distinct by (k, deps)")
  ck.assumptions = ["formulas are sums of cell references, strict in errors (no IFERROR/try)",
                    "same-row references only in the exhaustive family and in the Lean machine; dependency chains ACROSS rows "
                    "(cumulative column, two-column chain through a lookup, next to a real cycle) are a fixed family judged by "
                    "the direct oracle only (cross_row_chain_states_judged); cross-row cycles are in the history-based C05/C06 runs",
                    "decoded-error situations (undo of record / column / table removal, loading a stored document): "
                    "judged by the direct oracle (cycle cells hold CircularRefError, dependents keep the CircularRefError "
                    "they held before the step, off-cycle cells their value, get_cell_value of such a cell raises "
                    "CircularRefError for its readers); the Lean machine is tied only where every formula cell of the "
                    "rows concerned is recalculated (record-removal undo, table-removal undo, document load) - "
                    "column-removal undo and the data/formula edits that follow a restored state recalculate a part "
                    "only and are judged by the direct oracle ONLY",
                    "the Lean model has one abstract CircularRefError value: the difference between a live error object "
                    "and a decoded one (.error is None) is not modelled; it is observed by the direct oracle's reader probe",
                    "stored form of a document = fetch_table(formulas=True) of every table, cell values encoded and "
                    "decoded as action reprs (JSON) or as marshalled DB blobs (compound values only), not a real SQLite file"]
  ck.lean(MODS)
  rng = ck.rng
  graphs = []
  for k in (1, 2):
    for g in rh.all_graphs(k):
      graphs.append((k, [list(x) for x in g]))
  g3 = [(3, [list(x) for x in g]) for g in rh.all_graphs(3)]
  if ck.tier == "quick":
    graphs += rng.sample(g3, 350)
    n4 = 80
  else:
    graphs += g3
    n4 = 3000
  subsets4 = [[j for j in range(5) if m >> j & 1] for m in range(32)]
  for _ in range(n4):
    graphs.append((4, [list(rng.choice(subsets4)) for _ in range(4)]))
  n_wit = len(WITNESSES)
  graphs = [(k, [list(x) for x in d]) for (k, d) in WITNESSES] + graphs
  # share of the generated graphs that also go through column-removal undo / table-removal undo /
  # a formula edit after the record-removal undo (the witnesses always do)
  frac = 0.1 if ck.tier == "quick" else 0.05

  ops, metas = [], []
  doc = ed.Doc()
  n_in_doc = 0
  tnum = 0
  for gi, (k, deps) in enumerate(graphs):
    if n_in_doc >= 150:
      doc = ed.Doc(); n_in_doc = 0
    n_in_doc += 1
    tnum += 1
    konst = [rng.randint(1, 3) for _ in range(k)]
    rows = rng.choice([1, 1, 2])
    dvals = [rng.randint(0, 9) for _ in range(rows)]
    tid = "G%d" % tnum
    seed = rng.randint(0, 10 ** 6)
    witness = gi < n_wit
    for perm in (None, seed):
      g = GraphTable(ck, doc, tid, k, deps, konst, dvals, perm, ops, metas)
      if not g.do(["build"]):
        break
      # incremental edits: change d, then rewire one column (may create or break a cycle)
      if not g.do(["data", [v + 1 for v in dvals]]):
        break
      i = rng.randrange(k)
      if not g.do(["formula", i, [j for j in range(k + 1) if rng.random() < 0.5]]):
        break
      if witness and not g.do(["formula", i, list(deps[i])]):     # witnesses: back to the designed graph
        break
      # rows removed and the removal undone: the re-added rows' formula cells are recalculated
      # starting from the decoded errors of the undo action; then a data edit (and for some a
      # formula edit) on top of that, so that readers are evaluated again
      if rng.random() < 0.5:
        gone = list(g.row_ids)
      else:
        gone = sorted(rng.sample(g.row_ids, rng.randint(1, len(g.row_ids))))
      if not g.do(["undo_rows", gone]):
        break
      if not g.do(["data", [g.dv[r] + (2 if r in gone else 0) for r in g.row_ids]]):
        break
      if witness or rng.random() < frac:
        if not g.do(["formula", rng.randrange(k), [j for j in range(k + 1) if rng.random() < 0.5]]):
          break
      x = rng.random()
      if witness or x < frac:
        if not g.do(["undo_column", rng.randrange(k)]):
          break
        if not g.do(["data", [g.dv[r] + 1 for r in g.row_ids]]):
          break
      if witness or frac <= x < 2 * frac:
        if not g.do(["undo_table"]):
          break
        if not g.do(["data", [g.dv[r] + 1 for r in g.row_ids]]):
          break
      doc.apply([["RemoveTable", tid]])
      if perm is None:
        tnum += 1
        tid = "G%d" % tnum

  cross_row_chains(ck, ed, rng)

  # stored documents: cyclic graphs (and the witnesses) stored and loaded into new engines
  cyclic = [(k, d) for (k, d) in graphs[n_wit:] if any(rh.expected_values(k, d, [0] * k, 0)[1])]
  n_store = 45 if ck.tier == "quick" else 400
  chosen = graphs[:n_wit] + (rng.sample(cyclic, n_store) if len(cyclic) > n_store else cyclic)
  stored_documents(ck, rng, chosen, ops, metas, per_doc=26, all_variants=(ck.tier != "quick"))

  # model side
  answers = ck.driver(ops)
  mism = None
  for (meta, ans) in zip(metas, answers):
    if "error" in ans:
      raise common.Infra("driver: %s" % ans["error"])
    k, rows = meta["k"], meta["rows"]
    model_vals = ans["values"]
    eng = meta["engine_cells"]
    m = ["circ" if v == "circ" else "i%d" % v for v in model_vals]
    e = [("circ" if v == rh.CIRC else v) for v in eng]
    ck.count("tie_runs[%s]" % meta["when"])
    if m != e or not ans["trace"]["accepted"] or ans["trace"].get("dirty_left") or ans["dirty_left"]:
      ck.count("model_impl_disagreements")
      if mism is None:
        mism = {"graph": meta, "model": ans, "engine": e}
  if mism and not ck.has_impl_violation():
    ck.broken("correspondence engine update loop vs Grist.Recalc machine",
              "engine values or finishing order are not an accepted run of the model", mism)


def _chain_judge(doc):
  """The clauses of `cross_row_chains` on the document's current state; (signature, detail) or None."""
  import objtypes
  def cells(doc, tid, col):
    td = doc.engine.fetch_table(tid, formulas=True)
    return dict(zip(td.row_ids, td.columns[col]))
  def is_circ(v):
    return isinstance(v, objtypes.RaisedException) and "CircularRef" in (objtypes.encode_object(v)[1] if isinstance(objtypes.encode_object(v), list) else "")
  kk, vv = cells(doc, "X", "k"), cells(doc, "X", "v")
  bad = None
  for col in ("a", "b", "cum"):
    for row, val in cells(doc, "X", col).items():
      if is_circ(val):
        bad = ("a cell that lies on no cycle holds CircularRefError (cross-row chain through the same columns)",
               "X[%d].%s with keys %r" % (row, col, sorted(kk.values())))
        break
    if bad:
      break
  if not bad:
    by_k = {k_: r_ for r_, k_ in kk.items()}
    cum = cells(doc, "X", "cum")
    for row in kk:
      want, k_ = 0, kk[row]
      while k_ in by_k:
        want += vv[by_k[k_]]
        k_ -= 1
      if cum[row] != want:
        bad = ("cumulative column over a cross-row chain has a wrong value", "X[%d].cum = %r, expected %r (keys %r)" % (
          row, cum[row], want, sorted(kk.values())))
        break
  if not bad:
    y = doc.engine.fetch_table("Y", formulas=True)
    if not (is_circ(y.columns["x"][0]) and is_circ(y.columns["y"][0])) or y.columns["z"][0] != 2:
      bad = ("a real 2-cycle next to the chains is not reported (or its bystander is wrong)",
             "Y: x=%r y=%r z=%r" % (y.columns["x"][0], y.columns["y"][0], y.columns["z"][0]))
  return bad


def cross_row_chains(ck, ed, rng):
  """Fixed family, direct oracle only (the Lean machine models same-row references): dependency chains that run
  ACROSS rows through the same columns and never close a cycle - a cumulative column reading the previous row through
  a lookup, and a two-column chain a[r] -> b[r] -> a[r+1] - next to a real 2-cycle in another table.  No cell of the
  chains lies on a cycle, so none may hold CircularRefError, and the cumulative values must be the running sums;
  the real cycle must still be reported.  Checked after the build and after re-keying / editing rows, under the
  engine's own schedule and under permuted ones."""
  import objtypes
  from gx import recalc_harness as rh
  def cells(doc, tid, col):
    td = doc.engine.fetch_table(tid, formulas=True)
    return dict(zip(td.row_ids, td.columns[col]))
  def is_circ(v):
    return isinstance(v, objtypes.RaisedException) and "CircularRef" in (objtypes.encode_object(v)[1] if isinstance(objtypes.encode_object(v), list) else "")
  n_docs = 4 if ck.tier == "quick" else 40
  for di in range(n_docs):
    n = rng.choice([2, 3, 4, 6])
    perm = None if di % 2 == 0 else rng.randint(0, 10 ** 6)
    doc = ed.Doc()
    ks = list(range(1, n + 1))
    rng.shuffle(ks)
    build = [["AddTable", "X", [{"id": "k", "type": "Int", "isFormula": False, "formula": ""},
                                {"id": "v", "type": "Int", "isFormula": False, "formula": ""},
                                {"id": "a", "type": "Any", "isFormula": True, "formula": "$b"},
                                {"id": "b", "type": "Any", "isFormula": True, "formula": "X.lookupOne(k=$k+1).a"},
                                {"id": "cum", "type": "Any", "isFormula": True,
                                 "formula": "(X.lookupOne(k=$k-1).cum or 0) + $v"}]],
             ["AddTable", "Y", [{"id": "x", "type": "Any", "isFormula": True, "formula": "$y"},
                                {"id": "y", "type": "Any", "isFormula": True, "formula": "$x"},
                                {"id": "z", "type": "Any", "isFormula": True, "formula": "1 + 1"}]],
             ["BulkAddRecord", "X", [None] * n, {"k": ks, "v": [10 * k for k in ks]}],
             ["AddRecord", "Y", None, {}]]
    steps = [build,
             [["UpdateRecord", "X", 1, {"v": 7}]],
             [["BulkUpdateRecord", "X", list(range(1, n + 1)), {"k": [k + 1 for k in ks]}]],     # re-key every row
             [["UpdateRecord", "X", n, {"k": 100}]],                                             # cut the chain
             [["BulkUpdateRecord", "X", list(range(1, n + 1)), {"k": ks, "v": [k for k in ks]}]]]
    for si, bundle in enumerate(steps):
      with rh.Recording(perm_seed=perm, trace=False, reads=False):
        r = doc.apply(bundle)
      ck.evaluated()
      rp = {"family": "cross_row_chains", "steps": steps[:si + 1], "perm": perm}
      if not r.ok:
        ck.violation("recalculation raised an internal error (cross-row chain): " + r.error[0], r.error[1], rp)
        break
      bad = _chain_judge(doc)
      if bad:
        ck.violation(bad[0], bad[1], rp)
        break
      ck.count("cross_row_chain_states_judged")
      ck.nontrivial_case(["cross_row_chain", n, si, perm is not None])


# --------------------------------------------------------------------------- one graph table

class GraphTable(object):
  """One dependency-graph table in one document and the steps applied to it so far (the steps are
  the replayable input: a violation's replay object carries them)."""

  def __init__(self, ck, doc, tid, k, deps, konst, dvals, perm, ops, metas):
    self.ck, self.doc, self.tid, self.k = ck, doc, tid, k
    self.deps = [list(x) for x in deps]
    self.konst = list(konst)
    self.perm, self.ops, self.metas = perm, ops, metas
    self.deps0 = [list(x) for x in deps]
    self.dvals0 = list(dvals)
    self.row_ids = list(range(1, len(dvals) + 1))
    self.dv = dict(zip(self.row_ids, dvals))
    self.steps = []
    self.ctx = None          # the latest decoded-error situation this table went through
    self.live_before = None  # the table in the live engine before that situation (same graph since)

  # ---- replay object (old keys kept; "steps" from the initial build on make it exact)
  def rp(self, when):
    return {"k": self.k, "deps": self.deps, "konst": self.konst, "dvals": [self.dv[r] for r in self.row_ids],
            "perm": self.perm, "when": when, "deps0": self.deps0, "dvals0": self.dvals0,
            "steps": [list(s) for s in self.steps]}

  def _when(self, base):
    return base if self.ctx is None else "%s, following %s" % (base, self.ctx)

  def _apply(self, bundle, what, record=True):
    """Apply one bundle under the schedule; returns (result, recording) or (None, None) after
    recording the violation of the 'terminates without an internal error' clause."""
    from gx import recalc_harness as rh
    with rh.Recording(perm_seed=self.perm, trace=True, reads=True) as rec:
      r = self.doc.apply(bundle)
    if not r.ok:
      if what in ("initial", "after data edit", "after formula edit"):
        sig = "recalculation raised an internal error: " + r.error[0]
      else:
        sig = "recalculation raised an internal error (%s): %s" % (what, r.error[0])
      self.ck.violation(sig, "%s k=%d deps=%r" % (r.error[1], self.k, self.deps), self.rp(what))
      return None, None
    return r, rec

  def snap(self):
    return self.doc.snapshot(tables=[self.tid])[self.tid]

  def do(self, step):
    """Perform one step and judge the outcome; False = stop with this table."""
    from gx import recalc_harness as rh
    ck, tid, k = self.ck, self.tid, self.k
    self.steps.append(list(step))
    kind = step[0]
    if kind == "build":
      r, rec = self._apply([["AddTable", tid, rh.graph_columns(k, self.deps, self.konst)],
                            ["BulkAddRecord", tid, [None] * len(self.row_ids), {"d": [self.dv[x] for x in self.row_ids]}]],
                           "initial")
      ck.evaluated()
      if r is None:
        return False
      self.check(rec, "initial", tie_rows=self.row_ids)
      return True
    if kind == "data":
      newd = list(step[1])
      when = self._when("after data edit")
      r, rec = self._apply([["BulkUpdateRecord", tid, list(self.row_ids), {"d": newd}]], when)
      if r is None:
        return False
      self.dv = dict(zip(self.row_ids, newd))
      if self.ctx is not None:
        ck.count("data_edit_following[%s]" % self.ctx)
      self.check(rec, when, strict=self.ctx is not None, before=self.live_before)
      return True
    if kind == "formula":
      i, nd = step[1], list(step[2])
      deps2 = [list(x) for x in self.deps]
      deps2[i] = nd
      when = self._when("after formula edit")
      r, rec = self._apply([["ModifyColumn", tid, "c%d" % i,
                             {"formula": rh.graph_columns(k, deps2, self.konst)[i + 1]["formula"]}]], when)
      if r is None:
        return False
      self.deps = deps2
      self.live_before = None
      if self.ctx is not None:
        ck.count("formula_edit_following[%s]" % self.ctx)
      # the graph changed: dependents are judged by the property's clauses, not by their old value
      self.check(rec, when, probe=self.ctx is not None)
      return True
    if kind == "undo_rows":
      gone = list(step[1])
      before = self.snap()
      ctx = "undo of record removal"
      act = ["RemoveRecord", tid, gone[0]] if len(gone) == 1 else ["BulkRemoveRecord", tid, gone]
      r, rec = self._apply([act], "record removal")
      ck.evaluated()
      if r is None:
        return False
      kept = [x for x in self.row_ids if x not in gone]
      all_rows = self.row_ids
      self.row_ids = kept
      self.check(rec, "after record removal", strict=True, before=before)
      self.row_ids = all_rows
      n_dec = count_encoded_errors(r.raw_undo, tid)
      und = json.loads(json.dumps(r.raw_undo))       # as the undo travels outside the sandbox
      u, rec2 = self._apply([["ApplyUndoActions", und]], ctx)
      if u is None:
        return False
      self.ctx = ctx
      self.live_before = before
      self._count_situation(ctx, n_dec)
      self.check(rec2, "after " + ctx, strict=True, before=before, tie_rows=gone)
      return True
    if kind == "undo_column":
      i = step[1]
      before = self.snap()
      ctx = "undo of column removal"
      r, rec = self._apply([["RemoveColumn", tid, "c%d" % i]], "column removal")
      ck.evaluated()
      if r is None:
        return False
      n_dec = count_encoded_errors(r.raw_undo, tid)
      und = json.loads(json.dumps(r.raw_undo))
      u, rec2 = self._apply([["ApplyUndoActions", und]], ctx)
      if u is None:
        return False
      self.ctx = ctx
      self.live_before = before
      self._count_situation(ctx, n_dec)
      self.check(rec2, "after " + ctx, strict=True, before=before)      # partial recalculation: no tie
      return True
    if kind == "undo_table":
      before = self.snap()
      ctx = "undo of table removal"
      r, rec = self._apply([["RemoveTable", tid]], "table removal")
      ck.evaluated()
      if r is None:
        return False
      n_dec = count_encoded_errors(r.raw_undo, tid)
      und = json.loads(json.dumps(r.raw_undo))
      u, rec2 = self._apply([["ApplyUndoActions", und]], ctx)
      if u is None:
        return False
      self.ctx = ctx
      self.live_before = before
      self._count_situation(ctx, n_dec)
      self.check(rec2, "after " + ctx, strict=True, before=before, tie_rows=self.row_ids)
      return True
    if kind == "reload":
      before = self.snap()
      d2, rec, err, n_dec = reload_doc(self.doc, step[1], step[2], self.perm)
      ck.evaluated()
      return self.loaded(d2, rec, err, n_dec.get(tid, 0), before, reads=True)
    raise common.Infra("c18: unknown step %r" % (step,))

  def loaded(self, d2, rec, err, n_dec, before, reads):
    """This table's part of the judgement of a document load (d2 = the new engine)."""
    ctx = "stored document loaded"
    if err is not None:
      self.ck.violation("recalculation raised an internal error (%s): %s" % (ctx, err[0]),
                        "%s k=%d deps=%r" % (err[1], self.k, self.deps), self.rp(ctx))
      return False
    self.doc = d2
    self.ctx = ctx
    self.live_before = before
    self._count_situation(ctx, n_dec)
    self.check(rec, "after " + ctx, strict=True, before=before, tie_rows=self.row_ids, reads=reads)
    return True

  def _count_situation(self, ctx, n_dec):
    from gx import recalc_harness as rh
    ck = self.ck
    ck.count("situations[%s]" % ctx)
    _, on_cycle, bad = rh.expected_values(self.k, self.deps, self.konst, 0)
    if any(on_cycle):
      ck.count("situations_with_cycle[%s]" % ctx)
      if n_dec:
        ck.count("situations_with_cycle_and_decoded_errors[%s]" % ctx)
    ck.count("decoded_error_cells_recalculated[%s]" % ctx, n_dec)

  def check(self, rec, when, strict=False, before=None, tie_rows=None, reads=True, probe=None):
    check_graph(self.ck, self.doc, self.tid, self.k, self.deps, self.konst,
                [self.dv[r] for r in self.row_ids], rec, self.perm,
                self.ops if tie_rows is not None else None, self.metas if tie_rows is not None else None,
                when, row_ids=self.row_ids, strict=strict, before=before, tie_rows=tie_rows,
                replay=self.rp(when), reads=reads, probe=strict if probe is None else probe)


def count_encoded_errors(raw_actions, tid):
  """Encoded error cell values (["E", ...]) that record actions on `tid` in an undo carry."""
  n = 0
  for a in raw_actions or []:
    if a[0] in ("AddRecord", "UpdateRecord") and a[1] == tid:
      n += sum(1 for v in a[3].values() if isinstance(v, list) and v[:1] == ["E"])
    elif a[0] in ("BulkAddRecord", "BulkUpdateRecord", "ReplaceTableData") and a[1] == tid:
      n += sum(1 for vals in a[3].values() for v in vals if isinstance(v, list) and v[:1] == ["E"])
  return n


# --------------------------------------------------------------------------- stored documents

def _stored_json(td):
  """A table as it is stored / sent and read back through action reprs (JSON)."""
  import actions
  rep = json.loads(json.dumps(actions.get_action_repr(actions.ReplaceTableData(*td))))
  return actions.TableData(*actions.action_from_repr(rep))


def _stored_db(td):
  """A table as the database path gives it back: compound values are marshalled blobs that are
  decoded with objtypes.decode_object (main._decode_db_value); primitives come back as they are."""
  import actions
  import objtypes
  cols = {}
  for c, vals in td.columns.items():
    out = []
    for v in vals:
      ev = objtypes.encode_object(v)
      if isinstance(ev, list):
        out.append(objtypes.decode_object(marshal.loads(marshal.dumps(ev))))
      else:
        out.append(ev)
    cols[c] = out
  return actions.TableData(td.table_id, list(td.row_ids), cols)


def reload_doc(doc, conv, fin, perm):
  """A new engine loaded from the stored form of `doc` (formula results included, decoded), then
  load_done() or the Calculate user action under the schedule `perm`.
  Returns (Doc-like wrapper, recording, error or None, {table: decoded error objects loaded})."""
  from gx import engine_driver as ed
  from gx import recalc_harness as rh
  import engine as engine_mod
  import objtypes
  f = {"json": _stored_json, "db": _stored_db}[conv]
  src = doc.engine
  ed.install_wrappers()
  d2 = ed.Doc.__new__(ed.Doc)
  d2.engine = engine_mod.Engine()
  d2.history = []
  n_dec = {}
  rec = None
  try:
    mt = f(src.fetch_table('_grist_Tables', formulas=True))
    mc = f(src.fetch_table('_grist_Tables_column', formulas=True))
    d2.engine.load_meta_tables(mt, mc)
    for tid in sorted(src.tables):
      if tid in ('_grist_Tables', '_grist_Tables_column'):
        continue
      td = f(src.fetch_table(tid, formulas=True))
      if not tid.startswith("_grist_"):
        n_dec[tid] = sum(1 for vals in td.columns.values() for v in vals
                         if isinstance(v, objtypes.RaisedException) and v.error is None)
      d2.engine.load_table(td)
    with rh.Recording(perm_seed=perm, trace=True, reads=True) as rec:
      if fin == "load_done":
        d2.engine.load_done()
        err = None
      else:
        r = d2.apply([["Calculate"]], record=False)
        err = None if r.ok else r.error
  except Exception as e:     # the code under test may raise: judged by the caller ("total" clause)
    err = (type(e).__name__, str(e).split("\n")[0][:200])
  return d2, rec, err, n_dec


def stored_documents(ck, rng, chosen, ops, metas, per_doc, all_variants):
  from gx import engine_driver as ed
  from gx import recalc_harness as rh
  variants_a = [("json", "load_done", False), ("db", "Calculate", True)]
  variants_b = [("db", "load_done", False), ("json", "Calculate", True)]
  for di in range(0, len(chosen), per_doc):
    part = chosen[di:di + per_doc]
    doc = ed.Doc()
    base = []
    for ti, (k, deps) in enumerate(part):
      konst = [rng.randint(1, 3) for _ in range(k)]
      dvals = [rng.randint(0, 9) for _ in range(rng.choice([1, 2]))]
      g = GraphTable(ck, doc, "S%d" % (ti + 1), k, deps, konst, dvals, None, None, None)
      g.steps.append(["build"])
      r = doc.apply([["AddTable", g.tid, rh.graph_columns(k, deps, konst)],
                     ["BulkAddRecord", g.tid, [None] * len(dvals), {"d": dvals}]])
      if not r.ok:      # judged in the main loop for every graph; here only a precondition
        ck.count("stored_document_table_not_built")
        continue
      base.append(g)
    seed = rng.randint(0, 10 ** 6)
    if all_variants:
      variants = variants_a + [("db", "load_done", True), ("json", "Calculate", False)]
    else:
      variants = variants_a if (di // per_doc) % 2 == 0 else variants_b
    befores = {g.tid: g.snap() for g in base}
    for (conv, fin, permuted) in variants:
      perm = seed if permuted else None
      d2, rec, err, n_dec = reload_doc(doc, conv, fin, perm)
      ck.evaluated()
      ck.count("documents_loaded[%s,%s]" % (conv, fin))
      bad_reads = rh.dirty_read_violations(rec.reads) if rec is not None else []
      loaded = []
      for g in base:
        g2 = GraphTable(ck, doc, g.tid, g.k, g.deps, g.konst, g.dvals0, perm, ops, metas)
        g2.steps = [["build"], ["reload", conv, fin]]
        if g2.loaded(d2, rec, err, n_dec.get(g.tid, 0), befores[g.tid], reads=False):
          loaded.append(g2)
        if bad_reads and any(c[0] == g.tid for (c, _) in bad_reads):
          ck.violation("an evaluation completed although it read a dirty cell", repr(bad_reads[:2]),
                       g2.rp("after stored document loaded"))
      # readers evaluated again on top of the loaded state
      for j, g2 in enumerate(loaded):
        if not g2.do(["data", [g2.dv[r] + 1 for r in g2.row_ids]]):
          continue
        if j < 3:
          g2.do(["formula", rng.randrange(g2.k), [x for x in range(g2.k + 1) if rng.random() < 0.5]])


# --------------------------------------------------------------------------- the direct oracle

def reader_view(doc, tid, col_id, row_id):
  """What a formula reading this cell gets: None for a value, else the class name of the root of
  the raised error (CellError wrappers followed) - which is what the reader would store."""
  col = doc.engine.tables[tid].get_column(col_id)
  try:
    col.get_cell_value(row_id)
    return None
  except Exception as e:          # pylint: disable=broad-except
    seen = 0
    while type(e).__name__ == "CellError" and hasattr(e, "error") and seen < 50:
      e = e.error
      seen += 1
    return type(e).__name__


def check_graph(ck, doc, tid, k, deps, konst, dvals, rec, perm, ops, metas, when, row_ids=None,
                strict=False, before=None, tie_rows=None, replay=None, reads=True, probe=False):
  """dvals[j] is the data value of row row_ids[j] (default rows 1..n).
  strict/before: decoded-error situations - a cell that merely depends on a cycle must still hold
  the CircularRefError it held in `before` (snapshot of the table in the live engine).
  probe: also ask what a reader of each cell gets.  tie_rows: rows whose finishing order goes to
  the Lean machine (all their formula cells were dirty)."""
  from gx import recalc_harness as rh
  if row_ids is None:
    row_ids = list(range(1, len(dvals) + 1))
  if replay is None:
    replay = {"k": k, "deps": deps, "konst": konst, "dvals": dvals, "perm": perm, "when": when}
  snap = doc.snapshot(tables=[tid])[tid]
  nontriv = False
  eng_cells = []
  row_cells = {}
  if list(snap["ids"]) != list(row_ids):
    ck.violation("rows of a table with circular formulas differ from the rows expected (%s)" % when,
                 "k=%d deps=%r rows %r expected %r" % (k, deps, snap["ids"], row_ids), replay)
    return
  for ri, dv in enumerate(dvals):
    rid = row_ids[ri]
    exp, on_cycle, bad = rh.expected_values(k, deps, konst, dv)
    if any(on_cycle) and not all(bad):
      nontriv = True
    cells = []
    for i in range(k):
      got = snap["cols"]["c%d" % i][ri]
      cells.append(got)
      if on_cycle[i] and got != rh.CIRC:
        ck.violation("cell on a cycle does not hold CircularRefError (%s)" % when,
                     "k=%d deps=%r row %d col c%d got %r" % (k, deps, rid, i, got), replay)
      elif not bad[i] and got != exp[i]:
        ck.violation("cell off every cycle has a wrong value (%s)" % when,
                     "k=%d deps=%r row %d col c%d got %r expected %r" % (k, deps, rid, i, got, exp[i]), replay)
      elif bad[i] and not on_cycle[i] and got != rh.CIRC:
        held = None
        if strict and before is not None and rid in before["ids"]:
          held = before["cols"]["c%d" % i][before["ids"].index(rid)]
        if held == rh.CIRC:
          ck.violation("cell depending on a cycle no longer holds the CircularRefError it held before (%s)" % when,
                       "k=%d deps=%r row %d col c%d got %r" % (k, deps, rid, i, got), replay)
        else:
          ck.count("depends_on_cycle_but_not_circ")
      if probe:
        ck.count("reader_probes")
        try:
          seen = reader_view(doc, tid, "c%d" % i, rid)
        except Exception as e:      # pylint: disable=broad-except
          raise common.Infra("c18: reader probe failed: %r" % (e,))
        if bad[i] and got == rh.CIRC and seen != "CircularRefError":
          ck.count("reader_probe_failures")
          ck.violation("reader of a cell reported as CircularRefError gets %s instead (%s)" % (seen, when),
                       "k=%d deps=%r row %d col c%d: column.get_cell_value raised %s; the cell is %s a cycle"
                       % (k, deps, rid, i, seen, "on" if on_cycle[i] else "behind"), replay)
        elif not bad[i] and got == exp[i] and seen is not None:
          ck.count("reader_probe_failures")
          ck.violation("reader of a cell off every cycle gets an error (%s)" % when,
                       "k=%d deps=%r row %d col c%d: column.get_cell_value raised %s" % (k, deps, rid, i, seen), replay)
    cells.append("i%d" % dv)
    eng_cells.extend(cells)
    row_cells[rid] = cells
  if reads:
    bad_reads = rh.dirty_read_violations(rec.reads)
    if bad_reads:
      ck.violation("an evaluation completed although it read a dirty cell", repr(bad_reads[:2]), replay)
  if nontriv:
    ck.nontrivial_case([k, deps])
    ck.sample({"k": k, "deps": deps, "konst": konst, "d": dvals, "engine": eng_cells, "schedule_seed": perm})
  if ops is not None:
    # the rows in tie_rows had every formula cell dirty; any other row of the table was clean, so an
    # event on it is not a transition of this machine instance (cell index n: rejected by the model).
    # In the decoded-error situations each row is its own machine instance (same-row references only:
    # the rows are independent, and the model's cost grows quickly with the number of cells).
    trows = list(tie_rows if tie_rows is not None else row_ids)
    groups = [[rid] for rid in trows] if strict else [trows]
    for gi, grp in enumerate(groups):
      rows = len(grp)
      n = rows * (k + 1)
      formula, mdeps, mk, tcells = [], [], [], []
      for ri, rid in enumerate(grp):
        base = ri * (k + 1)
        for i in range(k):
          formula.append(True); mdeps.append([base + j for j in deps[i]]); mk.append(konst[i])
        formula.append(False); mdeps.append([]); mk.append(dvals[row_ids.index(rid)])
        tcells.extend(row_cells[rid])
      trace = []
      for (kind, t, c, r) in rec.trace:
        if t == tid and c.startswith("c") and c[1:].isdigit():
          if r in grp:
            trace.append([kind, grp.index(r) * (k + 1) + int(c[1:])])
          elif r not in trows and gi == 0:
            trace.append([kind, n])
      ops.append({"m": "recalc", "op": "graph", "n": n, "formula": formula, "deps": mdeps, "konst": mk,
                  "order": list(range(n)), "trace": trace})
      metas.append({"k": k, "rows": rows, "deps": deps, "konst": konst,
                    "dvals": [dvals[row_ids.index(rid)] for rid in grp], "perm": perm,
                    "engine_cells": tcells, "trace": trace, "when": when, "row_ids": grp})


# --------------------------------------------------------------------------- replay

def replay(ck, rp):
  common.setup_repo_path()
  from gx import engine_driver as ed
  from gx import recalc_harness as rh
  ck.lean(MODS)
  r = rp["replay"]
  if "graph" in r:
    r = r["graph"]
  if r.get("family") == "cross_row_chains":
    doc = ed.Doc()
    for bundle in r["steps"]:
      with rh.Recording(perm_seed=r.get("perm"), trace=False, reads=False):
        res = doc.apply(bundle)
      ck.evaluated()
      bad = ("recalculation raised an internal error (cross-row chain): " + res.error[0], res.error[1]) if not res.ok \
        else _chain_judge(doc)
      print("replay step %s -> %s" % (json.dumps(bundle)[:100], bad or "ok"))
      if bad:
        ck.violation(bad[0], bad[1], r)
        break
    ck.nontrivial_case("replay"); ck.nontrivial_case("replay2")
    return
  if r.get("steps"):
    # exact: the steps the table went through, from the initial build on
    doc = ed.Doc()
    g = GraphTable(ck, doc, "G", r["k"], r["deps0"], r["konst"], r["dvals0"], r.get("perm"), None, None)
    for st in r["steps"]:
      ok = g.do(st)
      print("replay step %r -> %s  %s" % (st, "ok" if ok else "STOPPED", g.snap() if ok else None))
      if not ok:
        break
    ck.nontrivial_case("replay"); ck.nontrivial_case("replay2")
    return
  k, deps, konst, dvals = r["k"], r["deps"], r["konst"], r["dvals"]
  doc = ed.Doc()
  with rh.Recording(perm_seed=r.get("perm"), trace=True, reads=True) as rec:
    res = doc.apply([["AddTable", "G", rh.graph_columns(k, deps, konst)],
                     ["BulkAddRecord", "G", [None] * len(dvals), {"d": dvals}]])
  print("replay:", res.ok, res.error, doc.snapshot(tables=["G"])["G"] if res.ok else None)
  if not res.ok:
    ck.violation("recalculation raised an internal error: " + res.error[0], res.error[1], r)
  else:
    check_graph(ck, doc, "G", k, deps, konst, dvals, rec, r.get("perm"), None, None, "replay")
  ck.evaluated(); ck.nontrivial_case("replay"); ck.nontrivial_case("replay2")
