"""
C15  Trigger formulas recalculate exactly when configured.

Theorems: lean/GristProps/C15.lean about lean/GristModel/Trigger.lean (one trigger column `c`, one
bundle; the MECHANISM = dependency edges built at the end of a bundle, invalidation by record doc
actions, `data_cols_to_recompute`, `_prevent_recompute_map` cleared per user action, MANUAL_UPDATES
invalidation and self-dependency un-prevent; the SPEC `RecalcSet` written from the property text):
  recalcSet_subset_mechanism        every cell the property wants recalculated IS evaluated (needs only
                                    that the edges are those of the live configuration)
  trigger_mechanism_eq_spec_partial evaluated cells = RecalcSet on the domain `inDomain`
  trigger_mechanism_eq_spec_false   the unrestricted statement is FALSE; seven 1-/2-row witnesses
                                    (witness_add/_trim/_last/_stale/_stale_missing/_readd/_failed), one
                                    per hypothesis of the partial theorem, all replayed here on the
                                    real engine every run (`witnesses()`; six known findings)
  changed_dep_recalculated, schema_only_never_recalculates, recalcB_iff_RecalcSet
Tie: every generated bundle, for every trigger column, is abstracted (rows, column refs, which cells
     differ from the stored value) and run through the compiled model; the set of evaluated cells is
     compared with the cells the real engine evaluated (observed with `engine.formula_tracer`, and
     cross-checked through the counter formula `(value or 0) + 1`).  The model's `spec` output is
     compared with the Python reference below as well.
Search (direct oracle on the real code): an independent Python reading of the property text
     (`reference`), evaluated on the concrete user actions and the real cell values.

INTERPRETATION (what the check demands, per trigger column and row, at the END of a bundle - the
engine recalculates only then):
 * each user action is classified for the cell: PROTECT (the action sets the cell explicitly: the
   request names the column for that row, or supplies it for a new record; doc actions applied by
   ApplyUndoActions set every cell they name and supply every cell of a record they re-add),
   TRIGGER, or nothing.  The cell must be evaluated iff the last user action that is not "nothing"
   is a TRIGGER.  A PROTECT wins over a TRIGGER of the same user action, unless the column depends
   on itself (then the explicit value is itself a written recalcDeps cell: data cleaning; this is
   what test_trigger_formulas.test_self_trigger documents, also for new records).
 * new record: TRIGGER unless recalcWhen is NEVER or the column was supplied.
 * DEFAULT: MUST be evaluated if a recalcDeps cell of the row changes value (plain dependency written
   with a different value; formula dependency whose value differs after the bundle); MUST NOT if no
   recalcDeps cell of the row is named by the request nor recomputed; a dependency written with the
   SAME value (or recomputed to the same value) is in neither clause: either behaviour is accepted.
 * MANUAL_UPDATES: TRIGGER iff a user-requested update changes some value of the row.  Doc actions
   replayed by ApplyUndoActions are not user-requested updates (test_recalc_undo).
 * schema changes (rename, type change, formula change, add/remove column) and configuration
   changes never trigger; the configuration that counts for a user action is the one stored in the
   metadata when that user action runs.
 * values converted by a type change, and restored by its undo (record doc actions next to schema doc
   actions inside one ApplyUndoActions), are part of the schema change: in neither clause.
 * a failed bundle must leave nothing behind: after every rejected bundle the history applies
   [Calculate]; a trigger cell evaluated there (or by whatever bundle follows a failed one) was not
   written or recomputed by that bundle.
READERS of trigger columns.  Which trigger cells are recalculated must not depend on who READS the
   column: a formula column `$B` whose id sorts BEFORE the trigger column's (the engine evaluates the
   work items in name order, so the reader pulls B up through a nested
   `_recompute_step(allow_evaluation=False)` BEFORE B's own scheduled evaluation), one that sorts
   after it, chains of such readers, `lookupRecords`/`lookupOne` keyed on the trigger column (the
   `#lookup#B` index node is always evaluated first and reads B) from the same and from another
   table, and a summary table grouped by the trigger column (its `#summary#` helper column reads B).
   Every document family below therefore comes with and without such readers, for every recalcWhen
   mode and for self-dependent columns.  Two clauses judge them, both on the real outcome only:
   (1) the same [must, may] interval as without readers (an explicit value of the last user action
   wins: a recalculation of such a cell is never attributed to a recorded finding - none of them
   overrides an exemption set by the last user action); (2) after every successful bundle every
   reader agrees with the FINAL trigger cells (`$B` copies, lookup counts / first match, summary
   groups and counts).  The Lean model has no evaluation order (readers are invisible to it): the
   tie checks that the engine's evaluated set stays the model's, reader or not; that nested first
   visits do not change the outcome is established by the direct oracle only.
TRIGGER DEPENDENCIES AND LOOKUPS IN TRIGGER FORMULAS (the "lookup family": `run_lk_history`,
   `lookup_witnesses`).  Documents with a second table K(k, v) and, in T, a trigger column L whose
   FORMULA performs a lookup (`K.lookupOne(k=$A).v`, `len(K.lookupRecords(k=$A))`, a counter that also
   looks up, and the same into T itself: `T.lookupOne(A=$C)`), a trigger column M (counter, DEFAULT) that
   lists L in its recalcDeps (M's id sorting before or after L's), optionally N listing M, and L
   optionally listing itself; bundles edit the looked-up table (change the key of a matched record, add /
   remove records with looked-up keys, non-key cells), edit T, do both, or undo.  A lookup made by a
   trigger formula is NOT a dependency: the property lets L be recalculated only through its recalcDeps /
   new record / manual update, so an edit of K never recalculates anything in T.  For a recalcDeps cell
   that is itself a trigger cell (L for M) the clauses are read on the REAL outcome of that cell: it
   "changes value" when it is written with a different value or recomputed (evaluated, as observed by
   the tracer) to a different value -> M MUST be recalculated; it was "written or recomputed" when the
   request names it or the engine evaluated it -> otherwise M must NOT be recalculated; evaluated to the
   same value / written with the same value: either.  A recomputation happens at the end of the bundle:
   it is attributed to the only user action of the bundle that names rows of T (an explicit value for M
   in that user action wins); when SEVERAL user actions of a bundle name rows of T the attribution is
   ambiguous in the property text and such a recomputed dependency only moves the cell out of the
   "never" clause (MAY) - the lookup family generates at most one T-naming user action per bundle, except
   that [edit of K, edit of T] bundles are generated in both orders (K edits do not name rows of T).
   The Lean model has one trigger column per op and no lookups: columns with another trigger column in
   recalcDeps are judged by the DIRECT ORACLE only (tie skipped, counter tie_skipped_trigger_dep); L
   itself (plain recalcDeps) is still tied, with K edits abstracted as user actions that do not touch T.
ASSUMPTIONS: recalcDeps are plain data columns, formula columns over plain data columns, the column
   itself, or (lookup family only) another trigger column, without cycles between distinct trigger
   columns; no trigger column depends on a READER of a trigger column; values written are of the column's
   type; row ids within one request are distinct.
"""
import copy
import json
import multiprocessing
import os
import random
import re
import subprocess

from gx import common

T = "T"
SIG_ADD = ("value supplied for a new record is recalculated (DEFAULT trigger column with non-empty "
           "recalcDeps not containing itself; BulkAddRecord does not prevent_recalc)")
SIG_TRIM = ("explicit value equal to the stored one is dropped by trim_update_action and the cell is "
            "recalculated in the same user action")
SIG_LAST = ("explicit value set by an earlier user action of the bundle is recalculated (exemptions "
            "cleared per user action, recalculation at the end of the bundle)")
SIG_STALE = ("record edit after a trigger-configuration or dependency schema change in the same bundle "
             "uses the dependency edges from before the bundle")
SIG_READD = ("record id re-added in the bundle after an earlier user action of the bundle touched it: "
             "the stale recompute entry recalculates the supplied value")

SIG_FAILED = ("trigger cell recalculated by the bundle after a failed (rolled back) bundle that had invalidated "
              "it: the recompute entry survives the rollback")

DEFAULTS = {"Int": 0, "Numeric": 0.0, "Text": "", "Bool": False, "Any": None}
WHEN_NAME = {0: "DEFAULT", 1: "NEVER", 2: "MANUAL_UPDATES"}


# ------------------------------------------------------------------------------- live document

class Live(object):
  """A real engine with one user table T; remembers every bundle applied (replayable)."""

  def __init__(self):
    from gx import engine_driver as ed
    self.ed = ed
    self.doc = ed.Doc()
    self.trace = []
    self.doc.engine.formula_tracer = self._tracer
    self.log = []
    self.tref = None
    self.residue = set()     # rows mentioned by the immediately preceding bundle if it FAILED
    self.nested = []         # coverage only, see _instrument
    self.last_aux = []       # the other user tables as they were after the last successful bundle
    self._instrument()

  def _tracer(self, col, rec):
    if col.table_id == T:
      self.trace.append((col.col_id, int(rec)))

  def _instrument(self):
    """COVERAGE ONLY (no verdict depends on it): note every FIRST visit of a node of T within a
    recalculation pass that is a nested one (allow_evaluation=False: some reader pulled the column up
    before its own work item), and whether rows exempted by the user action were dirty then."""
    eng = self.doc.engine
    orig = getattr(eng, "_recompute_step", None)
    if orig is None or not all(hasattr(eng, a) for a in ("_recompute_done_map", "_prevent_recompute_map", "recompute_map")):
      return
    live = self
    def step(node, *a, **kw):
      try:
        allow = kw.get("allow_evaluation", a[0] if a else True)
        if not allow and node.table_id == T and node not in eng._recompute_done_map:
          dirty = eng.recompute_map.get(node)
          if dirty is not None:
            ex = eng._prevent_recompute_map.get(node) or ()
            try:
              hit = any(r in dirty for r in ex)
            except Exception:
              hit = bool(ex)
            live.nested.append((node.col_id, hit))
      except Exception:
        pass
      return orig(node, *a, **kw)
    eng._recompute_step = step

  def apply(self, bundle):
    self.trace = []
    self.nested = []
    self.log.append(copy.deepcopy(bundle))
    return self.doc.apply(bundle)

  def read_aux(self):
    """The other user tables: [{"id", "summary_of", "rows", "cols": {colId: values}, "meta": [column records]}]."""
    eng = self.doc.engine
    mt = eng.fetch_table("_grist_Tables")
    tabs = []
    tref = None
    for i, r in enumerate(mt.row_ids):
      tid = mt.columns["tableId"][i]
      if tid == T:
        tref = r
      elif tid:
        tabs.append((r, tid, mt.columns["summarySourceTable"][i]))
    if not tabs:
      return []
    mc = eng.fetch_table("_grist_Tables_column")
    c = mc.columns
    out = []
    for (r, tid, src) in tabs:
      if tid not in eng.tables:
        continue
      td = eng.fetch_table(tid)
      meta = [{"ref": mc.row_ids[i], "id": c["colId"][i], "isFormula": bool(c["isFormula"][i]), "formula": c["formula"][i],
               "type": c["type"][i], "src": c["summarySourceCol"][i]} for i in range(len(mc.row_ids)) if c["parentId"][i] == r]
      out.append({"id": tid, "summary_of": (src == tref and bool(src)), "rows": list(td.row_ids),
                  "cols": {k: list(v) for k, v in td.columns.items()}, "meta": meta})
    return out

  def read(self):
    """Schema + data of T as plain python: (cols, rows, cells)."""
    eng = self.doc.engine
    mt = eng.fetch_table("_grist_Tables")
    tref = None
    for i, r in enumerate(mt.row_ids):
      if mt.columns["tableId"][i] == T:
        tref = r
    if tref is None:
      return None
    mc = eng.fetch_table("_grist_Tables_column")
    c = mc.columns
    cols = []
    for i, r in enumerate(mc.row_ids):
      if c["parentId"][i] != tref or c["colId"][i] == "manualSort":
        continue
      deps = c["recalcDeps"][i]
      cols.append({"ref": r, "id": c["colId"][i], "type": c["type"][i], "isFormula": bool(c["isFormula"][i]),
                   "formula": c["formula"][i], "when": c["recalcWhen"][i],
                   "deps": [int(x) for x in deps] if isinstance(deps, (list, tuple)) else ([] if deps is None else "bad")})
    td = eng.fetch_table(T)
    rows = list(td.row_ids)
    cells = {}
    for col in cols:
      vals = td.columns.get(col["id"])
      if vals is None:
        continue
      for r, v in zip(rows, vals):
        cells[(r, col["ref"])] = v
    return {"cols": cols, "rows": rows, "cells": cells}


def is_trigger(col):
  return (not col["isFormula"]) and bool(col["formula"])


def compute_ups(cols):
  """formula column ref -> set of NON-formula column refs it reads (transitively), from the text."""
  by_id = {c["id"]: c for c in cols}
  direct = {}
  for c in cols:
    if c["isFormula"]:
      direct[c["ref"]] = [by_id[n] for n in re.findall(r"\$(\w+)", c["formula"] or "") if n in by_id]
  ups = {}
  def visit(ref, seen):
    out = set()
    for d in direct.get(ref, []):
      if d["isFormula"]:
        if d["ref"] not in seen:
          out |= visit(d["ref"], seen | {d["ref"]})
      else:
        out.add(d["ref"])
    return out
  for ref in direct:
    ups[ref] = visit(ref, {ref})
  return ups


# ------------------------------------------------------------------------------- readers of trigger columns

RE_DIRECT = re.compile(r"^\$(\w+)$")
RE_LOOKN = re.compile(r"^len\(T\.lookupRecords\((\w+)=\$(\w+)\)\)$")
RE_LOOK1 = re.compile(r"^T\.lookupOne\((\w+)=\$(\w+)\)\.id$")
SIG_READER = "reader of a trigger column does not agree with the column's final value after the bundle"
READER_KINDS = ("before", "after", "chain", "chain2", "lookup", "lookup1", "lookupA", "other", "summary")
FIRST_KINDS = {"direct-before", "chain-before", "lookup-key-same-table", "lookup-key-other-table", "summary-groupby"}


def reads_trigger(col, cols):
  """Formula column of T that reads a trigger column (directly, through formula columns, or as a
  lookup key): never offered as a recalcDeps candidate (no trigger column depends on another)."""
  if not col["isFormula"]:
    return False
  f = col["formula"] or ""
  if "lookup" in f:
    return True
  by_ref = {c["ref"]: c for c in cols}
  return any(is_trigger(by_ref[x]) for x in compute_ups(cols).get(col["ref"], ()) if x in by_ref)


def reader_kinds(trig, cols, aux):
  """Which kinds of readers the trigger column has in this document (for the coverage counters;
  `first` = something makes the engine visit the column's node before its own work item)."""
  kinds = set()
  tid = trig["id"]
  by_id = {c["id"]: c for c in cols}
  direct = {}
  for c in cols:
    if c["isFormula"]:
      direct[c["id"]] = [n for n in re.findall(r"\$(\w+)", c["formula"] or "") if n in by_id]
  def reaches(cid, seen):
    for n in direct.get(cid, ()):
      if n == tid or (n in direct and n not in seen and reaches(n, seen | {n})):
        return True
    return False
  for c in cols:
    if not c["isFormula"]:
      continue
    f = c["formula"] or ""
    if re.search(r"lookup(Records|One)\(%s=" % re.escape(tid), f):
      kinds.add("lookup-key-same-table")
    if RE_DIRECT.match(f) and f[1:] == tid:
      kinds.add("direct-before" if c["id"] < tid else "direct-after")
    elif "lookup" not in f and reaches(c["id"], {c["id"]}):
      kinds.add("chain-before" if c["id"] < tid else "chain-after")
  for t in aux:
    if t["summary_of"]:
      if any(m["src"] == trig["ref"] for m in t["meta"]):
        kinds.add("summary-groupby")
    elif any(m["isFormula"] and re.search(r"T\.lookup(Records|One)\(%s=" % re.escape(tid), m["formula"] or "") for m in t["meta"]):
      kinds.add("lookup-key-other-table")
  return kinds


def _plain(v):
  return v is None or isinstance(v, (bool, int, float, str))


def check_readers(after, aux):
  """Clause (2): every recognised reader agrees with the FINAL cells of T.  Returns [detail...]."""
  bad = []
  by_id = {c["id"]: c for c in after["cols"]}
  rows = after["rows"]
  cells = after["cells"]
  n_checked = 0

  def colvals(cid):
    c = by_id.get(cid)
    if c is None:
      return None
    vals = [cells.get((r, c["ref"]), "<none>") for r in rows]
    return vals if all(_plain(v) for v in vals) else None

  def count_eq(keys, v):
    return sum(1 for k in keys if same_value(k, v))

  for c in after["cols"]:
    if not c["isFormula"]:
      continue
    f = (c["formula"] or "").strip()
    got = [cells.get((r, c["ref"]), "<none>") for r in rows]
    m = RE_DIRECT.match(f)
    if m:
      src = colvals(m.group(1))
      if src is None:
        continue
      n_checked += 1
      for r, g, e in zip(rows, got, src):
        if not same_value(g, e):
          bad.append("T.%s[%d] = %r but $%s = %r" % (c["id"], r, g, m.group(1), e))
      continue
    m = RE_LOOKN.match(f) or RE_LOOK1.match(f)
    if m:
      keys, vals = colvals(m.group(1)), colvals(m.group(2))
      if keys is None or vals is None or by_id[m.group(1)]["type"] != by_id[m.group(2)]["type"]:
        continue      # (a key of another type is converted by the lookup: not modelled here)
      n_checked += 1
      for r, g, v in zip(rows, got, vals):
        if RE_LOOKN.match(f):
          e = count_eq(keys, v)
        else:
          e = min([r2 for r2, k in zip(rows, keys) if count_eq([k], v)] or [0])
        if not same_value(g, e):
          bad.append("T.%s[%d] = %r but %s gives %r (key column %r)" % (c["id"], r, g, f, e, keys))
  for t in aux:
    if t["summary_of"]:
      gcols = [m for m in t["meta"] if m["src"]]
      src_ids = []
      by_ref = {c["ref"]: c for c in after["cols"]}
      for m in gcols:
        sc = by_ref.get(m["src"])
        src_ids.append(sc["id"] if sc else None)
      if not gcols or None in src_ids or "count" not in t["cols"]:
        continue
      svals = [colvals(x) for x in src_ids]
      if any(v is None for v in svals):
        continue
      n_checked += 1
      exp = {}
      for tup in zip(*svals):
        exp[tup] = exp.get(tup, 0) + 1
      gotd = {}
      for i in range(len(t["rows"])):
        tup = tuple(t["cols"][m["id"]][i] for m in gcols)
        gotd[tup] = gotd.get(tup, 0) + t["cols"]["count"][i]
      gotd = {k: v for k, v in gotd.items() if v}
      try:
        same = (gotd == exp and len(t["rows"]) == len(exp))
      except Exception:
        same = True
      if not same:
        bad.append("summary table %s has groups %r but T has %r" % (t["id"], sorted(gotd.items(), key=repr), sorted(exp.items(), key=repr)))
    else:
      for m in t["meta"]:
        mm = RE_LOOKN.match((m["formula"] or "").strip()) if m["isFormula"] else None
        if not mm or mm.group(2) not in t["cols"] or m["id"] not in t["cols"]:
          continue
        keys = colvals(mm.group(1))
        ktype = [x["type"] for x in t["meta"] if x["id"] == mm.group(2)]
        if keys is None or not all(_plain(v) for v in t["cols"][mm.group(2)]) or ktype != [by_id[mm.group(1)]["type"]]:
          continue
        n_checked += 1
        for r, g, v in zip(t["rows"], t["cols"][m["id"]], t["cols"][mm.group(2)]):
          e = count_eq(keys, v)
          if not same_value(g, e):
            bad.append("%s.%s[%d] = %r but %s gives %r (key column %r)" % (t["id"], m["id"], r, g, m["formula"], e, keys))
  return bad, n_checked


# ------------------------------------------------------------------------------- bundle description

def describe(bundle, before, res):
  """Concrete user actions -> descriptions over column REFS and actual row ids.
  Returns (descs, flags) ; flags: set of strings ('untieable:<why>', ...)."""
  name2ref = {c["id"]: c["ref"] for c in before["cols"]}
  types = {c["ref"]: c["type"] for c in before["cols"]}
  formula_refs = set(c["ref"] for c in before["cols"] if c["isFormula"])
  cur = dict(before["cells"])
  alive = set(before["rows"])
  descs = []
  flags = set()
  fresh = [20000]

  def ref_of(name):
    if name not in name2ref:
      fresh[0] += 1
      name2ref[name] = fresh[0]
    return name2ref[name]

  def do_add(rows, values, doc_level):
    supplied = {}
    for name, vals in values.items():
      if name == "manualSort":
        continue
      supplied[ref_of(name)] = list(vals)
    for i, r in enumerate(rows):
      alive.add(r)
      for ref in list(types):
        cur[(r, ref)] = DEFAULTS.get(types[ref].split(":")[0])
      for ref, vals in supplied.items():
        cur[(r, ref)] = vals[i]
    return {"k": "add", "rows": list(rows), "supplied": sorted(supplied), "doc": doc_level}

  def do_update(rows, values, doc_level):
    named = {}
    diff = set()
    for name, vals in values.items():
      if name == "manualSort":
        continue
      named[ref_of(name)] = list(vals)
    for ref, vals in named.items():
      for r, v in zip(rows, vals):
        old = cur.get((r, ref), DEFAULTS.get(types.get(ref, "Any").split(":")[0]))
        if old != v:      # exactly what trim_update_action compares
          diff.add((r, ref))
    for ref, vals in named.items():
      for r, v in zip(rows, vals):
        cur[(r, ref)] = v
    return {"k": "update", "rows": list(rows), "cols": sorted(named), "diff": sorted(diff), "doc": doc_level,
            "missing": [r for r in rows if r not in alive]}

  def do_remove(rows):
    for r in rows:
      alive.discard(r)
    return {"k": "remove", "rows": list(rows)}

  for i, ua in enumerate(bundle):
    name = ua[0]
    ret = res.ret[i] if (res is not None and res.ok and res.ret is not None and i < len(res.ret)) else None
    if name in ("AddRecord", "BulkAddRecord") and ua[1] == T:
      ids = [ua[2]] if name == "AddRecord" else list(ua[2])
      vals = {k: [v] for k, v in ua[3].items()} if name == "AddRecord" else ua[3]
      if ret is not None:
        ids = [ret] if name == "AddRecord" else list(ret)
      elif any(x is None for x in ids):
        flags.add("untieable:unknown new row ids")
        ids = [x for x in ids if x is not None]
      descs.append(do_add(ids, vals, False))
    elif name in ("UpdateRecord", "BulkUpdateRecord") and ua[1] == T:
      ids = [ua[2]] if name == "UpdateRecord" else list(ua[2])
      vals = {k: [v] for k, v in ua[3].items()} if name == "UpdateRecord" else ua[3]
      if any(ref_of(k) in formula_refs for k in vals):
        flags.add("untieable:update of a formula column")
      descs.append(do_update(ids, vals, False))
    elif name in ("RemoveRecord", "BulkRemoveRecord") and ua[1] == T:
      descs.append(do_remove([ua[2]] if name == "RemoveRecord" else list(ua[2])))
    elif name == "UpdateRecord" and ua[1] == "_grist_Tables_column" and set(ua[3]) <= {"recalcWhen", "recalcDeps"}:
      d = {"k": "config", "ref": ua[2]}
      if "recalcWhen" in ua[3]:
        d["when"] = ua[3]["recalcWhen"]
      if "recalcDeps" in ua[3]:
        v = ua[3]["recalcDeps"]
        d["deps"] = [int(x) for x in v[1:]] if v else []
      descs.append(d)
    elif name in ("RenameColumn", "ModifyColumn", "RemoveColumn", "AddColumn") and ua[1] == T:
      ref = ref_of(ua[2])
      if name == "RenameColumn":
        name2ref.pop(ua[2], None)
        name2ref[ua[3]] = ref
      elif name == "AddColumn":
        types[ref] = ua[3].get("type", "Any")
        for r in alive:
          cur[(r, ref)] = DEFAULTS.get(types[ref].split(":")[0])
      elif name == "ModifyColumn":
        if "type" in ua[3]:
          types[ref] = ua[3]["type"]
          flags.add("values converted")
        if "isFormula" in ua[3]:
          if ua[3]["isFormula"]:
            formula_refs.add(ref)
          else:
            formula_refs.discard(ref)
      descs.append({"k": "schema", "ref": ref, "what": name})
    elif name == "ApplyUndoActions":
      steps = []
      tie_ok = True
      for da in reversed(ua[1]):
        dn = da[0]
        if da[1] != T:
          if da[1] == "_grist_Tables_column" or dn in ("AddTable", "RemoveTable", "RenameTable"):
            tie_ok = False
            steps.append({"k": "meta"})
          continue
        if dn in ("AddRecord", "BulkAddRecord"):
          ids = [da[2]] if dn == "AddRecord" else list(da[2])
          vals = {k: [v] for k, v in da[3].items()} if dn == "AddRecord" else da[3]
          steps.append(do_add(ids, vals, True))
        elif dn in ("UpdateRecord", "BulkUpdateRecord"):
          ids = [da[2]] if dn == "UpdateRecord" else list(da[2])
          vals = {k: [v] for k, v in da[3].items()} if dn == "UpdateRecord" else da[3]
          steps.append(do_update(ids, vals, True))
        elif dn in ("RemoveRecord", "BulkRemoveRecord"):
          steps.append(do_remove([da[2]] if dn == "RemoveRecord" else list(da[2])))
        else:
          tie_ok = False
          steps.append({"k": "meta"})
      descs.append({"k": "doc", "steps": steps, "tie_ok": tie_ok})
    else:
      descs.append({"k": "other"})
  return descs, flags, cur


# ------------------------------------------------------------------------------- reference (oracle)

NO, MAY, MUST = 0, 1, 2


def reference(trig, descs, before, after, ups, tdep=None):
  """Independent reading of the property for trigger column `trig` (dict ref/when/deps as stored
  BEFORE the bundle).  Returns {row: dict(status, notes...)} for the rows alive after the bundle.
  `tdep` = {ref of ANOTHER trigger column: (rows of it the real engine recomputed in this bundle, those
  of them whose value the recomputation changed)}: what the clauses "changes value" / "written or
  recomputed" need to know about a recalcDeps cell that is itself a trigger cell (see TRIGGER
  DEPENDENCIES in the module docstring)."""
  c = trig["ref"]
  tdep = tdep or {}
  # user actions that name rows of T; a recomputation happens at the end of the bundle only, so it can
  # be attributed to a user action only when there is at most one such user action
  touching = [i for i, d in enumerate(descs) if d["k"] in ("add", "update", "remove") or
              (d["k"] == "doc" and any(s_["k"] in ("add", "update", "remove") for s_ in d["steps"]))]
  single_touch = len(touching) <= 1
  when, deps = trig["when"], list(trig["deps"])
  rows_after = set(after["rows"])
  st = {}          # row -> status
  info = {}        # row -> notes for classification
  n = len(descs)
  touched_before = {}    # row -> index of first user action mentioning it
  changed_cfg_or_schema = False

  def note(r):
    return info.setdefault(r, {"prot_at": None, "prot_kind": None, "prot_same": False, "prot_trim": False, "stale": False,
                               "readd": False, "trig_at": None, "trig_seen": False, "trig_with_prot": False, "tdep_must": False})

  def upstream_writes(r, f):
    k = 0
    for d in descs:
      ds = d["steps"] if d["k"] == "doc" else [d]
      if any(s["k"] == "update" and r in s["rows"] and any((r, x) in set(map(tuple, s["diff"])) for x in ups.get(f, ()))
             for s in ds):
        k += 1
    return k

  for i, d in enumerate(descs):
    selfdep = (when == 0 and c in deps)
    steps = d["steps"] if d["k"] == "doc" else [d]
    prot, must, may = set(), set(), set()
    for s in steps:
      k = s["k"]
      if k in ("add", "update", "remove"):
        for r in s["rows"]:
          if r in touched_before and touched_before[r] < i and k == "add":
            note(r)["readd"] = True
          touched_before.setdefault(r, i)
          if changed_cfg_or_schema:
            note(r)["stale"] = True
      if k == "add":
        for r in s["rows"]:
          if s["doc"]:
            prot.add(r); note(r)["prot_kind"] = "docadd"
          elif c in s["supplied"] and not selfdep:
            prot.add(r); note(r)["prot_kind"] = "add"
          elif when != 1 and (c not in s["supplied"] or selfdep):
            must.add(r)
      elif k == "update":
        diff = set(map(tuple, s["diff"]))
        for r in s["rows"]:
          if c in s["cols"] and (s["doc"] or not selfdep):
            prot.add(r)
            nt = note(r)
            nt["prot_kind"] = "docupdate" if s["doc"] else "update"
            nt["prot_same"] = (r, c) not in diff
            # what trim_update_action does to a user-requested update: the column is dropped when no
            # row of the request changes it, the row when none of its (remaining) cells changes; only
            # then the doc action - which sets the exemption - does not name the cell
            nt["prot_trim"] = (not s["doc"]) and (all((r2, c) not in diff for r2 in s["rows"])
                                                   or all((r, x) not in diff for x in s["cols"]))
          if when == 0:
            for dep in deps:
              if dep in s["cols"]:
                if (r, dep) in diff:
                  must.add(r)
                else:
                  may.add(r)
              elif dep in ups and any(x in s["cols"] for x in ups[dep]):
                fv_b = before["cells"].get((r, dep), "<none>")
                fv_a = after["cells"].get((r, dep), "<none>")
                if any((r, x) in diff for x in ups[dep]) and fv_b != fv_a and upstream_writes(r, dep) == 1:
                  must.add(r)
                else:
                  may.add(r)
              elif dep != c and dep in tdep and r in tdep[dep][0]:
                # a recalcDeps cell that is a trigger cell and was RECOMPUTED (at the end of the bundle)
                if single_touch and r in tdep[dep][1]:
                  must.add(r); note(r)["tdep_must"] = True
                else:
                  may.add(r)
          elif when == 2 and not s["doc"]:
            if any((r, x) in diff for x in s["cols"]):
              must.add(r)
    if d["k"] == "doc" and not d["tie_ok"]:
      # the undo of a schema change (e.g. of a type conversion) restores converted values by record
      # doc actions next to the schema doc actions: part of the schema change, in neither clause
      may |= must
      must = set()
    if d["k"] == "config" and d["ref"] == c:
      when = d.get("when", when)
      deps = d.get("deps", deps)
      changed_cfg_or_schema = True
    elif d["k"] == "config":
      pass
    elif d["k"] == "schema":
      changed_cfg_or_schema = True
    elif d["k"] == "doc" and not d["tie_ok"]:
      changed_cfg_or_schema = True
    for r in must | may:
      note(r)["trig_seen"] = True
    for r in prot:
      st[r] = NO
      note(r)["prot_at"] = i
      note(r)["trig_with_prot"] = r in must or r in may
    for r in must - prot:
      st[r] = MUST
      note(r)["trig_at"] = i
    for r in may - prot - must:
      if st.get(r, NO) != MUST:
        st[r] = MAY
  if when == 0:
    named = set()
    for d in descs:
      for s in (d["steps"] if d["k"] == "doc" else [d]):
        if s["k"] in ("add", "update"):
          named.update(s["rows"])
    for dep in deps:
      if dep == c or dep not in tdep:
        continue
      for r in tdep[dep][0]:
        # recomputed in a row that no UPDATE of this bundle handled above (no user action names the row,
        # or several do): the recalcDeps cell was recomputed, so the row is not in the "never" clause;
        # it is in the "whenever" clause if nothing of the bundle set the trigger cell and the value changed
        if r in named and single_touch:
          continue
        if r not in named and r in tdep[dep][1]:
          st[r] = MUST
          note(r)["tdep_must"] = True
        elif st.get(r, NO) == NO and note(r)["prot_at"] is None:
          st[r] = MAY
  out = {}
  for r in rows_after:
    out[r] = dict(note(r), status=st.get(r, NO), n=n)
  return out


SIG_EXPLICIT = "explicit value set in the last user action of the bundle was recalculated"


def exempt_by_last(nt):
  """The LAST user action of the bundle sets the cell through a record update that reaches the doc
  action (not trimmed away): the engine holds an exemption for it when it recalculates.  None of the
  recorded findings overrides such an exemption (they are about exemptions that were never set, were
  cleared by a later user action, or about which cells get invalidated), so a recalculation of such a
  cell is never attributed to one of them."""
  return nt["prot_kind"] in ("update", "docupdate") and nt["prot_at"] == nt["n"] - 1 and not nt["prot_trim"]


def classify_extra(nt, trig_before, in_residue=False):
  """A cell was evaluated although the reference says it must not be: which (known) shape?  Each
  recorded finding is named only when its own recorded condition holds."""
  last = nt["n"] - 1
  if exempt_by_last(nt):
    return SIG_EXPLICIT
  if in_residue:
    return SIG_FAILED
  if nt["readd"]:
    return SIG_READD
  if nt["stale"]:
    return SIG_STALE
  if nt["prot_kind"] in ("add", "docadd") and trig_before["when"] == 0 and trig_before["deps"] \
     and (nt["prot_kind"] == "docadd" or trig_before["ref"] not in trig_before["deps"]):
    return SIG_ADD
  if nt["prot_kind"] in ("update", "docupdate") and nt["prot_at"] is not None and nt["prot_at"] < last and nt["trig_seen"]:
    return SIG_LAST
  if nt["prot_kind"] == "update" and nt["prot_trim"]:
    return SIG_TRIM
  if nt["prot_kind"] is None:
    return "cell recalculated although no recalcDeps cell of the row was written or recomputed and the row was not updated"
  if nt["prot_kind"] in ("add", "docadd"):
    return ("value supplied for a new record is recalculated outside the recorded condition (recalcWhen not DEFAULT, or "
            "recalcDeps empty or containing the column itself)")
  return "explicit value set by an earlier user action was recalculated although nothing triggered the cell"


def classify_missing(nt):
  if nt["stale"]:
    return SIG_STALE
  return "cell not recalculated although the configuration demands it"


# ------------------------------------------------------------------------------- model ops

def model_op(trig, descs, before, ups):
  """Abstraction of the bundle for the Lean model; None when outside what the model represents."""
  c = trig["ref"]
  seen_schema = False
  b = []
  for d in descs:
    k = d["k"]
    if k in ("add", "update", "remove", "doc") and seen_schema:
      return None
    if k == "add":
      b.append(["add", d["rows"], d["supplied"]])
    elif k == "update":
      b.append(["update", d["rows"], d["cols"], [list(x) for x in d["diff"]]])
    elif k == "remove":
      b.append(["remove", d["rows"]])
    elif k == "config":
      if d["ref"] == c:
        when = d.get("when", None)
        deps = d.get("deps", None)
        # the live configuration keeps the field that is not named
        prev = [x for x in b if x[0] == "setConfig"]
        base_when = prev[-1][1] if prev else trig["when"]
        base_deps = prev[-1][2] if prev else trig["deps"]
        b.append(["setConfig", base_when if when is None else when, base_deps if deps is None else deps])
      else:
        b.append(["schema", d["ref"]])
    elif k == "schema":
      seen_schema = True
      b.append(["schema", d["ref"]])
    elif k == "doc":
      if not d["tie_ok"]:
        return None
      steps = []
      for s in d["steps"]:
        if s["k"] == "add":
          steps.append(["add", s["rows"]])
        elif s["k"] == "update":
          steps.append(["update", s["rows"], s["cols"]])
        elif s["k"] == "remove":
          steps.append(["remove", s["rows"]])
      b.append(["doc", steps])
    else:
      b.append(["schema", 0])
  edges = list(trig["deps"]) if trig["when"] == 0 else []
  return {"m": "trigger", "c": c, "ups": [[f, sorted(u)] for f, u in sorted(ups.items())],
          "cfg": [trig["when"], list(trig["deps"])], "edges": edges, "alive": list(before["rows"]), "dirty": [], "bundle": b}


# ------------------------------------------------------------------------------- one bundle: observe + judge

class Judge(object):
  """Collects findings / tie ops for one history."""
  def __init__(self):
    self.findings = []     # (signature, detail, bundle index)
    self.ops = []          # (op, evaluated rows, bundle index, trig ref, failed)
    self.py_spec = []      # parallel to ops: (must rows, may rows)
    self.stats = {}
    self.nontrivial = []
    self.samples = []

  def count(self, k, n=1):
    self.stats[k] = self.stats.get(k, 0) + n


def judge_bundle(live, bundle, J, bi):
  before = live.read()
  res = live.apply(bundle)
  trace = list(live.trace)
  J.count("bundles")
  residue, live.residue = live.residue, set()
  if before is None:
    return res
  after = live.read()
  descs, flags, cur = describe(bundle, before, res)
  if not res.ok:
    for d in descs:
      for s_ in (d["steps"] if d["k"] == "doc" else [d]):
        live.residue.update(s_.get("rows", ()))
  if residue:
    flags.add("after failed bundle")
  ups = compute_ups(before["cols"])
  trigs = [c for c in before["cols"] if is_trigger(c) and c["deps"] != "bad"]
  for d in descs:
    J.count("ua:" + d["k"])
  if not res.ok:
    J.count("failed:" + res.error[0])
    if trace and after is not None and before["cells"] != after["cells"]:
      J.findings.append(("failed bundle changed trigger cells", "bundle %r error %r" % (bundle, res.error), bi))
    # tie on rejection: pure record bundles the model rejects / accepts
    if all(d["k"] in ("add", "update", "remove") for d in descs) and not flags and trigs:
      op = model_op(trigs[0], descs, before, ups)
      if op is not None:
        J.ops.append((op, None, bi, trigs[0]["ref"], True))
        J.py_spec.append(None)
    return res
  if after is None:
    return res
  aux = live.read_aux()
  bad, nchk = check_readers(after, aux)
  J.count("reader_columns_checked", nchk)
  if bad:
    J.findings.append((SIG_READER, "%s; bundle %r" % ("; ".join(bad[:3]), bundle), bi))
  nested = {}
  for (cid, hit) in live.nested:
    nested[cid] = nested.get(cid, False) or hit
  name2ref_after = {c["id"]: c["ref"] for c in after["cols"]}
  ev = {}
  for (cid, r) in trace:
    ref = name2ref_after.get(cid)
    if ref is not None:
      ev.setdefault(ref, []).append(r)
  after_by_ref = {c["ref"]: c for c in after["cols"]}
  interesting = False
  # what happened to each trigger column (REAL outcome): rows recomputed, rows whose value that changed
  tinfo = {}
  for t_ in trigs:
    d_ = t_["ref"]
    if d_ in after_by_ref and is_trigger(after_by_ref[d_]):
      ed_ = set(ev.get(d_, []))
      tinfo[d_] = (ed_, set(r for r in ed_ if not same_value(cur.get((r, d_), "<none>"), after["cells"].get((r, d_), "<none>"))))
  refs = {}
  for trig in trigs:
    c = trig["ref"]
    if c not in after_by_ref or not is_trigger(after_by_ref[c]):
      continue
    has_tdep = trig["when"] == 0 and any(d_ != c and d_ in tinfo for d_ in trig["deps"])
    rows_ev = ev.get(c, [])
    if len(rows_ev) != len(set(rows_ev)):
      J.findings.append(("trigger cell evaluated more than once in one bundle",
                         "column %s rows %r bundle %r" % (trig["id"], rows_ev, bundle), bi))
    E = set(rows_ev)
    ref = reference(trig, descs, before, after, ups, tinfo)
    refs[c] = ref
    if has_tdep:
      J.count("tdep_cells_judged", len(ref))
      J.count("tdep_cells_must_not", sum(1 for nt in ref.values() if nt["status"] == NO))
      J.count("tdep_cells_must_because_trigger_dep_recomputed", sum(1 for nt in ref.values() if nt["tdep_must"]))
    must = set(r for r, nt in ref.items() if nt["status"] == MUST)
    may = set(r for r, nt in ref.items() if nt["status"] in (MAY, MUST))
    J.count("cells_judged", len(ref))
    J.count("cells_must", len(must))
    J.count("cells_evaluated", len(E))
    cfgs = "%s deps=%r%s" % (WHEN_NAME.get(trig["when"], trig["when"]), trig["deps"],
                             " (self)" if c in trig["deps"] else "")
    for r in sorted(E - may):
      if r not in ref:
        J.findings.append(("evaluated a row that does not exist after the bundle", "row %r" % r, bi))
        continue
      sig = classify_extra(ref[r], trig, r in residue)
      J.findings.append((sig, "column %s [%s] row %d evaluated; bundle %r" % (trig["id"], cfgs, r, bundle), bi))
    for r in sorted(must - E):
      sig = classify_missing(ref[r])
      J.findings.append((sig, "column %s [%s] row %d NOT evaluated; bundle %r" % (trig["id"], cfgs, r, bundle), bi))
    # observability cross-check: the counter formula shows each evaluation in the value
    if "values converted" not in flags and after_by_ref[c]["formula"] == trig["formula"] \
       and after_by_ref[c]["type"] == trig["type"]:
      for r in after["rows"]:
        base = cur.get((r, c))
        got = after["cells"].get((r, c))
        exp = bump(base, trig) if r in E else base
        if exp is not NotImplemented and not same_value(got, exp):
          J.findings.append(("trigger cell value inconsistent with the evaluations observed",
                             "column %s row %d: value %r, expected %r (base %r, evaluated=%s); bundle %r" % (
                               trig["id"], r, got, exp, base, r in E, bundle), bi))
    if must or any(nt["prot_at"] is not None for nt in ref.values()):
      interesting = True
    # coverage: the situation "the last user action sets the cell AND triggers it", by reader kind
    xt = [r for r, nt in ref.items() if exempt_by_last(nt) and nt["trig_with_prot"]]
    if trig["id"] in nested:
      J.count("nested_first_visit_of_trigger_column")
      if nested[trig["id"]]:
        J.count("nested_first_visit_with_exempt_dirty_rows")
    if xt:
      kinds = reader_kinds(trig, before["cols"], aux)
      J.count("xt_cells", len(xt))
      J.count("xt_bundles")
      J.count("xt_mode:" + WHEN_NAME.get(trig["when"], "?"))
      for k in sorted(kinds) or ["none"]:
        J.count("xt_reader:" + k)
      if nested.get(trig["id"]):
        J.count("xt_with_nested_first_visit")
        for k in sorted(kinds & FIRST_KINDS):
          J.count("xt_nested:" + k)
    elif any(nt["prot_at"] == nt["n"] - 1 and nt["prot_kind"] in ("add", "docadd") for nt in ref.values()):
      kinds = reader_kinds(trig, before["cols"], aux)
      for k in sorted(kinds) or ["none"]:
        J.count("xadd_reader:" + k)
    op = None if (flags - {"values converted"} or has_tdep) else model_op(trig, descs, before, ups)
    if "after failed bundle" in flags:
      J.count("bundles_after_failed")
    if has_tdep:
      # the model has ONE trigger column per op: a recalcDeps column that is itself a trigger column is
      # outside what it represents (direct oracle only)
      J.count("tie_skipped_trigger_dep")
    elif op is None:
      J.count("tie_skipped")
    else:
      J.ops.append((op, sorted(E), bi, c, False))
      J.py_spec.append((sorted(must), sorted(may)))
  lookup_coverage(J, trigs, refs, before, after, live.last_aux, aux)
  live.last_aux = aux
  if interesting:
    J.nontrivial.append(json.dumps(bundle, sort_keys=True, default=str))
    if len(J.samples) < 2:
      J.samples.append({"bundle": bundle, "evaluated": {str(k): sorted(set(v)) for k, v in ev.items()}})
  return res


RE_TLOOK = re.compile(r"\b(\w+)\.lookup(?:One|Records)\((\w+)=\$(\w+)\)")
_MISSING = ("<missing>",)


def lookup_coverage(J, trigs, refs, before, after, aux_before, aux_after):
  """COVERAGE ONLY (no verdict depends on it): trigger cells whose FORMULA looked up a key of which this
  bundle changed the key set in the looked-up table (a record with that key was added, removed, or got /
  lost the key), and how many of them - and of the trigger cells that list them in recalcDeps - the
  reference puts into the "never" clause for this bundle."""
  looks = [(t, RE_TLOOK.search(t["formula"] or "")) for t in trigs]
  looks = [(t, m) for (t, m) in looks if m]
  if not looks:
    return
  J.count("lk_bundles")
  b_id = {c["id"]: c["ref"] for c in before["cols"]}
  a_id = {c["id"]: c["ref"] for c in after["cols"]}
  alive = [r for r in after["rows"] if r in set(before["rows"])]
  def keymaps(tid, kc):
    if tid == T:
      if kc not in b_id or kc not in a_id:
        return None
      return ({r: before["cells"].get((r, b_id[kc])) for r in before["rows"]},
              {r: after["cells"].get((r, a_id[kc])) for r in after["rows"]})
    out = []
    for aux in (aux_before, aux_after):
      t = [x for x in aux if x["id"] == tid]
      out.append(dict(zip(t[0]["rows"], t[0]["cols"].get(kc, []))) if t else {})
    return tuple(out)
  hits = {}
  for (t, m) in looks:
    km = keymaps(m.group(1), m.group(2))
    src = m.group(3)
    if km is None or src not in b_id or src not in a_id:
      continue
    kb, ka = km
    affected = set()
    for r in set(kb) | set(ka):
      x, y = kb.get(r, _MISSING), ka.get(r, _MISSING)
      if not same_value(x, y) or type(x) != type(y):
        affected.update(v for v in (x, y) if v is not _MISSING and _plain(v))
    if not affected:
      continue
    rows = set(r for r in alive if before["cells"].get((r, b_id[src])) in affected or after["cells"].get((r, a_id[src])) in affected)
    if rows:
      hits[t["ref"]] = rows
  if not hits:
    return
  J.count("lk_keychange_bundles")
  for d, rows in hits.items():
    J.count("lk_keychange_lookup_cells", len(rows))
    rd = refs.get(d, {})
    J.count("lk_keychange_lookup_cells_must_not", sum(1 for r in rows if r in rd and rd[r]["status"] == NO))
    for t in trigs:
      if t["when"] != 0 or d not in t["deps"]:
        continue
      rc = refs.get(t["ref"], {})
      n = sum(1 for r in rows if r in rc and rc[r]["status"] == NO)
      J.count("lk_keychange_selfdep_cells_must_not" if t["ref"] == d else "lk_keychange_dependent_cells_must_not", n)


def bump(base, trig):
  f = trig["formula"]
  try:
    if f in LK_COUNTERS:
      return (base or 0) + 1
    if f == FORM_INT:
      return (base or 0) + 1
    if f == FORM_TXT:
      return (base or "") + "!"
  except TypeError:
    return NotImplemented
  return NotImplemented


def same_value(a, b):
  try:
    return a == b
  except Exception:
    return False


# ------------------------------------------------------------------------------- generation

FORM_INT = "(value or 0) + 1"
FORM_TXT = "(value or '') + '!'"
# trigger formulas that PERFORM a lookup (into the other table K, or into T itself)
FORM_LKC = "(value or 0) + 1 + 0 * len(K.lookupRecords(k=$A))"
FORM_LKV = "K.lookupOne(k=$A).v"
FORM_LKN = "len(K.lookupRecords(k=$A))"
FORM_LSC = "(value or 0) + 1 + 0 * T.lookupOne(A=$C).id"
FORM_LSV = "T.lookupOne(A=$C).C"
LK_FORMULAS = (FORM_LKC, FORM_LKV, FORM_LKN, FORM_LSC, FORM_LSV)
LK_COUNTERS = (FORM_LKC, FORM_LSC)
FORMULA_TEMPLATES = ["$%s * 2", "($%s or 0) + 1", "$%s + $%s", "$%s * 0 + 7", "min($%s, 3)"]


class Gen(object):
  def __init__(self, rng):
    self.rng = rng
    self.n = 0
    self.last = None     # (kind, raw_undo) of the previous successful bundle

  def name(self, p):
    self.n += 1
    return "%s%d" % (p, self.n)

  def setup(self, live, J, trig_specs=None):
    rng = self.rng
    cols = [{"id": "A", "type": "Int", "isFormula": False, "formula": ""},
            {"id": "C", "type": "Int", "isFormula": False, "formula": ""},
            {"id": "D", "type": "Text", "isFormula": False, "formula": ""},
            {"id": "F", "type": "Int", "isFormula": True, "formula": "$A * 2"},
            {"id": "G", "type": "Int", "isFormula": True, "formula": "min($C, 3)"},
            {"id": "H", "type": "Int", "isFormula": True, "formula": "$F + 1"}]
    judge_bundle(live, [["AddTable", T, cols]], J, len(live.log))
    if trig_specs is None:
      trig_specs = []
      for _ in range(rng.choice([1, 2, 2, 3])):
        trig_specs.append({"when": rng.choice([0, 0, 0, 1, 2, 2]),
                           "deps": rng.choice([[], ["A"], ["F"], ["A", "C"], ["self"], ["A", "self"], ["H", "D"],
                                               ["G"], ["C", "F", "self"]]),
                           "text": rng.random() < 0.25})
    random_readers = any("readers" not in ts for ts in trig_specs)
    for ts in trig_specs:
      ts["col"] = self.add_trigger(live, J, ts)
    if random_readers and rng.random() < 0.8:
      # readers of the trigger columns: 1-3 kinds per column, at most one summary table per document
      pool = list(READER_KINDS)
      for ts in trig_specs:
        if rng.random() < 0.8:
          ts["readers"] = rng.sample(pool, rng.choice([1, 1, 2, 3]))
          if "summary" in ts["readers"]:
            pool.remove("summary")
    for ts in trig_specs:
      if ts.get("col"):
        self.add_readers(live, J, ts["col"], ts.get("readers") or [])
    st = live.read()
    n = rng.choice([0, 2, 3, 4])
    if n:
      judge_bundle(live, [["BulkAddRecord", T, [None] * n,
                           {"A": [rng.randint(0, 5) for _ in range(n)], "C": [rng.randint(0, 5) for _ in range(n)]}]],
                   J, len(live.log))

  def add_trigger(self, live, J, ts):
    rng = self.rng
    nm = self.name("B")
    info = {"type": "Text" if ts.get("text") else "Int", "isFormula": False,
            "formula": FORM_TXT if ts.get("text") else FORM_INT, "recalcWhen": ts["when"]}
    st = live.read()
    by_id = {c["id"]: c["ref"] for c in st["cols"]}
    names = [d for d in ts["deps"] if d != "self" and d in by_id]
    if names and "self" not in ts["deps"] and rng.random() < 0.5:
      # the encoding DuplicateTable uses: one bulk value holding the encoded list
      info["recalcDeps"] = [["L"] + [by_id[d] for d in names]]
      res = judge_bundle(live, [["AddColumn", T, nm, info]], J, len(live.log))
      return nm if res.ok else None
    res = judge_bundle(live, [["AddColumn", T, nm, info]], J, len(live.log))
    if not res.ok:
      return None
    if not ts["deps"]:
      return nm
    ref = res.ret[0]["colRef"]
    deps = [by_id[d] for d in names] + ([ref] if "self" in ts["deps"] else [])
    judge_bundle(live, [["UpdateRecord", "_grist_Tables_column", ref, {"recalcDeps": ["L"] + deps}]], J, len(live.log))
    return nm

  def add_readers(self, live, J, b, kinds):
    """Readers of the trigger column `b`.  Column ids starting with "A?" sort before every trigger
    column id ("B<n>", or "R<n>" after a rename), ids starting with "Z" after all of them."""
    def col(name, formula):
      judge_bundle(live, [["AddColumn", T, name, {"type": "Any", "isFormula": True, "formula": formula}]], J, len(live.log))
    for k in kinds:
      J.count("doc_reader:" + k)
      if k == "before":
        col(self.name("Ab"), "$%s" % b)
      elif k == "after":
        col(self.name("Z"), "$%s" % b)
      elif k == "chain":
        # Aa < b < Zc : Aa is evaluated first, pulls Zc up, which pulls b up (nested in nested)
        z = self.name("Zc")
        col(z, "$%s" % b)
        col(self.name("Aa"), "$%s" % z)
      elif k == "chain2":
        # Ac < Ad < b
        d = self.name("Ad")
        col(d, "$%s" % b)
        col(self.name("Ac"), "$%s" % d)
      elif k == "lookup":
        col(self.name("Zl"), "len(T.lookupRecords(%s=$%s))" % (b, b))
      elif k == "lookup1":
        col(self.name("Am"), "T.lookupOne(%s=$%s).id" % (b, b))
      elif k == "lookupA":
        st = live.read()
        typ = [c["type"] for c in st["cols"] if c["id"] == b][0]
        col(self.name("Zk"), "len(T.lookupRecords(%s=$%s))" % (b, "A" if typ == "Int" else "D"))
      elif k == "other":
        st = live.read()
        typ = [c["type"] for c in st["cols"] if c["id"] == b][0]
        u = self.name("U")
        judge_bundle(live, [["AddTable", u, [{"id": "k", "type": typ, "isFormula": False, "formula": ""},
                                             {"id": "n", "type": "Any", "isFormula": True,
                                              "formula": "len(T.lookupRecords(%s=$k))" % b}]]], J, len(live.log))
        ks = [0, 1, 2, 3, 5, 10, 50] if typ == "Int" else ["", "!", "x", "x!", "foo", "y"]
        judge_bundle(live, [["BulkAddRecord", u, [None] * len(ks), {"k": ks}]], J, len(live.log))
      elif k == "summary":
        st = live.read()
        bref = [c["ref"] for c in st["cols"] if c["id"] == b]
        tref = [t["id"] for t in live.doc.meta("_grist_Tables") if t["tableId"] == T]
        if bref and tref:
          judge_bundle(live, [["CreateViewSection", tref[0], 0, "record", [bref[0]], None]], J, len(live.log))

  # ---- values
  def value(self, col, st, row=None, same_p=0.3):
    rng = self.rng
    if row is not None and rng.random() < same_p and (row, col["ref"]) in st["cells"]:
      v = st["cells"][(row, col["ref"])]
      if isinstance(v, (int, float, str)) and not isinstance(v, bool):
        return v
    base = col["type"].split(":")[0]
    if base == "Int":
      return rng.choice([0, 1, 2, 3, 5, 10, rng.randint(-3, 40)])
    if base == "Numeric":
      return rng.choice([0.5, 1.5, 2.0, 7.25, float(rng.randint(0, 9))])
    if base == "Text":
      return rng.choice(["", "x", "y", "foo", "Bar", "12"])
    return rng.choice([1, 2, 3])

  def writable(self, st):
    return [c for c in st["cols"] if not c["isFormula"] and c["type"].split(":")[0] in ("Int", "Numeric", "Text")]

  def pick_cols(self, st, p_trig=0.4):
    rng = self.rng
    plain = [c for c in self.writable(st) if not is_trigger(c)]
    trig = [c for c in self.writable(st) if is_trigger(c)]
    out = [c for c in plain if rng.random() < 0.45]
    out += [c for c in trig if rng.random() < p_trig]
    if not out and plain + trig:
      out = [rng.choice(plain + trig)]
    return out

  def ua_add(self, st, bulk=False, explicit_ids=None):
    rng = self.rng
    cols = self.pick_cols(st, 0.3) if rng.random() < 0.9 else []
    if bulk:
      n = rng.randint(2, 3)
      ids = explicit_ids or [None] * n
      return ["BulkAddRecord", T, ids, {c["id"]: [self.value(c, st) for _ in ids] for c in cols}]
    return ["AddRecord", T, (explicit_ids[0] if explicit_ids else None), {c["id"]: self.value(c, st) for c in cols}]

  def ua_update(self, st, bulk=False, rows=None):
    rng = self.rng
    if not st["rows"]:
      return None
    cols = self.pick_cols(st)
    if not cols:
      return None
    if bulk:
      rows = rows or rng.sample(st["rows"], min(len(st["rows"]), rng.randint(2, 3)))
      same_p = rng.choice([0.2, 0.5, 0.8])
      return ["BulkUpdateRecord", T, rows, {c["id"]: [self.value(c, st, r, same_p) for r in rows] for c in cols}]
    r = rows[0] if rows else rng.choice(st["rows"])
    same_p = rng.choice([0.1, 0.4])
    return ["UpdateRecord", T, r, {c["id"]: self.value(c, st, r, same_p) for c in cols}]

  def ua_explicit_dep(self, st, bulk=False):
    """One update that changes something the trigger column reacts to (a recalcDeps column, the data
    column under a formula dependency; any plain column for MANUAL_UPDATES / NEVER / no deps) AND
    sets the trigger column explicitly."""
    rng = self.rng
    trigs = [c for c in self.writable(st) if is_trigger(c)]
    if not trigs or not st["rows"]:
      return None
    c = rng.choice(trigs)
    by_ref = {x["ref"]: x for x in st["cols"]}
    plain = [x for x in self.writable(st) if not is_trigger(x)]
    ups = compute_ups(st["cols"])
    causes = []
    if c["when"] == 0 and isinstance(c["deps"], list):
      for d in c["deps"]:
        if d in by_ref and d != c["ref"]:
          causes += [by_ref[x] for x in ups.get(d, ())] if by_ref[d]["isFormula"] else [by_ref[d]]
    causes = [x for x in causes if x in plain] or plain
    if not causes:
      return None
    cause = rng.choice(causes)
    cols = [cause, c] + [x for x in plain + trigs if x is not cause and x is not c and rng.random() < 0.15]
    rows = rng.sample(st["rows"], min(len(st["rows"]), rng.randint(2, 3))) if bulk else [rng.choice(st["rows"])]
    def fresh(col, r):
      for _ in range(6):
        v = self.value(col, st, None)
        if v != st["cells"].get((r, col["ref"])):
          return v
      return v
    vals = {}
    for x in cols:
      vals[x["id"]] = [fresh(x, r) if (x is cause or x is c) and rng.random() < 0.85 else self.value(x, st, r, 0.5) for r in rows]
    if bulk:
      return ["BulkUpdateRecord", T, rows, vals]
    return ["UpdateRecord", T, rows[0], {k: v[0] for k, v in vals.items()}]

  def ua_remove(self, st):
    rng = self.rng
    if not st["rows"]:
      return None
    if rng.random() < 0.3 and len(st["rows"]) > 1:
      return ["BulkRemoveRecord", T, rng.sample(st["rows"], 2)]
    return ["RemoveRecord", T, rng.choice(st["rows"])]

  def ua_config(self, st):
    rng = self.rng
    trigs = [c for c in st["cols"] if is_trigger(c)]
    if not trigs:
      return None
    c = rng.choice(trigs)
    cands = [x for x in st["cols"] if not is_trigger(x) and not reads_trigger(x, st["cols"])]
    vals = {}
    if rng.random() < 0.6:
      vals["recalcWhen"] = rng.choice([0, 0, 1, 2])
    if rng.random() < 0.7 or not vals:
      deps = [x["ref"] for x in cands if rng.random() < 0.3]
      if rng.random() < 0.3:
        deps.append(c["ref"])
      vals["recalcDeps"] = (["L"] + deps) if deps else None
    return ["UpdateRecord", "_grist_Tables_column", c["ref"], vals]

  def ua_schema(self, st):
    rng = self.rng
    cols = st["cols"]
    plain = [c for c in cols if not c["isFormula"] and not is_trigger(c)]
    forms = [c for c in cols if c["isFormula"]]
    trigs = [c for c in cols if is_trigger(c)]
    k = rng.choice(["rename", "rename", "type", "type", "formula", "addcol", "rmcol", "trigformula", "addtrig", "rmtrig",
                    "todata", "toformula"])
    if k == "rename":
      c = rng.choice(cols)
      return ["RenameColumn", T, c["id"], self.name("R")]
    if k == "type" and plain:
      c = rng.choice(plain)
      return ["ModifyColumn", T, c["id"], {"type": rng.choice([t for t in ("Int", "Numeric", "Text") if t != c["type"]])}]
    if k == "formula" and forms and plain:
      c = rng.choice(forms)
      t = rng.choice(FORMULA_TEMPLATES)
      num = [p for p in plain if p["type"] in ("Int", "Numeric")] or plain
      return ["ModifyColumn", T, c["id"], {"formula": t % tuple(rng.choice(num)["id"] for _ in range(t.count("%s")))}]
    if k == "addcol":
      return ["AddColumn", T, self.name("P"), {"type": rng.choice(["Int", "Text"]), "isFormula": False, "formula": ""}]
    if k == "rmcol" and len(plain) > 2:
      c = rng.choice(plain)
      used = any(re.search(r"\$%s\b" % re.escape(c["id"]), f["formula"] or "") for f in forms)
      if not used:
        return ["RemoveColumn", T, c["id"]]
    if k == "trigformula" and trigs:
      c = rng.choice(trigs)
      return ["ModifyColumn", T, c["id"], {"formula": c["formula"] + " "}]
    if k == "rmtrig" and len(trigs) > 1:
      return ["RemoveColumn", T, rng.choice(trigs)["id"]]
    if k == "todata" and len(forms) > 1:
      c = rng.choice(forms)
      used = any(re.search(r"\$%s\b" % re.escape(c["id"]), f["formula"] or "") for f in forms if f is not c)
      if not used:
        return ["ModifyColumn", T, c["id"], {"isFormula": False, "formula": ""}]
    if k == "toformula" and len(plain) > 2:
      c = rng.choice(plain)
      others = [p for p in plain if p is not c and p["type"] in ("Int", "Numeric")]
      used = any(re.search(r"\$%s\b" % re.escape(c["id"]), f["formula"] or "") for f in forms)
      if others and not used and c["type"] in ("Int", "Numeric"):
        return ["ModifyColumn", T, c["id"], {"isFormula": True, "formula": "$%s + 1" % rng.choice(others)["id"]}]
    return ["AddColumn", T, self.name("P"), {"type": "Int", "isFormula": False, "formula": ""}]

  def record_ua(self, st):
    rng = self.rng
    k = rng.choice(["add", "add", "badd", "upd", "upd", "upd", "bupd", "bupd", "rm", "xdep", "xdep", "bxdep"])
    if k in ("xdep", "bxdep"):
      return self.ua_explicit_dep(st, bulk=(k == "bxdep")) or self.ua_update(st)
    if k == "add":
      return self.ua_add(st)
    if k == "badd":
      return self.ua_add(st, bulk=True)
    if k == "upd":
      return self.ua_update(st)
    if k == "bupd":
      return self.ua_update(st, bulk=True)
    return self.ua_remove(st)

  def bundle(self, live, st):
    """Returns (kind, bundle)."""
    rng = self.rng
    x = rng.random()
    if x < 0.44:
      ua = self.record_ua(st)
      return ("records", [ua]) if ua else None
    if x < 0.60:
      uas = [self.record_ua(st) for _ in range(rng.choice([2, 2, 3]))]
      uas = [u for u in uas if u]
      # later actions must not refer to rows removed earlier in the bundle
      gone = set()
      out = []
      for u in uas:
        ids = u[2] if isinstance(u[2], list) else [u[2]]
        if u[0] in ("UpdateRecord", "BulkUpdateRecord", "RemoveRecord", "BulkRemoveRecord") and any(i in gone for i in ids):
          continue
        if u[0] in ("RemoveRecord", "BulkRemoveRecord"):
          gone.update(ids)
        out.append(u)
      return ("records", out) if out else None
    if x < 0.66:
      ua = self.ua_config(st)
      return ("config", [ua]) if ua else None
    if x < 0.76:
      return ("schema", [self.ua_schema(st)])
    if x < 0.81:
      # a configuration / schema change followed by record edits in the SAME bundle
      first = self.ua_config(st) if rng.random() < 0.6 else self.ua_schema(st)
      if first is None or first[0] in ("RemoveColumn",) or (first[0] == "ModifyColumn" and "isFormula" in first[3]):
        return None
      if first[0] == "RenameColumn":
        st = copy.deepcopy(st)
        for c in st["cols"]:
          if c["id"] == first[2]:
            c["id"] = first[3]
      if first[0] == "ModifyColumn" and "type" in first[3]:
        return None
      ua = self.record_ua(st)
      return ("mixed", [first, ua]) if ua else None
    if x < 0.86:
      # record edits, then a non-record user action in the same bundle
      ua = self.record_ua(st)
      tail = rng.choice([["AddTable", self.name("X"), [{"id": "a", "type": "Int", "isFormula": False, "formula": ""}]],
                         self.ua_config(st), ["AddColumn", T, self.name("P"), {"type": "Int", "isFormula": False, "formula": ""}]])
      return ("mixed", [ua, tail]) if ua and tail else None
    if x < 0.95:
      if self.last and self.last[0] in ("records", "config", "schema") and self.last[1]:
        return ("undo", [["ApplyUndoActions", self.last[1]]])
      return None
    if x < 0.97:
      # re-add a row id removed earlier in the same bundle
      if st["rows"]:
        r = rng.choice(st["rows"])
        up = self.ua_update(st, rows=[r])
        ad = self.ua_add(st, explicit_ids=[r])
        if up:
          return ("records", [up, ["RemoveRecord", T, r], ad])
      return None
    # malformed
    r = max(st["rows"] + [0]) + 7
    plain = [c for c in self.writable(st) if not is_trigger(c) and c["type"] == "Int"]
    opts = []
    if plain:
      opts.append([["UpdateRecord", T, r, {plain[0]["id"]: 5}]])
    if st["rows"]:
      opts.append([["AddRecord", T, st["rows"][0], {}]])
      if plain:
        opts.append([["UpdateRecord", T, st["rows"][0], {plain[0]["id"]: 11}], ["UpdateRecord", T, r, {plain[0]["id"]: 5}]])
    return ("malformed", rng.choice(opts)) if opts else None


def run_history(seed_key, n_bundles, trig_specs=None):
  rng = random.Random(seed_key)
  live = Live()
  J = Judge()
  g = Gen(rng)
  g.setup(live, J, trig_specs)
  for _ in range(n_bundles):
    st = live.read()
    if st is None:
      break
    kb = g.bundle(live, st)
    if kb is None:
      continue
    kind, bundle = kb
    J.count("kind:" + kind)
    res = judge_bundle(live, bundle, J, len(live.log))
    if res.ok:
      g.last = (kind, res.raw_undo)
    else:
      g.last = None
      # whatever the failed bundle left in the recompute map shows up here, not in a later bundle
      judge_bundle(live, [["Calculate"]], J, len(live.log))
  return live, J


# ------------------------------------------------------------------------------- lookup family
# Trigger formulas that PERFORM lookups, trigger columns that list ANOTHER trigger column in recalcDeps,
# and edits of the looked-up table that change lookup keys (see TRIGGER DEPENDENCIES in the docstring).

LK_KEYS = [0, 1, 2, 3, 4, 5, 6]


def lk_add_trigger(live, J, name, formula, when, deps):
  """deps: column ids of T ("self" = the column itself); returns the column's ref or None."""
  res = judge_bundle(live, [["AddColumn", T, name, {"type": "Int", "isFormula": False, "formula": formula, "recalcWhen": when}]],
                     J, len(live.log))
  if not res.ok:
    return None
  ref = res.ret[0]["colRef"]
  if deps:
    by_id = {c["id"]: c["ref"] for c in live.read()["cols"]}
    refs = [ref if d == "self" else by_id[d] for d in deps if d == "self" or d in by_id]
    judge_bundle(live, [["UpdateRecord", "_grist_Tables_column", ref, {"recalcDeps": ["L"] + refs}]], J, len(live.log))
  return ref


def lk_setup(live, J, spec, k_rows, t_rows):
  """K(k Int, v Int) and T(A Int, C Int, D Text, F = $A * 2) + the lookup trigger column `L` (formula
  spec["lform"], recalcWhen spec["lwhen"], recalcDeps spec["ldeps"]) + the trigger column `M` (counter
  formula, DEFAULT, recalcDeps spec["mdeps"] where "L" stands for the lookup column) + optionally `N`
  (counter, DEFAULT, recalcDeps [M]).  spec["mfirst"]: M's id sorts before L's (the engine evaluates in
  id order).  Returns {"L": id, "M": id or None, "N": id or None}."""
  judge_bundle(live, [["AddTable", "K", [{"id": "k", "type": "Int", "isFormula": False, "formula": ""},
                                         {"id": "v", "type": "Int", "isFormula": False, "formula": ""}]]], J, len(live.log))
  judge_bundle(live, [["BulkAddRecord", "K", [None] * len(k_rows), {"k": [x[0] for x in k_rows], "v": [x[1] for x in k_rows]}]],
               J, len(live.log))
  judge_bundle(live, [["AddTable", T, [{"id": "A", "type": "Int", "isFormula": False, "formula": ""},
                                       {"id": "C", "type": "Int", "isFormula": False, "formula": ""},
                                       {"id": "D", "type": "Text", "isFormula": False, "formula": ""},
                                       {"id": "F", "type": "Int", "isFormula": True, "formula": "$A * 2"}]]], J, len(live.log))
  lid, mid = ("Bz1", "Ba2") if spec.get("mfirst") else ("Ba1", "Bz2")
  ids = {"L": lid, "M": None, "N": None}
  lk_add_trigger(live, J, lid, spec["lform"], spec["lwhen"], spec["ldeps"])
  if spec.get("mdeps"):
    ids["M"] = mid
    lk_add_trigger(live, J, mid, FORM_INT, 0, [lid if d == "L" else d for d in spec["mdeps"]])
    if spec.get("chain"):
      ids["N"] = "Bn3"
      lk_add_trigger(live, J, "Bn3", FORM_INT, 0, [mid])
  judge_bundle(live, [["BulkAddRecord", T, [None] * len(t_rows), {"A": [x[0] for x in t_rows], "C": [x[1] for x in t_rows]}]],
               J, len(live.log))
  J.count("lk_documents")
  J.count("lk_doc_formula:" + ("K." if "K." in spec["lform"] else "T.") + ("counter" if spec["lform"] in LK_COUNTERS else "value"))
  J.count("lk_doc_L:%s%s" % (WHEN_NAME[spec["lwhen"]], "+self" if "self" in spec["ldeps"] else ""))
  if ids["M"]:
    J.count("lk_doc_M_before_L" if spec.get("mfirst") else "lk_doc_M_after_L")
  return ids


def lk_random_spec(rng):
  lform = rng.choice(LK_FORMULAS)
  key = "A" if "K." in lform else "C"
  lwhen, ldeps = rng.choice([(0, [key]), (0, [key]), (0, [key, "self"]), (0, ["self"]), (0, [key, "D"]), (2, []), (1, []), (0, [])])
  mdeps = rng.choice([["L"], ["L"], ["L", "self"], ["L", "D"], ["L", "C" if key == "A" else "A"], None])
  if mdeps is None and "self" not in ldeps:
    mdeps = ["L"]
  return {"lform": lform, "lwhen": lwhen, "ldeps": ldeps, "mdeps": mdeps, "mfirst": rng.random() < 0.5,
          "chain": bool(mdeps) and rng.random() < 0.3}


class LkGen(object):
  """Bundles for the lookup family: edits of the looked-up table (mostly of KEYS some trigger cell looked
  up), edits of T, both in one bundle (at most ONE user action of a bundle names rows of T unless the
  looked-up table is T itself), and undo."""

  def __init__(self, rng, ids, self_table):
    self.rng = rng
    self.ids = ids
    self.self_table = self_table
    self.last = None

  def k_state(self, live):
    for t in live.last_aux:
      if t["id"] == "K":
        return dict(zip(t["rows"], t["cols"]["k"]))
    return {}

  def col(self, st, cid):
    ref = [c["ref"] for c in st["cols"] if c["id"] == cid][0]
    return {r: st["cells"].get((r, ref)) for r in st["rows"]}

  def other(self, old, prefer=()):
    rng = self.rng
    pool = [x for x in (list(prefer) if prefer and rng.random() < 0.6 else LK_KEYS) if x != old] or [x for x in LK_KEYS if x != old]
    return rng.choice(pool)

  def k_edit(self, live, st):
    """(kind, user action) on the looked-up table K."""
    rng = self.rng
    ks = self.k_state(live)
    used = set(v for v in self.col(st, "A").values() if isinstance(v, int))
    rows = sorted(ks)
    hot = [r for r in rows if ks[r] in used]
    x = rng.random()
    if x < 0.45 and rows:
      r = rng.choice(hot) if hot and rng.random() < 0.75 else rng.choice(rows)
      return "k_key", ["UpdateRecord", "K", r, {"k": self.other(ks[r], used)}]
    if x < 0.55 and len(rows) >= 2:
      rs = rng.sample(rows, 2)
      return "k_key_bulk", ["BulkUpdateRecord", "K", rs, {"k": [self.other(ks[r], used) for r in rs], "v": [rng.randint(0, 99) for _ in rs]}]
    if x < 0.67 and rows:
      return "k_nonkey", ["UpdateRecord", "K", rng.choice(rows), {"v": rng.randint(100, 199)}]
    if x < 0.85 or len(rows) < 3:
      return "k_add", ["AddRecord", "K", None, {"k": rng.choice(sorted(used) or LK_KEYS) if rng.random() < 0.7 else rng.choice(LK_KEYS),
                                                "v": rng.randint(0, 99)}]
    return "k_remove", ["RemoveRecord", "K", rng.choice(hot) if hot and rng.random() < 0.7 else rng.choice(rows)]

  def t_edit(self, st):
    """(kind, user action) on T."""
    rng = self.rng
    rows = st["rows"]
    A, C = self.col(st, "A"), self.col(st, "C")
    lid, mid = self.ids["L"], self.ids["M"]
    x = rng.random()
    if not rows or x < 0.12:
      vals = {"A": rng.choice(LK_KEYS), "C": rng.choice(LK_KEYS)}
      if rng.random() < 0.25:
        vals[rng.choice([c for c in (lid, mid) if c])] = rng.randint(50, 90)
      return "t_add", ["AddRecord", T, None, vals]
    if x < 0.20 and len(rows) > 2:
      return "t_remove", ["RemoveRecord", T, rng.choice(rows)]
    r = rng.choice(rows)
    if x < 0.50:
      # the key SOURCE of the row (L's dependency), or - self-table lookups - the key column itself
      cid = rng.choice(["A", "A", "C"])
      cur = (A if cid == "A" else C)[r]
      used = set(v for v in (C if cid == "A" else A).values() if isinstance(v, int))
      return "t_dep", ["UpdateRecord", T, r, {cid: self.other(cur, used) if rng.random() < 0.85 else cur}]
    if x < 0.62 and len(rows) >= 2:
      rs = rng.sample(rows, min(len(rows), rng.choice([2, 3])))
      cid = rng.choice(["A", "C"])
      src = A if cid == "A" else C
      return "t_dep_bulk", ["BulkUpdateRecord", T, rs, {cid: [src[q] if rng.random() < 0.4 else self.other(src[q]) for q in rs]}]
    if x < 0.72:
      return "t_other", ["UpdateRecord", T, r, {"D": rng.choice(["x", "y", "foo", ""])}]
    cols = [c for c in (lid, mid, self.ids["N"]) if c]
    c = rng.choice(cols)
    vals = {c: rng.randint(50, 90) if rng.random() < 0.8 else self.col(st, c)[r]}
    if rng.random() < 0.5:
      vals["A"] = self.other(A[r])
    return "t_explicit", ["UpdateRecord", T, r, vals]

  def bundle(self, live, st):
    rng = self.rng
    x = rng.random()
    if x < 0.40:
      k, ua = self.k_edit(live, st)
      return k, [ua]
    if x < 0.70:
      k, ua = self.t_edit(st)
      return k, [ua]
    if x < 0.90:
      k1, u1 = self.k_edit(live, st)
      if rng.random() < 0.3:
        k2, u2 = self.k_edit(live, st)
        if u1[0] == "RemoveRecord" or u2[0] == "RemoveRecord":
          return k1, [u1]
        return "k+k", [u1, u2]
      k2, u2 = self.t_edit(st)
      return ("k+t", [u1, u2]) if rng.random() < 0.5 else ("t+k", [u2, u1])
    if self.last:
      return "undo", [["ApplyUndoActions", self.last]]
    k, ua = self.k_edit(live, st)
    return k, [ua]


def run_lk_history(seed_key, n_bundles):
  rng = random.Random(seed_key)
  live = Live()
  J = Judge()
  spec = lk_random_spec(rng)
  k_rows = [(rng.choice(LK_KEYS[:5]), rng.randint(0, 99)) for _ in range(rng.choice([3, 4, 5]))]
  t_rows = [(rng.choice([k for k, _ in k_rows] + LK_KEYS[:5]), rng.choice(LK_KEYS[:5])) for _ in range(rng.choice([2, 3, 4]))]
  ids = lk_setup(live, J, spec, k_rows, t_rows)
  g = LkGen(rng, ids, "T." in spec["lform"])
  for _ in range(n_bundles):
    st = live.read()
    if st is None:
      break
    kind, bundle = g.bundle(live, st)
    J.count("lk_kind:" + kind)
    res = judge_bundle(live, bundle, J, len(live.log))
    if res.ok:
      g.last = res.raw_undo
    else:
      g.last = None
      judge_bundle(live, [["Calculate"]], J, len(live.log))
  return live, J


def lookup_witnesses():
  """Fixed inputs of the lookup family, every run: for each lookup formula x configuration of L x order
  of ids, a document with 3 rows of T; then edits of the looked-up table that change the key set of keys
  the rows looked up (change the key of the matched record, add / remove a record with the key, move a
  record onto the key), an edit of a non-key cell, and edits of T that DO recalculate (L's dependency
  changes: L must be recomputed and - its value changing - M, then N)."""
  out = []
  for lform in LK_FORMULAS:
    key = "A" if "K." in lform else "C"
    for (lwhen, ldeps, mdeps) in ((0, [key], ["L"]), (0, [key, "self"], None), (0, [key, "self"], ["L", "self"]), (2, [], ["L"])):
      for mfirst in ((False, True) if mdeps else (False,)):
        def build(lform=lform, lwhen=lwhen, ldeps=ldeps, mdeps=mdeps, mfirst=mfirst, key=key):
          live, J = Live(), Judge()
          spec = {"lform": lform, "lwhen": lwhen, "ldeps": ldeps, "mdeps": mdeps, "mfirst": mfirst, "chain": bool(mdeps) and not mfirst}
          lk_setup(live, J, spec, [(1, 10), (2, 20), (3, 30)], [(2, 1), (1, 2), (2, 2)])
          if key == "A":
            bundles = [[["UpdateRecord", "K", 2, {"k": 9}]],                 # the matched record loses the key
                       [["AddRecord", "K", None, {"k": 2, "v": 99}]],        # a record with the looked-up key appears
                       [["UpdateRecord", "K", 4, {"v": 100}]],               # non-key cell
                       [["RemoveRecord", "K", 4]],
                       [["UpdateRecord", "K", 1, {"k": 2}]],                 # a record moves onto / off looked-up keys
                       [["BulkUpdateRecord", "K", [1, 3], {"k": [1, 2]}]],
                       [["UpdateRecord", T, 1, {"A": 1}]],                   # L's dependency changes
                       [["UpdateRecord", "K", 1, {"k": 5}], ["UpdateRecord", T, 2, {"D": "x"}]],
                       [["UpdateRecord", T, 3, {"A": 3}], ["UpdateRecord", "K", 3, {"k": 3}]],
                       [["UpdateRecord", "K", 3, {"k": 4}]]]
          else:
            bundles = [[["UpdateRecord", T, 2, {"A": 5}]],                   # row 2 loses key 1 (looked up by row 1)
                       [["AddRecord", T, None, {"A": 2, "C": 6}]],           # a record with looked-up key 2 appears
                       [["UpdateRecord", T, 4, {"D": "x"}]],
                       [["RemoveRecord", T, 4]],
                       [["UpdateRecord", T, 2, {"A": 2}]],
                       [["BulkUpdateRecord", T, [1, 3], {"A": [1, 1]}]],
                       [["UpdateRecord", T, 1, {"C": 5}]],                   # L's dependency changes
                       [["UpdateRecord", T, 3, {"A": 2}]]]
          return live, J, bundles
        out.append(("%s/%s%s/M%s%s" % (lform, WHEN_NAME[lwhen], "+".join([""] + ldeps), "+".join(mdeps or ["-"]),
                                       " first" if mfirst else ""), build))
  return out


def run_lookup_witness(idx):
  name, build = lookup_witnesses()[idx]
  live, J, bundles = build()
  n0 = len(J.findings)
  for b in bundles:
    judge_bundle(live, b, J, len(live.log))
  J.count("lookup_witness_" + ("held" if len(J.findings) == n0 else "failed"))
  J.findings = [(s_, "[lookup witness %s] %s" % (name, d), bi) for (s_, d, bi) in J.findings]
  return live, J


# ------------------------------------------------------------------------------- exhaustive small scope

READER_VARIANTS = [[], ["before"], ["after"], ["chain"], ["chain2"], ["lookup"], ["lookup1", "lookupA"], ["other"], ["summary"],
                   ["before", "lookup", "other"]]


def small_scope(cfg_index, pairs, rng, readers=()):
  """One configuration (recalcWhen x recalcDeps) on a 2-row table, with the given kinds of readers of
  the trigger column; every single user action of a small vocabulary, then ordered pairs of them as
  2-action bundles."""
  whens = [0, 1, 2]
  depsets = [[], ["A"], ["F"], ["self"], ["A", "self"], ["A", "F"], ["C"], ["F", "self"]]
  when = whens[cfg_index % 3]
  deps = depsets[cfg_index // 3]
  live = Live()
  J = Judge()
  g = Gen(rng)
  g.setup(live, J, [{"when": when, "deps": deps, "text": False, "readers": list(readers)}])
  st = live.read()
  if len(st["rows"]) < 2:
    judge_bundle(live, [["BulkAddRecord", T, [None, None], {"A": [1, 2], "C": [3, 4]}]], J, len(live.log))

  def vocab(st):
    b = [c for c in st["cols"] if is_trigger(c)][0]["id"]
    r1, r2 = st["rows"][0], st["rows"][1]
    cur = lambda r, cid: st["cells"][(r, [c["ref"] for c in st["cols"] if c["id"] == cid][0])]
    return [
      ["AddRecord", T, None, {"A": 4}],
      ["AddRecord", T, None, {"A": 4, b: 50}],
      ["AddRecord", T, None, {b: 60}],
      ["UpdateRecord", T, r1, {"A": cur(r1, "A") + 1}],
      ["UpdateRecord", T, r1, {"A": cur(r1, "A")}],
      ["UpdateRecord", T, r1, {"C": cur(r1, "C") + 1}],
      ["UpdateRecord", T, r1, {b: (cur(r1, b) or 0) + 10}],
      ["UpdateRecord", T, r1, {b: cur(r1, b)}],
      ["UpdateRecord", T, r1, {"A": cur(r1, "A") + 2, b: (cur(r1, b) or 0) + 20}],
      ["UpdateRecord", T, r1, {"A": cur(r1, "A") + 3, b: cur(r1, b)}],
      ["UpdateRecord", T, r1, {"C": cur(r1, "C") + 2, b: (cur(r1, b) or 0) + 30}],
      ["BulkUpdateRecord", T, [r1, r2], {"A": [cur(r1, "A"), cur(r2, "A") + 1]}],
      ["BulkUpdateRecord", T, [r1, r2], {"A": [cur(r1, "A") + 1, cur(r2, "A")], b: [cur(r1, b), (cur(r2, b) or 0) + 5]}],
      ["UpdateRecord", T, r2, {"C": cur(r2, "C") + 1}],
      ["AddColumn", T, g.name("P"), {"type": "Int", "isFormula": False, "formula": ""}],
    ]
  nv = len(vocab(live.read()))
  for i in range(nv):
    st = live.read()
    if len(st["rows"]) > 6:
      judge_bundle(live, [["BulkRemoveRecord", T, st["rows"][2:]]], J, len(live.log))
      st = live.read()
    res = judge_bundle(live, [vocab(st)[i]], J, len(live.log))
    if res.ok and rng.random() < 0.5:
      judge_bundle(live, [["ApplyUndoActions", res.raw_undo]], J, len(live.log))
  for (i, k) in pairs:
    st = live.read()
    if len(st["rows"]) > 6:
      judge_bundle(live, [["BulkRemoveRecord", T, st["rows"][2:]]], J, len(live.log))
      st = live.read()
    v = vocab(st)
    res = judge_bundle(live, [v[i], v[k]], J, len(live.log))
    if res.ok and rng.random() < 0.25:
      judge_bundle(live, [["ApplyUndoActions", res.raw_undo]], J, len(live.log))
  return live, J


# ------------------------------------------------------------------------------- workers

def finish_ties(Js):
  """Run the model ONCE on the ops of all the given judges (driver start-up costs ~1 s);
  returns, per judge, a list of (kind, detail, bundle index)."""
  outs = [[] for _ in Js]
  allops = [o[0] for J in Js for o in J.ops]
  if not allops:
    return outs
  data = "\n".join(json.dumps(o, separators=(",", ":")) for o in allops) + "\n"
  p = subprocess.run([common.DRIVER], input=data, stdout=subprocess.PIPE, stderr=subprocess.PIPE, text=True, timeout=1200)
  lines = p.stdout.splitlines()
  if p.returncode != 0 or len(lines) != len(allops):
    raise common.Infra("driver rc=%s answered %d/%d: %s" % (p.returncode, len(lines), len(allops), p.stderr[-300:]))
  pos = 0
  for J, out in zip(Js, outs):
    mine = lines[pos:pos + len(J.ops)]
    pos += len(J.ops)
    for (op, E, bi, cref, failed), spec, line in zip(J.ops, J.py_spec, mine):
      ans = json.loads(line)
      J.count("tie_ops")
      if failed:
        if "error" not in ans:
          out.append(("model accepts a bundle the engine rejects", {"op": op, "model": ans}, bi))
        else:
          J.count("tie_rejections_agree")
        continue
      if "error" in ans:
        out.append(("model rejects a bundle the engine accepts", {"op": op, "model": ans, "engine_evaluated": E}, bi))
        continue
      if ans["inDomain"]:
        J.count("tie_in_domain")
        if ans["evaluated"] != ans["spec"]:
          out.append(("model: inDomain but evaluated != spec (contradicts the theorem)", {"op": op, "model": ans}, bi))
      else:
        J.count("tie_outside_domain")
        if ans["evaluated"] != ans["spec"]:
          J.count("tie_outside_domain_mech_ne_spec")
      if ans["evaluated"] != E:
        out.append(("evaluated cells differ", {"op": op, "model": ans["evaluated"], "engine": E}, bi))
      must, may = spec
      if not (set(must) <= set(ans["spec"]) <= set(may)):
        out.append(("Lean spec outside the reference's [must, may] interval",
                    {"op": op, "spec": ans["spec"], "must": must, "may": may}, bi))
  return outs


def _worker(args):
  common.setup_repo_path()
  out = {"findings": [], "tie": [], "stats": {}, "nontrivial": [], "samples": [], "infra": []}
  done = []
  for (kind, it) in args:
    try:
      if kind == "hist":
        live, J = run_history("C15/%s" % it[0], it[1])
      elif kind == "rwit":
        live, J = run_reader_witness(it[0])
      elif kind == "lk":
        live, J = run_lk_history("C15/lk/%s" % it[0], it[1])
      elif kind == "lwit":
        live, J = run_lookup_witness(it[0])
      else:
        live, J = small_scope(it[0], it[1], random.Random("C15/small/%s/%s/%s" % (it[0], it[2], "+".join(it[3]))), it[3])
      done.append((live, J))
    except Exception:
      import traceback
      out["infra"].append("%s %r: %s" % (kind, it[:1], traceback.format_exc()[-900:]))
  ties = finish_ties([J for (_, J) in done])
  for (live, J), tl in zip(done, ties):
    for (sig, detail, bi) in J.findings:
      out["findings"].append((sig, detail, live.log[:bi + 1]))
    for (what, detail, bi) in tl:
      out["tie"].append((what, detail, live.log[:bi + 1]))
    for k, v in J.stats.items():
      out["stats"][k] = out["stats"].get(k, 0) + v
    out["nontrivial"] += J.nontrivial
    out["samples"] += J.samples[:1]
  return out


def run_parallel(jobs):
  workers = min(16, os.cpu_count() or 1, max(1, len(jobs)))
  if workers <= 1:
    return [_worker(j) for j in jobs]
  with multiprocessing.get_context("fork").Pool(workers) as pool:
    return pool.map(_worker, jobs)


# ------------------------------------------------------------------------------- witnesses of the Lean negations

def witness_doc(when, deps, nrows=1):
  live = Live()
  J = Judge()
  g = Gen(random.Random(0))
  cols = [{"id": "A", "type": "Int", "isFormula": False, "formula": ""},
          {"id": "C", "type": "Int", "isFormula": False, "formula": ""}]
  judge_bundle(live, [["AddTable", T, cols]], J, 0)
  g.add_trigger(live, J, {"when": when, "deps": deps, "text": False})
  if nrows:
    judge_bundle(live, [["BulkAddRecord", T, [None] * nrows, {"A": [1] * nrows}]], J, len(live.log))
  return live, J


def witnesses():
  """(name, signature, builder) - the concrete inputs of the `example`s in GristProps/C15.lean."""
  def w_add():
    live, J = witness_doc(0, ["A"], 0)
    return live, J, [["AddRecord", T, None, {"A": 1, "B1": 50}]]
  def w_trim():
    live, J = witness_doc(0, ["A"])
    st = live.read()
    b = st["cells"][(1, [c["ref"] for c in st["cols"] if c["id"] == "B1"][0])]
    return live, J, [["UpdateRecord", T, 1, {"A": 5, "B1": b}]]
  def w_last():
    live, J = witness_doc(0, ["A"], 2)
    return live, J, [["UpdateRecord", T, 1, {"A": 5, "B1": 80}], ["UpdateRecord", T, 2, {"C": 9}]]
  def w_stale():
    live, J = witness_doc(0, ["A"])
    st = live.read()
    ref = [c["ref"] for c in st["cols"] if c["id"] == "B1"][0]
    return live, J, [["UpdateRecord", "_grist_Tables_column", ref, {"recalcWhen": 1}], ["UpdateRecord", T, 1, {"A": 5}]]
  def w_stale_missing():
    live, J = witness_doc(0, ["A"])
    st = live.read()
    ref = [c["ref"] for c in st["cols"] if c["id"] == "B1"][0]
    cref = [c["ref"] for c in st["cols"] if c["id"] == "C"][0]
    return live, J, [["UpdateRecord", "_grist_Tables_column", ref, {"recalcDeps": ["L", cref]}],
                     ["UpdateRecord", T, 1, {"C": 5}]]
  def w_readd():
    live, J = witness_doc(2, [])
    return live, J, [["UpdateRecord", T, 1, {"A": 5}], ["RemoveRecord", T, 1], ["AddRecord", T, 1, {"B1": 70}]]
  def w_failed():
    live, J = witness_doc(0, ["A"])
    judge_bundle(live, [["UpdateRecord", T, 1, {"A": 5}], ["UpdateRecord", T, 99, {"A": 5}]], J, len(live.log))
    return live, J, [["Calculate"]]
  return [("add", SIG_ADD, w_add), ("trim", SIG_TRIM, w_trim), ("last", SIG_LAST, w_last),
          ("stale", SIG_STALE, w_stale), ("stale_missing", SIG_STALE, w_stale_missing),
          ("readd", SIG_READD, w_readd), ("failed", SIG_FAILED, w_failed)]


def reader_witnesses():
  """The situation of clause (1) with each kind of reader, as fixed inputs: ONE user action changes a
  recalcDeps cell (MANUAL_UPDATES: any cell) and sets the trigger cell explicitly - the explicit value
  must win and every reader must show it; then the same for a new record (DEFAULT with recalcDeps:
  the recorded finding SIG_ADD, nothing else), and a plain dependency change must still recalculate."""
  out = []
  for kind in READER_KINDS:
    for (when, deps) in ((0, ["A"]), (2, []), (0, ["A", "self"])):
      def build(kind=kind, when=when, deps=deps):
        live, J = witness_doc(when, deps, 3)
        Gen(random.Random(0)).add_readers(live, J, "B1", [kind])
        return live, J, [[["UpdateRecord", T, 2, {"A": 20, "B1": 80}]],
                         [["BulkUpdateRecord", T, [1, 2, 3], {"A": [31, 32, 1], "B1": [90, 80, 95]}]],
                         [["UpdateRecord", T, 1, {"C": 7, "B1": 60}]],
                         [["AddRecord", T, None, {"A": 4, "B1": 50}]],
                         [["BulkAddRecord", T, [None, None], {"C": [1, 2], "B1": [80, 81]}]],
                         [["UpdateRecord", T, 3, {"A": 40}]]]
      out.append(("%s/%s%s" % (kind, WHEN_NAME[when], "+".join([""] + deps)), build))
  return out


def run_reader_witness(idx):
  name, build = reader_witnesses()[idx]
  live, J, bundles = build()
  for b in bundles:
    judge_bundle(live, b, J, len(live.log))
  J.count("reader_witness_" + ("held" if all(f[0] == SIG_ADD for f in J.findings) else "failed"))
  J.findings = [(s_, "[reader witness %s] %s" % (name, d), bi) for (s_, d, bi) in J.findings]
  return live, J


def replay_witnesses(ck):
  common.setup_repo_path()
  runs = []
  for (name, sig, build) in witnesses():
    live, J, bundle = build()
    n0 = len(J.findings)
    judge_bundle(live, bundle, J, len(live.log))
    runs.append((name, sig, live, J, n0))
  ties = finish_ties([r[3] for r in runs])
  for (name, sig, live, J, n0), tl in zip(runs, ties):
    sigs = [f[0] for f in J.findings[n0:]]
    ck.evaluated()
    ck.count("witness_%s_%s" % (name, "reproduced" if sig in sigs else "not_reproduced"))
    for (s, detail, bi) in J.findings:
      ck.violation(s, detail, {"history": live.log[:bi + 1]})
    for (what, detail, bi) in tl:
      ck.count("model_impl_disagreements")
      ck.extra.setdefault("tie_mismatches", []).append({"what": what, "detail": detail, "history": live.log[:bi + 1]})


# ------------------------------------------------------------------------------- entry points

def run(ck):
  ck.rule = ("histories on a live engine: one table with plain, formula and 1-3 trigger columns (recalcWhen 0/1/2; recalcDeps "
             "empty / one / several / itself / formula columns), in 80% of the documents with READERS of the trigger columns "
             "(formula columns `$B` whose ids sort before / after the trigger column, chains of them, lookupRecords / lookupOne "
             "keyed on the trigger column from the same and from another table, a summary table grouped by it); bundles of adds "
             "(with/without supplied values), updates and bulk updates (30% same-value cells; single updates that change a "
             "dependency AND set the trigger cell), removals, multi-action bundles, configuration changes, schema changes, mixed "
             "bundles, undo; plus per configuration (3 x 8) x reader kind (9) every single action of a 15-action vocabulary "
             "(quick: all 9 kinds for DEFAULT [A] / DEFAULT [F] / MANUAL_UPDATES [] / DEFAULT [A, self], a third of the kinds, "
             "rotating with the seed, for the other configurations), and ordered pairs of it per configuration x 10 reader "
             "variants (quick: 18 sampled pairs, one variant per configuration); plus fixed reader witnesses (9 kinds x 3 "
             "configurations); plus the LOOKUP FAMILY (quick: 48 histories x 24 bundles + 35 fixed witnesses): a second table K, a "
             "trigger column L whose formula performs a lookup into K or into T itself (5 formulas; DEFAULT [key source] / "
             "[.., self] / [self] / [] / MANUAL_UPDATES / NEVER), a DEFAULT trigger column M listing L in recalcDeps (id before / "
             "after L's), optionally N listing M; bundles: 40% edits of K (45% key changes, 75% of them of keys looked up by "
             "rows of T; bulk key changes, adds / removals of records with looked-up keys, non-key cells), 30% edits of T, 20% "
             "both in either order, 10% undo; "
             "non-trivial = a bundle in which some trigger cell must be recalculated or is set explicitly; distinct by bundle")
  ck.assumptions = ["recalcDeps are plain data columns, formula columns over plain data columns, or the column itself "
                    "(never a column that reads a trigger column); in the lookup family also ANOTHER trigger column (acyclic)",
                    "lookup family (trigger formulas performing lookups, trigger columns listing another trigger column in "
                    "recalcDeps, edits of lookup keys in the looked-up table): judged by the DIRECT ORACLE; a recalcDeps cell that "
                    "is a trigger cell counts as changed / written / recomputed according to the real outcome of that cell "
                    "(request + formula tracer), itself judged by its own clauses; the Lean model (one trigger column per op, no "
                    "lookups) is tied only for columns whose recalcDeps contain no other trigger column (K edits = user actions "
                    "that do not touch T); columns listing another trigger column are NOT tied (tie_skipped_trigger_dep)",
                    "a recomputed trigger dependency is attributed to the only user action of the bundle naming rows of T; with "
                    "several such user actions (not generated in the lookup family) it only moves the cell to MAY",
                    "counters lk_keychange_* (trigger cells whose formula looked up a key whose key set the bundle changed, and "
                    "how many of them / of their dependents the reference puts in the 'never' clause) are coverage evidence only",
                    "written values have the column's type; row ids within one request distinct",
                    "model tie skipped (oracle still applied) for bundles with record edits after a schema change",
                    "readers of trigger columns (nested first visits of the column's node before its own evaluation: formula "
                    "columns sorting before it, lookup keys, summary group-by) are judged by the DIRECT ORACLE only (evaluated "
                    "cells within the property's [must, may] interval, explicit values of the last user action win, readers "
                    "agree with the final trigger cells); the Lean model has no evaluation order - the tie only checks that the "
                    "engine's evaluated set equals the model's in documents with readers too",
                    "the counters nested_first_visit_* / xt_nested:* come from a run-time wrapper of Engine._recompute_step "
                    "(coverage evidence only; no verdict depends on it)"]
  ck.lean(["GristProps.C15"])
  quick = ck.tier == "quick"
  n_hist = 96 if quick else 6000
  n_b = 26 if quick else 40
  items = [("hist", ("%d/%d" % (ck.seed, i), n_b)) for i in range(n_hist)]
  nv = 15
  allpairs = [(i, k) for i in range(nv) for k in range(nv)]
  for ci in range(24):
    if quick:
      # ordered pairs: a sample, with one reader variant per configuration (rotating with the seed)
      items.append(("small", (ci, ck.rng.sample(allpairs, 18), ck.seed, READER_VARIANTS[(ci * 7 + ck.seed) % len(READER_VARIANTS)])))
    else:
      for rv in READER_VARIANTS:
        items.append(("small", (ci, allpairs, ck.seed, rv)))
    # every single action of the vocabulary, for every configuration x every kind of reader (quick: all kinds for
    # the core configurations DEFAULT [A] / DEFAULT [F] / MANUAL_UPDATES [] / DEFAULT [A, self], a rotating third
    # of the kinds for the others)
    for ki, k in enumerate(READER_KINDS):
      if not quick or ci in (2, 3, 6, 12) or (ci + ki + ck.seed) % 3 == 0:
        items.append(("small", (ci, [], ck.seed, [k])))
  for i in range(len(reader_witnesses())):
    items.append(("rwit", (i,)))
  # the lookup family: trigger formulas that perform lookups + trigger columns depending on trigger columns
  for i in range(48 if quick else 1500):
    items.append(("lk", ("%d/%d" % (ck.seed, i), 24 if quick else 40)))
  for i in range(len(lookup_witnesses())):
    items.append(("lwit", (i,)))
  # one job per worker process: the model driver is started once per job
  W = min(16, os.cpu_count() or 1) if not quick else min(12, os.cpu_count() or 1)
  items.sort(key=lambda x: x[0])
  jobs = [items[w::W] for w in range(W)]
  jobs = [j for j in jobs if j]
  results = run_parallel(jobs)
  infra = [x for r in results for x in r["infra"]]
  if infra:
    raise common.Infra("; ".join(infra)[:1500])
  mism = None
  for r in results:
    for k, v in r["stats"].items():
      ck.count(k, v)
    for nt in r["nontrivial"]:
      ck.nontrivial.add(nt)
    for s in r["samples"]:
      ck.sample(s)
    for (sig, detail, hist) in r["findings"]:
      ck.violation(sig, detail, {"history": hist})
    for (what, detail, hist) in r["tie"]:
      ck.count("model_impl_disagreements")
      if mism is None:
        mism = {"what": what, "detail": detail, "history": hist}
  ck.evaluated(ck.cov["counters"].get("bundles", 0))
  replay_witnesses(ck)
  for m in ck.extra.pop("tie_mismatches", []):
    if mism is None:
      mism = m
  for (name, sig, _) in witnesses():
    if not ck.cov["counters"].get("witness_%s_reproduced" % name):
      ck.broken("witness of the Lean negation does not reproduce on the real engine: " + name,
                "the `example` in GristProps/C15.lean claims the engine evaluates this cell; the real engine did not "
                "(the finding may have been fixed: then the theorem's hypothesis can be dropped)", {"witness": name})
  if mism and not ck.has_impl_violation():
    ck.broken("correspondence engine vs Grist.Trigger (" + mism["what"] + ")",
              "model and implementation differ and no unknown violation of the property was found", mism)


def replay(ck, rp):
  common.setup_repo_path()
  r = rp["replay"]
  hist = r.get("history")
  ck.lean(["GristProps.C15"])
  if hist is None:
    print("replay: nothing to replay (%r)" % (list(r),))
    return
  live = Live()
  J = Judge()
  for bi, bundle in enumerate(hist):
    n0 = len(J.findings)
    res = judge_bundle(live, bundle, J, bi)
    ck.evaluated()
    if bi == len(hist) - 1:
      print("replay: last bundle %r -> %s; evaluated %r" % (bundle, "ok" if res.ok else res.error, sorted(set(live.trace))))
      for f in J.findings[n0:]:
        print("replay:   %s: %s" % (f[0], f[1][:300]))
      if not J.findings[n0:]:
        print("replay:   property holds on the last bundle")
  ties = finish_ties([J])[0]
  for (sig, detail, bi) in J.findings:
    ck.violation(sig, detail, {"history": hist[:bi + 1]})
  for (what, detail, bi) in ties:
    print("replay: model/engine: %s %s" % (what, json.dumps(detail, default=str)[:400]))
    if not ck.has_impl_violation():
      ck.broken("correspondence engine vs Grist.Trigger (" + what + ")", json.dumps(detail, default=str)[:600],
                {"history": hist[:bi + 1]})
  ck.nontrivial_case("replay"); ck.nontrivial_case(hist)
