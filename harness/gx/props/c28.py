"""
C28  Upserts follow their specification (useractions.BulkAddOrUpdateRecord / AddOrUpdateRecord).

Theorems: lean/GristProps/C28.lean about lean/GristModel/Upsert.lean
  upsert_impl_eq_spec_partial, upsert_impl_eq_spec_distinct_keys, add_or_update_eq_spec,
  upsert_validation (+ _on_many/_empty_require/_lengths/_duplicate), upsert_frame, and the refutations
  impl_eq_spec_full_false / validation_full_false whose witnesses are replayed here (WITNESSES).
Tie:    every case is run through a live engine (gx.engine_driver.Doc) and through the compiled model
        (`upsertImpl` / `addOrUpdateImpl`): error class + which check, retValues, final data cells.
Search: an independent Python reference of the documented behaviour (`reference`) is compared with
        the engine's result (exact values), plus frame checks (no other table touched, rejected
        requests leave `doc.snapshot()` unchanged).

INTERPRETATION (the reading of the property text that the check demands):
  * "records matching `require` are looked up": in the table as it is BEFORE the action, for every
    input row (the code does all lookups before its two bulk actions; DESIGN.md C28), with the
    type conversion `lookup_records` applies to the key (`col.convert`), in row-id order.
  * several input rows that give values to the same record are applied in input order (the last
    one wins) - this can only happen with an empty `require` (allow_empty_require) or with require
    keys that coincide after type conversion.
  * the added record is `{**require, **col_values}` over the column defaults, formula columns of
    `require` left out (they cannot be stored); values are stored as `col.convert` gives them.
  * invalid arguments = bad on_many; empty require without allow_empty_require; value lists of
    different lengths; two input rows with the same require key - "same" as sent (Python equality
    of the tuples: that is what the code checks) or same after the column's type conversion (that is
    what makes two rows address the same records).  All of them must be rejected, nothing changed.
  * a formula / unknown column in `col_values` must be rejected when a record would be written
    (code comment: "setting such a column there should raise an error"); an unknown column in
    `require` is always rejected.
  * `id` / `manualSort` as keys, empty (formula-less) columns and compound cell values are out of
    scope (C27 / C18 territory); option values are booleans or absent.
"""
import copy
import itertools
import json
import multiprocessing
import os
import random

DATA = ["i", "t", "b", "c", "r"]
TYPES = {"i": "Int", "t": "Text", "b": "Bool", "c": "Choice", "r": "Ref:R"}
FORMULA = "f"
F_EXPR = "($i if isinstance($i, int) else 0) * 2"
ALLC = DATA + [FORMULA]
# conversion fixed points per column (small pools, so duplicates abound)
POOL = {"i": [0, 1, 2, 3], "t": ["", "a", "b", "1"], "b": [True, False], "c": ["", "u", "v"],
        "r": [0, 1, 2, 3], "f": [0, 2, 4, 6]}
WILD = [None, True, False, 0, 1, 2, "", "a", "1", "2", "true", "x"]
BAD_ON_MANY = ["First", "", "any", 0, None, "ALL", "nope"]

SIG_TRIM = ("two input rows give values to the same record and the later values equal the record's cells "
            "before the action: the earlier row's values stay")
SIG_CONVDUP = "require rows distinct as sent but equal after the column's type conversion are accepted"
SIG_SINGLE = "AddOrUpdateRecord with empty require and empty col_values returns NONE without checking its options"


# --------------------------------------------------------------------------- tokens

def ptok(v):
  """Token of a cell value such that token equality == Python equality (what lookups, the
  uniqueness check and trim_update_action use)."""
  if v is None:
    return "N"
  if isinstance(v, (bool, int)):
    return "n%d" % int(v)
  if isinstance(v, float):
    return ("n%d" % int(v)) if v == int(v) else "f%r" % v
  if isinstance(v, str):
    return "s" + v
  raise ValueError("value outside the modelled universe: %r" % (v,))


# --------------------------------------------------------------------------- world

class World(object):
  def __init__(self):
    from gx import engine_driver as ed
    self.ed = ed
    self.doc = ed.Doc()
    r = self.doc.apply([["AddTable", "R", [{"id": "name", "type": "Text", "isFormula": False}]]])
    assert r.ok, r.error
    cols = [{"id": c, "type": TYPES[c], "isFormula": False} for c in DATA]
    cols.append({"id": FORMULA, "type": "Int", "isFormula": True, "formula": F_EXPR})
    r = self.doc.apply([["AddTable", "T", cols]])
    assert r.ok, r.error
    r = self.doc.apply([["BulkAddRecord", "R", [None] * 3, {"name": ["x", "y", "z"]}]])
    assert r.ok, r.error
    self.table = self.doc.engine.tables["T"]
    self.n_cases = 0
    # every table but T, as the last case left it (our own resets only touch T)
    self.others = {t: v for t, v in self.doc.snapshot().items() if t != "T"}

  def conv(self, c, v):
    if c in ALLC:
      return self.table.get_column(c).convert(v)
    return v

  def rows(self):
    """Current content of T as [[id, {col: value}]] (all modelled columns, raw python values)."""
    td = self.doc.engine.fetch_table("T", formulas=True)
    return [[r, {c: td.columns[c][k] for c in ALLC}] for k, r in enumerate(td.row_ids)]

  def reset(self, rows):
    ids = list(self.table.row_ids)
    if ids:
      r = self.doc.apply([["BulkRemoveRecord", "T", sorted(ids)]])
      assert r.ok, r.error
    if rows:
      r = self.doc.apply([["BulkAddRecord", "T", [x[0] for x in rows],
                           {c: [x[1][c] for x in rows] for c in DATA}]])
      assert r.ok, r.error


def resolve_options(options):
  om = options.get("on_many", "first")
  return {"update": bool(options.get("update", True)), "add": bool(options.get("add", True)),
          "allow_empty_require": bool(options.get("allow_empty_require", False)),
          "on_many": om if (isinstance(om, str) and om in ("first", "none", "all")) else "bad"}


# --------------------------------------------------------------------------- reference (oracle)

def hashable_eq_key(vals):
  # Python equality classes of a tuple of scalars (1 == 1.0 == True)
  return tuple(ptok(v) for v in vals)


def classify_invalid(case, conv):
  """The invalid-argument classes of the property text.  Returns list of class names."""
  req, cv, opt = case["require"], case["col_values"], case["options"]
  single = case["kind"] == "single"
  out = []
  om = opt.get("on_many", "first")
  if not (isinstance(om, str) and om in ("first", "none", "all")):
    out.append("bad on_many")
  if not req and not opt.get("allow_empty_require", False):
    out.append("empty require without allow_empty_require")
  if not single:
    lens = set(len(v) for v in req.values()) | set(len(v) for v in cv.values())
    if len(lens) > 1:
      out.append("mismatched lengths")
    elif req and len(lens) == 1:
      n = lens.pop()
      raw = [hashable_eq_key([req[c][k] for c in req]) for k in range(n)]
      cvt = [hashable_eq_key([conv(c, req[c][k]) for c in req]) for k in range(n)]
      if len(set(raw)) < n:
        out.append("duplicate require keys")
      elif len(set(cvt)) < n:
        out.append("duplicate require keys after type conversion")
  return out


def reference(rows0, next_id, defaults, conv, case):
  """The documented behaviour on plain python values.  `rows0` = [[id, {col: val}]] in id order.
  Returns ("reject", why) or ("ok", rows, ret, receivers_per_input_row)."""
  req, cv, opt = case["require"], case["col_values"], case["options"]
  single = case["kind"] == "single"
  if single:
    if not req and not cv and not classify_invalid(case, conv):
      return ("ok", copy.deepcopy(rows0), {"recordIds": [], "action": "NONE"}, [])
    req = {k: [v] for k, v in req.items()}
    cv = {k: [v] for k, v in cv.items()}
  bad = classify_invalid(case, conv)
  if bad:
    return ("reject", bad[0])
  for c in req:
    if c not in ALLC:
      return ("reject", "unknown column in require")
  update = opt.get("update", True)
  add = opt.get("add", True)
  on_many = opt.get("on_many", "first")
  ret = {"recordIds": [], "addRecordIds": [], "updateRecordIds": []}
  rows = copy.deepcopy(rows0)
  if not req and not cv:
    return ("ok", rows, ret if not single else {"recordIds": [], "action": "NONE"}, [])
  n = len(list(req.values())[0]) if req else len(list(cv.values())[0])
  byid = dict((r[0], r[1]) for r in rows)
  before = dict((r[0], r[1]) for r in rows0)
  wrote = False
  recv = []
  for k in range(n):
    key = {c: conv(c, req[c][k]) for c in req}
    ms = [rid for rid, _ in rows0 if all(before[rid][c] == key[c] for c in key)]
    vals = {c: conv(c, cv[c][k]) for c in cv}
    if not ms:
      recv.append([])
      if add:
        rec = dict(defaults)
        rec.update({c: key[c] for c in key if c != FORMULA})
        rec.update(vals)
        rows.append([next_id, rec])
        ret["recordIds"].append([next_id])
        ret["addRecordIds"].append(next_id)
        next_id += 1
        wrote = True
      else:
        ret["recordIds"].append([])
      continue
    if not update:
      sel = []
    elif len(ms) == 1 or on_many == "all":
      sel = ms
    elif on_many == "first":
      sel = ms[:1]
    else:
      sel = []
    recv.append(sel)
    for rid in sel:
      byid[rid].update(vals)
      wrote = True
    ret["recordIds"].append(sel)
    if sel:
      ret["updateRecordIds"].append(sel)
  if wrote:
    for c in cv:
      if c not in DATA:
        return ("reject", "formula column in col_values" if c == FORMULA else "unknown column in col_values")
  if single:
    ids = ret["recordIds"][0] if ret["recordIds"] else []
    action = "UPDATE" if ret["updateRecordIds"] else ("ADD" if ret["addRecordIds"] else "NONE")
    ret = {"recordIds": ids, "action": action}
  return ("ok", rows, ret, recv)


def trim_variant(rows0, conv, case, recv):
  """What the rows look like if, among the accumulated (record, values) pairs, those equal to the
  record's cells BEFORE the action are dropped (Engine.trim_update_action) - only used to give the
  known deviation its specific signature."""
  cv = case["col_values"]
  if case["kind"] == "single":
    cv = {k: [v] for k, v in cv.items()}
  before = dict((r[0], r[1]) for r in rows0)
  out = copy.deepcopy(dict((r[0], r[1]) for r in rows0))
  for k, sel in enumerate(recv):
    vals = {c: conv(c, cv[c][k]) for c in cv}
    for rid in sel:
      if any(before[rid][c] != vals[c] for c in vals):
        out[rid].update(vals)
  return out


# --------------------------------------------------------------------------- one case

def model_op(w, case, rows0, next_id, defaults):
  req, cv = case["require"], case["col_values"]
  op = {"m": "upsert", "op": case["kind"],
        "schema": [[c, "data"] for c in DATA] + [[FORMULA, "formula"]],
        "table": [[rid, [[c, ptok(rec[c])] for c in ALLC]] for rid, rec in rows0],
        "next": next_id,
        "defaults": [[c, ptok(defaults[c])] for c in DATA],
        "options": resolve_options(case["options"])}
  if case["kind"] == "bulk":
    op["require"] = [[c, [[ptok(v), ptok(w.conv(c, v))] for v in vs]] for c, vs in req.items()]
    op["col_values"] = [[c, [ptok(w.conv(c, v)) for v in vs]] for c, vs in cv.items()]
  else:
    op["require"] = [[c, [ptok(v), ptok(w.conv(c, v))]] for c, v in req.items()]
    op["col_values"] = [[c, ptok(w.conv(c, v))] for c, v in cv.items()]
  return op


ERR_TAG = [("on_many should be", "on_many"), ("require is empty", "empty_require"),
           ("Value lists must all have the same length", "lengths"),
           ("require values must be unique", "not_unique"), ("Can't save value to formula column", "formula_column")]


def err_tag(error):
  cls, msg = error
  if cls == "KeyError":
    return "unknown_column"
  for pre, tag in ERR_TAG:
    if msg.startswith(pre):
      return tag
  return "other:" + msg[:60]


def run_case(w, case, reset=True):
  """Runs one case on the live engine.  Returns a dict: op (for the model), real (canonical real
  outcome, comparable with the model's answer), findings [(signature, detail)], facts."""
  ed = w.ed
  if reset:
    w.reset(case["rows"])
  w.n_cases += 1
  rows0 = w.rows()
  next_id = w.table.next_row_id()
  defaults = {c: w.table.get_column(c).getdefault() for c in DATA}
  op = model_op(w, case, rows0, next_id, defaults)
  ref = reference(rows0, next_id, defaults, w.conv, case)
  invalid = classify_invalid(case, w.conv)
  before = dict(w.others, T=w.doc.snapshot(tables=["T"])["T"])
  name = "BulkAddOrUpdateRecord" if case["kind"] == "bulk" else "AddOrUpdateRecord"
  res = w.doc.apply([[name, "T", case["require"], case["col_values"], case["options"]]])
  after = w.doc.snapshot()
  w.others = {t: v for t, v in after.items() if t != "T"}
  findings = []
  facts = {"accepted": bool(res.ok), "invalid": invalid, "wrote": False, "n_rows": len(rows0)}

  def find(sig, detail):
    findings.append((sig, detail))

  if not res.ok:
    real = {"error": res.error[0], "tag": err_tag(res.error)}
    if before != after:
      find("rejected request changed the document", "; ".join(ed.diff_snapshots(before, after)))
    if ref[0] != "reject":
      find("valid request rejected (%s)" % res.error[0], "%s: %s" % res.error)
  else:
    ret = res.ret[0]
    td = after["T"]
    real = {"ids": list(td["ids"]),
            "cells": {str(rid): {c: ptok(v) for c, v in rec.items() if c in DATA} for rid, rec in w.rows()},
            "ret": ret}
    facts["wrote"] = bool(res.raw_stored)
    # ---- invalid arguments must be rejected
    if invalid:
      if case["kind"] == "single" and not case["require"] and not case["col_values"]:
        find(SIG_SINGLE, "options %r accepted, result %r" % (case["options"], ret))
      elif invalid[0] == "duplicate require keys after type conversion":
        find(SIG_CONVDUP, "require %r accepted, result %r" % (case["require"], ret))
      else:
        find("invalid arguments accepted: " + invalid[0], "result %r" % (ret,))
    elif ref[0] == "reject":
      find("request must be rejected (%s) but was accepted" % ref[1], "result %r" % (ret,))
    else:
      _, rrows, rret, recv = ref
      # ---- frame at document level: nothing but T may change, old rows keep their position
      other = {t: v for t, v in before.items() if t != "T"}
      other_after = {t: v for t, v in after.items() if t != "T"}
      if other != other_after:
        find("upsert changed another table", "; ".join(ed.diff_snapshots(other, other_after)))
      old_ids = before["T"]["ids"]
      if td["ids"][:len(old_ids)] != old_ids:
        find("a row was removed or reordered", "ids %r -> %r" % (old_ids, td["ids"]))
      elif before["T"]["cols"]["manualSort"] != td["cols"]["manualSort"][:len(old_ids)]:
        find("position of an existing row changed", "manualSort")
      # ---- returned ids
      if rret != ret:
        find("returned ids differ from the reference", "expected %r got %r" % (rret, ret))
      # ---- final contents (exact tokens)
      exp_ids = [r[0] for r in rrows]
      if exp_ids != td["ids"]:
        find("row ids differ from the reference", "expected %r got %r" % (exp_ids, td["ids"]))
      else:
        diffs = []
        for k, (rid, rec) in enumerate(rrows):
          for c in DATA:
            if ed.tokv(rec[c]) != td["cols"][c][k]:
              diffs.append((rid, c, ed.tokv(rec[c]), td["cols"][c][k]))
        if diffs:
          touched = set(x for sel in recv for x in sel)
          cnt = {}
          for sel in recv:
            for x in sel:
              cnt[x] = cnt.get(x, 0) + 1
          new_ids = set(exp_ids[len(old_ids):])
          rid, c, e, g = diffs[0]
          detail = "row %s column %s: expected %s got %s (%d cells differ)" % (rid, c, e, g, len(diffs))
          if all(cnt.get(d[0], 0) >= 2 for d in diffs):
            tv = trim_variant(rows0, w.conv, case, recv)
            if all(ed.tokv(tv[rid][c]) == td["cols"][c][k]
                   for k, rid in enumerate(old_ids) for c in DATA):
              find(SIG_TRIM, detail)
            else:
              find("record updated by several input rows has unexpected cells", detail)
          elif rid in new_ids:
            find("added record differs from {**require, **col_values}", detail)
          elif rid in touched:
            find("matched record did not receive col_values", detail)
          else:
            find("a record that matched no input row changed", detail)
  return {"op": op, "real": real, "findings": findings, "facts": facts}


def compare_model(real, mo, kind):
  """None if the model's `impl` answer equals the real outcome, else a description."""
  m = mo.get("impl")
  if m is None:
    return "model answered %r" % (mo,)
  if "error" in real or "error" in m:
    if real.get("error") != m.get("error") or real.get("tag") != m.get("tag"):
      return "error: real %r model %r" % ({k: real.get(k) for k in ("error", "tag")}, {k: m.get(k) for k in ("error", "tag")})
    return None
  if kind == "bulk":
    mret = {k: m[k] for k in ("recordIds", "addRecordIds", "updateRecordIds")}
  else:
    mret = {"recordIds": m["recordIds"], "action": m["action"]}
  if mret != real["ret"]:
    return "retValues: real %r model %r" % (real["ret"], mret)
  mids = [r[0] for r in m["table"]]
  if mids != real["ids"]:
    return "row ids: real %r model %r" % (real["ids"], mids)
  for rid, rec in m["table"]:
    d = dict((c, v) for c, v in rec)
    for c in DATA:
      if d.get(c) != real["cells"][str(rid)][c]:
        return "cell %s.%s: real %r model %r" % (rid, c, real["cells"][str(rid)][c], d.get(c))
  return None


# --------------------------------------------------------------------------- generation

def gen_rows(rng):
  n = rng.choice([0, 1, 2, 3, 3, 4, 4, 5, 6])
  ids = sorted(rng.sample(range(1, 10), n))
  narrow = rng.random() < 0.6     # few distinct values -> many duplicates
  rows = []
  for rid in ids:
    rec = {}
    for c in DATA:
      pool = POOL[c][:2] if narrow else POOL[c]
      rec[c] = rng.choice(pool) if rng.random() < 0.93 else rng.choice(WILD)
    rows.append([rid, rec])
  return rows


def gen_options(rng, empty_require):
  o = {}
  x = rng.choice(["first", "none", "all", None])
  if x is not None:
    o["on_many"] = x
  for k in ("update", "add"):
    x = rng.choice([True, True, False, None])
    if x is not None:
      o[k] = x
  x = rng.choice([True, False, None])
  if empty_require and rng.random() < 0.85:
    x = True
  if x is not None:
    o["allow_empty_require"] = x
  return o


def gen_request(rng, rows, w):
  """A mostly valid bulk request."""
  n = rng.choice([0, 1, 1, 2, 2, 2, 3, 3, 4])
  rc = rng.choice([0, 1, 1, 1, 1, 2, 2])
  req_cols = rng.sample(ALLC, rc)
  if rng.random() < 0.02:
    req_cols.append("zz")
  wild = rng.random() < 0.12
  keys = []
  tries = 0
  while len(keys) < n and tries < 40:
    tries += 1
    if rows and rng.random() < 0.65:
      src = rng.choice(rows)[1]
      key = tuple(src.get(c, 0) for c in req_cols)
      if FORMULA in req_cols:
        i = src["i"]
        key = tuple((i * 2 if isinstance(i, int) and not isinstance(i, bool) else 0) if c == FORMULA else src.get(c, 0)
                    for c in req_cols)
    else:
      key = tuple(rng.choice(WILD if wild else POOL.get(c, [0, 1])) for c in req_cols)
    if wild and rng.random() < 0.3:
      key = tuple(rng.choice(WILD) for c in req_cols)
    if not wild and key in keys and req_cols:
      continue
    if wild and hashable_eq_key(key) in [hashable_eq_key(k) for k in keys] and rng.random() < 0.8:
      continue
    keys.append(key)
  if req_cols and len(keys) < n:
    n = len(keys)
  require = {c: [k[j] for k in keys[:n]] for j, c in enumerate(req_cols)}
  cc = rng.choice([0, 1, 1, 1, 2, 2, 3])
  cv_cols = rng.sample(DATA, cc)
  x = rng.random()
  if x < 0.04:
    cv_cols.append(FORMULA)
  elif x < 0.06:
    cv_cols.append("zz")
  col_values = {}
  for c in cv_cols:
    pool = POOL.get(c, [0, 1])
    col_values[c] = [rng.choice(pool[:2] + pool) if rng.random() < 0.9 else rng.choice(WILD) for _ in range(n)]
  return require, col_values, gen_options(rng, not require)


def break_request(rng, case):
  """Turn a request into an invalid one (one of the classes of the property text)."""
  case = copy.deepcopy(case)
  req, cv, opt = case["require"], case["col_values"], case["options"]
  kinds = ["on_many", "empty"]
  lists = [(d, c) for d in (req, cv) for c in d]
  if lists:
    kinds += ["lengths", "lengths"]
  if req and len(list(req.values())[0]) >= 1:
    kinds += ["dup", "dup"]
  kind = rng.choice(kinds)
  if kind == "on_many":
    opt["on_many"] = rng.choice(BAD_ON_MANY)
  elif kind == "empty":
    case["require"] = {}
    if rng.random() < 0.5:
      opt.pop("allow_empty_require", None)
    else:
      opt["allow_empty_require"] = False
  elif kind == "lengths":
    d, c = rng.choice(lists)
    if d[c] and rng.random() < 0.5:
      d[c] = d[c][:-1]
    else:
      d[c] = d[c] + [rng.choice(WILD)]
  else:
    n = len(list(req.values())[0])
    j = rng.randrange(n)
    alias = {0: [False, 0], 1: [True, 1], True: [1], False: [0]}
    for c in req:
      v = req[c][j]
      if rng.random() < 0.4 and (isinstance(v, (bool, int))) and v in (0, 1):
        v = rng.choice(alias[v])
      req[c] = req[c] + [v]
    for c in cv:
      cv[c] = cv[c] + [cv[c][j]]
    if n >= 2 and rng.random() < 0.5:   # move the duplicate away from the end
      k = rng.randrange(n)
      for d in (req, cv):
        for c in d:
          d[c][k], d[c][-1] = d[c][-1], d[c][k]
  case["broken"] = kind
  return case


def to_single(rng, case):
  c = copy.deepcopy(case)
  c["kind"] = "single"
  c["require"] = {k: (v[0] if v else rng.choice(WILD)) for k, v in case["require"].items()}
  c["col_values"] = {k: (v[0] if v else rng.choice(WILD)) for k, v in case["col_values"].items()}
  if rng.random() < 0.08:
    c["require"], c["col_values"] = {}, {}
  if rng.random() < 0.05:
    c["options"]["on_many"] = rng.choice(BAD_ON_MANY)
  return c


def gen_cases(seed, n):
  """Random stream: ~70% mostly-valid bulk, ~12% invalid bulk, ~18% single."""
  rng = random.Random("C28/cases/%s" % seed)
  w = None
  for _ in range(n):
    rows = gen_rows(rng)
    require, col_values, options = gen_request(rng, rows, w)
    case = {"kind": "bulk", "rows": rows, "require": require, "col_values": col_values, "options": options}
    x = rng.random()
    if x < 0.12:
      case = break_request(rng, case)
    elif x < 0.30:
      case = to_single(rng, case)
    case["chain"] = rng.random() < 0.25   # apply to the table as the previous case left it
    yield case


def exhaustive_cases(tier, rng):
  """Small scopes, complete (thorough) or sub-sampled (quick)."""
  out = []
  opts = [{"on_many": om, "update": u, "add": a}
          for om in ("first", "none", "all") for u in (True, False) for a in (True, False)]
  # (a) one Int key column, 3 rows with values in {1,2}; 1-2 input rows with keys in {1,2,3}
  for vals in itertools.product([1, 2], repeat=3):
    rows = [[k + 1, {"i": v, "t": "a", "b": False, "c": "", "r": 0}] for k, v in enumerate(vals)]
    for n in (1, 2):
      for keys in itertools.permutations([1, 2, 3], n):
        for tv in itertools.product(["a", "b"], repeat=n):
          for o in opts:
            out.append({"kind": "bulk", "rows": rows, "require": {"i": list(keys)},
                        "col_values": {"t": list(tv)}, "options": dict(o)})
  # (b) empty require (allowed): every input row matches every record; 0-2 rows with t in {a,b}
  for vals in itertools.chain.from_iterable(itertools.product(["a", "b"], repeat=k) for k in (0, 1, 2)):
    rows = [[k + 1, {"i": 0, "t": v, "b": False, "c": "", "r": 0}] for k, v in enumerate(vals)]
    for n in (1, 2, 3):
      for tv in itertools.product(["a", "b"], repeat=n):
        for o in opts:
          o = dict(o, allow_empty_require=True)
          out.append({"kind": "bulk", "rows": rows, "require": {}, "col_values": {"t": list(tv)}, "options": o})
  # (c) keys that coincide after conversion, on every column type
  for c, pair in (("i", [1, "1"]), ("t", [1, "1"]), ("b", [1, "true"]), ("c", [2, "2"]), ("r", [None, 0]),
                  ("i", [2, True]), ("t", [0, False]), ("r", ["", False])):
    for present in (False, True):
      v = 1 if c in ("i", "r") else ("1" if c in ("t", "c") else True)
      rows = [[1, {"i": 0, "t": "", "b": False, "c": "", "r": 0}]]
      if present:
        rows.append([2, dict(rows[0][1], **{c: pair[1]})])
      for o in opts[:4]:
        out.append({"kind": "bulk", "rows": rows, "require": {c: list(pair)},
                    "col_values": {"c" if c == "t" else "t": ["a", "b"]}, "options": dict(o)})
  if tier == "quick":
    out = [x for x in out if rng.random() < 0.18]
  return out


# the two Lean counterexamples (C28.lean: impl_eq_spec_full_false, validation_full_false) and the
# AddOrUpdateRecord shortcut, replayed on the real code in every run
WITNESSES = [
  {"kind": "bulk", "rows": [[1, {"i": 0, "t": "b", "b": False, "c": "", "r": 0}]],
   "require": {}, "col_values": {"t": ["a", "b"]}, "options": {"allow_empty_require": True},
   "witness": "impl_eq_spec_full_false"},
  {"kind": "bulk", "rows": [], "require": {"i": [5, "5"]}, "col_values": {"t": ["a", "b"]}, "options": {},
   "witness": "validation_full_false"},
  {"kind": "single", "rows": [[1, {"i": 0, "t": "b", "b": False, "c": "", "r": 0}]],
   "require": {}, "col_values": {}, "options": {"on_many": "nope"}, "witness": "single_shortcut"},
  {"kind": "single", "rows": [], "require": {}, "col_values": {}, "options": {}, "witness": "single_shortcut"},
]


# --------------------------------------------------------------------------- running

def _strip(case):
  return {k: case[k] for k in ("kind", "rows", "require", "col_values", "options")}


def _worker(args):
  from gx import common
  common.setup_repo_path()
  (cases, fresh_every) = args
  w = World()
  out = []
  for case in cases:
    if w.n_cases and w.n_cases % fresh_every == 0:
      w = World()
    chain = case.get("chain") and w.n_cases > 0
    if chain:
      case = dict(case, rows=[[rid, {c: rec[c] for c in DATA}] for rid, rec in w.rows()])
    try:
      r = run_case(w, case, reset=not chain)
    except Exception:
      import traceback
      return {"infra": "case %s: %s" % (json.dumps(_strip(case), default=str)[:600], traceback.format_exc()[-900:])}
    r["case"] = _strip(case)
    out.append(r)
  return {"results": out}


def run_all(ck, cases):
  workers = 1 if len(cases) < 400 else min(12 if ck.tier == "thorough" else 6, os.cpu_count() or 1)
  chunks = [cases[i::workers] for i in range(workers)]
  args = [(c, 700) for c in chunks if c]
  if len(args) == 1:
    res = [_worker(args[0])]
  else:
    with multiprocessing.get_context("fork").Pool(len(args)) as pool:
      res = pool.map(_worker, args)
  for r in res:
    if "infra" in r:
      from gx import common
      raise common.Infra(r["infra"])
  # back into generation order (chunks were taken round-robin)
  results = [None] * len(cases)
  live = [r["results"] for r in res]
  for k, rs in enumerate(live):
    for j, x in enumerate(rs):
      results[k + j * len(live)] = x
  return results


def judge(ck, results):
  model = ck.driver([r["op"] for r in results])
  mism = None
  explained = 0
  for r, mo in zip(results, model):
    ck.evaluated()
    case, facts = r["case"], r["facts"]
    ck.count("kind:" + case["kind"])
    ck.count("accepted" if facts["accepted"] else "rejected:" + r["real"].get("tag", "?"))
    if facts["invalid"]:
      ck.count("invalid:" + facts["invalid"][0])
    if "ret" in r["real"]:
      ret = r["real"]["ret"]
      if case["kind"] == "bulk":
        ck.count("rows_added", len(ret["addRecordIds"]))
        ck.count("input_rows_updating", len(ret["updateRecordIds"]))
        if any(len(x) > 1 for x in ret["updateRecordIds"]):
          ck.count("on_many_all_several")
        if ret["addRecordIds"] and ret["updateRecordIds"]:
          ck.count("add_and_update_in_one_request")
      else:
        ck.count("single:" + ret["action"])
    om = case["options"].get("on_many", "absent")
    ck.count("on_many:%s" % (om if om in ("first", "none", "all", "absent") else "bad"))
    nontriv = (facts["accepted"] and facts["wrote"] and facts["n_rows"] >= 2) or \
              (not facts["accepted"] and facts["invalid"] and facts["n_rows"] >= 1)
    if nontriv:
      ck.nontrivial_case(case)
      if facts["accepted"] and case["kind"] == "bulk" and len(r["real"]["ret"]["recordIds"]) >= 2:
        ck.sample({"case": case, "retValues": r["real"]["ret"]})
    for sig, detail in r["findings"]:
      ck.violation(sig, detail, {"case": case})
    d = compare_model(r["real"], mo, case["kind"])
    if d is not None:
      ck.count("model_impl_disagreements")
      if mism is None:
        mism = {"case": case, "difference": d, "real": r["real"], "model": mo.get("impl")}
    # the model's own impl-vs-spec agreement on this concrete input (theorem instance)
    if case["kind"] == "bulk" and "spec" in mo:
      tg = mo.get("targets", [])
      if len(set(tg)) == len(tg) and not same_outcome(mo["impl"], mo["spec"]):
        ck.count("model_impl_vs_spec_disagreements_without_overlap")
        if mism is None:
          mism = {"case": case, "difference": "Lean impl != Lean spec without overlapping targets", "model": mo}
      if len(set(tg)) != len(tg):
        ck.count("overlapping_update_targets")
  if mism and not ck.has_impl_violation():
    ck.broken("correspondence BulkAddOrUpdateRecord vs Grist.Upsert.upsertImpl",
              "model and implementation differ and the reference oracle is satisfied on all explored inputs: "
              + mism["difference"], mism)
  elif mism:
    ck.count("disagreements_next_to_reported_violation")


def same_outcome(a, b):
  if "error" in a or "error" in b:
    return a.get("error") == b.get("error") and a.get("tag") == b.get("tag")
  if any(a[k] != b[k] for k in ("recordIds", "addRecordIds", "updateRecordIds")):
    return False
  ta = [(r[0], sorted(map(tuple, r[1]))) for r in a["table"]]
  tb = [(r[0], sorted(map(tuple, r[1]))) for r in b["table"]]
  return ta == tb


RULE = ("seeded stream of cases on a live engine: table T (Int/Text/Bool/Choice/Ref columns + formula column, <= 6 rows, "
        "row ids with gaps, few distinct values so keys repeat), bulk requests of 0-4 input rows over 0-2 require columns "
        "(incl. the formula column) and 0-3 col_values columns, every on_many/update/add/allow_empty_require combination "
        "(present or absent), wild values that change under type conversion, an invalid-argument stream (bad on_many, empty "
        "require, unequal lengths, duplicate keys incl. 1/True aliases), AddOrUpdateRecord cases, 25% of the cases chained "
        "on the previous case's table; plus exhaustive small scopes (3 rows x keys in {1,2,3} x 12 option combinations; "
        "empty require with 1-3 input rows; keys coinciding after conversion per column type). "
        "non-trivial = accepted request that wrote to a table of >= 2 rows, or an invalid request rejected on a non-empty "
        "table; distinct by (rows, request, options)")

ASSUMPTIONS = [
  "cell values are None/bool/int/str scalars; Python equality of values = equality of tokens (checked per case by the tie)",
  "type conversion (col.convert), column defaults and table.next_row_id() are parameters taken from the live column objects",
  "lookup_records(**key) = rows whose cells equal the converted key, in row-id order (index exactness is C13/C05)",
  "no 'id'/'manualSort' keys, no empty (formula-less) columns, option values boolean or absent",
  "at most one non-writable column in col_values (which of two errors comes first depends on set iteration order)",
  "Lean theorem hypotheses: next exceeds every row id, row ids distinct, (for impl=spec) no record targeted twice",
]


def run(ck):
  ck.rule = RULE
  ck.assumptions = ASSUMPTIONS
  ck.lean(["GristProps.C28"])
  n = 900 if ck.tier == "quick" else 80000
  cases = [dict(c) for c in WITNESSES]
  cases += exhaustive_cases(ck.tier, ck.rng)
  cases += list(gen_cases(ck.seed, n))
  results = run_all(ck, cases)
  judge(ck, results)


def replay(ck, rp):
  from gx import common
  common.setup_repo_path()
  case = rp["replay"]["case"]
  w = World()
  r = run_case(w, case)
  r["case"] = _strip(case)
  print("replay: %s T=%r require=%r col_values=%r options=%r" % (
    case["kind"], case["rows"], case["require"], case["col_values"], case["options"]))
  print("  real outcome: %r" % (r["real"],))
  for sig, detail in r["findings"]:
    print("  finding: %s: %s" % (sig, detail))
  if not r["findings"]:
    print("  property holds on this input")
  judge(ck, [r])
  ck.nontrivial_case("replay"); ck.nontrivial_case(case)
  ck.lean(["GristProps.C28"])
