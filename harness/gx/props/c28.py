"""
C28  Upserts follow their specification (useractions.BulkAddOrUpdateRecord / AddOrUpdateRecord).

Theorems: lean/GristProps/C28.lean about lean/GristModel/Upsert.lean
  upsert_impl_eq_spec_partial, upsert_impl_eq_spec_distinct_keys, add_or_update_eq_spec,
  upsert_validation (+ _on_many/_empty_require/_lengths/_duplicate), upsert_frame, and the refutations
  impl_eq_spec_full_false / validation_full_false whose witnesses are replayed here (WITNESSES).
Tie:    every case is run through a live engine (gx.engine_driver.Doc) and through the compiled model
        (`upsertImpl` / `addOrUpdateImpl`): error class + which check, retValues, final data cells.
Search: an independent Python reference of the documented behaviour (`reference`) is compared with
        the engine's result (exact values), plus frame checks (no other table touched, rejected
        requests leave `doc.snapshot()` unchanged).

INTERPRETATION (the reading of the property text that the check demands):
  * "records matching `require` are looked up": in the table as it is BEFORE the action, for every
    input row (the code does all lookups before its two bulk actions; DESIGN.md C28), with the
    type conversion `lookup_records` applies to the key (`col.convert`), in row-id order.
  * several input rows that give values to the same record are applied in input order (the last
    one wins) - this can only happen with an empty `require` (allow_empty_require) or with require
    keys that coincide after type conversion.
  * the added record is `{**require, **col_values}` over the column defaults, REAL formula columns of
    `require` left out (they cannot be stored); values are stored as `col.convert` gives them.
  * EMPTY columns (isFormula with formula '': the state of a freshly added column; column `e`, type
    Any) accept data like data columns: their `require` values ARE stored in an added record (the code:
    `require_add_keys` drops a column only if it `is_formula()` AND has formula text), they may be
    given in `col_values`, and looking a key up in a still-empty column compares it (unconverted, the
    type is Any) with its cells, which are all None.  What storing into an empty column means is the
    documented behaviour of `_ensure_column_accepts_data`, taken as a parameter from the live code
    like `col.convert`: each of the two bulk actions of an upsert (BulkAddRecord first, then
    BulkUpdateRecord) that carries a value for a still-empty column has `guess_col_info` look at ITS
    values; all blank (None / '') -> the column stays empty and None is stored; otherwise the column
    becomes a data column of the guessed type, every record that exists at that moment gets that
    type's default in it, and the values are stored as the new type converts them.  Only the record of
    that column in _grist_Tables_column may change (type, isFormula).
  * an added record matches its own `require` afterwards, column by column (`col.convert(sent value)
    == stored cell` with the column as it is after the action; real formula columns and columns
    overridden by `col_values` excepted) - otherwise repeating the request adds a duplicate instead of
    updating.
  * invalid arguments = bad on_many; empty require without allow_empty_require; value lists of
    different lengths; two input rows with the same require key - "same" as sent (Python equality
    of the tuples: that is what the code checks) or same after the column's type conversion (that is
    what makes two rows address the same records).  All of them must be rejected, nothing changed.
  * a formula / unknown column in `col_values` must be rejected when a record would be written
    (code comment: "setting such a column there should raise an error"); an unknown column in
    `require` is always rejected.
  * `id` / `manualSort` as keys and compound cell values are out of scope (C27 / C18 territory);
    option values are booleans or absent.  Every case starts with column `e` EMPTY: a case that
    converted it is followed by RemoveColumn + AddColumn (World.ensure_empty), so cases (also the
    chained ones, which keep the data columns of the rows) are independent and replays faithful.
  * SEVERAL ACTIONS IN ONE BUNDLE (kind "seq"): the reference semantics is sequential - every action of a
    bundle sees the table as the previous actions of that bundle left it, so an upsert that follows an
    UpdateRecord / BulkUpdateRecord / AddRecord / RemoveRecord / another upsert which changed a cell of one of
    its require columns (or added / removed a record) must look up the CHANGED table.  Demanded: the bundle's
    retValues (every action's) and the final table T (all cells incl. the formula column, manualSort) equal those
    of the same actions applied as separate bundles, no other table changes; and when an action of the bundle
    is rejected (after the preceding ones were applied) the WHOLE bundle is rejected with the same error and
    the document is left exactly as it was before the bundle.  Every link of the separate-bundle chain is
    itself judged: the upserts as ordinary single-action cases (reference + frame + model tie), the plain
    record actions by a naive reference (convert + store / append with defaults / delete).  Sequences do not
    name the EMPTY column e (its conversion is a schema change: covered by the single-action cases only).
"""
import copy
import itertools
import json
import multiprocessing
import os
import random

DATA = ["i", "t", "b", "c", "r"]
TYPES = {"i": "Int", "t": "Text", "b": "Bool", "c": "Choice", "r": "Ref:R"}
EMPTY = "e"                      # isFormula=True, formula='' , type Any
STORED = DATA + [EMPTY]          # the columns that hold what is written (compared cell by cell)
FORMULA = "f"
F_EXPR = "($i if isinstance($i, int) else 0) * 2"
ALLC = DATA + [EMPTY, FORMULA]
# conversion fixed points per column (small pools, so duplicates abound)
POOL = {"i": [0, 1, 2, 3], "t": ["", "a", "b", "1"], "b": [True, False], "c": ["", "u", "v"],
        "r": [0, 1, 2, 3], "f": [0, 2, 4, 6],
        # None = what every cell of a still-empty column holds; '' is blank too; "1" and 1 are both numeric
        "e": [None, None, "", "a", "b", 1, 2, "1"]}
WILD = [None, True, False, 0, 1, 2, "", "a", "1", "2", "true", "x"]
BAD_ON_MANY = ["First", "", "any", 0, None, "ALL", "nope"]

SIG_TRIM = ("two input rows give values to the same record and the later values equal the record's cells "
            "before the action: the earlier row's values stay")
SIG_CONVDUP = "require rows distinct as sent but equal after the column's type conversion are accepted"
SIG_SINGLE = "AddOrUpdateRecord with empty require and empty col_values returns NONE without checking its options"
SIG_BLANK = ("blank string '' required on an empty column that stays empty is stored as None: the added record does "
             "not match its own require")

# several user actions in ONE bundle (kind "seq") - none of the recorded findings is ever used for these
SIG_SEQ_RET = ("an upsert inside a bundle of several actions returns other records than when the same actions are "
               "applied as separate bundles (it does not see the table as the previous actions left it)")
SIG_SEQ_TABLE = ("a bundle of several actions with upserts leaves another table than the same actions applied as "
                 "separate bundles")
SIG_SEQ_OTHER = "a bundle of several actions with upserts changed another table"
SIG_SEQ_REJECTED = "a bundle of actions that are all accepted when applied as separate bundles is rejected"
SIG_SEQ_ACCEPTED = ("a bundle is accepted although one of its actions is rejected when applied after the preceding "
                    "ones as separate bundles")
SIG_SEQ_ERROR = "a bundle is rejected with another error than its rejected action applied on its own"
SIG_SEQ_ROLLBACK = "a bundle rejected because of one of its actions changed the document"
SIG_SEQ_STALE_F = ("bundle rejected because of an invalid upsert after earlier actions of the bundle wrote: the data "
                   "is restored but cells of the formula column keep their mid-bundle values until the next "
                   "calculation (nothing else differs)")
SIG_SEQ_PLAIN = ("a plain record action applied as a bundle of its own differs from its naive reference "
                 "(link of the sequential reference chain)")


# --------------------------------------------------------------------------- tokens

def ptok(v):
  """Token of a cell value such that token equality == Python equality (what lookups, the
  uniqueness check and trim_update_action use)."""
  if v is None:
    return "N"
  if isinstance(v, (bool, int)):
    return "n%d" % int(v)
  if isinstance(v, float):
    return ("n%d" % int(v)) if v == int(v) else "f%r" % v
  if isinstance(v, str):
    return "s" + v
  raise ValueError("value outside the modelled universe: %r" % (v,))


# --------------------------------------------------------------------------- world

E_INFO = {"type": "Any", "isFormula": True, "formula": ""}


class EmptyConv(object):
  """What `_ensure_column_accepts_data` does with the values one bulk action carries for an EMPTY
  column of type Any - a parameter taken from the live code (like `col.convert`)."""

  def __init__(self, engine):
    import useractions
    import usertypes
    self._guess = useractions.guess_col_info
    self._usertypes = usertypes
    self._docmodel = engine.docmodel

  def guess(self, values):
    """(new type name or None when the column stays empty, the values to store before the new type's conversion)"""
    info, vals = self._guess(list(values), self._docmodel)
    if not info:
      return None, list(vals)
    assert set(info) == {"type"}, info
    return info["type"], list(vals)

  def _type(self, tname):
    return getattr(self._usertypes, self._usertypes.get_pure_type(tname))()

  def tconv(self, tname, v):
    return self._type(tname).convert(v)

  def tdefault(self, tname):
    return self._type(tname).default


class World(object):
  def __init__(self):
    from gx import engine_driver as ed
    self.ed = ed
    self.doc = ed.Doc()
    r = self.doc.apply([["AddTable", "R", [{"id": "name", "type": "Text", "isFormula": False}]]])
    assert r.ok, r.error
    cols = [{"id": c, "type": TYPES[c], "isFormula": False} for c in DATA]
    cols.append(dict(E_INFO, id=EMPTY))
    cols.append({"id": FORMULA, "type": "Int", "isFormula": True, "formula": F_EXPR})
    r = self.doc.apply([["AddTable", "T", cols]])
    assert r.ok, r.error
    r = self.doc.apply([["BulkAddRecord", "R", [None] * 3, {"name": ["x", "y", "z"]}]])
    assert r.ok, r.error
    self.table = self.doc.engine.tables["T"]
    self.n_cases = 0
    self.n_restored = 0
    self.poisoned = False
    self.econv = EmptyConv(self.doc.engine)
    assert self.is_empty()
    self.refresh()

  def refresh(self):
    # every table but T, as the last case left it (our own resets only touch T's rows; when column e
    # is put back its metadata records are new ones)
    self.others = {t: v for t, v in self.doc.snapshot().items() if t != "T"}
    tref = [t["id"] for t in self.doc.meta("_grist_Tables") if t["tableId"] == "T"][0]
    self.e_ref = [c["id"] for c in self.doc.meta("_grist_Tables_column")
                  if c["parentId"] == tref and c["colId"] == EMPTY][0]

  def is_empty(self):
    sc = self.doc.engine.schema["T"].columns[EMPTY]
    col = self.table.get_column(EMPTY)
    return bool(sc.isFormula) and sc.formula == "" and sc.type == "Any" and col.is_formula()

  def ensure_empty(self):
    """Column e back to the state of a freshly added column (all cells None)."""
    if self.is_empty():
      return
    r = self.doc.apply([["RemoveColumn", "T", EMPTY]])
    assert r.ok, r.error
    r = self.doc.apply([["AddColumn", "T", EMPTY, dict(E_INFO)]])
    assert r.ok, r.error
    assert self.is_empty()
    self.n_restored += 1
    self.refresh()

  def conv(self, c, v):
    if c in ALLC:
      return self.table.get_column(c).convert(v)
    return v

  def rows(self):
    """Current content of T as [[id, {col: value}]] (all modelled columns, raw python values)."""
    td = self.doc.engine.fetch_table("T", formulas=True)
    return [[r, {c: td.columns[c][k] for c in ALLC}] for k, r in enumerate(td.row_ids)]

  def reset(self, rows):
    self.ensure_empty()
    ids = list(self.table.row_ids)
    if ids:
      r = self.doc.apply([["BulkRemoveRecord", "T", sorted(ids)]])
      assert r.ok, r.error
    if rows:
      r = self.doc.apply([["BulkAddRecord", "T", [x[0] for x in rows],
                           {c: [x[1][c] for x in rows] for c in DATA}]])
      assert r.ok, r.error


def resolve_options(options):
  om = options.get("on_many", "first")
  return {"update": bool(options.get("update", True)), "add": bool(options.get("add", True)),
          "allow_empty_require": bool(options.get("allow_empty_require", False)),
          "on_many": om if (isinstance(om, str) and om in ("first", "none", "all")) else "bad"}


# --------------------------------------------------------------------------- reference (oracle)

def hashable_eq_key(vals):
  # Python equality classes of a tuple of scalars (1 == 1.0 == True)
  return tuple(ptok(v) for v in vals)


def classify_invalid(case, conv):
  """The invalid-argument classes of the property text.  Returns list of class names."""
  req, cv, opt = case["require"], case["col_values"], case["options"]
  single = case["kind"] == "single"
  out = []
  om = opt.get("on_many", "first")
  if not (isinstance(om, str) and om in ("first", "none", "all")):
    out.append("bad on_many")
  if not req and not opt.get("allow_empty_require", False):
    out.append("empty require without allow_empty_require")
  if not single:
    lens = set(len(v) for v in req.values()) | set(len(v) for v in cv.values())
    if len(lens) > 1:
      out.append("mismatched lengths")
    elif req and len(lens) == 1:
      n = lens.pop()
      raw = [hashable_eq_key([req[c][k] for c in req]) for k in range(n)]
      cvt = [hashable_eq_key([conv(c, req[c][k]) for c in req]) for k in range(n)]
      if len(set(raw)) < n:
        out.append("duplicate require keys")
      elif len(set(cvt)) < n:
        out.append("duplicate require keys after type conversion")
  return out


def walk(rows0, conv, req, cv, opt, n):
  """Per input row, on the table BEFORE the action: ("add", []) / ("upd", receivers) / ("none", [])."""
  update = opt.get("update", True)
  add = opt.get("add", True)
  on_many = opt.get("on_many", "first")
  before = dict((r[0], r[1]) for r in rows0)
  steps = []
  for k in range(n):
    key = {c: conv(c, req[c][k]) for c in req}
    ms = [rid for rid, _ in rows0 if all(before[rid][c] == key[c] for c in key)]
    if not ms:
      steps.append(("add", []) if add else ("none", []))
    elif not update:
      steps.append(("upd", []))
    elif len(ms) == 1 or on_many == "all":
      steps.append(("upd", ms))
    elif on_many == "first":
      steps.append(("upd", ms[:1]))
    else:
      steps.append(("upd", []))
  return steps


def empty_plan(steps, req, cv, econv):
  """What the two bulk actions store into the (still EMPTY) column e.  {"conv_add"/"conv_upd": type the
  column is converted to by the BulkAddRecord / the BulkUpdateRecord (or None), "add"/"upd": {input
  row: stored value}}."""
  plan = {"conv_add": None, "conv_upd": None, "add": {}, "upd": {}}
  state = None
  src = cv if EMPTY in cv else (req if EMPTY in req else None)   # {**require, **col_values}
  add_rows = [k for k, st in enumerate(steps) if st[0] == "add"]
  if add_rows and src is not None:
    tname, vals = econv.guess([src[EMPTY][k] for k in add_rows])
    if tname is not None:
      state = plan["conv_add"] = tname
      vals = [econv.tconv(tname, v) for v in vals]
    plan["add"] = dict(zip(add_rows, vals))
  upd = [k for k, st in enumerate(steps) for _ in st[1]]          # one value per (input row, receiver)
  if upd and EMPTY in cv:
    vals = [cv[EMPTY][k] for k in upd]
    if state is None:
      tname, vals = econv.guess(vals)
      if tname is not None:
        state = plan["conv_upd"] = tname
    if state is not None:
      vals = [econv.tconv(state, v) for v in vals]
    plan["upd"] = dict(zip(upd, vals))
  return plan


def plan_for(rows0, conv, econv, case):
  """The empty-column plan of a request whatever its validity (None if it has no well-formed input
  rows or does not name column e) - the model's parameters for column e."""
  req, cv = case["require"], case["col_values"]
  if EMPTY not in req and EMPTY not in cv:
    return None
  if case["kind"] == "single":
    req = {k: [v] for k, v in req.items()}
    cv = {k: [v] for k, v in cv.items()}
  lens = set(len(v) for v in req.values()) | set(len(v) for v in cv.values())
  if len(lens) != 1 or any(c not in ALLC for c in req):
    return None
  opt = resolve_options(case["options"])
  if opt["on_many"] == "bad":
    return None
  return empty_plan(walk(rows0, conv, req, cv, opt, lens.pop()), req, cv, econv)


def reference(rows0, next_id, defaults, conv, case, econv):
  """The documented behaviour on plain python values.  `rows0` = [[id, {col: val}]] in id order.
  Returns ("reject", why) or ("ok", rows, ret, receivers_per_input_row, info); info = {"plan": the
  empty-column plan, "adds": [(input row, new id)]}."""
  req, cv, opt = case["require"], case["col_values"], case["options"]
  single = case["kind"] == "single"
  no_info = {"plan": None, "adds": []}
  if single:
    if not req and not cv and not classify_invalid(case, conv):
      return ("ok", copy.deepcopy(rows0), {"recordIds": [], "action": "NONE"}, [], no_info)
    req = {k: [v] for k, v in req.items()}
    cv = {k: [v] for k, v in cv.items()}
  bad = classify_invalid(case, conv)
  if bad:
    return ("reject", bad[0])
  for c in req:
    if c not in ALLC:
      return ("reject", "unknown column in require")
  ret = {"recordIds": [], "addRecordIds": [], "updateRecordIds": []}
  rows = copy.deepcopy(rows0)
  if not req and not cv:
    return ("ok", rows, ret if not single else {"recordIds": [], "action": "NONE"}, [], no_info)
  n = len(list(req.values())[0]) if req else len(list(cv.values())[0])
  steps = walk(rows0, conv, req, cv, opt, n)
  plan = empty_plan(steps, req, cv, econv)
  new_rows, adds, writes, recv = [], [], [], []
  for k, (what, sel) in enumerate(steps):
    vals = {c: conv(c, cv[c][k]) for c in cv if c != EMPTY}
    recv.append(sel)
    if what == "add":
      rec = dict(defaults)
      # require values of EMPTY columns are stored like those of data columns; real formula columns are not
      rec.update({c: conv(c, req[c][k]) for c in req if c not in (FORMULA, EMPTY)})
      rec.update(vals)
      if EMPTY in req or EMPTY in cv:
        rec[EMPTY] = plan["add"][k]
      new_rows.append([next_id, rec])
      adds.append((k, next_id))
      ret["recordIds"].append([next_id])
      ret["addRecordIds"].append(next_id)
      next_id += 1
      continue
    if EMPTY in cv and sel:
      vals[EMPTY] = plan["upd"][k]
    for rid in sel:
      writes.append((rid, vals))
    ret["recordIds"].append(sel)
    if sel:
      ret["updateRecordIds"].append(sel)
  if new_rows or writes:
    for c in cv:
      if c not in STORED:
        return ("reject", "formula column in col_values" if c == FORMULA else "unknown column in col_values")
  # BulkAddRecord: a conversion of column e fills the records that exist, then the new ones are appended
  if plan["conv_add"] is not None:
    for _, rec in rows:
      rec[EMPTY] = econv.tdefault(plan["conv_add"])
  rows += new_rows
  # BulkUpdateRecord: a conversion fills all records (the new ones too), then the receivers are
  # written in input order (the last input row wins)
  if plan["conv_upd"] is not None:
    for _, rec in rows:
      rec[EMPTY] = econv.tdefault(plan["conv_upd"])
  byid = dict((r[0], r[1]) for r in rows)
  for rid, vals in writes:
    byid[rid].update(vals)
  if single:
    ids = ret["recordIds"][0] if ret["recordIds"] else []
    action = "UPDATE" if ret["updateRecordIds"] else ("ADD" if ret["addRecordIds"] else "NONE")
    ret = {"recordIds": ids, "action": action}
  return ("ok", rows, ret, recv, {"plan": plan, "adds": adds})


def trim_variant(rows0, conv, case, recv, plan, econv):
  """What the rows look like if, among the accumulated (record, values) pairs, those equal to the
  record's cells BEFORE the BulkUpdateRecord writes (Engine.trim_update_action; a conversion of the
  empty column has filled its cells by then) are dropped - only used to give the known deviation its
  specific signature."""
  cv = case["col_values"]
  if case["kind"] == "single":
    cv = {k: [v] for k, v in cv.items()}
  before = copy.deepcopy(dict((r[0], r[1]) for r in rows0))
  for tname in (plan["conv_add"], plan["conv_upd"]):
    if tname is not None:
      for rec in before.values():
        rec[EMPTY] = econv.tdefault(tname)
  out = copy.deepcopy(before)
  for k, sel in enumerate(recv):
    vals = {c: conv(c, cv[c][k]) for c in cv if c != EMPTY}
    if EMPTY in cv and sel:
      vals[EMPTY] = plan["upd"][k]
    for rid in sel:
      if any(before[rid][c] != vals[c] for c in vals):
        out[rid].update(vals)
  return out


# --------------------------------------------------------------------------- one case

def model_op(w, case, rows0, next_id, defaults, plan):
  req, cv = case["require"], case["col_values"]
  op = {"m": "upsert", "op": case["kind"],
        "schema": [[c, "data"] for c in DATA] + [[EMPTY, "empty"], [FORMULA, "formula"]],
        "table": [[rid, [[c, ptok(rec[c])] for c in ALLC]] for rid, rec in rows0],
        "next": next_id,
        "defaults": [[c, ptok(defaults[c])] for c in STORED],
        "options": resolve_options(case["options"])}

  def rtok(c, k, v):
    # [as sent, as looked up, as stored in an added record]
    cell = [ptok(v), ptok(w.conv(c, v))]
    if c == EMPTY and plan is not None and k in plan["add"]:
      cell.append(ptok(plan["add"][k]))
    return cell

  def vtok(c, k, v):
    if c == EMPTY and plan is not None:
      if k in plan["add"]:
        return ptok(plan["add"][k])
      if k in plan["upd"]:
        return ptok(plan["upd"][k])
    return ptok(w.conv(c, v))

  if case["kind"] == "bulk":
    op["require"] = [[c, [rtok(c, k, v) for k, v in enumerate(vs)]] for c, vs in req.items()]
    op["col_values"] = [[c, [vtok(c, k, v) for k, v in enumerate(vs)]] for c, vs in cv.items()]
  else:
    op["require"] = [[c, rtok(c, 0, v)] for c, v in req.items()]
    op["col_values"] = [[c, vtok(c, 0, v)] for c, v in cv.items()]
  if plan is not None:
    for key in ("conv_add", "conv_upd"):
      if plan[key] is not None:
        op[key] = [[EMPTY, ptok(w.econv.tdefault(plan[key]))]]
  return op


ERR_TAG = [("on_many should be", "on_many"), ("require is empty", "empty_require"),
           ("Value lists must all have the same length", "lengths"),
           ("require values must be unique", "not_unique"), ("Can't save value to formula column", "formula_column")]


def err_tag(error):
  cls, msg = error
  if cls == "KeyError":
    return "unknown_column"
  for pre, tag in ERR_TAG:
    if msg.startswith(pre):
      return tag
  return "other:" + msg[:60]


def run_case(w, case, reset=True):
  """Runs one case on the live engine.  Returns a dict: op (for the model), real (canonical real
  outcome, comparable with the model's answer), findings [(signature, detail)], facts."""
  ed = w.ed
  if reset:
    w.reset(case["rows"])
  else:
    w.ensure_empty()       # a chained case keeps the rows (data columns), not a converted column e
  w.n_cases += 1
  rows0 = w.rows()
  assert all(rec[EMPTY] is None for _, rec in rows0), rows0
  next_id = w.table.next_row_id()
  defaults = {c: w.table.get_column(c).getdefault() for c in STORED}
  plan = plan_for(rows0, w.conv, w.econv, case)
  op = model_op(w, case, rows0, next_id, defaults, plan)
  ref = reference(rows0, next_id, defaults, w.conv, case, w.econv)
  invalid = classify_invalid(case, w.conv)
  before = dict(w.others, T=w.doc.snapshot(tables=["T"])["T"])
  name = "BulkAddOrUpdateRecord" if case["kind"] == "bulk" else "AddOrUpdateRecord"
  res = w.doc.apply([[name, "T", case["require"], case["col_values"], case["options"]]])
  after = w.doc.snapshot()
  w.others = {t: v for t, v in after.items() if t != "T"}
  findings = []
  facts = {"accepted": bool(res.ok), "invalid": invalid, "wrote": False, "n_rows": len(rows0),
           "e_require": EMPTY in case["require"], "e_col_values": EMPTY in case["col_values"],
           "e_converted": None, "e_stored_from_require": 0, "e_matched_none": False}

  def find(sig, detail):
    findings.append((sig, detail))

  if not res.ok:
    real = {"error": res.error[0], "tag": err_tag(res.error)}
    if before != after:
      find("rejected request changed the document", "; ".join(ed.diff_snapshots(before, after)))
    if ref[0] != "reject":
      find("valid request rejected (%s)" % res.error[0], "%s: %s" % res.error)
  else:
    ret = res.ret[0]
    td = after["T"]
    real = {"ids": list(td["ids"]),
            "cells": {str(rid): {c: ptok(v) for c, v in rec.items() if c in STORED} for rid, rec in w.rows()},
            "ret": ret}
    facts["wrote"] = bool(res.raw_stored)
    if not w.is_empty():
      facts["e_converted"] = w.doc.engine.schema["T"].columns[EMPTY].type
    # ---- invalid arguments must be rejected
    if invalid:
      if case["kind"] == "single" and not case["require"] and not case["col_values"]:
        find(SIG_SINGLE, "options %r accepted, result %r" % (case["options"], ret))
      elif invalid[0] == "duplicate require keys after type conversion":
        find(SIG_CONVDUP, "require %r accepted, result %r" % (case["require"], ret))
      else:
        find("invalid arguments accepted: " + invalid[0], "result %r" % (ret,))
    elif ref[0] == "reject":
      find("request must be rejected (%s) but was accepted" % ref[1], "result %r" % (ret,))
    else:
      _, rrows, rret, recv, info = ref
      plan = info["plan"] or {"conv_add": None, "conv_upd": None, "add": {}, "upd": {}}
      # ---- frame at document level: nothing but T may change - except the metadata record of
      # column e when a bulk action converts it (type, isFormula) - old rows keep their position
      other = {t: v for t, v in before.items() if t != "T"}
      other_after = {t: v for t, v in after.items() if t != "T"}
      tname = plan["conv_add"] or plan["conv_upd"]
      if tname is not None:
        other = copy.deepcopy(other)
        mc = other["_grist_Tables_column"]
        j = mc["ids"].index(w.e_ref)
        mc["cols"]["type"][j] = ed.tokv(tname)
        mc["cols"]["isFormula"][j] = ed.tokv(False)
      if other != other_after:
        find("upsert changed another table" if tname is None else
             "metadata after the upsert differ from the conversion of the empty column to %s" % tname,
             "; ".join(ed.diff_snapshots(other, other_after)))
      # ---- an added record matches its own require (not: real formula columns, columns overridden by col_values)
      sreq = case["require"] if case["kind"] == "bulk" else {c: [v] for c, v in case["require"].items()}
      cells = dict((rid, rec) for rid, rec in w.rows())
      for k, new_id in info["adds"]:
        for c in sreq:
          if c == FORMULA or c in case["col_values"] or new_id not in cells:
            continue
          sent, cell = sreq[c][k], cells[new_id][c]
          if c == EMPTY:
            facts["e_stored_from_require"] += 1
          if w.table.get_column(c).convert(sent) != cell:
            detail = "input row %d: require %s=%r, record %d holds %r" % (k, c, sent, new_id, cell)
            if c == EMPTY and sent == "" and cell is None and w.is_empty():
              find(SIG_BLANK, detail)
            else:
              find("added record does not match its own require", detail)
      if EMPTY in sreq and any(sel for sel in recv):
        facts["e_matched_none"] = True
      old_ids = before["T"]["ids"]
      if td["ids"][:len(old_ids)] != old_ids:
        find("a row was removed or reordered", "ids %r -> %r" % (old_ids, td["ids"]))
      elif before["T"]["cols"]["manualSort"] != td["cols"]["manualSort"][:len(old_ids)]:
        find("position of an existing row changed", "manualSort")
      # ---- returned ids
      if rret != ret:
        find("returned ids differ from the reference", "expected %r got %r" % (rret, ret))
      # ---- final contents (exact tokens)
      exp_ids = [r[0] for r in rrows]
      if exp_ids != td["ids"]:
        find("row ids differ from the reference", "expected %r got %r" % (exp_ids, td["ids"]))
      else:
        diffs = []
        for k, (rid, rec) in enumerate(rrows):
          for c in STORED:
            if ed.tokv(rec[c]) != td["cols"][c][k]:
              diffs.append((rid, c, ed.tokv(rec[c]), td["cols"][c][k]))
        if diffs:
          touched = set(x for sel in recv for x in sel)
          cnt = {}
          for sel in recv:
            for x in sel:
              cnt[x] = cnt.get(x, 0) + 1
          new_ids = set(exp_ids[len(old_ids):])
          # (an added record that is wrong comes first: other differences are often its consequences)
          rid, c, e, g = ([d for d in diffs if d[0] in new_ids] + diffs)[0]
          detail = "row %s column %s: expected %s got %s (%d cells differ)" % (rid, c, e, g, len(diffs))
          if all(cnt.get(d[0], 0) >= 2 for d in diffs):
            tv = trim_variant(rows0, w.conv, case, recv, plan, w.econv)
            if all(ed.tokv(tv[rid][c]) == td["cols"][c][k]
                   for k, rid in enumerate(old_ids) for c in STORED):
              find(SIG_TRIM, detail)
            else:
              find("record updated by several input rows has unexpected cells", detail)
          elif rid in new_ids:
            find("added record differs from {**require, **col_values}", detail)
          elif rid in touched:
            find("matched record did not receive col_values", detail)
          else:
            find("a record that matched no input row changed", detail)
  return {"op": op, "real": real, "findings": findings, "facts": facts}


def compare_model(real, mo, kind):
  """None if the model's `impl` answer equals the real outcome, else a description."""
  m = mo.get("impl")
  if m is None:
    return "model answered %r" % (mo,)
  if "error" in real or "error" in m:
    if real.get("error") != m.get("error") or real.get("tag") != m.get("tag"):
      return "error: real %r model %r" % ({k: real.get(k) for k in ("error", "tag")}, {k: m.get(k) for k in ("error", "tag")})
    return None
  mret = model_ret(m, kind)
  if mret != real["ret"]:
    return "retValues: real %r model %r" % (real["ret"], mret)
  mids = [r[0] for r in m["table"]]
  if mids != real["ids"]:
    return "row ids: real %r model %r" % (real["ids"], mids)
  for rid, rec in m["table"]:
    d = dict((c, v) for c, v in rec)
    for c in STORED:
      if d.get(c) != real["cells"][str(rid)][c]:
        return "cell %s.%s: real %r model %r" % (rid, c, real["cells"][str(rid)][c], d.get(c))
  return None


# --------------------------------------------------------------------------- several actions in one bundle

UPSERTS = ("BulkAddOrUpdateRecord", "AddOrUpdateRecord")
SEQ_KEYS = DATA + [FORMULA]          # (the EMPTY column is kept out of the sequences, see INTERPRETATION)


def f_of(i):
  """F_EXPR on a stored cell of column i."""
  return (i if isinstance(i, int) else 0) * 2


def upsert_case(action, rows_data):
  return {"kind": "bulk" if action[0] == "BulkAddOrUpdateRecord" else "single", "rows": rows_data,
          "require": action[2], "col_values": action[3], "options": action[4]}


def data_rows(rows_full):
  return [[rid, {c: rec[c] for c in DATA}] for rid, rec in rows_full]


def plain_reference(rows_full, action, conv, defaults):
  """Naive reference of UpdateRecord / BulkUpdateRecord / AddRecord / RemoveRecord on T (values are stored as the
  column converts them, a new record gets the column defaults and the id max+1 unless one is given, the formula
  column follows column i).  Returns (rows, retValue) or None when the action has to be rejected."""
  rows = copy.deepcopy(rows_full)
  byid = dict((r[0], r[1]) for r in rows)
  name, ret = action[0], None
  if name in ("UpdateRecord", "BulkUpdateRecord"):
    ids = [action[2]] if name == "UpdateRecord" else list(action[2])
    vals = {c: [v] for c, v in action[3].items()} if name == "UpdateRecord" else action[3]
    if any(rid not in byid for rid in ids) or any(c not in DATA for c in vals) or \
       any(len(v) != len(ids) for v in vals.values()):
      return None
    for k, rid in enumerate(ids):
      for c in vals:
        byid[rid][c] = conv(c, vals[c][k])
  elif name == "AddRecord":
    rid = action[2]
    if rid is None:
      rid = max(byid) + 1 if byid else 1
    if rid in byid or any(c not in DATA for c in action[3]):
      return None
    rec = dict(defaults)
    rec.update({c: conv(c, v) for c, v in action[3].items()})
    rows.append([rid, rec])
    rows.sort(key=lambda r: r[0])
    ret = rid
  elif name == "RemoveRecord":
    if action[2] not in byid:
      return None
    rows = [r for r in rows if r[0] != action[2]]
  else:
    raise ValueError("action outside the sequence vocabulary: %r" % (action,))
  for _, rec in rows:
    rec[FORMULA] = f_of(rec["i"])
  return rows, ret


def match_sets(rows_full, sc, conv):
  """Per input row of an upsert the ids of the records matching its require key in `rows_full` (exact scan with
  the converted key), or None for a request without well-formed input rows."""
  req = sc["require"]
  if sc["kind"] == "single":
    req = {k: [v] for k, v in req.items()}
  if any(c not in ALLC for c in req) or any(not isinstance(v, list) for v in req.values()):
    return None
  lens = set(len(v) for v in req.values())
  if len(lens) > 1:
    return None
  n = lens.pop() if lens else 1
  out = []
  for k in range(n):
    key = {c: conv(c, req[c][k]) for c in req}
    out.append([rid for rid, rec in rows_full if all(rec[c] == key[c] for c in key)])
  return out


def changed_cells(rows_a, rows_b):
  """{row id: set of columns} whose cells differ between two full-row lists (added / removed records: every
  column)."""
  a, b = dict((r[0], r[1]) for r in rows_a), dict((r[0], r[1]) for r in rows_b)
  out = {}
  for rid in set(a) | set(b):
    if rid not in a or rid not in b:
      out[rid] = set(ALLC)
    else:
      cols = set(c for c in ALLC if ptok_or_repr(a[rid][c]) != ptok_or_repr(b[rid][c]))
      if cols:
        out[rid] = cols
  return out


def ptok_or_repr(v):
  try:
    return ptok(v)
  except ValueError:
    return "r" + repr(v)


class SeqGen(object):
  """Adaptive, seeded generator of ONE bundle of 3-7 user actions on T around one lookup key (1-2 require columns,
  the formula column included): upserts alternate with actions that change key cells (UpdateRecord /
  BulkUpdateRecord of a key column - column i for the formula key -, AddRecord, RemoveRecord, upserts whose
  col_values hold a key column), preferably of the records the previous actions touched; the upserts look up
  the keys that records acquired in this bundle, the keys they lost, keys of present records and pool values.
  The generator sees the table as the actions applied so far (as separate bundles) left it."""

  def __init__(self, rng):
    self.rng = rng
    if rng.random() < 0.75:
      self.K = [rng.choice(["i", "i", "i", "t", "c", "r", "b", FORMULA, FORMULA])]
    else:
      self.K = rng.sample(SEQ_KEYS, 2)
    self.n = rng.choice([3, 3, 4, 4, 5, 5, 6, 7])
    self.last = None
    self.hot = []
    self.fresh = []
    self.stale = []
    self.n_ups = 0
    self.bad_at = rng.randrange(1, self.n) if rng.random() < 0.07 else None

  def key_of(self, rec):
    return {c: rec[c] for c in self.K}

  def note(self, changed_ids):
    self.hot = sorted(changed_ids) or self.hot

  def next(self, rows, k):
    if k >= self.n:
      return None
    rng = self.rng
    if k == self.n - 1:
      ups = self.n_ups == 0 or rng.random() < 0.9
    elif self.last is None:
      ups = rng.random() < 0.6
    elif self.last == "U":
      ups = rng.random() < 0.25
    else:
      ups = rng.random() < 0.85
    if ups:
      self.last = "U"
      self.n_ups += 1
      return self.upsert(rows, k)
    self.last = "C"
    return self.change(rows)

  def _pick(self, ids):
    hot = [r for r in self.hot if r in ids]
    if hot and self.rng.random() < 0.7:
      return self.rng.choice(hot)
    return self.rng.choice(ids)

  def _keyvals(self, rec):
    """New values for the key columns of a record: {stored column: value} (column i stands in for the formula)."""
    rng = self.rng
    cols = [c for c in self.K if rng.random() < 0.8] or [rng.choice(self.K)]
    out = {}
    for c in cols:
      ce = "i" if c == FORMULA else c
      pool = [v for v in POOL[ce] if v != rec.get(ce)] or POOL[ce]
      out[ce] = rng.choice(pool) if rng.random() < 0.95 else rng.choice(WILD)
    return out

  def _after(self, rec, vals):
    rec = dict(rec, **vals)
    rec[FORMULA] = f_of(rec["i"])
    return rec

  def change(self, rows):
    rng = self.rng
    ids = [r[0] for r in rows]
    byid = dict((r[0], r[1]) for r in rows)
    kind = rng.choice(["upd"] * 5 + ["bulkupd", "add", "add", "rem", "rem"]) if rows else "add"
    if kind == "bulkupd" and len(ids) < 2:
      kind = "upd"
    if kind == "upd":
      rid = self._pick(ids)
      vals = self._keyvals(byid[rid])
      self.stale.append(self.key_of(byid[rid]))
      self.fresh.append(self.key_of(self._after(byid[rid], vals)))
      if rng.random() < 0.3:
        vals.setdefault("t", rng.choice(POOL["t"]))
      return ["UpdateRecord", "T", rid, vals]
    if kind == "bulkupd":
      rids = [self._pick(ids)]
      rids.append(rng.choice([r for r in ids if r != rids[0]]))
      ce = "i" if self.K[0] == FORMULA else self.K[0]
      vs = []
      for rid in rids:
        v = rng.choice([x for x in POOL[ce] if x != byid[rid][ce]] or POOL[ce])
        vs.append(v)
        self.stale.append(self.key_of(byid[rid]))
        self.fresh.append(self.key_of(self._after(byid[rid], {ce: v})))
      return ["BulkUpdateRecord", "T", rids, {ce: vs}]
    if kind == "add":
      rid = None
      if rng.random() < 0.2:
        free = [x for x in range(1, 13) if x not in ids]
        rid = rng.choice(free)
      base = {"i": 0, "t": "", "b": False, "c": "", "r": 0}
      if self.stale and rng.random() < 0.4:
        key = rng.choice(self.stale)
        vals = {("i" if c == FORMULA else c): (v // 2 if c == FORMULA and isinstance(v, int) else v)
                for c, v in key.items()}
      else:
        vals = self._keyvals(base)
      if rng.random() < 0.3:
        vals.setdefault("t", rng.choice(POOL["t"]))
      self.fresh.append(self.key_of(self._after(base, vals)))
      return ["AddRecord", "T", rid, vals]
    rid = self._pick(ids)
    self.stale.append(self.key_of(byid[rid]))
    return ["RemoveRecord", "T", rid]

  def upsert(self, rows, k):
    rng = self.rng
    byid = dict((r[0], r[1]) for r in rows)
    single = rng.random() < 0.35
    n = 1 if single else rng.choice([1, 1, 2, 2, 3])
    keys, seen, tries = [], set(), 0
    while len(keys) < n and tries < 30:
      tries += 1
      x = rng.random()
      hot = [r for r in self.hot if r in byid]
      if x < 0.35 and self.fresh:
        key = rng.choice(self.fresh[-3:])
      elif x < 0.55 and self.stale:
        key = rng.choice(self.stale[-3:])
      elif x < 0.7 and hot:
        key = self.key_of(byid[rng.choice(hot)])
      elif x < 0.85 and rows:
        key = self.key_of(rng.choice(rows)[1])
      else:
        key = {c: rng.choice(POOL[c]) for c in self.K}
      try:
        h = hashable_eq_key([key[c] for c in self.K])
      except ValueError:
        continue
      if h in seen:
        continue
      seen.add(h)
      keys.append(key)
    n = len(keys)
    require = {c: [key[c] for key in keys] for c in self.K}
    cv_cols = rng.sample(DATA, rng.choice([1, 1, 2]))
    if rng.random() < 0.3:                      # an upsert that itself changes a key cell of what it matches
      ce = "i" if self.K[0] == FORMULA else self.K[0]
      if ce not in cv_cols:
        cv_cols.append(ce)
    col_values = {c: [rng.choice(POOL[c]) for _ in range(n)] for c in cv_cols}
    for j, key in enumerate(keys):              # the keys the written records get / the added ones have
      rec = dict({"i": 0, "t": "", "b": False, "c": "", "r": 0},
                 **{c: v for c, v in key.items() if c != FORMULA})
      self.fresh.append(self.key_of(self._after(rec, {c: col_values[c][j] for c in cv_cols})))
      self.stale.append(key)
    if rng.random() < 0.5:
      options = {}
    else:
      options = {"on_many": rng.choice(["first", "none", "all", "all"])}
      for o in ("update", "add"):
        if rng.random() < 0.15:
          options[o] = False
    case = {"kind": "bulk", "require": require, "col_values": col_values, "options": options}
    if self.bad_at is not None and k >= self.bad_at:
      case = break_request(rng, case)
      self.bad_at = None
      single = False
    if single:
      return ["AddOrUpdateRecord", "T", {c: v[0] for c, v in case["require"].items()},
              {c: v[0] for c, v in case["col_values"].items()}, case["options"]]
    return ["BulkAddOrUpdateRecord", "T", case["require"], case["col_values"], case["options"]]


def run_seq(w, case):
  """One bundle of several user actions.  Phase A: the actions one by one as separate bundles on the reset
  table (generated adaptively from `seq_seed` unless the case carries its `actions`); every upsert of that
  chain is an ordinary single-action case (run_case: reference, frame, model op), every plain action is
  compared with its naive reference.  Phase B: the table reset again (in a brand-new document when
  `fresh_b`: no lookup index exists yet), all actions as ONE bundle; its retValues / final table / error must
  be those of phase A."""
  ed = w.ed
  rows_init = case["rows"]
  fresh_b = bool(case.get("fresh_b"))
  fixed = case.get("actions")
  gen = None if fixed is not None else SeqGen(random.Random("C28/seq/%s" % case["seq_seed"]))
  w.reset(rows_init)
  init_full = w.rows()
  defaults = {c: w.table.get_column(c).getdefault() for c in STORED}
  findings, steps, step_at, sep, actions = [], [], [], [], []
  facts = {"n_actions": 0, "n_upserts": 0, "fresh_b": fresh_b, "accepted": None, "plain": [],
           "lookups_after_change": 0, "lookups_rechanged": 0, "matches_moved_since_start": 0,
           "matches_moved_since_lookup": 0, "changed_by": set(), "step_findings": 0, "upsert_changed_key": 0,
           "rejected_step": None, "stale_formula_after_rollback": False}

  def find(sig, detail):
    findings.append((sig, detail))

  events = []          # (action index, row id, columns changed) of phase A
  maps = {}            # sorted require columns -> bookkeeping of the lookups of that index within the bundle
  k = 0
  while True:
    cur = w.rows()
    a = gen.next(cur, k) if gen is not None else (fixed[k] if k < len(fixed) else None)
    if a is None:
      break
    a = copy.deepcopy(a)
    actions.append(a)
    ok, ret, err = True, None, None
    if a[0] in UPSERTS:
      sc = upsert_case(a, data_rows(cur))
      r = run_case(w, sc, reset=False)
      r["case"] = _strip(sc)
      steps.append(r)
      step_at.append(k)
      facts["n_upserts"] += 1
      facts["step_findings"] += len(r["findings"])
      ok = r["facts"]["accepted"]
      ret = r["real"].get("ret")
      err = None if ok else (r["real"]["error"], r["real"]["tag"])
      ms = match_sets(cur, sc, w.conv) if ok else None
      if ms is not None and sc["require"]:
        key = tuple(sorted(sc["require"]))
        cols = set(key)
        m = maps.get(key)
        since = m["last"] if m is not None else -1
        dirty = set(rid for (s, rid, cs) in events if s >= since and (cs & cols))
        if m is None:
          m = maps[key] = {"last": -1, "done": set(), "rows": init_full}
          if fresh_b:
            m["done"] |= set(x[0] for x in cur)    # a new index computes every record at its first lookup
        if dirty:
          facts["lookups_after_change"] += 1
          if ms != match_sets(init_full, sc, w.conv):
            facts["matches_moved_since_start"] += 1
          if m["last"] >= 0 and ms != match_sets(m["rows"], sc, w.conv):
            facts["matches_moved_since_lookup"] += 1
        if dirty & m["done"]:
          facts["lookups_rechanged"] += 1
        m["done"] |= dirty
        m["last"], m["rows"] = k, cur
    else:
      exp = plain_reference(cur, a, w.conv, dict(defaults))
      res = w.doc.apply([a])
      ok = bool(res.ok)
      if ok:
        ret = res.ret[0]
        got = w.rows()
        if exp is None:
          find(SIG_SEQ_PLAIN, "%r accepted, the naive reference rejects it" % (a,))
        elif ret != exp[1] or [x[0] for x in got] != [x[0] for x in exp[0]] or any(
            ed.tokv(g[1][c]) != ed.tokv(e[1][c]) for g, e in zip(got, exp[0]) for c in ALLC):
          find(SIG_SEQ_PLAIN, "%r on %r: expected %r ret %r, got %r ret %r" % (a, cur, exp[0], exp[1], got, ret))
      else:
        err = (res.error[0], "plain")
        if exp is not None:
          find(SIG_SEQ_PLAIN, "%r rejected (%s: %s), the naive reference accepts it" % ((a,) + tuple(res.error)))
      facts["plain"].append(a[0])
    sep.append({"ok": ok, "ret": ret, "err": err})
    if ok:
      ch = changed_cells(cur, w.rows())
      for rid, cs in ch.items():
        events.append((k, rid, cs))
      if ch:
        facts["changed_by"].add("upsert" if a[0] in UPSERTS else a[0])
        if a[0] in UPSERTS and any(cs & set(sc["require"]) for cs in ch.values()):
          facts["upsert_changed_key"] += 1
      if gen is not None:
        gen.note(ch.keys())
    k += 1
    if not ok:
      facts["rejected_step"] = k - 1
      break
  facts["n_actions"] = len(actions)
  facts["changed_by"] = sorted(facts["changed_by"])
  exp_t = w.doc.snapshot(tables=["T"])["T"]
  exp_ok = all(x["ok"] for x in sep)
  # ---- phase B: the same actions as ONE bundle
  wb = World() if fresh_b else w
  wb.reset(rows_init)
  before = dict(wb.others, T=wb.doc.snapshot(tables=["T"])["T"])
  res = wb.doc.apply(actions)
  after = wb.doc.snapshot()
  if wb is w:
    w.others = {t: v for t, v in after.items() if t != "T"}
  facts["accepted"] = bool(res.ok)
  bundle = {"ok": bool(res.ok), "error": list(res.error) if res.error else None, "ret": res.ret if res.ok else None}
  what = "bundle %r on T=%r" % (actions, rows_init)
  if exp_ok:
    if not res.ok:
      find(SIG_SEQ_REJECTED, "%s: %s: %s" % ((what,) + tuple(res.error)))
    else:
      td = after["T"]
      bundle["ids"] = list(td["ids"])
      bundle["cells"] = {str(rid): {c: ptok_or_repr(v) for c, v in rec.items() if c in STORED}
                         for rid, rec in wb.rows()}
      for j, x in enumerate(sep):
        if j >= len(res.ret) or res.ret[j] != x["ret"]:
          find(SIG_SEQ_RET if actions[j][0] in UPSERTS else SIG_SEQ_TABLE,
               "%s: action #%d %r returns %r in the bundle, %r when the actions are applied as separate bundles" % (
                 what, j, actions[j], res.ret[j] if j < len(res.ret) else None, x["ret"]))
          break
      if td != exp_t:
        find(SIG_SEQ_TABLE, "%s: %s (T after the separate bundles -> T after the one bundle)" % (
          what, "; ".join(ed.diff_snapshots({"T": exp_t}, {"T": td}))))
      other = {t: v for t, v in before.items() if t != "T"}
      other_after = {t: v for t, v in after.items() if t != "T"}
      if other != other_after:
        find(SIG_SEQ_OTHER, "%s: %s" % (what, "; ".join(ed.diff_snapshots(other, other_after))))
  else:
    j = facts["rejected_step"]
    if res.ok:
      find(SIG_SEQ_ACCEPTED, "%s: action #%d %r is rejected (%r) after the preceding ones, the bundle returns %r" % (
        what, j, actions[j], sep[j]["err"], res.ret))
    else:
      got = (res.error[0], err_tag(res.error) if actions[j][0] in UPSERTS else "plain")
      if got != tuple(sep[j]["err"]):
        find(SIG_SEQ_ERROR, "%s: bundle %r, action #%d alone %r" % (what, got, j, sep[j]["err"]))
      if before != after:
        # the recorded deviation of the failure path (C04: the rollback does not recalculate) has a signature of
        # its own, and only under its specific condition: nothing but cells of the formula column f of T
        # differ, and a [Calculate] bundle brings the document back to exactly the state before the bundle
        only_f = {t: v for t, v in before.items() if t != "T"} == {t: v for t, v in after.items() if t != "T"} \
          and before["T"]["ids"] == after["T"]["ids"] and set(before["T"]["cols"]) == set(after["T"]["cols"]) \
          and all(before["T"]["cols"][c] == after["T"]["cols"][c] for c in before["T"]["cols"] if c != FORMULA)
        detail = "%s: %s" % (what, "; ".join(ed.diff_snapshots(before, after)))
        if only_f and j > 0 and actions[j][0] in UPSERTS:
          rc = wb.doc.apply([["Calculate"]])
          if rc.ok and wb.doc.snapshot() == before:
            facts["stale_formula_after_rollback"] = True
            find(SIG_SEQ_STALE_F, detail)
          else:
            find(SIG_SEQ_ROLLBACK, detail + " (and a Calculate bundle does not restore it)")
        else:
          find(SIG_SEQ_ROLLBACK, detail)
  if any(sig != SIG_SEQ_STALE_F for sig, _ in findings):
    w.poisoned = True     # do not trust this document any further (the worker takes a new one)
  return {"seq": True, "steps": steps, "step_at": step_at, "bundle": bundle, "findings": findings, "facts": facts,
          "case": {"kind": "seq", "rows": rows_init, "actions": actions, "fresh_b": fresh_b}}


def _row(i, t="a"):
  return {"i": i, "t": t, "b": False, "c": "", "r": 0}


_R12 = [[1, _row(1, "p")], [2, _row(2, "q")]]
_AOU, _BAOU = "AddOrUpdateRecord", "BulkAddOrUpdateRecord"

# fixed bundles, each run with its one-bundle phase in a brand-new document (no lookup index exists there yet)
SEQ_WITNESSES = [
  # upsert, key of another record changed by UpdateRecord, upsert on the new key (and on the old one: must add)
  [[_AOU, "T", {"i": 1}, {"t": "x"}, {}], ["UpdateRecord", "T", 2, {"i": 3}], [_AOU, "T", {"i": 3}, {"t": "y"}, {}],
   [_AOU, "T", {"i": 2}, {"t": "z"}, {}]],
  # change - upsert - change of the same record again - upsert (stale also when the index existed before)
  [["UpdateRecord", "T", 2, {"i": 3}], [_AOU, "T", {"i": 3}, {"t": "x"}, {}], ["UpdateRecord", "T", 2, {"i": 4}],
   [_AOU, "T", {"i": 4}, {"t": "y"}, {}], [_AOU, "T", {"i": 3}, {"t": "z"}, {"add": False}]],
  # a record added by an upsert, found by the next one, its key changed, looked up by the old and the new key
  [[_BAOU, "T", {"i": [7]}, {"t": ["n"]}, {}], [_AOU, "T", {"i": 7}, {"t": "m"}, {}], ["UpdateRecord", "T", 3, {"i": 8}],
   [_BAOU, "T", {"i": [7, 8]}, {"t": ["u", "v"]}, {}]],
  # RemoveRecord of a record an earlier upsert found: the key must be added again
  [[_AOU, "T", {"i": 1}, {"t": "x"}, {}], ["RemoveRecord", "T", 1], [_AOU, "T", {"i": 1}, {"t": "y"}, {}]],
  # AddRecord, then the upsert must update it; on_many=all over the two records that now share the key
  [[_AOU, "T", {"i": 2}, {"t": "x"}, {}], ["AddRecord", "T", None, {"i": 2}],
   [_BAOU, "T", {"i": [2]}, {"t": ["w"]}, {"on_many": "all"}]],
  # the first upsert changes the key cell through col_values
  [[_AOU, "T", {"i": 1}, {"i": 9}, {}], [_AOU, "T", {"i": 9}, {"t": "w"}, {}], [_AOU, "T", {"i": 1}, {"t": "n"}, {}]],
  # the formula column as the key, changed through column i
  [[_AOU, "T", {"f": 2}, {"t": "x"}, {}], ["UpdateRecord", "T", 1, {"i": 3}], [_AOU, "T", {"f": 6}, {"t": "y"}, {}],
   [_AOU, "T", {"f": 2}, {"t": "z"}, {"add": False}]],
  # two key columns, BulkUpdateRecord in between
  [[_AOU, "T", {"i": 1, "t": "p"}, {"c": "u"}, {}], ["BulkUpdateRecord", "T", [1, 2], {"t": ["q", "p"]}],
   [_BAOU, "T", {"i": [1, 2], "t": ["q", "p"]}, {"c": ["v", "v"]}, {}]],
  # a later action of the bundle is invalid: everything is rolled back
  [[_AOU, "T", {"i": 1}, {"t": "x"}, {}], ["UpdateRecord", "T", 2, {"i": 3}],
   [_BAOU, "T", {"i": [3, 3]}, {"t": ["y", "z"]}, {}]],
  # ... after an upsert of the bundle evaluated the formula column (looked up by it): the recorded finding
  # SIG_SEQ_STALE_F (T[1].f keeps 6 until the next calculation)
  [["UpdateRecord", "T", 1, {"i": 3}], [_AOU, "T", {"f": 6}, {"t": "x"}, {}],
   [_BAOU, "T", {"i": [3, 3]}, {"t": ["y", "z"]}, {}]],
]


def gen_seq_cases(seed, n):
  rng = random.Random("C28/seqs/%s" % seed)
  for _ in range(n):
    rows = gen_rows(rng)
    if len(rows) < 2 and rng.random() < 0.7:
      rows = [[1, _row(rng.choice(POOL["i"]), "a")], [2, _row(rng.choice(POOL["i"]), "b")],
              [4, _row(rng.choice(POOL["i"]), "a")]]
    yield {"kind": "seq", "rows": rows, "seq_seed": rng.getrandbits(40), "fresh_b": rng.random() < 0.12}


# --------------------------------------------------------------------------- generation

def gen_rows(rng):
  n = rng.choice([0, 1, 2, 3, 3, 4, 4, 5, 6])
  ids = sorted(rng.sample(range(1, 10), n))
  narrow = rng.random() < 0.6     # few distinct values -> many duplicates
  rows = []
  for rid in ids:
    rec = {}
    for c in DATA:
      pool = POOL[c][:2] if narrow else POOL[c]
      rec[c] = rng.choice(pool) if rng.random() < 0.93 else rng.choice(WILD)
    rows.append([rid, rec])
  return rows


def gen_options(rng, empty_require):
  o = {}
  x = rng.choice(["first", "none", "all", None])
  if x is not None:
    o["on_many"] = x
  for k in ("update", "add"):
    x = rng.choice([True, True, False, None])
    if x is not None:
      o[k] = x
  x = rng.choice([True, False, None])
  if empty_require and rng.random() < 0.85:
    x = True
  if x is not None:
    o["allow_empty_require"] = x
  return o


def gen_request(rng, rows, w):
  """A mostly valid bulk request."""
  n = rng.choice([0, 1, 1, 2, 2, 2, 3, 3, 4])
  rc = rng.choice([0, 1, 1, 1, 1, 2, 2])
  req_cols = rng.sample(ALLC, rc)
  if EMPTY not in req_cols and rng.random() < 0.04:      # the empty column as (one of the) key(s)
    req_cols = req_cols[:1] + [EMPTY]
    rng.shuffle(req_cols)
  if rng.random() < 0.02:
    req_cols.append("zz")
  wild = rng.random() < 0.12
  keys = []
  tries = 0
  while len(keys) < n and tries < 40:
    tries += 1
    if rows and rng.random() < 0.65:
      src = rng.choice(rows)[1]
      i = src["i"]
      # the cells of an existing row: f is computed from i, e (still empty) is None - half of the time;
      # any other value of e matches nothing
      src = dict(src, **{FORMULA: i * 2 if isinstance(i, int) and not isinstance(i, bool) else 0,
                         EMPTY: None if rng.random() < 0.5 else rng.choice(POOL[EMPTY])})
      key = tuple(src.get(c, 0) for c in req_cols)
    else:
      key = tuple(rng.choice(WILD if wild else POOL.get(c, [0, 1])) for c in req_cols)
    if wild and rng.random() < 0.3:
      key = tuple(rng.choice(WILD) for c in req_cols)
    if not wild and key in keys and req_cols:
      continue
    if wild and hashable_eq_key(key) in [hashable_eq_key(k) for k in keys] and rng.random() < 0.8:
      continue
    keys.append(key)
  if req_cols and len(keys) < n:
    n = len(keys)
  require = {c: [k[j] for k in keys[:n]] for j, c in enumerate(req_cols)}
  cc = rng.choice([0, 1, 1, 1, 2, 2, 3])
  cv_cols = rng.sample(DATA, cc)
  if rng.random() < 0.08:                                 # values for the empty column
    cv_cols = cv_cols[:2] + [EMPTY]
    rng.shuffle(cv_cols)
  x = rng.random()
  if x < 0.04:
    cv_cols.append(FORMULA)
  elif x < 0.06:
    cv_cols.append("zz")
  col_values = {}
  for c in cv_cols:
    pool = POOL.get(c, [0, 1])
    col_values[c] = [rng.choice(pool[:2] + pool) if rng.random() < 0.9 else rng.choice(WILD) for _ in range(n)]
  return require, col_values, gen_options(rng, not require)


def break_request(rng, case):
  """Turn a request into an invalid one (one of the classes of the property text)."""
  case = copy.deepcopy(case)
  req, cv, opt = case["require"], case["col_values"], case["options"]
  kinds = ["on_many", "empty"]
  lists = [(d, c) for d in (req, cv) for c in d]
  if lists:
    kinds += ["lengths", "lengths"]
  if req and len(list(req.values())[0]) >= 1:
    kinds += ["dup", "dup"]
  kind = rng.choice(kinds)
  if kind == "on_many":
    opt["on_many"] = rng.choice(BAD_ON_MANY)
  elif kind == "empty":
    case["require"] = {}
    if rng.random() < 0.5:
      opt.pop("allow_empty_require", None)
    else:
      opt["allow_empty_require"] = False
  elif kind == "lengths":
    d, c = rng.choice(lists)
    if d[c] and rng.random() < 0.5:
      d[c] = d[c][:-1]
    else:
      d[c] = d[c] + [rng.choice(WILD)]
  else:
    n = len(list(req.values())[0])
    j = rng.randrange(n)
    alias = {0: [False, 0], 1: [True, 1], True: [1], False: [0]}
    for c in req:
      v = req[c][j]
      if rng.random() < 0.4 and (isinstance(v, (bool, int))) and v in (0, 1):
        v = rng.choice(alias[v])
      req[c] = req[c] + [v]
    for c in cv:
      cv[c] = cv[c] + [cv[c][j]]
    if n >= 2 and rng.random() < 0.5:   # move the duplicate away from the end
      k = rng.randrange(n)
      for d in (req, cv):
        for c in d:
          d[c][k], d[c][-1] = d[c][-1], d[c][k]
  case["broken"] = kind
  return case


def to_single(rng, case):
  c = copy.deepcopy(case)
  c["kind"] = "single"
  c["require"] = {k: (v[0] if v else rng.choice(WILD)) for k, v in case["require"].items()}
  c["col_values"] = {k: (v[0] if v else rng.choice(WILD)) for k, v in case["col_values"].items()}
  if rng.random() < 0.08:
    c["require"], c["col_values"] = {}, {}
  if rng.random() < 0.05:
    c["options"]["on_many"] = rng.choice(BAD_ON_MANY)
  return c


def gen_cases(seed, n):
  """Random stream: ~70% mostly-valid bulk, ~12% invalid bulk, ~18% single."""
  rng = random.Random("C28/cases/%s" % seed)
  w = None
  for _ in range(n):
    rows = gen_rows(rng)
    require, col_values, options = gen_request(rng, rows, w)
    case = {"kind": "bulk", "rows": rows, "require": require, "col_values": col_values, "options": options}
    x = rng.random()
    if x < 0.12:
      case = break_request(rng, case)
    elif x < 0.30:
      case = to_single(rng, case)
    case["chain"] = rng.random() < 0.25   # apply to the table as the previous case left it
    yield case


def exhaustive_cases(tier, rng):
  """Small scopes, complete (thorough) or sub-sampled (quick)."""
  out = []
  opts = [{"on_many": om, "update": u, "add": a}
          for om in ("first", "none", "all") for u in (True, False) for a in (True, False)]
  # (a) one Int key column, 3 rows with values in {1,2}; 1-2 input rows with keys in {1,2,3}
  for vals in itertools.product([1, 2], repeat=3):
    rows = [[k + 1, {"i": v, "t": "a", "b": False, "c": "", "r": 0}] for k, v in enumerate(vals)]
    for n in (1, 2):
      for keys in itertools.permutations([1, 2, 3], n):
        for tv in itertools.product(["a", "b"], repeat=n):
          for o in opts:
            out.append({"kind": "bulk", "rows": rows, "require": {"i": list(keys)},
                        "col_values": {"t": list(tv)}, "options": dict(o)})
  # (b) empty require (allowed): every input row matches every record; 0-2 rows with t in {a,b}
  for vals in itertools.chain.from_iterable(itertools.product(["a", "b"], repeat=k) for k in (0, 1, 2)):
    rows = [[k + 1, {"i": 0, "t": v, "b": False, "c": "", "r": 0}] for k, v in enumerate(vals)]
    for n in (1, 2, 3):
      for tv in itertools.product(["a", "b"], repeat=n):
        for o in opts:
          o = dict(o, allow_empty_require=True)
          out.append({"kind": "bulk", "rows": rows, "require": {}, "col_values": {"t": list(tv)}, "options": o})
  # (c) keys that coincide after conversion, on every column type
  for c, pair in (("i", [1, "1"]), ("t", [1, "1"]), ("b", [1, "true"]), ("c", [2, "2"]), ("r", [None, 0]),
                  ("i", [2, True]), ("t", [0, False]), ("r", ["", False])):
    for present in (False, True):
      v = 1 if c in ("i", "r") else ("1" if c in ("t", "c") else True)
      rows = [[1, {"i": 0, "t": "", "b": False, "c": "", "r": 0}]]
      if present:
        rows.append([2, dict(rows[0][1], **{c: pair[1]})])
      for o in opts[:4]:
        out.append({"kind": "bulk", "rows": rows, "require": {c: list(pair)},
                    "col_values": {"c" if c == "t" else "t": ["a", "b"]}, "options": dict(o)})
  if tier == "quick":
    out = [x for x in out if rng.random() < 0.18]
  # (d) the EMPTY column e (type Any, formula ''), two records with i = 1, 2 (their e cells are None)
  # (a case that converts the column costs ~10 x a plain one - three schema changes: sampled thinner)
  n_abc = len(out)
  base = {"t": "a", "b": False, "c": "", "r": 0}
  rows2 = [[1, dict(base, i=1)], [2, dict(base, i=2)]]
  ev = [None, "", "a", 1, "1"]
  some = [opts[0], opts[1], opts[2], opts[4], opts[6], opts[8]]   # on_many x update/add, 6 of the 12
  for rows in ([], rows2):
    # (d1) e alone as the key: None matches every record, anything else none -> the value must be stored
    for n in (1, 2):
      for keys in itertools.permutations(ev, n):
        for o in opts:
          out.append({"kind": "bulk", "rows": rows, "require": {EMPTY: list(keys)},
                      "col_values": {"t": ["x", "y"][:n]}, "options": dict(o)})
    # (d2) e next to a data key column
    for ik in (1, 3):
      for v in ev:
        for o in some:
          out.append({"kind": "bulk", "rows": rows, "require": {"i": [ik], EMPTY: [v]},
                      "col_values": {"t": ["x"]}, "options": dict(o)})
          out.append({"kind": "single", "rows": rows, "require": {EMPTY: v, "i": ik},
                      "col_values": {}, "options": dict(o)})
    # (d3) values for e in col_values: added and updated records in one request, blank and non-blank
    for n in (1, 2):
      for keys in itertools.permutations([1, 2, 3], n):
        for vals in itertools.product([None, "", "a", 1], repeat=n):
          for o in some:
            out.append({"kind": "bulk", "rows": rows, "require": {"i": list(keys)},
                        "col_values": {EMPTY: list(vals)}, "options": dict(o)})
    # (d4) e in require and in col_values (col_values wins in the added record)
    for v in ev:
      for v2 in (None, "a", 2):
        for o in some[:3]:
          out.append({"kind": "bulk", "rows": rows, "require": {EMPTY: [v]},
                      "col_values": {EMPTY: [v2]}, "options": dict(o)})
  # (d5) empty require: every input row names every record, with values for e (conversion + trimmed update)
  for vals in itertools.product([None, "", "a", 1], repeat=2):
    for o in some:
      out.append({"kind": "bulk", "rows": rows2, "require": {}, "col_values": {EMPTY: list(vals), "t": ["a", "b"]},
                  "options": dict(o, allow_empty_require=True)})
  if tier == "quick":
    out = out[:n_abc] + [x for x in out[n_abc:] if rng.random() < 0.08]
  return out


# the two Lean counterexamples (C28.lean: impl_eq_spec_full_false, validation_full_false) and the
# AddOrUpdateRecord shortcut, replayed on the real code in every run
WITNESSES = [
  {"kind": "bulk", "rows": [[1, {"i": 0, "t": "b", "b": False, "c": "", "r": 0}]],
   "require": {}, "col_values": {"t": ["a", "b"]}, "options": {"allow_empty_require": True},
   "witness": "impl_eq_spec_full_false"},
  {"kind": "bulk", "rows": [], "require": {"i": [5, "5"]}, "col_values": {"t": ["a", "b"]}, "options": {},
   "witness": "validation_full_false"},
  {"kind": "single", "rows": [[1, {"i": 0, "t": "b", "b": False, "c": "", "r": 0}]],
   "require": {}, "col_values": {}, "options": {"on_many": "nope"}, "witness": "single_shortcut"},
  {"kind": "single", "rows": [], "require": {}, "col_values": {}, "options": {}, "witness": "single_shortcut"},
  # the empty column e: its require value is stored in the added record (Lean: add_values_keep_empty_column) ...
  {"kind": "bulk", "rows": [[1, {"i": 1, "t": "a", "b": False, "c": "", "r": 0}]],
   "require": {"e": ["k"]}, "col_values": {"t": ["x"]}, "options": {}, "witness": "empty_column_require_stored"},
  {"kind": "bulk", "rows": [[1, {"i": 1, "t": "a", "b": False, "c": "", "r": 0}]],
   "require": {"i": [7, 8], "e": [5, 6]}, "col_values": {}, "options": {}, "witness": "empty_column_require_stored"},
  {"kind": "single", "rows": [], "require": {"e": "k", "f": 0}, "col_values": {"t": "x"}, "options": {},
   "witness": "empty_column_require_stored"},
  # ... None matches the records of a still-empty column, 3 matches none and converts the column ...
  {"kind": "bulk", "rows": [[1, {"i": 1, "t": "a", "b": False, "c": "", "r": 0}],
                            [2, {"i": 2, "t": "b", "b": False, "c": "", "r": 0}]],
   "require": {"e": [None, 3]}, "col_values": {"t": ["x", "y"]}, "options": {"on_many": "all"},
   "witness": "empty_column_none_matches"},
  # ... and '' is stored as None (the column stays empty): the record does not match its require
  {"kind": "bulk", "rows": [[1, {"i": 1, "t": "a", "b": False, "c": "", "r": 0}]],
   "require": {"e": [""]}, "col_values": {"t": ["x"]}, "options": {}, "witness": "empty_column_blank_require"},
]


# --------------------------------------------------------------------------- running

def _strip(case):
  return {k: case[k] for k in ("kind", "rows", "require", "col_values", "options")}


def _worker(args):
  from gx import common
  common.setup_repo_path()
  (cases, fresh_every) = args
  w = World()
  out = []
  for case in cases:
    if w.n_cases >= fresh_every or w.poisoned:
      w = World()
    if case["kind"] == "seq":
      try:
        out.append(run_seq(w, case))
      except Exception:
        import traceback
        return {"infra": "case %s: %s" % (json.dumps(case, default=str)[:900], traceback.format_exc()[-900:])}
      continue
    chain = case.get("chain") and w.n_cases > 0
    if chain:
      case = dict(case, rows=[[rid, {c: rec[c] for c in DATA}] for rid, rec in w.rows()])
    try:
      r = run_case(w, case, reset=not chain)
    except Exception:
      import traceback
      return {"infra": "case %s: %s" % (json.dumps(_strip(case), default=str)[:600], traceback.format_exc()[-900:])}
    r["case"] = _strip(case)
    out.append(r)
  return {"results": out}


def run_all(ck, cases):
  workers = 1 if len(cases) < 400 else min(12 if ck.tier == "thorough" else 6, os.cpu_count() or 1)
  chunks = [cases[i::workers] for i in range(workers)]
  args = [(c, 700) for c in chunks if c]
  if len(args) == 1:
    res = [_worker(args[0])]
  else:
    with multiprocessing.get_context("fork").Pool(len(args)) as pool:
      res = pool.map(_worker, args)
  for r in res:
    if "infra" in r:
      from gx import common
      raise common.Infra(r["infra"])
  # back into generation order (chunks were taken round-robin)
  results = [None] * len(cases)
  live = [r["results"] for r in res]
  for k, rs in enumerate(live):
    for j, x in enumerate(rs):
      results[k + j * len(live)] = x
  return results


def model_ret(m, kind):
  if kind == "bulk":
    return {k: m[k] for k in ("recordIds", "addRecordIds", "updateRecordIds")}
  return {"recordIds": m["recordIds"], "action": m["action"]}


def judge(ck, results):
  seqs = [r for r in results if r.get("seq")]
  results = [r for r in results if not r.get("seq")] + [st for r in seqs for st in r["steps"]]
  model = ck.driver([r["op"] for r in results])
  answer = dict((id(r), mo) for r, mo in zip(results, model))
  mism = judge_seqs(ck, seqs, answer)
  explained = 0
  for r, mo in zip(results, model):
    ck.evaluated()
    case, facts = r["case"], r["facts"]
    ck.count("kind:" + case["kind"])
    ck.count("accepted" if facts["accepted"] else "rejected:" + r["real"].get("tag", "?"))
    if facts["invalid"]:
      ck.count("invalid:" + facts["invalid"][0])
    if "ret" in r["real"]:
      ret = r["real"]["ret"]
      if case["kind"] == "bulk":
        ck.count("rows_added", len(ret["addRecordIds"]))
        ck.count("input_rows_updating", len(ret["updateRecordIds"]))
        if any(len(x) > 1 for x in ret["updateRecordIds"]):
          ck.count("on_many_all_several")
        if ret["addRecordIds"] and ret["updateRecordIds"]:
          ck.count("add_and_update_in_one_request")
      else:
        ck.count("single:" + ret["action"])
    om = case["options"].get("on_many", "absent")
    ck.count("on_many:%s" % (om if om in ("first", "none", "all", "absent") else "bad"))
    # ---- the empty column
    if facts["e_require"] or facts["e_col_values"]:
      ck.count("empty_col:cases_naming_it")
      ck.count("empty_col:in_require" if facts["e_require"] else "empty_col:only_in_col_values")
      if facts["e_require"] and facts["e_col_values"]:
        ck.count("empty_col:in_require_and_col_values")
      if facts["accepted"]:
        ck.count("empty_col:accepted")
        ck.count("empty_col:converted_to_%s" % facts["e_converted"] if facts["e_converted"] else "empty_col:stays_empty")
        if "conv_add" in r["op"]:
          ck.count("empty_col:converted_by_BulkAddRecord")
        if "conv_upd" in r["op"]:
          ck.count("empty_col:converted_by_BulkUpdateRecord")
      if facts["e_stored_from_require"]:
        ck.count("empty_col:accepted_cases_storing_require_value_in_added_record")
        ck.count("empty_col:require_values_stored_in_added_records", facts["e_stored_from_require"])
      if facts["e_matched_none"]:
        ck.count("empty_col:require_matched_records_on_still_empty_column")
    nontriv = (facts["accepted"] and facts["wrote"] and facts["n_rows"] >= 2) or \
              (not facts["accepted"] and facts["invalid"] and facts["n_rows"] >= 1)
    if nontriv:
      ck.nontrivial_case(case)
      if facts["accepted"] and case["kind"] == "bulk" and len(r["real"]["ret"]["recordIds"]) >= 2:
        ck.sample({"case": case, "retValues": r["real"]["ret"]})
    for sig, detail in r["findings"]:
      ck.violation(sig, detail, {"case": case})
    d = compare_model(r["real"], mo, case["kind"])
    if d is not None:
      ck.count("model_impl_disagreements")
      if mism is None:
        mism = {"case": case, "difference": d, "real": r["real"], "model": mo.get("impl")}
    # the model's own impl-vs-spec agreement on this concrete input (theorem instance)
    if case["kind"] == "bulk" and "spec" in mo:
      tg = mo.get("targets", [])
      # (a conversion of the empty column is not part of the row-at-a-time spec: its cells are left out then)
      skip = (EMPTY,) if ("conv_add" in r["op"] or "conv_upd" in r["op"]) else ()
      if len(set(tg)) == len(tg) and not same_outcome(mo["impl"], mo["spec"], skip):
        ck.count("model_impl_vs_spec_disagreements_without_overlap")
        if mism is None:
          mism = {"case": case, "difference": "Lean impl != Lean spec without overlapping targets", "model": mo}
      if len(set(tg)) != len(tg):
        ck.count("overlapping_update_targets")
  if mism and not ck.has_impl_violation():
    ck.broken("correspondence BulkAddOrUpdateRecord vs Grist.Upsert.upsertImpl",
              "model and implementation differ and the reference oracle is satisfied on all explored inputs: "
              + mism["difference"], mism)
  elif mism:
    ck.count("disagreements_next_to_reported_violation")


def judge_seqs(ck, seqs, answer):
  """The bundles of several actions: counters, findings of the direct oracle, and the tie of the model with the
  ONE-bundle run - the model's retValues for every upsert of the bundle (computed on the table the separate
  bundles produced before that action) against the retValues the bundle returned; for a bundle that ends
  with an upsert also the model's final cells against the bundle's.  Returns the first mismatch or None."""
  mism = None
  for r in seqs:
    ck.evaluated()
    case, facts, b = r["case"], r["facts"], r["bundle"]
    ck.count("seq:bundles")
    ck.count("seq:actions_in_bundles", facts["n_actions"])
    ck.count("seq:upserts_in_bundles", facts["n_upserts"])
    ck.count("seq:steps_also_judged_as_single_action_cases", len(r["steps"]))
    for name in facts["plain"]:
      ck.count("seq:plain_action:" + name)
    ck.count("seq:bundle_accepted" if facts["accepted"] else "seq:bundle_rejected")
    if facts["rejected_step"] is not None:
      ck.count("seq:bundles_with_a_rejected_action")
      if facts["rejected_step"] > 0:
        ck.count("seq:bundles_rejected_after_earlier_actions_wrote")
    if facts["stale_formula_after_rollback"]:
      ck.count("seq:rejected_bundles_with_stale_formula_cells_until_next_calculation")
    if facts["fresh_b"]:
      ck.count("seq:one_bundle_phase_in_a_new_document")
    if facts["n_upserts"] >= 2:
      ck.count("seq:bundles_with_2+_upserts")
    for name in facts["changed_by"]:
      ck.count("seq:bundles_where_table_changed_by:" + name)
    ck.count("seq:upserts_changing_a_cell_of_their_own_require_columns", facts["upsert_changed_key"])
    ck.count("seq:upsert_lookups_after_in_bundle_change_of_their_require_columns", facts["lookups_after_change"])
    ck.count("seq:..whose_matches_differ_from_those_on_the_table_before_the_bundle", facts["matches_moved_since_start"])
    ck.count("seq:..whose_matches_differ_from_those_at_the_previous_in_bundle_lookup_of_that_key",
             facts["matches_moved_since_lookup"])
    ck.count("seq:upsert_lookups_of_records_changed_again_after_an_earlier_in_bundle_lookup_computed_them",
             facts["lookups_rechanged"])
    if facts["lookups_after_change"]:
      ck.count("seq:bundles_with_upsert_after_in_bundle_key_change")
    if facts["lookups_rechanged"]:
      ck.count("seq:bundles_with_lookup_of_rechanged_records")
    if facts["step_findings"]:
      ck.count("seq:bundles_with_a_step_that_has_findings_of_its_own")
    if facts["accepted"] and facts["lookups_after_change"]:
      ck.nontrivial_case(case)
      if facts["matches_moved_since_lookup"]:
        ck.sample({"bundle": case["actions"], "T": case["rows"], "retValues": b["ret"]})
    elif not facts["accepted"] and (facts["rejected_step"] or 0) > 0:
      ck.nontrivial_case(case)
    for sig, detail in r["findings"]:
      ck.violation(sig, detail, {"case": case})
    # ---- model tie on the one-bundle run
    if not b["ok"] or facts["rejected_step"] is not None:
      continue
    for st, k in zip(r["steps"], r["step_at"]):
      mo = answer[id(st)]
      m = mo.get("impl")
      if m is None or "error" in m:
        d = "model answered %r for an accepted action" % (mo,)
      else:
        kind = st["case"]["kind"]
        d = None
        ck.count("seq:model_tied_upserts_of_one_bundle_runs")
        if model_ret(m, kind) != b["ret"][k]:
          d = "retValues of action #%d in the bundle: real %r model %r" % (k, b["ret"][k], model_ret(m, kind))
        elif k == facts["n_actions"] - 1 and "ids" in b:
          ck.count("seq:model_tied_final_tables_of_one_bundle_runs")
          d = compare_model({"ids": b["ids"], "cells": b["cells"], "ret": b["ret"][k]}, mo, kind)
      if d is not None:
        ck.count("seq:model_vs_one_bundle_disagreements")
        if mism is None:
          mism = {"case": case, "difference": d, "real": b, "model": mo.get("impl")}
  return mism


def same_outcome(a, b, skip=()):
  if "error" in a or "error" in b:
    return a.get("error") == b.get("error") and a.get("tag") == b.get("tag")
  if any(a[k] != b[k] for k in ("recordIds", "addRecordIds", "updateRecordIds")):
    return False
  ta = [(r[0], sorted(tuple(x) for x in r[1] if x[0] not in skip)) for r in a["table"]]
  tb = [(r[0], sorted(tuple(x) for x in r[1] if x[0] not in skip)) for r in b["table"]]
  return ta == tb


RULE = ("seeded stream of cases on a live engine: table T (Int/Text/Bool/Choice/Ref columns + an EMPTY column e (type Any, "
        "formula '') + formula column, <= 6 rows, "
        "row ids with gaps, few distinct values so keys repeat), bulk requests of 0-4 input rows over 0-2 require columns "
        "(incl. the formula column and the empty column) and 0-4 col_values columns (incl. the empty column; blank and "
        "non-blank values, so that it stays empty or is converted to Text/Numeric by the BulkAddRecord or by the "
        "BulkUpdateRecord; it is put back to the empty state before the next case), "
        "every on_many/update/add/allow_empty_require combination "
        "(present or absent), wild values that change under type conversion, an invalid-argument stream (bad on_many, empty "
        "require, unequal lengths, duplicate keys incl. 1/True aliases), AddOrUpdateRecord cases, 25% of the cases chained "
        "on the previous case's table; plus exhaustive small scopes (3 rows x keys in {1,2,3} x 12 option combinations; "
        "empty require with 1-3 input rows; keys coinciding after conversion per column type; the empty column as the "
        "only key, next to a data key, in col_values, in both, and under an empty require, on an empty and a 2-row table). "
        "SEVERAL ACTIONS IN ONE BUNDLE (kind seq; 320 quick / 4000 thorough + 10 fixed bundles): 3-7 user actions on T "
        "around one lookup key (1-2 require columns out of the data columns and the formula column; not the empty "
        "column), generated adaptively against the table as the previous actions left it: upserts (bulk / single, "
        "all option combinations, 7% with an invalid request) alternate with UpdateRecord / BulkUpdateRecord of a key "
        "column (column i for the formula key) / AddRecord / RemoveRecord / upserts whose col_values hold a key column, "
        "preferably on the records the previous actions touched; the upserts look up keys acquired or lost in this "
        "bundle; the actions are applied as separate bundles (each upsert also judged as a single-action case, each "
        "plain action by a naive reference) and then, on the reset table, as ONE bundle (12% - and the fixed ones - in a "
        "brand-new document where no lookup index exists yet); counters seq:* say how many upsert lookups followed an "
        "in-bundle change of their require columns, how many of them had other matches than before the bundle / than "
        "at the previous in-bundle lookup of the same key, and how many concerned records changed AGAIN after an earlier "
        "in-bundle lookup had computed them. "
        "non-trivial = accepted request that wrote to a table of >= 2 rows, or an invalid request rejected on a non-empty "
        "table, or a bundle of several actions that is accepted and has an upsert lookup after an in-bundle change of its "
        "require columns, or that is rejected after earlier actions wrote; distinct by (rows, request, options) / "
        "(rows, actions)")

ASSUMPTIONS = [
  "cell values are None/bool/int/str scalars; Python equality of values = equality of tokens (checked per case by the tie)",
  "type conversion (col.convert), column defaults and table.next_row_id() are parameters taken from the live column objects",
  "lookup_records(**key) = rows whose cells equal the converted key, in row-id order (index exactness is C13/C05)",
  "no 'id'/'manualSort' keys, option values boolean or absent",
  "empty column: guess_col_info (type guess from the values of one bulk action; no JS sandbox: Numeric or Text), the "
  "guessed type's convert and default are parameters taken from the live code; the cells of a still-empty column are None",
  "the conversion of the empty column is in the model the tie uses (upsertImplConv: fill of the existing rows with the "
  "new default before BulkAddRecord appends / before BulkUpdateRecord trims) but not in the row-at-a-time Lean spec: "
  "the model's impl-vs-spec instance check leaves the cells of column e out when a conversion happens",
  "at most one non-writable column in col_values (which of two errors comes first depends on set iteration order)",
  "Lean theorem hypotheses: next exceeds every row id, row ids distinct, (for impl=spec) no record targeted twice",
  "several actions in ONE bundle (seq:* counters): the Lean model is a function of ONE request and ONE table; it has no "
  "notion of a bundle, of the lookup index or of the engine's bookkeeping between doc actions.  That an upsert inside a "
  "bundle sees the table as the previous actions of the bundle left it (freshness of the lookup index within a bundle), "
  "that a bundle with a rejected action is rolled back entirely, and the plain record actions in between are judged by "
  "the DIRECT ORACLE ONLY: bundle retValues / final table T / other tables / error == the same actions applied as "
  "separate bundles, every link of that chain judged by the independent reference (upserts) or a naive reference "
  "(UpdateRecord, BulkUpdateRecord, AddRecord, RemoveRecord).  The model takes part only per action: each upsert of the "
  "chain is tied as a single-action case, and the model's retValues for it (and, for a last upsert, its final cells) "
  "are also compared with what the ONE bundle returned - with the table before that action taken from the "
  "separate-bundle run, not from the model",
  "sequences never name the EMPTY column e (its conversion is a schema change; single-action cases only); a rejected "
  "bundle must leave doc.snapshot() unchanged - formula cells included; the one recorded deviation (formula cells stale "
  "until the next calculation, C04's rollback-does-not-recalculate) is reported under its own signature only when "
  "nothing but cells of column f differ and a [Calculate] bundle restores the snapshot exactly",
]


def run(ck):
  ck.rule = RULE
  ck.assumptions = ASSUMPTIONS
  ck.lean(["GristProps.C28"])
  n = 900 if ck.tier == "quick" else 80000
  cases = [dict(c) for c in WITNESSES]
  cases += [{"kind": "seq", "rows": _R12, "actions": a, "fresh_b": True} for a in SEQ_WITNESSES]
  cases += exhaustive_cases(ck.tier, ck.rng)
  cases += list(gen_cases(ck.seed, n))
  # bundles of several actions, spread over the stream (and so over the workers)
  seqs = list(gen_seq_cases(ck.seed, 320 if ck.tier == "quick" else 4000))
  step = max(1, len(cases) // len(seqs))
  mixed = []
  for k, c in enumerate(cases):
    mixed.append(c)
    if k % step == step - 1 and seqs:
      mixed.append(seqs.pop())
  cases = mixed + seqs
  results = run_all(ck, cases)
  judge(ck, results)


def replay(ck, rp):
  from gx import common
  common.setup_repo_path()
  case = rp["replay"]["case"]
  w = World()
  if case["kind"] == "seq":
    r = run_seq(w, case)
    print("replay: one bundle %r on T=%r%s" % (r["case"]["actions"], case["rows"],
                                               " (in a new document)" if case.get("fresh_b") else ""))
    print("  bundle outcome: %r" % (r["bundle"],))
    for st, k in zip(r["steps"], r["step_at"]):
      print("  action #%d as a bundle of its own: %r" % (k, st["real"]))
      for sig, detail in st["findings"]:
        print("    finding of that action alone: %s: %s" % (sig, detail))
    for sig, detail in r["findings"]:
      print("  finding: %s: %s" % (sig, detail))
    if not r["findings"]:
      print("  property holds on this input")
    judge(ck, [r])
    ck.nontrivial_case("replay"); ck.nontrivial_case(case)
    ck.lean(["GristProps.C28"])
    return
  r = run_case(w, case)
  r["case"] = _strip(case)
  print("replay: %s T=%r require=%r col_values=%r options=%r" % (
    case["kind"], case["rows"], case["require"], case["col_values"], case["options"]))
  print("  real outcome: %r" % (r["real"],))
  for sig, detail in r["findings"]:
    print("  finding: %s: %s" % (sig, detail))
  if not r["findings"]:
    print("  property holds on this input")
  judge(ck, [r])
  ck.nontrivial_case("replay"); ck.nontrivial_case(case)
  ck.lean(["GristProps.C28"])
