"""
C28  Upserts follow their specification (useractions.BulkAddOrUpdateRecord / AddOrUpdateRecord).

Theorems: lean/GristProps/C28.lean about lean/GristModel/Upsert.lean
  upsert_impl_eq_spec_partial, upsert_impl_eq_spec_distinct_keys, add_or_update_eq_spec,
  upsert_validation (+ _on_many/_empty_require/_lengths/_duplicate), upsert_frame, and the refutations
  impl_eq_spec_full_false / validation_full_false whose witnesses are replayed here (WITNESSES).
Tie:    every case is run through a live engine (gx.engine_driver.Doc) and through the compiled model
        (`upsertImpl` / `addOrUpdateImpl`): error class + which check, retValues, final data cells.
Search: an independent Python reference of the documented behaviour (`reference`) is compared with
        the engine's result (exact values), plus frame checks (no other table touched, rejected
        requests leave `doc.snapshot()` unchanged).

INTERPRETATION (the reading of the property text that the check demands):
  * "records matching `require` are looked up": in the table as it is BEFORE the action, for every
    input row (the code does all lookups before its two bulk actions; DESIGN.md C28), with the
    type conversion `lookup_records` applies to the key (`col.convert`), in row-id order.
  * several input rows that give values to the same record are applied in input order (the last
    one wins) - this can only happen with an empty `require` (allow_empty_require) or with require
    keys that coincide after type conversion.
  * the added record is `{**require, **col_values}` over the column defaults, REAL formula columns of
    `require` left out (they cannot be stored); values are stored as `col.convert` gives them.
  * EMPTY columns (isFormula with formula '': the state of a freshly added column; column `e`, type
    Any) accept data like data columns: their `require` values ARE stored in an added record (the code:
    `require_add_keys` drops a column only if it `is_formula()` AND has formula text), they may be
    given in `col_values`, and looking a key up in a still-empty column compares it (unconverted, the
    type is Any) with its cells, which are all None.  What storing into an empty column means is the
    documented behaviour of `_ensure_column_accepts_data`, taken as a parameter from the live code
    like `col.convert`: each of the two bulk actions of an upsert (BulkAddRecord first, then
    BulkUpdateRecord) that carries a value for a still-empty column has `guess_col_info` look at ITS
    values; all blank (None / '') -> the column stays empty and None is stored; otherwise the column
    becomes a data column of the guessed type, every record that exists at that moment gets that
    type's default in it, and the values are stored as the new type converts them.  Only the record of
    that column in _grist_Tables_column may change (type, isFormula).
  * an added record matches its own `require` afterwards, column by column (`col.convert(sent value)
    == stored cell` with the column as it is after the action; real formula columns and columns
    overridden by `col_values` excepted) - otherwise repeating the request adds a duplicate instead of
    updating.
  * invalid arguments = bad on_many; empty require without allow_empty_require; value lists of
    different lengths; two input rows with the same require key - "same" as sent (Python equality
    of the tuples: that is what the code checks) or same after the column's type conversion (that is
    what makes two rows address the same records).  All of them must be rejected, nothing changed.
  * a formula / unknown column in `col_values` must be rejected when a record would be written
    (code comment: "setting such a column there should raise an error"); an unknown column in
    `require` is always rejected.
  * `id` / `manualSort` as keys and compound cell values are out of scope (C27 / C18 territory);
    option values are booleans or absent.  Every case starts with column `e` EMPTY: a case that
    converted it is followed by RemoveColumn + AddColumn (World.ensure_empty), so cases (also the
    chained ones, which keep the data columns of the rows) are independent and replays faithful.
"""
import copy
import itertools
import json
import multiprocessing
import os
import random

DATA = ["i", "t", "b", "c", "r"]
TYPES = {"i": "Int", "t": "Text", "b": "Bool", "c": "Choice", "r": "Ref:R"}
EMPTY = "e"                      # isFormula=True, formula='' , type Any
STORED = DATA + [EMPTY]          # the columns that hold what is written (compared cell by cell)
FORMULA = "f"
F_EXPR = "($i if isinstance($i, int) else 0) * 2"
ALLC = DATA + [EMPTY, FORMULA]
# conversion fixed points per column (small pools, so duplicates abound)
POOL = {"i": [0, 1, 2, 3], "t": ["", "a", "b", "1"], "b": [True, False], "c": ["", "u", "v"],
        "r": [0, 1, 2, 3], "f": [0, 2, 4, 6],
        # None = what every cell of a still-empty column holds; '' is blank too; "1" and 1 are both numeric
        "e": [None, None, "", "a", "b", 1, 2, "1"]}
WILD = [None, True, False, 0, 1, 2, "", "a", "1", "2", "true", "x"]
BAD_ON_MANY = ["First", "", "any", 0, None, "ALL", "nope"]

SIG_TRIM = ("two input rows give values to the same record and the later values equal the record's cells "
            "before the action: the earlier row's values stay")
SIG_CONVDUP = "require rows distinct as sent but equal after the column's type conversion are accepted"
SIG_SINGLE = "AddOrUpdateRecord with empty require and empty col_values returns NONE without checking its options"
SIG_BLANK = ("blank string '' required on an empty column that stays empty is stored as None: the added record does "
             "not match its own require")


# --------------------------------------------------------------------------- tokens

def ptok(v):
  """Token of a cell value such that token equality == Python equality (what lookups, the
  uniqueness check and trim_update_action use)."""
  if v is None:
    return "N"
  if isinstance(v, (bool, int)):
    return "n%d" % int(v)
  if isinstance(v, float):
    return ("n%d" % int(v)) if v == int(v) else "f%r" % v
  if isinstance(v, str):
    return "s" + v
  raise ValueError("value outside the modelled universe: %r" % (v,))


# --------------------------------------------------------------------------- world

E_INFO = {"type": "Any", "isFormula": True, "formula": ""}


class EmptyConv(object):
  """What `_ensure_column_accepts_data` does with the values one bulk action carries for an EMPTY
  column of type Any - a parameter taken from the live code (like `col.convert`)."""

  def __init__(self, engine):
    import useractions
    import usertypes
    self._guess = useractions.guess_col_info
    self._usertypes = usertypes
    self._docmodel = engine.docmodel

  def guess(self, values):
    """(new type name or None when the column stays empty, the values to store before the new type's conversion)"""
    info, vals = self._guess(list(values), self._docmodel)
    if not info:
      return None, list(vals)
    assert set(info) == {"type"}, info
    return info["type"], list(vals)

  def _type(self, tname):
    return getattr(self._usertypes, self._usertypes.get_pure_type(tname))()

  def tconv(self, tname, v):
    return self._type(tname).convert(v)

  def tdefault(self, tname):
    return self._type(tname).default


class World(object):
  def __init__(self):
    from gx import engine_driver as ed
    self.ed = ed
    self.doc = ed.Doc()
    r = self.doc.apply([["AddTable", "R", [{"id": "name", "type": "Text", "isFormula": False}]]])
    assert r.ok, r.error
    cols = [{"id": c, "type": TYPES[c], "isFormula": False} for c in DATA]
    cols.append(dict(E_INFO, id=EMPTY))
    cols.append({"id": FORMULA, "type": "Int", "isFormula": True, "formula": F_EXPR})
    r = self.doc.apply([["AddTable", "T", cols]])
    assert r.ok, r.error
    r = self.doc.apply([["BulkAddRecord", "R", [None] * 3, {"name": ["x", "y", "z"]}]])
    assert r.ok, r.error
    self.table = self.doc.engine.tables["T"]
    self.n_cases = 0
    self.n_restored = 0
    self.econv = EmptyConv(self.doc.engine)
    assert self.is_empty()
    self.refresh()

  def refresh(self):
    # every table but T, as the last case left it (our own resets only touch T's rows; when column e
    # is put back its metadata records are new ones)
    self.others = {t: v for t, v in self.doc.snapshot().items() if t != "T"}
    tref = [t["id"] for t in self.doc.meta("_grist_Tables") if t["tableId"] == "T"][0]
    self.e_ref = [c["id"] for c in self.doc.meta("_grist_Tables_column")
                  if c["parentId"] == tref and c["colId"] == EMPTY][0]

  def is_empty(self):
    sc = self.doc.engine.schema["T"].columns[EMPTY]
    col = self.table.get_column(EMPTY)
    return bool(sc.isFormula) and sc.formula == "" and sc.type == "Any" and col.is_formula()

  def ensure_empty(self):
    """Column e back to the state of a freshly added column (all cells None)."""
    if self.is_empty():
      return
    r = self.doc.apply([["RemoveColumn", "T", EMPTY]])
    assert r.ok, r.error
    r = self.doc.apply([["AddColumn", "T", EMPTY, dict(E_INFO)]])
    assert r.ok, r.error
    assert self.is_empty()
    self.n_restored += 1
    self.refresh()

  def conv(self, c, v):
    if c in ALLC:
      return self.table.get_column(c).convert(v)
    return v

  def rows(self):
    """Current content of T as [[id, {col: value}]] (all modelled columns, raw python values)."""
    td = self.doc.engine.fetch_table("T", formulas=True)
    return [[r, {c: td.columns[c][k] for c in ALLC}] for k, r in enumerate(td.row_ids)]

  def reset(self, rows):
    self.ensure_empty()
    ids = list(self.table.row_ids)
    if ids:
      r = self.doc.apply([["BulkRemoveRecord", "T", sorted(ids)]])
      assert r.ok, r.error
    if rows:
      r = self.doc.apply([["BulkAddRecord", "T", [x[0] for x in rows],
                           {c: [x[1][c] for x in rows] for c in DATA}]])
      assert r.ok, r.error


def resolve_options(options):
  om = options.get("on_many", "first")
  return {"update": bool(options.get("update", True)), "add": bool(options.get("add", True)),
          "allow_empty_require": bool(options.get("allow_empty_require", False)),
          "on_many": om if (isinstance(om, str) and om in ("first", "none", "all")) else "bad"}


# --------------------------------------------------------------------------- reference (oracle)

def hashable_eq_key(vals):
  # Python equality classes of a tuple of scalars (1 == 1.0 == True)
  return tuple(ptok(v) for v in vals)


def classify_invalid(case, conv):
  """The invalid-argument classes of the property text.  Returns list of class names."""
  req, cv, opt = case["require"], case["col_values"], case["options"]
  single = case["kind"] == "single"
  out = []
  om = opt.get("on_many", "first")
  if not (isinstance(om, str) and om in ("first", "none", "all")):
    out.append("bad on_many")
  if not req and not opt.get("allow_empty_require", False):
    out.append("empty require without allow_empty_require")
  if not single:
    lens = set(len(v) for v in req.values()) | set(len(v) for v in cv.values())
    if len(lens) > 1:
      out.append("mismatched lengths")
    elif req and len(lens) == 1:
      n = lens.pop()
      raw = [hashable_eq_key([req[c][k] for c in req]) for k in range(n)]
      cvt = [hashable_eq_key([conv(c, req[c][k]) for c in req]) for k in range(n)]
      if len(set(raw)) < n:
        out.append("duplicate require keys")
      elif len(set(cvt)) < n:
        out.append("duplicate require keys after type conversion")
  return out


def walk(rows0, conv, req, cv, opt, n):
  """Per input row, on the table BEFORE the action: ("add", []) / ("upd", receivers) / ("none", [])."""
  update = opt.get("update", True)
  add = opt.get("add", True)
  on_many = opt.get("on_many", "first")
  before = dict((r[0], r[1]) for r in rows0)
  steps = []
  for k in range(n):
    key = {c: conv(c, req[c][k]) for c in req}
    ms = [rid for rid, _ in rows0 if all(before[rid][c] == key[c] for c in key)]
    if not ms:
      steps.append(("add", []) if add else ("none", []))
    elif not update:
      steps.append(("upd", []))
    elif len(ms) == 1 or on_many == "all":
      steps.append(("upd", ms))
    elif on_many == "first":
      steps.append(("upd", ms[:1]))
    else:
      steps.append(("upd", []))
  return steps


def empty_plan(steps, req, cv, econv):
  """What the two bulk actions store into the (still EMPTY) column e.  {"conv_add"/"conv_upd": type the
  column is converted to by the BulkAddRecord / the BulkUpdateRecord (or None), "add"/"upd": {input
  row: stored value}}."""
  plan = {"conv_add": None, "conv_upd": None, "add": {}, "upd": {}}
  state = None
  src = cv if EMPTY in cv else (req if EMPTY in req else None)   # {**require, **col_values}
  add_rows = [k for k, st in enumerate(steps) if st[0] == "add"]
  if add_rows and src is not None:
    tname, vals = econv.guess([src[EMPTY][k] for k in add_rows])
    if tname is not None:
      state = plan["conv_add"] = tname
      vals = [econv.tconv(tname, v) for v in vals]
    plan["add"] = dict(zip(add_rows, vals))
  upd = [k for k, st in enumerate(steps) for _ in st[1]]          # one value per (input row, receiver)
  if upd and EMPTY in cv:
    vals = [cv[EMPTY][k] for k in upd]
    if state is None:
      tname, vals = econv.guess(vals)
      if tname is not None:
        state = plan["conv_upd"] = tname
    if state is not None:
      vals = [econv.tconv(state, v) for v in vals]
    plan["upd"] = dict(zip(upd, vals))
  return plan


def plan_for(rows0, conv, econv, case):
  """The empty-column plan of a request whatever its validity (None if it has no well-formed input
  rows or does not name column e) - the model's parameters for column e."""
  req, cv = case["require"], case["col_values"]
  if EMPTY not in req and EMPTY not in cv:
    return None
  if case["kind"] == "single":
    req = {k: [v] for k, v in req.items()}
    cv = {k: [v] for k, v in cv.items()}
  lens = set(len(v) for v in req.values()) | set(len(v) for v in cv.values())
  if len(lens) != 1 or any(c not in ALLC for c in req):
    return None
  opt = resolve_options(case["options"])
  if opt["on_many"] == "bad":
    return None
  return empty_plan(walk(rows0, conv, req, cv, opt, lens.pop()), req, cv, econv)


def reference(rows0, next_id, defaults, conv, case, econv):
  """The documented behaviour on plain python values.  `rows0` = [[id, {col: val}]] in id order.
  Returns ("reject", why) or ("ok", rows, ret, receivers_per_input_row, info); info = {"plan": the
  empty-column plan, "adds": [(input row, new id)]}."""
  req, cv, opt = case["require"], case["col_values"], case["options"]
  single = case["kind"] == "single"
  no_info = {"plan": None, "adds": []}
  if single:
    if not req and not cv and not classify_invalid(case, conv):
      return ("ok", copy.deepcopy(rows0), {"recordIds": [], "action": "NONE"}, [], no_info)
    req = {k: [v] for k, v in req.items()}
    cv = {k: [v] for k, v in cv.items()}
  bad = classify_invalid(case, conv)
  if bad:
    return ("reject", bad[0])
  for c in req:
    if c not in ALLC:
      return ("reject", "unknown column in require")
  ret = {"recordIds": [], "addRecordIds": [], "updateRecordIds": []}
  rows = copy.deepcopy(rows0)
  if not req and not cv:
    return ("ok", rows, ret if not single else {"recordIds": [], "action": "NONE"}, [], no_info)
  n = len(list(req.values())[0]) if req else len(list(cv.values())[0])
  steps = walk(rows0, conv, req, cv, opt, n)
  plan = empty_plan(steps, req, cv, econv)
  new_rows, adds, writes, recv = [], [], [], []
  for k, (what, sel) in enumerate(steps):
    vals = {c: conv(c, cv[c][k]) for c in cv if c != EMPTY}
    recv.append(sel)
    if what == "add":
      rec = dict(defaults)
      # require values of EMPTY columns are stored like those of data columns; real formula columns are not
      rec.update({c: conv(c, req[c][k]) for c in req if c not in (FORMULA, EMPTY)})
      rec.update(vals)
      if EMPTY in req or EMPTY in cv:
        rec[EMPTY] = plan["add"][k]
      new_rows.append([next_id, rec])
      adds.append((k, next_id))
      ret["recordIds"].append([next_id])
      ret["addRecordIds"].append(next_id)
      next_id += 1
      continue
    if EMPTY in cv and sel:
      vals[EMPTY] = plan["upd"][k]
    for rid in sel:
      writes.append((rid, vals))
    ret["recordIds"].append(sel)
    if sel:
      ret["updateRecordIds"].append(sel)
  if new_rows or writes:
    for c in cv:
      if c not in STORED:
        return ("reject", "formula column in col_values" if c == FORMULA else "unknown column in col_values")
  # BulkAddRecord: a conversion of column e fills the records that exist, then the new ones are appended
  if plan["conv_add"] is not None:
    for _, rec in rows:
      rec[EMPTY] = econv.tdefault(plan["conv_add"])
  rows += new_rows
  # BulkUpdateRecord: a conversion fills all records (the new ones too), then the receivers are
  # written in input order (the last input row wins)
  if plan["conv_upd"] is not None:
    for _, rec in rows:
      rec[EMPTY] = econv.tdefault(plan["conv_upd"])
  byid = dict((r[0], r[1]) for r in rows)
  for rid, vals in writes:
    byid[rid].update(vals)
  if single:
    ids = ret["recordIds"][0] if ret["recordIds"] else []
    action = "UPDATE" if ret["updateRecordIds"] else ("ADD" if ret["addRecordIds"] else "NONE")
    ret = {"recordIds": ids, "action": action}
  return ("ok", rows, ret, recv, {"plan": plan, "adds": adds})


def trim_variant(rows0, conv, case, recv, plan, econv):
  """What the rows look like if, among the accumulated (record, values) pairs, those equal to the
  record's cells BEFORE the BulkUpdateRecord writes (Engine.trim_update_action; a conversion of the
  empty column has filled its cells by then) are dropped - only used to give the known deviation its
  specific signature."""
  cv = case["col_values"]
  if case["kind"] == "single":
    cv = {k: [v] for k, v in cv.items()}
  before = copy.deepcopy(dict((r[0], r[1]) for r in rows0))
  for tname in (plan["conv_add"], plan["conv_upd"]):
    if tname is not None:
      for rec in before.values():
        rec[EMPTY] = econv.tdefault(tname)
  out = copy.deepcopy(before)
  for k, sel in enumerate(recv):
    vals = {c: conv(c, cv[c][k]) for c in cv if c != EMPTY}
    if EMPTY in cv and sel:
      vals[EMPTY] = plan["upd"][k]
    for rid in sel:
      if any(before[rid][c] != vals[c] for c in vals):
        out[rid].update(vals)
  return out


# --------------------------------------------------------------------------- one case

def model_op(w, case, rows0, next_id, defaults, plan):
  req, cv = case["require"], case["col_values"]
  op = {"m": "upsert", "op": case["kind"],
        "schema": [[c, "data"] for c in DATA] + [[EMPTY, "empty"], [FORMULA, "formula"]],
        "table": [[rid, [[c, ptok(rec[c])] for c in ALLC]] for rid, rec in rows0],
        "next": next_id,
        "defaults": [[c, ptok(defaults[c])] for c in STORED],
        "options": resolve_options(case["options"])}

  def rtok(c, k, v):
    # [as sent, as looked up, as stored in an added record]
    cell = [ptok(v), ptok(w.conv(c, v))]
    if c == EMPTY and plan is not None and k in plan["add"]:
      cell.append(ptok(plan["add"][k]))
    return cell

  def vtok(c, k, v):
    if c == EMPTY and plan is not None:
      if k in plan["add"]:
        return ptok(plan["add"][k])
      if k in plan["upd"]:
        return ptok(plan["upd"][k])
    return ptok(w.conv(c, v))

  if case["kind"] == "bulk":
    op["require"] = [[c, [rtok(c, k, v) for k, v in enumerate(vs)]] for c, vs in req.items()]
    op["col_values"] = [[c, [vtok(c, k, v) for k, v in enumerate(vs)]] for c, vs in cv.items()]
  else:
    op["require"] = [[c, rtok(c, 0, v)] for c, v in req.items()]
    op["col_values"] = [[c, vtok(c, 0, v)] for c, v in cv.items()]
  if plan is not None:
    for key in ("conv_add", "conv_upd"):
      if plan[key] is not None:
        op[key] = [[EMPTY, ptok(w.econv.tdefault(plan[key]))]]
  return op


ERR_TAG = [("on_many should be", "on_many"), ("require is empty", "empty_require"),
           ("Value lists must all have the same length", "lengths"),
           ("require values must be unique", "not_unique"), ("Can't save value to formula column", "formula_column")]


def err_tag(error):
  cls, msg = error
  if cls == "KeyError":
    return "unknown_column"
  for pre, tag in ERR_TAG:
    if msg.startswith(pre):
      return tag
  return "other:" + msg[:60]


def run_case(w, case, reset=True):
  """Runs one case on the live engine.  Returns a dict: op (for the model), real (canonical real
  outcome, comparable with the model's answer), findings [(signature, detail)], facts."""
  ed = w.ed
  if reset:
    w.reset(case["rows"])
  else:
    w.ensure_empty()       # a chained case keeps the rows (data columns), not a converted column e
  w.n_cases += 1
  rows0 = w.rows()
  assert all(rec[EMPTY] is None for _, rec in rows0), rows0
  next_id = w.table.next_row_id()
  defaults = {c: w.table.get_column(c).getdefault() for c in STORED}
  plan = plan_for(rows0, w.conv, w.econv, case)
  op = model_op(w, case, rows0, next_id, defaults, plan)
  ref = reference(rows0, next_id, defaults, w.conv, case, w.econv)
  invalid = classify_invalid(case, w.conv)
  before = dict(w.others, T=w.doc.snapshot(tables=["T"])["T"])
  name = "BulkAddOrUpdateRecord" if case["kind"] == "bulk" else "AddOrUpdateRecord"
  res = w.doc.apply([[name, "T", case["require"], case["col_values"], case["options"]]])
  after = w.doc.snapshot()
  w.others = {t: v for t, v in after.items() if t != "T"}
  findings = []
  facts = {"accepted": bool(res.ok), "invalid": invalid, "wrote": False, "n_rows": len(rows0),
           "e_require": EMPTY in case["require"], "e_col_values": EMPTY in case["col_values"],
           "e_converted": None, "e_stored_from_require": 0, "e_matched_none": False}

  def find(sig, detail):
    findings.append((sig, detail))

  if not res.ok:
    real = {"error": res.error[0], "tag": err_tag(res.error)}
    if before != after:
      find("rejected request changed the document", "; ".join(ed.diff_snapshots(before, after)))
    if ref[0] != "reject":
      find("valid request rejected (%s)" % res.error[0], "%s: %s" % res.error)
  else:
    ret = res.ret[0]
    td = after["T"]
    real = {"ids": list(td["ids"]),
            "cells": {str(rid): {c: ptok(v) for c, v in rec.items() if c in STORED} for rid, rec in w.rows()},
            "ret": ret}
    facts["wrote"] = bool(res.raw_stored)
    if not w.is_empty():
      facts["e_converted"] = w.doc.engine.schema["T"].columns[EMPTY].type
    # ---- invalid arguments must be rejected
    if invalid:
      if case["kind"] == "single" and not case["require"] and not case["col_values"]:
        find(SIG_SINGLE, "options %r accepted, result %r" % (case["options"], ret))
      elif invalid[0] == "duplicate require keys after type conversion":
        find(SIG_CONVDUP, "require %r accepted, result %r" % (case["require"], ret))
      else:
        find("invalid arguments accepted: " + invalid[0], "result %r" % (ret,))
    elif ref[0] == "reject":
      find("request must be rejected (%s) but was accepted" % ref[1], "result %r" % (ret,))
    else:
      _, rrows, rret, recv, info = ref
      plan = info["plan"] or {"conv_add": None, "conv_upd": None, "add": {}, "upd": {}}
      # ---- frame at document level: nothing but T may change - except the metadata record of
      # column e when a bulk action converts it (type, isFormula) - old rows keep their position
      other = {t: v for t, v in before.items() if t != "T"}
      other_after = {t: v for t, v in after.items() if t != "T"}
      tname = plan["conv_add"] or plan["conv_upd"]
      if tname is not None:
        other = copy.deepcopy(other)
        mc = other["_grist_Tables_column"]
        j = mc["ids"].index(w.e_ref)
        mc["cols"]["type"][j] = ed.tokv(tname)
        mc["cols"]["isFormula"][j] = ed.tokv(False)
      if other != other_after:
        find("upsert changed another table" if tname is None else
             "metadata after the upsert differ from the conversion of the empty column to %s" % tname,
             "; ".join(ed.diff_snapshots(other, other_after)))
      # ---- an added record matches its own require (not: real formula columns, columns overridden by col_values)
      sreq = case["require"] if case["kind"] == "bulk" else {c: [v] for c, v in case["require"].items()}
      cells = dict((rid, rec) for rid, rec in w.rows())
      for k, new_id in info["adds"]:
        for c in sreq:
          if c == FORMULA or c in case["col_values"] or new_id not in cells:
            continue
          sent, cell = sreq[c][k], cells[new_id][c]
          if c == EMPTY:
            facts["e_stored_from_require"] += 1
          if w.table.get_column(c).convert(sent) != cell:
            detail = "input row %d: require %s=%r, record %d holds %r" % (k, c, sent, new_id, cell)
            if c == EMPTY and sent == "" and cell is None and w.is_empty():
              find(SIG_BLANK, detail)
            else:
              find("added record does not match its own require", detail)
      if EMPTY in sreq and any(sel for sel in recv):
        facts["e_matched_none"] = True
      old_ids = before["T"]["ids"]
      if td["ids"][:len(old_ids)] != old_ids:
        find("a row was removed or reordered", "ids %r -> %r" % (old_ids, td["ids"]))
      elif before["T"]["cols"]["manualSort"] != td["cols"]["manualSort"][:len(old_ids)]:
        find("position of an existing row changed", "manualSort")
      # ---- returned ids
      if rret != ret:
        find("returned ids differ from the reference", "expected %r got %r" % (rret, ret))
      # ---- final contents (exact tokens)
      exp_ids = [r[0] for r in rrows]
      if exp_ids != td["ids"]:
        find("row ids differ from the reference", "expected %r got %r" % (exp_ids, td["ids"]))
      else:
        diffs = []
        for k, (rid, rec) in enumerate(rrows):
          for c in STORED:
            if ed.tokv(rec[c]) != td["cols"][c][k]:
              diffs.append((rid, c, ed.tokv(rec[c]), td["cols"][c][k]))
        if diffs:
          touched = set(x for sel in recv for x in sel)
          cnt = {}
          for sel in recv:
            for x in sel:
              cnt[x] = cnt.get(x, 0) + 1
          new_ids = set(exp_ids[len(old_ids):])
          # (an added record that is wrong comes first: other differences are often its consequences)
          rid, c, e, g = ([d for d in diffs if d[0] in new_ids] + diffs)[0]
          detail = "row %s column %s: expected %s got %s (%d cells differ)" % (rid, c, e, g, len(diffs))
          if all(cnt.get(d[0], 0) >= 2 for d in diffs):
            tv = trim_variant(rows0, w.conv, case, recv, plan, w.econv)
            if all(ed.tokv(tv[rid][c]) == td["cols"][c][k]
                   for k, rid in enumerate(old_ids) for c in STORED):
              find(SIG_TRIM, detail)
            else:
              find("record updated by several input rows has unexpected cells", detail)
          elif rid in new_ids:
            find("added record differs from {**require, **col_values}", detail)
          elif rid in touched:
            find("matched record did not receive col_values", detail)
          else:
            find("a record that matched no input row changed", detail)
  return {"op": op, "real": real, "findings": findings, "facts": facts}


def compare_model(real, mo, kind):
  """None if the model's `impl` answer equals the real outcome, else a description."""
  m = mo.get("impl")
  if m is None:
    return "model answered %r" % (mo,)
  if "error" in real or "error" in m:
    if real.get("error") != m.get("error") or real.get("tag") != m.get("tag"):
      return "error: real %r model %r" % ({k: real.get(k) for k in ("error", "tag")}, {k: m.get(k) for k in ("error", "tag")})
    return None
  if kind == "bulk":
    mret = {k: m[k] for k in ("recordIds", "addRecordIds", "updateRecordIds")}
  else:
    mret = {"recordIds": m["recordIds"], "action": m["action"]}
  if mret != real["ret"]:
    return "retValues: real %r model %r" % (real["ret"], mret)
  mids = [r[0] for r in m["table"]]
  if mids != real["ids"]:
    return "row ids: real %r model %r" % (real["ids"], mids)
  for rid, rec in m["table"]:
    d = dict((c, v) for c, v in rec)
    for c in STORED:
      if d.get(c) != real["cells"][str(rid)][c]:
        return "cell %s.%s: real %r model %r" % (rid, c, real["cells"][str(rid)][c], d.get(c))
  return None


# --------------------------------------------------------------------------- generation

def gen_rows(rng):
  n = rng.choice([0, 1, 2, 3, 3, 4, 4, 5, 6])
  ids = sorted(rng.sample(range(1, 10), n))
  narrow = rng.random() < 0.6     # few distinct values -> many duplicates
  rows = []
  for rid in ids:
    rec = {}
    for c in DATA:
      pool = POOL[c][:2] if narrow else POOL[c]
      rec[c] = rng.choice(pool) if rng.random() < 0.93 else rng.choice(WILD)
    rows.append([rid, rec])
  return rows


def gen_options(rng, empty_require):
  o = {}
  x = rng.choice(["first", "none", "all", None])
  if x is not None:
    o["on_many"] = x
  for k in ("update", "add"):
    x = rng.choice([True, True, False, None])
    if x is not None:
      o[k] = x
  x = rng.choice([True, False, None])
  if empty_require and rng.random() < 0.85:
    x = True
  if x is not None:
    o["allow_empty_require"] = x
  return o


def gen_request(rng, rows, w):
  """A mostly valid bulk request."""
  n = rng.choice([0, 1, 1, 2, 2, 2, 3, 3, 4])
  rc = rng.choice([0, 1, 1, 1, 1, 2, 2])
  req_cols = rng.sample(ALLC, rc)
  if EMPTY not in req_cols and rng.random() < 0.04:      # the empty column as (one of the) key(s)
    req_cols = req_cols[:1] + [EMPTY]
    rng.shuffle(req_cols)
  if rng.random() < 0.02:
    req_cols.append("zz")
  wild = rng.random() < 0.12
  keys = []
  tries = 0
  while len(keys) < n and tries < 40:
    tries += 1
    if rows and rng.random() < 0.65:
      src = rng.choice(rows)[1]
      i = src["i"]
      # the cells of an existing row: f is computed from i, e (still empty) is None - half of the time;
      # any other value of e matches nothing
      src = dict(src, **{FORMULA: i * 2 if isinstance(i, int) and not isinstance(i, bool) else 0,
                         EMPTY: None if rng.random() < 0.5 else rng.choice(POOL[EMPTY])})
      key = tuple(src.get(c, 0) for c in req_cols)
    else:
      key = tuple(rng.choice(WILD if wild else POOL.get(c, [0, 1])) for c in req_cols)
    if wild and rng.random() < 0.3:
      key = tuple(rng.choice(WILD) for c in req_cols)
    if not wild and key in keys and req_cols:
      continue
    if wild and hashable_eq_key(key) in [hashable_eq_key(k) for k in keys] and rng.random() < 0.8:
      continue
    keys.append(key)
  if req_cols and len(keys) < n:
    n = len(keys)
  require = {c: [k[j] for k in keys[:n]] for j, c in enumerate(req_cols)}
  cc = rng.choice([0, 1, 1, 1, 2, 2, 3])
  cv_cols = rng.sample(DATA, cc)
  if rng.random() < 0.08:                                 # values for the empty column
    cv_cols = cv_cols[:2] + [EMPTY]
    rng.shuffle(cv_cols)
  x = rng.random()
  if x < 0.04:
    cv_cols.append(FORMULA)
  elif x < 0.06:
    cv_cols.append("zz")
  col_values = {}
  for c in cv_cols:
    pool = POOL.get(c, [0, 1])
    col_values[c] = [rng.choice(pool[:2] + pool) if rng.random() < 0.9 else rng.choice(WILD) for _ in range(n)]
  return require, col_values, gen_options(rng, not require)


def break_request(rng, case):
  """Turn a request into an invalid one (one of the classes of the property text)."""
  case = copy.deepcopy(case)
  req, cv, opt = case["require"], case["col_values"], case["options"]
  kinds = ["on_many", "empty"]
  lists = [(d, c) for d in (req, cv) for c in d]
  if lists:
    kinds += ["lengths", "lengths"]
  if req and len(list(req.values())[0]) >= 1:
    kinds += ["dup", "dup"]
  kind = rng.choice(kinds)
  if kind == "on_many":
    opt["on_many"] = rng.choice(BAD_ON_MANY)
  elif kind == "empty":
    case["require"] = {}
    if rng.random() < 0.5:
      opt.pop("allow_empty_require", None)
    else:
      opt["allow_empty_require"] = False
  elif kind == "lengths":
    d, c = rng.choice(lists)
    if d[c] and rng.random() < 0.5:
      d[c] = d[c][:-1]
    else:
      d[c] = d[c] + [rng.choice(WILD)]
  else:
    n = len(list(req.values())[0])
    j = rng.randrange(n)
    alias = {0: [False, 0], 1: [True, 1], True: [1], False: [0]}
    for c in req:
      v = req[c][j]
      if rng.random() < 0.4 and (isinstance(v, (bool, int))) and v in (0, 1):
        v = rng.choice(alias[v])
      req[c] = req[c] + [v]
    for c in cv:
      cv[c] = cv[c] + [cv[c][j]]
    if n >= 2 and rng.random() < 0.5:   # move the duplicate away from the end
      k = rng.randrange(n)
      for d in (req, cv):
        for c in d:
          d[c][k], d[c][-1] = d[c][-1], d[c][k]
  case["broken"] = kind
  return case


def to_single(rng, case):
  c = copy.deepcopy(case)
  c["kind"] = "single"
  c["require"] = {k: (v[0] if v else rng.choice(WILD)) for k, v in case["require"].items()}
  c["col_values"] = {k: (v[0] if v else rng.choice(WILD)) for k, v in case["col_values"].items()}
  if rng.random() < 0.08:
    c["require"], c["col_values"] = {}, {}
  if rng.random() < 0.05:
    c["options"]["on_many"] = rng.choice(BAD_ON_MANY)
  return c


def gen_cases(seed, n):
  """Random stream: ~70% mostly-valid bulk, ~12% invalid bulk, ~18% single."""
  rng = random.Random("C28/cases/%s" % seed)
  w = None
  for _ in range(n):
    rows = gen_rows(rng)
    require, col_values, options = gen_request(rng, rows, w)
    case = {"kind": "bulk", "rows": rows, "require": require, "col_values": col_values, "options": options}
    x = rng.random()
    if x < 0.12:
      case = break_request(rng, case)
    elif x < 0.30:
      case = to_single(rng, case)
    case["chain"] = rng.random() < 0.25   # apply to the table as the previous case left it
    yield case


def exhaustive_cases(tier, rng):
  """Small scopes, complete (thorough) or sub-sampled (quick)."""
  out = []
  opts = [{"on_many": om, "update": u, "add": a}
          for om in ("first", "none", "all") for u in (True, False) for a in (True, False)]
  # (a) one Int key column, 3 rows with values in {1,2}; 1-2 input rows with keys in {1,2,3}
  for vals in itertools.product([1, 2], repeat=3):
    rows = [[k + 1, {"i": v, "t": "a", "b": False, "c": "", "r": 0}] for k, v in enumerate(vals)]
    for n in (1, 2):
      for keys in itertools.permutations([1, 2, 3], n):
        for tv in itertools.product(["a", "b"], repeat=n):
          for o in opts:
            out.append({"kind": "bulk", "rows": rows, "require": {"i": list(keys)},
                        "col_values": {"t": list(tv)}, "options": dict(o)})
  # (b) empty require (allowed): every input row matches every record; 0-2 rows with t in {a,b}
  for vals in itertools.chain.from_iterable(itertools.product(["a", "b"], repeat=k) for k in (0, 1, 2)):
    rows = [[k + 1, {"i": 0, "t": v, "b": False, "c": "", "r": 0}] for k, v in enumerate(vals)]
    for n in (1, 2, 3):
      for tv in itertools.product(["a", "b"], repeat=n):
        for o in opts:
          o = dict(o, allow_empty_require=True)
          out.append({"kind": "bulk", "rows": rows, "require": {}, "col_values": {"t": list(tv)}, "options": o})
  # (c) keys that coincide after conversion, on every column type
  for c, pair in (("i", [1, "1"]), ("t", [1, "1"]), ("b", [1, "true"]), ("c", [2, "2"]), ("r", [None, 0]),
                  ("i", [2, True]), ("t", [0, False]), ("r", ["", False])):
    for present in (False, True):
      v = 1 if c in ("i", "r") else ("1" if c in ("t", "c") else True)
      rows = [[1, {"i": 0, "t": "", "b": False, "c": "", "r": 0}]]
      if present:
        rows.append([2, dict(rows[0][1], **{c: pair[1]})])
      for o in opts[:4]:
        out.append({"kind": "bulk", "rows": rows, "require": {c: list(pair)},
                    "col_values": {"c" if c == "t" else "t": ["a", "b"]}, "options": dict(o)})
  if tier == "quick":
    out = [x for x in out if rng.random() < 0.18]
  # (d) the EMPTY column e (type Any, formula ''), two records with i = 1, 2 (their e cells are None)
  # (a case that converts the column costs ~10 x a plain one - three schema changes: sampled thinner)
  n_abc = len(out)
  base = {"t": "a", "b": False, "c": "", "r": 0}
  rows2 = [[1, dict(base, i=1)], [2, dict(base, i=2)]]
  ev = [None, "", "a", 1, "1"]
  some = [opts[0], opts[1], opts[2], opts[4], opts[6], opts[8]]   # on_many x update/add, 6 of the 12
  for rows in ([], rows2):
    # (d1) e alone as the key: None matches every record, anything else none -> the value must be stored
    for n in (1, 2):
      for keys in itertools.permutations(ev, n):
        for o in opts:
          out.append({"kind": "bulk", "rows": rows, "require": {EMPTY: list(keys)},
                      "col_values": {"t": ["x", "y"][:n]}, "options": dict(o)})
    # (d2) e next to a data key column
    for ik in (1, 3):
      for v in ev:
        for o in some:
          out.append({"kind": "bulk", "rows": rows, "require": {"i": [ik], EMPTY: [v]},
                      "col_values": {"t": ["x"]}, "options": dict(o)})
          out.append({"kind": "single", "rows": rows, "require": {EMPTY: v, "i": ik},
                      "col_values": {}, "options": dict(o)})
    # (d3) values for e in col_values: added and updated records in one request, blank and non-blank
    for n in (1, 2):
      for keys in itertools.permutations([1, 2, 3], n):
        for vals in itertools.product([None, "", "a", 1], repeat=n):
          for o in some:
            out.append({"kind": "bulk", "rows": rows, "require": {"i": list(keys)},
                        "col_values": {EMPTY: list(vals)}, "options": dict(o)})
    # (d4) e in require and in col_values (col_values wins in the added record)
    for v in ev:
      for v2 in (None, "a", 2):
        for o in some[:3]:
          out.append({"kind": "bulk", "rows": rows, "require": {EMPTY: [v]},
                      "col_values": {EMPTY: [v2]}, "options": dict(o)})
  # (d5) empty require: every input row names every record, with values for e (conversion + trimmed update)
  for vals in itertools.product([None, "", "a", 1], repeat=2):
    for o in some:
      out.append({"kind": "bulk", "rows": rows2, "require": {}, "col_values": {EMPTY: list(vals), "t": ["a", "b"]},
                  "options": dict(o, allow_empty_require=True)})
  if tier == "quick":
    out = out[:n_abc] + [x for x in out[n_abc:] if rng.random() < 0.08]
  return out


# the two Lean counterexamples (C28.lean: impl_eq_spec_full_false, validation_full_false) and the
# AddOrUpdateRecord shortcut, replayed on the real code in every run
WITNESSES = [
  {"kind": "bulk", "rows": [[1, {"i": 0, "t": "b", "b": False, "c": "", "r": 0}]],
   "require": {}, "col_values": {"t": ["a", "b"]}, "options": {"allow_empty_require": True},
   "witness": "impl_eq_spec_full_false"},
  {"kind": "bulk", "rows": [], "require": {"i": [5, "5"]}, "col_values": {"t": ["a", "b"]}, "options": {},
   "witness": "validation_full_false"},
  {"kind": "single", "rows": [[1, {"i": 0, "t": "b", "b": False, "c": "", "r": 0}]],
   "require": {}, "col_values": {}, "options": {"on_many": "nope"}, "witness": "single_shortcut"},
  {"kind": "single", "rows": [], "require": {}, "col_values": {}, "options": {}, "witness": "single_shortcut"},
  # the empty column e: its require value is stored in the added record (Lean: add_values_keep_empty_column) ...
  {"kind": "bulk", "rows": [[1, {"i": 1, "t": "a", "b": False, "c": "", "r": 0}]],
   "require": {"e": ["k"]}, "col_values": {"t": ["x"]}, "options": {}, "witness": "empty_column_require_stored"},
  {"kind": "bulk", "rows": [[1, {"i": 1, "t": "a", "b": False, "c": "", "r": 0}]],
   "require": {"i": [7, 8], "e": [5, 6]}, "col_values": {}, "options": {}, "witness": "empty_column_require_stored"},
  {"kind": "single", "rows": [], "require": {"e": "k", "f": 0}, "col_values": {"t": "x"}, "options": {},
   "witness": "empty_column_require_stored"},
  # ... None matches the records of a still-empty column, 3 matches none and converts the column ...
  {"kind": "bulk", "rows": [[1, {"i": 1, "t": "a", "b": False, "c": "", "r": 0}],
                            [2, {"i": 2, "t": "b", "b": False, "c": "", "r": 0}]],
   "require": {"e": [None, 3]}, "col_values": {"t": ["x", "y"]}, "options": {"on_many": "all"},
   "witness": "empty_column_none_matches"},
  # ... and '' is stored as None (the column stays empty): the record does not match its require
  {"kind": "bulk", "rows": [[1, {"i": 1, "t": "a", "b": False, "c": "", "r": 0}]],
   "require": {"e": [""]}, "col_values": {"t": ["x"]}, "options": {}, "witness": "empty_column_blank_require"},
]


# --------------------------------------------------------------------------- running

def _strip(case):
  return {k: case[k] for k in ("kind", "rows", "require", "col_values", "options")}


def _worker(args):
  from gx import common
  common.setup_repo_path()
  (cases, fresh_every) = args
  w = World()
  out = []
  for case in cases:
    if w.n_cases and w.n_cases % fresh_every == 0:
      w = World()
    chain = case.get("chain") and w.n_cases > 0
    if chain:
      case = dict(case, rows=[[rid, {c: rec[c] for c in DATA}] for rid, rec in w.rows()])
    try:
      r = run_case(w, case, reset=not chain)
    except Exception:
      import traceback
      return {"infra": "case %s: %s" % (json.dumps(_strip(case), default=str)[:600], traceback.format_exc()[-900:])}
    r["case"] = _strip(case)
    out.append(r)
  return {"results": out}


def run_all(ck, cases):
  workers = 1 if len(cases) < 400 else min(12 if ck.tier == "thorough" else 6, os.cpu_count() or 1)
  chunks = [cases[i::workers] for i in range(workers)]
  args = [(c, 700) for c in chunks if c]
  if len(args) == 1:
    res = [_worker(args[0])]
  else:
    with multiprocessing.get_context("fork").Pool(len(args)) as pool:
      res = pool.map(_worker, args)
  for r in res:
    if "infra" in r:
      from gx import common
      raise common.Infra(r["infra"])
  # back into generation order (chunks were taken round-robin)
  results = [None] * len(cases)
  live = [r["results"] for r in res]
  for k, rs in enumerate(live):
    for j, x in enumerate(rs):
      results[k + j * len(live)] = x
  return results


def judge(ck, results):
  model = ck.driver([r["op"] for r in results])
  mism = None
  explained = 0
  for r, mo in zip(results, model):
    ck.evaluated()
    case, facts = r["case"], r["facts"]
    ck.count("kind:" + case["kind"])
    ck.count("accepted" if facts["accepted"] else "rejected:" + r["real"].get("tag", "?"))
    if facts["invalid"]:
      ck.count("invalid:" + facts["invalid"][0])
    if "ret" in r["real"]:
      ret = r["real"]["ret"]
      if case["kind"] == "bulk":
        ck.count("rows_added", len(ret["addRecordIds"]))
        ck.count("input_rows_updating", len(ret["updateRecordIds"]))
        if any(len(x) > 1 for x in ret["updateRecordIds"]):
          ck.count("on_many_all_several")
        if ret["addRecordIds"] and ret["updateRecordIds"]:
          ck.count("add_and_update_in_one_request")
      else:
        ck.count("single:" + ret["action"])
    om = case["options"].get("on_many", "absent")
    ck.count("on_many:%s" % (om if om in ("first", "none", "all", "absent") else "bad"))
    # ---- the empty column
    if facts["e_require"] or facts["e_col_values"]:
      ck.count("empty_col:cases_naming_it")
      ck.count("empty_col:in_require" if facts["e_require"] else "empty_col:only_in_col_values")
      if facts["e_require"] and facts["e_col_values"]:
        ck.count("empty_col:in_require_and_col_values")
      if facts["accepted"]:
        ck.count("empty_col:accepted")
        ck.count("empty_col:converted_to_%s" % facts["e_converted"] if facts["e_converted"] else "empty_col:stays_empty")
        if "conv_add" in r["op"]:
          ck.count("empty_col:converted_by_BulkAddRecord")
        if "conv_upd" in r["op"]:
          ck.count("empty_col:converted_by_BulkUpdateRecord")
      if facts["e_stored_from_require"]:
        ck.count("empty_col:accepted_cases_storing_require_value_in_added_record")
        ck.count("empty_col:require_values_stored_in_added_records", facts["e_stored_from_require"])
      if facts["e_matched_none"]:
        ck.count("empty_col:require_matched_records_on_still_empty_column")
    nontriv = (facts["accepted"] and facts["wrote"] and facts["n_rows"] >= 2) or \
              (not facts["accepted"] and facts["invalid"] and facts["n_rows"] >= 1)
    if nontriv:
      ck.nontrivial_case(case)
      if facts["accepted"] and case["kind"] == "bulk" and len(r["real"]["ret"]["recordIds"]) >= 2:
        ck.sample({"case": case, "retValues": r["real"]["ret"]})
    for sig, detail in r["findings"]:
      ck.violation(sig, detail, {"case": case})
    d = compare_model(r["real"], mo, case["kind"])
    if d is not None:
      ck.count("model_impl_disagreements")
      if mism is None:
        mism = {"case": case, "difference": d, "real": r["real"], "model": mo.get("impl")}
    # the model's own impl-vs-spec agreement on this concrete input (theorem instance)
    if case["kind"] == "bulk" and "spec" in mo:
      tg = mo.get("targets", [])
      # (a conversion of the empty column is not part of the row-at-a-time spec: its cells are left out then)
      skip = (EMPTY,) if ("conv_add" in r["op"] or "conv_upd" in r["op"]) else ()
      if len(set(tg)) == len(tg) and not same_outcome(mo["impl"], mo["spec"], skip):
        ck.count("model_impl_vs_spec_disagreements_without_overlap")
        if mism is None:
          mism = {"case": case, "difference": "Lean impl != Lean spec without overlapping targets", "model": mo}
      if len(set(tg)) != len(tg):
        ck.count("overlapping_update_targets")
  if mism and not ck.has_impl_violation():
    ck.broken("correspondence BulkAddOrUpdateRecord vs Grist.Upsert.upsertImpl",
              "model and implementation differ and the reference oracle is satisfied on all explored inputs: "
              + mism["difference"], mism)
  elif mism:
    ck.count("disagreements_next_to_reported_violation")


def same_outcome(a, b, skip=()):
  if "error" in a or "error" in b:
    return a.get("error") == b.get("error") and a.get("tag") == b.get("tag")
  if any(a[k] != b[k] for k in ("recordIds", "addRecordIds", "updateRecordIds")):
    return False
  ta = [(r[0], sorted(tuple(x) for x in r[1] if x[0] not in skip)) for r in a["table"]]
  tb = [(r[0], sorted(tuple(x) for x in r[1] if x[0] not in skip)) for r in b["table"]]
  return ta == tb


RULE = ("seeded stream of cases on a live engine: table T (Int/Text/Bool/Choice/Ref columns + an EMPTY column e (type Any, "
        "formula '') + formula column, <= 6 rows, "
        "row ids with gaps, few distinct values so keys repeat), bulk requests of 0-4 input rows over 0-2 require columns "
        "(incl. the formula column and the empty column) and 0-4 col_values columns (incl. the empty column; blank and "
        "non-blank values, so that it stays empty or is converted to Text/Numeric by the BulkAddRecord or by the "
        "BulkUpdateRecord; it is put back to the empty state before the next case), "
        "every on_many/update/add/allow_empty_require combination "
        "(present or absent), wild values that change under type conversion, an invalid-argument stream (bad on_many, empty "
        "require, unequal lengths, duplicate keys incl. 1/True aliases), AddOrUpdateRecord cases, 25% of the cases chained "
        "on the previous case's table; plus exhaustive small scopes (3 rows x keys in {1,2,3} x 12 option combinations; "
        "empty require with 1-3 input rows; keys coinciding after conversion per column type; the empty column as the "
        "only key, next to a data key, in col_values, in both, and under an empty require, on an empty and a 2-row table). "
        "non-trivial = accepted request that wrote to a table of >= 2 rows, or an invalid request rejected on a non-empty "
        "table; distinct by (rows, request, options)")

ASSUMPTIONS = [
  "cell values are None/bool/int/str scalars; Python equality of values = equality of tokens (checked per case by the tie)",
  "type conversion (col.convert), column defaults and table.next_row_id() are parameters taken from the live column objects",
  "lookup_records(**key) = rows whose cells equal the converted key, in row-id order (index exactness is C13/C05)",
  "no 'id'/'manualSort' keys, option values boolean or absent",
  "empty column: guess_col_info (type guess from the values of one bulk action; no JS sandbox: Numeric or Text), the "
  "guessed type's convert and default are parameters taken from the live code; the cells of a still-empty column are None",
  "the conversion of the empty column is in the model the tie uses (upsertImplConv: fill of the existing rows with the "
  "new default before BulkAddRecord appends / before BulkUpdateRecord trims) but not in the row-at-a-time Lean spec: "
  "the model's impl-vs-spec instance check leaves the cells of column e out when a conversion happens",
  "at most one non-writable column in col_values (which of two errors comes first depends on set iteration order)",
  "Lean theorem hypotheses: next exceeds every row id, row ids distinct, (for impl=spec) no record targeted twice",
]


def run(ck):
  ck.rule = RULE
  ck.assumptions = ASSUMPTIONS
  ck.lean(["GristProps.C28"])
  n = 900 if ck.tier == "quick" else 80000
  cases = [dict(c) for c in WITNESSES]
  cases += exhaustive_cases(ck.tier, ck.rng)
  cases += list(gen_cases(ck.seed, n))
  results = run_all(ck, cases)
  judge(ck, results)


def replay(ck, rp):
  from gx import common
  common.setup_repo_path()
  case = rp["replay"]["case"]
  w = World()
  r = run_case(w, case)
  r["case"] = _strip(case)
  print("replay: %s T=%r require=%r col_values=%r options=%r" % (
    case["kind"], case["rows"], case["require"], case["col_values"], case["options"]))
  print("  real outcome: %r" % (r["real"],))
  for sig, detail in r["findings"]:
    print("  finding: %s: %s" % (sig, detail))
  if not r["findings"]:
    print("  property holds on this input")
  judge(ck, [r])
  ck.nontrivial_case("replay"); ck.nontrivial_case(case)
  ck.lean(["GristProps.C28"])
