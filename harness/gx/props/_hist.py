"""
Shared runner for the history-based checks (C01 C02 C03 C04 C08 C31 ...): runs seeded histories on
the real engine with the direct oracles, ties every bundle to the Lean EngineModel, and maps
findings / correspondence problems to the property that asked.
"""
import json
import multiprocessing
import os
import random
import subprocess
import time

from gx import common


CORPUS = os.path.join(os.path.dirname(os.path.dirname(os.path.abspath(__file__))), "corpus")


def corpus_entries(pid):
  """Regression corpus of property `pid`: recorded lists of requested bundles (histories on which an earlier version
  of the code under test - a seeded change or a since-repaired defect - violated the property), replayed first on
  every run with the same oracles as the generated histories."""
  d = os.path.join(CORPUS, pid)
  if not os.path.isdir(d):
    return []
  return sorted(f[:-5] for f in os.listdir(d) if f.endswith(".json"))


def _worker(args):
  (pid, seeds, cfg) = args
  common.setup_repo_path()
  from gx.hist_run import HistoryRun
  from gx.model_tie import Tie
  out = {"findings": [], "tie": [], "stats": {}, "kinds": {}, "errors": {}, "step_kinds": {}, "samples": [],
         "nontrivial": [], "histories": 0, "tie_bundles": 0}
  ties = []
  for seed in seeds:
    rng = random.Random("%s/%s" % (pid, seed))
    tie = Tie(str(seed)) if cfg.get("tie", True) else None
    h = HistoryRun(rng, profile=cfg.get("profile"), formulas=cfg.get("formulas", True),
                   n_bundles=cfg.get("n_bundles", 12), oracles=cfg["oracles"],
                   hostile_names=cfg.get("hostile_names", False), tie=tie)
    hook = cfg.get("hook")
    if hook:
      import importlib
      mod, fn = hook.rsplit(".", 1)
      is_corpus = isinstance(seed, str) and seed.startswith("corpus:")
      # corpus entries are few: give them more of whatever the hook samples (C06: evaluation orders per bundle)
      getattr(importlib.import_module(mod), fn)(h, dict(cfg, k=8, corpus_entry=True) if is_corpus else cfg)
    try:
      if isinstance(seed, str) and seed.startswith("corpus:"):
        with open(os.path.join(CORPUS, pid, seed[7:] + ".json")) as f:
          h.run_corpus(json.load(f)["user_bundles"])
        out["stats"]["corpus_histories"] = out["stats"].get("corpus_histories", 0) + 1
      else:
        h.run()
    except Exception as e:   # harness bug: report as infrastructure problem, not as a verdict
      import traceback
      out.setdefault("infra", []).append("seed %s: %s" % (seed, traceback.format_exc()[-800:]))
      continue
    out["histories"] += 1
    for f in h.findings:
      out["findings"].append((f[0], f[1], f[2], f[3], seed))
    for k, v in h.stats.items():
      if isinstance(v, int):
        out["stats"][k] = out["stats"].get(k, 0) + v
    for k, v in h.stats["errors"].items():
      out["errors"][k] = out["errors"].get(k, 0) + v
    for k, v in h.gen.kinds.items():
      out["kinds"][k] = out["kinds"].get(k, 0) + v
    for rec in h.bundles:
      if rec.get("nontrivial"):
        out["nontrivial"].append(json.dumps(rec.get("nontrivial_key", rec["actions"]), sort_keys=True, default=str))
        if len(out["samples"]) < 2:
          out["samples"].append({"actions": rec["actions"], "stored": (rec["res"].stored or [])[:6],
                                 "undo": (rec["res"].undo or [])[:6], "error": rec["res"].error,
                                 "steps": (rec["res"].steps or [])[:8]})
    if tie is not None:
      ties.append((seed, tie, h))
  # run the model driver once for all histories of this worker
  if ties:
    ops = []
    for (_, tie, _) in ties:
      ops += tie.ops
    data = "\n".join(json.dumps(o, separators=(",", ":")) for o in ops) + "\n"
    p = subprocess.run([common.DRIVER], input=data, stdout=subprocess.PIPE, stderr=subprocess.PIPE,
                       text=True, timeout=3000)
    lines = p.stdout.split("\n")
    if lines and lines[-1] == "":
      lines.pop()
    if p.returncode != 0 or len(lines) != len(ops):
      out.setdefault("infra", []).append("driver rc=%s answered %d/%d: %s" % (
        p.returncode, len(lines), len(ops), p.stderr[-300:]))
    else:
      i = 0
      for (seed, tie, h) in ties:
        ans = [json.loads(x) for x in lines[i:i + len(tie.ops)]]
        i += len(tie.ops)
        out["tie_bundles"] += tie.n_bundles
        for k, v in tie.step_kinds.items():
          out["step_kinds"][k] = out["step_kinds"].get(k, 0) + v
        # the EngineModel is claimed for well-formed documents (WF); an OLD undo list replayed against a document
        # that has moved on (kind stale_undo) is a raw doc-action application that can break WF (a table removed
        # under its summary table ...): model/engine disagreements from that bundle on are counted, not reported
        raw_from = min([r_["log_index"] for r_ in h.bundles if "stale_undo" in r_.get("kinds", ()) and "log_index" in r_] or [10 ** 9])
        for (kind, detail, bi) in tie.finish(ans):
          if bi >= raw_from:
            out["stats"]["tie_disagreements_after_stale_undo"] = out["stats"].get("tie_disagreements_after_stale_undo", 0) + 1
            continue
          out["tie"].append((kind, detail, {"history": h.log[:bi + 1] if bi >= 0 else h.log}, seed))
  return out


def run_histories(ck, cfg, n_quick=24, n_thorough=1600):
  """Returns the merged result dict."""
  n = n_quick if ck.tier == "quick" else n_thorough
  seeds = [ck.seed * 100000 + i for i in range(n)]
  if cfg.get("corpus", True) and not cfg.get("_no_corpus"):
    seeds = ["corpus:" + e for e in corpus_entries(ck.pid)] + seeds
  workers = min(16, os.cpu_count() or 1, max(1, n // 2))
  chunks = [seeds[i::workers] for i in range(workers)]
  args = [(ck.pid, c, cfg) for c in chunks if c]
  if len(args) == 1:
    results = [_worker(args[0])]
  else:
    with multiprocessing.get_context("fork").Pool(len(args)) as pool:
      results = pool.map(_worker, args)
  merged = {"findings": [], "tie": [], "stats": {}, "kinds": {}, "errors": {}, "step_kinds": {}, "samples": [],
            "nontrivial": set(), "histories": 0, "tie_bundles": 0, "infra": []}
  for r in results:
    merged["findings"] += r["findings"]
    merged["tie"] += r["tie"]
    merged["histories"] += r["histories"]
    merged["tie_bundles"] += r["tie_bundles"]
    merged["samples"] += r["samples"]
    merged["nontrivial"].update(r["nontrivial"])
    merged["infra"] += r.get("infra", [])
    for key in ("stats", "kinds", "errors", "step_kinds"):
      for k, v in r[key].items():
        merged[key][k] = merged[key].get(k, 0) + v
  if merged["infra"]:
    raise common.Infra("; ".join(merged["infra"])[:1500])
  return merged


def report(ck, merged, prop, tie_kinds, lean_ok=True):
  """Turn the merged results into violations / broken correspondence for property `prop`."""
  ck.evaluated(merged["stats"].get("bundles", 0))
  for k in merged["nontrivial"]:
    ck.nontrivial.add(k)
  for s in merged["samples"][:3]:
    ck.sample(s)
  ck.cov["counters"].update({"histories": merged["histories"], "bundles_tied_to_model": merged["tie_bundles"],
                             "corpus_histories": merged["stats"].get("corpus_histories", 0)})
  ck.extra["action_kind_distribution"] = merged["kinds"]
  ck.extra["rejected_bundle_error_kinds"] = merged["errors"]
  ck.extra["step_kinds"] = merged["step_kinds"]
  ck.extra["engine_stats"] = merged["stats"]
  ck.extra["traces_validated_against_impl"] = merged["tie_bundles"]
  for (p, sig, detail, replay, seed) in merged["findings"]:
    if p == prop:
      ck.violation(sig, detail, dict(replay, seed=seed))
  # a model/engine disagreement at or after a bundle where the real engine violates a property
  # (reported above, possibly as a known finding) is explained by that violation
  first_bad = {}
  for (p, sig, detail, replay, seed) in merged["findings"]:
    bi = replay.get("bundle_index", 0)
    first_bad[seed] = min(first_bad.get(seed, bi), bi)
  probs = []
  explained = 0
  for t in merged["tie"]:
    if t[0] not in tie_kinds:
      continue
    seed = t[3]
    bi = len(t[2]["history"]) - 1
    if seed in first_bad and bi >= first_bad[seed]:
      explained += 1
      continue
    probs.append(t)
  ck.cov["counters"]["model_impl_disagreements"] = len(probs)
  ck.cov["counters"]["disagreements_explained_by_reported_violation"] = explained
  if probs and not ck.has_impl_violation():
    kind, detail, replay, seed = probs[0]
    ck.broken("correspondence EngineModel vs engine (%s)" % kind,
              "%d disagreement(s); first: %s" % (len(probs), detail[:600]), dict(replay, seed=seed))


def replay_history(ck, rp, prop, oracles):
  """Replay a recorded history on the real engine: bundles before the offending one are applied
  plainly, the offending bundle with the oracles on."""
  common.setup_repo_path()
  from gx.hist_run import HistoryRun
  r = rp["replay"]
  hist = r["history"]
  idx = r.get("bundle_index", len(hist) - 1)
  h = HistoryRun(random.Random(0), n_bundles=0, oracles=oracles)
  for b in hist[:idx]:
    res = h._raw(b)
    if "replica" in h.oracles and getattr(res, "ok", False):
      # the replica follows the prefix too (it is only ever fed `stored`)
      for a in res.stored:
        h.replica.apply(a)
      del h.replica.problems[:]
    ck.evaluated()
  h.apply(hist[idx], ["replay"])
  ck.evaluated()
  for f in h.findings:
    print("replay finding:", f[0], f[1], f[2][:300])
    if f[0] == prop:
      ck.violation(f[1], f[2], {"history": hist, "bundle_index": idx})
  if not h.findings:
    print("replay: property holds on this history")
  ck.nontrivial_case("replay"); ck.nontrivial_case("replay2")
