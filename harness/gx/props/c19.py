"""
C19  Invalid formulas are isolated and valid ones mean what they say
     (sandbox/grist/codebuilder.py, gencode.py module assembly, engine.rebuild_usercode).

Theorems: lean/GristProps/C19.lean about GristModel/Codebuilder.lean (on top of the C37 Textbuilder
model; proofs in GristProofs/Codebuilder.lean): indent_preserves_lines, commentize_every_line,
stub_is_comments_plus_raise, indented_stub_is_comments_plus_raise, stub_total_partial,
body_only_documented_edits_partial, dollar_patches_are_dollars, edited_body_text, module_isolation,
module_spanning_refused; negations with witnesses: indent_all_physical_lines_is_false (`_indent` only
knows '\n': the lone-CR finding) and stub_fails_without_lineno (NUL byte finding).

Known findings on the unchanged tree (each replayed in every run, see FINDING_INPUTS / ESCAPE_FORMULA):
  1. a VALID formula with a lone CR: later physical lines are not indented into the function; the
     module usually fails to compile (bundle rejected), and a crafted text is ACCEPTED and replaces
     the formulas of other columns;
  2. formulas the parser accepts but the compiler rejects (await, nonlocal, import *, break, ...)
     break the whole generated module (bundle rejected with SyntaxError);
  3. NUL character: TypeError escapes _create_syntax_error_code;
  4. very deep nesting: RecursionError escapes make_formula_body;
  5. a formula with common leading whitespace, an assignment to `rec.x` near its end and trailing
     blank lines: the astroid error position is mapped back into the UN-dedented text but looked up
     in the dedented one; `input_text.splitlines()[line - 1]` raises IndexError.

Interpretation:
  * "the document keeps working: only the column with an invalid formula holds errors": setting ANY
    text as a column's formula is a bundle that SUCCEEDS; every other column keeps its values and
    keeps recomputing correctly afterwards (a following record add); the column itself holds
    SyntaxError-class error values for every row iff the text is not a valid formula.
  * "valid formula" = after removing the common leading whitespace and reading `$name` as `rec.name`
    outside strings and comments the text compiles as the body of a function, its last top-level
    statement is an expression or some `return` exists, and it does not assign to `rec` / `rec.x`
    (the two Grist-specific rejections the code documents).  `$name` inside the replacement fields
    of f-strings is not judged by the oracle (model == code is still compared).
  * a valid formula's value = exec of that independent translation (with `return` put before the last
    expression statement) against a record object; compared with the generated function (function
    level) and with the engine's cell values (engine level).  Lazy functions (IF, …) are used with
    total arguments only at engine level, so laziness is not observable there.
  * Python's parser, asttokens positions and astroid's re-parse are PARAMETERS of the model: the
    harness records what they returned in the real run and hands that to the model.

Tie: real codebuilder.make_formula_body vs Grist.Codebuilder.makeFormulaBody given the recorded
     parser facts: produced text or exception class, the text handed to the first parse, and
     map_back_patch of identifier tokens of the body.
Search: (i) function level: the generated body is wrapped like gencode does (class / def / next def)
     and must compile, define exactly the expected names, raise SyntaxError iff invalid, and return
     the oracle's value; (ii) engine level through gx.engine_driver.Doc as described above.
"""
import ast
import hashlib
import io
import json
import keyword
import re
import tokenize
import types
import warnings

warnings.filterwarnings("ignore", category=SyntaxWarning)

SIG_CR = "formula with a lone CR that Python reads as a line break: lines after it are not indented into the function"
SIG_COMPILE = "formula the parser accepts but the compiler rejects breaks the whole generated module"
SIG_NUL = "formula containing a NUL character: TypeError in _create_syntax_error_code rejects the bundle"
SIG_DEEP = "deeply nested formula: RecursionError/MemoryError escapes make_formula_body and rejects the bundle"
SIG_INDEX = ("indented formula ending in blank lines with a rec-assignment error: error position mapped into the "
             "un-dedented text, IndexError in _create_syntax_error_code rejects the bundle")

ASSOC = ("T", "J")
ASSOC_TAG = 7


# ============================================================================ instrumentation
class _Proxy(object):
  def __init__(self, real, **over):
    self.__dict__["_real"] = real
    self.__dict__["_over"] = over
  def __getattr__(self, name):
    over = self.__dict__["_over"]
    if name in over:
      return over[name]
    return getattr(self.__dict__["_real"], name)


class Instr(object):
  """Records, for one make_formula_body call, what the parsers were asked and what they said."""
  def __init__(self):
    import codebuilder
    import asttokens
    import astroid
    import friendly_errors
    self.cb = codebuilder
    self.rec = None
    me = self
    real_asttext = asttokens.ASTText

    def ASTText(text, *a, **kw):
      obj = real_asttext(text, *a, **kw)
      me.rec["asttext"].append(text)
      return obj

    def aparse(text, *a, **kw):
      me.rec["astroid_called"] = True
      return astroid.parse(text, *a, **kw)

    def fmsg(exc):
      r = friendly_errors.friendly_message(exc)
      me.rec["friendly"] = r
      return r

    real_csec = codebuilder._create_syntax_error_code

    def csec(builder, input_text, err):
      me.rec["csec"] = {"err": err, "input_text": input_text, "after_astroid": me.rec["astroid_called"]}
      return real_csec(builder, input_text, err)

    codebuilder.asttokens = _Proxy(asttokens, ASTText=ASTText)
    codebuilder.astroid = _Proxy(astroid, parse=aparse)
    codebuilder.friendly_errors = _Proxy(friendly_errors, friendly_message=fmsg)
    codebuilder._create_syntax_error_code = csec
    self._restore = (asttokens, astroid, friendly_errors, real_csec)

  def close(self):
    cb = self.cb
    cb.asttokens, cb.astroid, cb.friendly_errors, cb._create_syntax_error_code = self._restore

  def run(self, formula, default, indent):
    self.rec = {"asttext": [], "astroid_called": False, "friendly": "", "csec": None}
    try:
      b = self.cb.make_formula_body(formula, default, ASSOC, indent=indent)
      return {"builder": b, "text": b.get_text()}, self.rec
    except BaseException as e:    # pylint: disable=broad-except
      if isinstance(e, (KeyboardInterrupt, SystemExit)):
        raise
      return {"builder": None, "text": {"error": type(e).__name__}, "exc": e}, self.rec


def err_facts(cb, err, friendly):
  grist = isinstance(err, cb.GristSyntaxError)
  msg = err.args[0] if err.args else ""
  if not grist:
    msg = msg + (friendly or "")
  return {"type": "SyntaxError" if grist else type(err).__name__, "msg": repr(msg),
          "lineno": err.lineno, "offset": err.offset}


def parse1_facts(cb, tmp_text):
  """The facts `_do_make_formula_body` reads off the tree of the DOLLAR-translated text."""
  import asttokens
  atok = asttokens.ASTText(tmp_text, filename="usercode")
  tree = atok.tree
  names, lazy, ml = [], [], False
  for node in ast.walk(tree):
    if isinstance(node, (ast.Constant, ast.JoinedStr)) and "\n" in atok.get_text(node):
      ml = True
    if isinstance(node, ast.Name) and node.id.startswith("DOLLAR"):
      names.append(atok.get_text_range(node)[0])
    if isinstance(node, ast.Call) and isinstance(node.func, ast.Name):
      sl = cb.LAZY_ARG_FUNCTIONS.get(node.func.id)
      if sl:
        for arg in node.args[sl]:
          lazy.append(list(atok.get_text_range(arg)))
  last = tree.body[-1] if tree.body else None
  if last is None:
    lastf = ["none"]
  elif isinstance(last, ast.Expr):
    lastf = ["expr", atok.get_text_range(last)[0]]
  else:
    has_ret = any(type(n) == ast.Return for n in ast.walk(tree))   # pylint: disable=unidiomatic-typecheck
    lastf = ["other", has_ret, isinstance(last, ast.Assign)]
  return {"names": names, "lazy": lazy, "last": lastf, "ml": ml}


def gather_facts(cb, formula, default, rec):
  """Facts for the model, or None when the real run left the modelled territory (a parser raised
  something that is not a SyntaxError)."""
  facts = {"reprDefault": repr(default), "parse1": {"ok": {"names": [], "lazy": [], "last": ["none"], "ml": False}},
           "parse2": "ok", "lineReprs": [], "parse3": {"ok": []}}
  if not rec["asttext"]:
    return facts          # blank formula
  tmp_text = rec["asttext"][0]
  cs = rec["csec"]
  try:
    p1 = parse1_facts(cb, tmp_text)
  except SyntaxError:
    p1 = None
  except (RecursionError, MemoryError, ValueError, UnicodeError):
    return None
  if cs is not None:
    facts["lineReprs"] = [repr(l) for l in cs["input_text"].splitlines()]
    e = err_facts(cb, cs["err"], rec["friendly"])
    if cs["after_astroid"]:
      facts["parse1"] = {"ok": p1}
      facts["parse2"] = {"error": e}
    elif isinstance(cs["err"], cb.GristSyntaxError):
      facts["parse1"] = {"ok": p1}          # the model derives the "no return" error itself
    else:
      facts["parse1"] = {"error": e}
  else:
    if p1 is None:
      return None
    facts["parse1"] = {"ok": p1}
  if len(rec["asttext"]) > 1:
    import asttokens
    atok = asttokens.ASTText(rec["asttext"][1])
    try:
      facts["parse3"] = {"ok": [list(atok.get_text_range(n)) for n in cb._multiline_string_nodes(atok, atok.tree)]}
    except SyntaxError:
      facts["parse3"] = "error"
  return facts


# ============================================================================ independent oracle
_PREFIX_RE = re.compile(r"(?i)^(?:[rbuf]|br|rb|fr|rf)$")


def lex_translate(src):
  """`$name` -> `rec.name` outside strings and comments, with a hand-written scanner.
  Returns (text, dollar_in_fstring)."""
  out = []
  i, n = 0, len(src)
  dollar_in_f = False
  last_code = ""
  while i < n:
    c = src[i]
    if c == "#":
      j = i
      while j < n and src[j] not in "\n\r":
        j += 1
      out.append(src[i:j]); i = j
      continue
    if c in "'\"":
      # string prefix = identifier characters just before the quote
      k = i
      while k > 0 and (src[k - 1].isalnum() or src[k - 1] == "_"):
        k -= 1
      prefix = src[k:i]
      is_prefix = bool(_PREFIX_RE.match(prefix))
      raw = is_prefix and "r" in prefix.lower()
      isf = is_prefix and "f" in prefix.lower()
      q = c * 3 if src[i:i + 3] == c * 3 else c
      j = i + len(q)
      while j < n:
        if src[j] == "\\" and not raw:
          j += 2
          continue
        if src[j] == "\\" and raw:
          j += 2
          continue
        if src.startswith(q, j):
          j += len(q)
          break
        if len(q) == 1 and src[j] in "\n\r":
          break      # unterminated: let the compiler complain
        j += 1
      lit = src[i:j]
      if isf and "$" in lit:
        dollar_in_f = True
      out.append(lit); i = j
      continue
    if c == "$" and i + 1 < n and (src[i + 1].isascii() and (src[i + 1].isalpha() or src[i + 1] == "_")):
      if last_code == "." or (i > 0 and (src[i - 1].isalnum() or src[i - 1] == "_")):
        dollar_in_f = True      # `x.$name` / `ab$name`: not a name position; the oracle takes no position
      out.append("rec."); i += 1
      continue
    if not c.isspace():
      last_code = c
    out.append(c); i += 1
  return "".join(out), dollar_in_f


def own_dedent(text):
  lines = text.split("\n")
  margins = []
  for l in lines:
    body = l.lstrip(" \t")
    if body:
      margins.append(l[:len(l) - len(body)])
  if not margins:
    return text
  m = margins[0]
  for x in margins[1:]:
    k = 0
    while k < len(m) and k < len(x) and m[k] == x[k]:
      k += 1
    m = m[:k]
  if not m:
    return text
  return "\n".join(l[len(m):] if l.startswith(m) else l for l in lines)


COMPOUND = {"if", "for", "while", "with", "try", "def", "class", "async", "else", "elif", "except", "finally", "@"}


def last_statement_start(code):
  """((line, col) start, (line, col) end) of the last top-level simple statement (or of the last
  top-level logical line when that is a compound statement / clause header), via tokenize."""
  depth = brackets = 0
  start = end = None
  new_stmt = True
  compound = False
  for t in tokenize.generate_tokens(io.StringIO(code).readline):
    if t.type == tokenize.INDENT:
      depth += 1
      continue
    if t.type == tokenize.DEDENT:
      depth -= 1
      continue
    if t.type in (tokenize.NL, tokenize.COMMENT, tokenize.ENDMARKER):
      continue
    if t.type == tokenize.NEWLINE:
      if depth == 0 and not new_stmt and not compound:
        end = t.start
      new_stmt = True
      compound = False
      continue
    if depth == 0 and new_stmt and not compound:
      start, end = t.start, None
      if t.string in COMPOUND:
        compound = True
    new_stmt = False
    if t.type == tokenize.OP:
      if t.string in "([{":
        brackets += 1
      elif t.string in ")]}":
        brackets -= 1
      elif t.string == ";" and depth == 0 and brackets == 0 and not compound:
        end = t.start
        new_stmt = True
  return start, end


def string_lines(code):
  """Line numbers (1-based) that begin inside a string literal (must not be indented)."""
  inside = set()
  fstart = None
  for t in tokenize.generate_tokens(io.StringIO(code).readline):
    if t.type == tokenize.STRING:
      inside.update(range(t.start[0] + 1, t.end[0] + 1))
    elif t.type == getattr(tokenize, "FSTRING_START", -1):
      if fstart is None:
        fstart = t.start[0]
    elif t.type == getattr(tokenize, "FSTRING_END", -1):
      if fstart is not None:
        inside.update(range(fstart + 1, t.end[0] + 1))
        fstart = None
  return inside


class OracleResult(object):
  __slots__ = ("valid", "judged", "func", "why", "code")


def has_rec_store(tree):
  for n in ast.walk(tree):
    if isinstance(n, ast.Name) and n.id == "rec" and isinstance(n.ctx, ast.Store):
      return True
    if isinstance(n, ast.arg) and n.arg == "rec":
      return True
    if isinstance(n, ast.ExceptHandler) and n.name == "rec":
      return True
    if isinstance(n, ast.Attribute) and isinstance(n.ctx, ast.Store) and isinstance(n.value, ast.Name) \
       and n.value.id == "rec":
      return True
    if isinstance(n, (ast.Import, ast.ImportFrom)) and any((a.asname or a.name.split(".")[0]) == "rec" for a in n.names):
      return True
    if isinstance(n, (ast.FunctionDef, ast.ClassDef, ast.AsyncFunctionDef)) and n.name == "rec":
      return True
    if isinstance(n, (ast.Global, ast.Nonlocal)) and "rec" in n.names:
      return True
    if isinstance(n, ast.MatchAs) and n.name == "rec" or isinstance(n, ast.MatchStar) and n.name == "rec":
      return True
  return False


def oracle(formula, default):
  """Independent reading of a formula text.  valid: True / False; judged False = the oracle does not
  take a position (f-string interiors with `$`, lone CR, control characters the tokenizer treats
  specially, rec-assignment subtleties)."""
  r = OracleResult()
  r.judged, r.func, r.why, r.code = True, None, "", None
  if not formula.strip():
    r.valid = True
    r.func = lambda rec, table=None: default
    return r
  if "\r" in formula or "\x0c" in formula or "\x00" in formula:
    r.judged = False     # characters the tokenizer treats specially: only the structural clauses apply
  text = own_dedent(formula)
  text, dollar_in_f = lex_translate(text)
  if dollar_in_f:
    r.judged = False
  try:
    tree = ast.parse(text)
  except SyntaxError as e:
    r.valid, r.why = False, "does not parse: %s" % e.msg
    return r
  except (RecursionError, MemoryError, ValueError):
    r.valid, r.judged, r.why = False, False, "parser gave up"
    return r
  if has_rec_store(tree):
    r.valid, r.judged, r.why = False, False, "binds rec"
    return r
  if any(isinstance(n, ast.Attribute) and isinstance(n.ctx, (ast.Store, ast.Del)) and isinstance(n.value, ast.Name)
         and n.value.id == "rec" for n in ast.walk(tree)):
    r.valid, r.judged = False, False
    return r
  try:
    st, st_end = last_statement_start(text)
    slines = string_lines(text)
  except (tokenize.TokenError, SyntaxError, IndentationError):
    r.valid, r.judged = False, False
    return r
  lines = text.split("\n")
  has_return = any(isinstance(n, ast.Return) for n in ast.walk(tree))
  if st is None:
    body_lines = lines + ["pass"]
    is_expr = False
    slines = set()
  else:
    li, col = st[0] - 1, st[1]
    if st_end is None:
      tail = "\n".join([lines[li][col:]] + lines[li + 1:])
    elif st_end[0] - 1 == li:
      tail = lines[li][col:st_end[1]]
    else:
      tail = "\n".join([lines[li][col:]] + lines[li + 1:st_end[0] - 1] + [lines[st_end[0] - 1][:st_end[1]]])
    try:
      compile("(" + tail + "\n)", "<o>", "eval")
      is_expr = True
    except SyntaxError:
      is_expr = False
    except (RecursionError, MemoryError, ValueError):
      r.valid, r.judged = False, False
      return r
    if is_expr:
      lines = lines[:li] + [lines[li][:col] + "return " + lines[li][col:]] + lines[li + 1:]
    elif not has_return:
      r.valid, r.why = False, "no return and the last statement is not an expression"
      return r
    body_lines = lines
  src = "def _f(rec, table=None):\n" + "\n".join(
    (l if (i + 1) in slines or not l.strip() else "  " + l) for i, l in enumerate(body_lines)) + "\n"
  r.code = src
  try:
    code = compile(src, "<oracle>", "exec")
  except SyntaxError as e:
    # the parser accepted the text; only the compiler objects (await outside async, nonlocal, ...)
    r.valid, r.why = False, "compiler: %s" % e.msg
    return r
  except (RecursionError, MemoryError, ValueError):
    r.valid, r.judged = False, False
    return r
  ns = formula_globals()
  exec(code, ns)      # pylint: disable=exec-used
  r.valid = True
  r.func = ns["_f"]
  return r


def formula_globals():
  import datetime, math
  def IF(c, a, b):
    a = a() if callable(a) else a
    b = b() if callable(b) else b
    return a if c else b
  return {"math": math, "re": re, "datetime": datetime, "IF": IF, "__name__": "oracle"}


class Rec(object):
  def __init__(self, **kw):
    self.__dict__.update(kw)


def run_func(f, rec):
  try:
    return ("v", f(rec, None))
  except RecursionError:
    return ("e", "RecursionError")
  except Exception as e:    # pylint: disable=broad-except
    return ("e", type(e).__name__)


def _engine_accepts(formula):
  """codebuilder.make_formula_body turned the formula into a function body (not into a syntax-error stub)."""
  try:
    import codebuilder
    t = codebuilder.make_formula_body(formula, None).get_text()
    return "raise SyntaxError" not in t and "raise IndentationError" not in t and "raise TabError" not in t
  except Exception:
    return False


SIG_LAZY_UNBOUND = ("a local name read inside a lazily evaluated IF argument before it is assigned raises NameError (free "
                    "variable of the wrapping lambda) where the formula's text raises UnboundLocalError")


def classify(formula, what):
  """Signature of a failure: one of the known classes — decided on the INPUT (and, for the classes
  defined by an escaping exception, on the exception class named in `what`) — or `what` itself."""
  if "\x00" in formula and "TypeError" in what:
    return SIG_NUL
  if "IndexError" in what and own_dedent(formula) != formula and formula.rstrip(" \t").endswith("\n"):
    return SIG_INDEX
  text, _ = lex_translate(own_dedent(formula))
  try:
    ast.parse(text)
  except SyntaxError:
    # an INVALID formula: every failure is a new finding - except the recorded lone-CR class in its exact shape: the
    # ENGINE's own parser accepted the formula (make_formula_body returned a transformed body, not a stub) and the
    # module then fails to compile because the lines after the lone CR were not indented
    if re.search(r"\r(?!\n)", formula) and "does not compile" in what and _engine_accepts(formula):
      return SIG_CR
    return what
  except (RecursionError, MemoryError):
    return SIG_DEEP if ("RecursionError" in what or "MemoryError" in what) else what
  except ValueError:
    return what
  # the parser accepts the formula
  if re.search(r"\r(?!\n)", formula):
    return SIG_CR
  try:
    slines = string_lines(text)
  except (tokenize.TokenError, SyntaxError, IndentationError):
    slines = set()
  src = "def _f(rec, table):\n" + "\n".join(
    (l if (i + 1) in slines or not l.strip() else "  " + l) for i, l in enumerate(text.split("\n"))) + "\n  pass\n"
  try:
    compile(src, "<c>", "exec")
  except SyntaxError:
    return SIG_COMPILE
  except (RecursionError, MemoryError):
    return SIG_DEEP if ("RecursionError" in what or "MemoryError" in what) else what
  return what


# ============================================================================ function level
WRAP_HEAD = "class T:\n  A = 1\n\n  def J(rec, table):\n"
WRAP_TAIL = "\n\n  def K(rec, table):\n    return 'K'\n\nSENTINEL = 1\n"
SYNTAX_CLASSES = ("SyntaxError", "IndentationError", "TabError")


def phys_lines(s):
  return re.split(r"\r\n|\r|\n", s)


def function_level(ck, instr, formula, default, indent, model, with_oracle=True):
  """One formula through the real make_formula_body: model diff + property clauses."""
  cb = instr.cb
  real, rec = instr.run(formula, default, indent)
  ck.evaluated()
  out = {"mismatch": None}
  is_exc = isinstance(real["text"], dict)
  if is_exc:
    ck.count("make_formula_body raised " + real["text"]["error"])
    sig = classify(formula, "make_formula_body raises %s" % real["text"]["error"])
    ck.violation(sig, "formula %r: %s: %s" % (formula[:120], real["text"]["error"], str(real.get("exc"))[:100]),
                 {"level": "function", "formula": formula, "indent": indent})
  text = None if is_exc else real["text"]
  is_stub = False
  if text is not None:
    pl = phys_lines(text)
    is_stub = rec["csec"] is not None
    # ---- wrapped like gencode wraps it
    if indent == "    ":
      mod = WRAP_HEAD + text + WRAP_TAIL
      problem = None
      ns = formula_globals()
      base_names = set(ns)
      try:
        code = compile(mod, "usercode", "exec")
        exec(code, ns)      # pylint: disable=exec-used
      except (SyntaxError, ValueError) as e:
        problem = "generated module does not compile: %s: %s" % (type(e).__name__, str(e)[:80])
      except (RecursionError, MemoryError) as e:
        problem = "generated module does not compile: %s" % type(e).__name__
      except Exception as e:   # pylint: disable=broad-except
        problem = "executing the generated module raises %s" % type(e).__name__
      if problem is None:
        T = ns.get("T")
        names = sorted(k for k in ns if k != "__builtins__" and k not in base_names)
        tnames = sorted(k for k in (T.__dict__ if isinstance(T, type) else {}) if not k.startswith("__"))
        if names != ["SENTINEL", "T"] or tnames != ["A", "J", "K"]:
          problem = "formula text escapes its function: module defines %r, class T defines %r" % (names, tnames)
        elif run_func(T.__dict__["K"], None) != ("v", "K"):
          problem = "the neighbouring function no longer works"
      if problem:
        sig = classify(formula, problem.split(":")[0])
        ck.violation(sig, "formula %r: %s" % (formula[:120], problem), {"level": "function", "formula": formula, "indent": indent})
      elif is_stub:
        # stub = comment lines + one raise of a SyntaxError class
        body = [l for l in pl if l.strip()]
        if not all(l.lstrip(" ").startswith("#") for l in body[:-1]) or not body[-1].lstrip(" ").startswith("raise "):
          ck.violation("syntax-error stub is not comments + raise", "formula %r -> %r" % (formula[:100], text[:200]),
                       {"level": "function", "formula": formula, "indent": indent})
        got = run_func(T.__dict__["J"], Rec(A=3, B=6, C=7))
        if got[0] != "e" or got[1] not in SYNTAX_CLASSES:
          ck.violation("syntax-error stub does not raise a SyntaxError", "formula %r -> %r" % (formula[:100], got),
                       {"level": "function", "formula": formula, "indent": indent})
        ck.count("stubs")
      if problem is None and with_oracle:
        o = oracle(formula, default)
        if o.judged:
          if o.valid and is_stub:
            ck.violation("valid formula is turned into a syntax-error stub", "formula %r" % (formula[:120],),
                         {"level": "function", "formula": formula, "indent": indent})
          elif not o.valid and not is_stub:
            sig = classify(formula, "invalid formula is not turned into a syntax-error stub")
            ck.violation(sig, "formula %r (%s)" % (formula[:120], o.why), {"level": "function", "formula": formula, "indent": indent})
          elif o.valid:
            for recobj in (Rec(A=3, B=6, C=7, id=1), Rec(A=0, B="x", C=None, id=2)):
              want = run_func(o.func, recobj)
              got = run_func(T.__dict__["J"], recobj)
              if repr(want) != repr(got) and not _same_kind(want, got):
                lazy = (want == ("e", "UnboundLocalError") and got == ("e", "NameError") and "IF(" in formula)
                ck.violation(SIG_LAZY_UNBOUND if lazy else "valid formula does not evaluate as its text", "formula %r: expected %r got %r" % (
                  formula[:120], want, got), {"level": "function", "formula": formula, "indent": indent})
                break
            ck.count("valid formulas evaluated against the oracle")
            out["valid"] = True
        else:
          ck.count("oracle takes no position")
  # ---- model vs code
  facts = gather_facts(cb, formula, default, rec)
  out["facts"] = facts
  out["real"] = real
  out["rec"] = rec
  return out


def _same_kind(a, b):
  # functions / generators / lambdas have identity-dependent reprs
  if a[0] == b[0] == "v" and type(a[1]) is type(b[1]) and (
      isinstance(a[1], (types.FunctionType, types.GeneratorType, type)) or " at 0x" in repr(a[1])):
    return True
  return False


def token_patches(text, rng, limit=10):
  spans = [(m.start(), m.end()) for m in re.finditer(r"[A-Za-z_][A-Za-z_0-9]*", text)]
  if len(spans) > limit:
    spans = rng.sample(spans, limit)
  ps = [[s, e, text[s:e], "N"] for s, e in sorted(spans)]
  n = len(text)
  for _ in range(2):
    s = rng.randint(0, n); e = min(n, s + rng.randint(0, 3))
    ps.append([s, e, text[s:e], "Q"])
  return ps


def real_maps(builder, patches):
  import textbuilder
  outs = []
  for p in patches:
    try:
      r = builder.map_back_patch(textbuilder.Patch(*p))
      if r is None:
        outs.append(None)
      else:
        t, v, q = r
        outs.append([t, ASSOC_TAG if v == ASSOC else 0, [q.start, q.end, q.old_text, q.new_text]])
    except Exception as e:    # pylint: disable=broad-except
      outs.append({"error": type(e).__name__})
  return outs


# ============================================================================ generators
NAMES = ["A", "B", "C"]

def g_atom(rng, d=0):
  k = rng.random()
  if k < 0.3:
    return "$" + rng.choice(NAMES)
  if k < 0.45:
    return str(rng.randint(0, 9))
  if k < 0.55:
    return rng.choice(["'$A'", '"x $B y"', "'it''s'", "'# no'", "r'\\d$C'", "'é😀'", '"a\\"b"', "'''t $A'''", "'\\n'"])
  if k < 0.6:
    return "rec." + rng.choice(NAMES)
  if k < 0.62:
    # a single- or double-quoted literal continued over a physical line with backslash-newline: its next
    # line is INSIDE the string and must not be indented when the body is put into the function
    return rng.choice(["'ab\\\ncd'", '"x\\\n  y $A"', "'p-\\\nq' + 'r'", "b'q\\\nr'", 'f"u\\\n{1}"', "'\\\n'"])
  if k < 0.65:
    return rng.choice(["None", "True", "[]", "{}", "()", "x", "DOLLARA", "rec.id"])
  if k < 0.7 and d < 3:
    return "f'{%s}!'" % g_expr(rng, d + 1).replace("'", '"')
  if k < 0.78 and d < 3:
    return "(lambda v: v + %s)(%s)" % (g_atom(rng, d + 1), g_atom(rng, d + 1))
  if k < 0.86 and d < 3:
    return "[%s for v in range(3) if v != %s]" % (g_expr(rng, d + 1), rng.randint(0, 2))
  if k < 0.92 and d < 3:
    return "IF(%s, %s, %s)" % (g_expr(rng, d + 1), g_atom(rng, d + 1), g_atom(rng, d + 1))
  return "(%s)" % g_expr(rng, d + 1) if d < 3 else "1"


def g_expr(rng, d=0):
  k = rng.random()
  if k < 0.4 or d >= 3:
    return g_atom(rng, d)
  if k < 0.8:
    return "%s %s %s" % (g_atom(rng, d + 1), rng.choice(["+", "-", "*", "==", "<", "and", "or", "//", "%"]), g_expr(rng, d + 1))
  if k < 0.9:
    return "%s if %s else %s" % (g_atom(rng, d + 1), g_expr(rng, d + 1), g_atom(rng, d + 1))
  return "str(%s)" % g_expr(rng, d + 1)


def g_stmt(rng, ind=""):
  k = rng.random()
  if k < 0.3:
    return ["%sx = %s" % (ind, g_expr(rng))]
  if k < 0.4:
    return ["%s# comment $A %s" % (ind, rng.choice(["", "'", '"""', "\\"]))]
  if k < 0.55:
    return ["%sif %s:" % (ind, g_expr(rng))] + g_block(rng, ind + "  ") + (
      ["%selse:" % ind] + g_block(rng, ind + "  ") if rng.random() < 0.5 else [])
  if k < 0.63:
    return ["%sfor v in range(%d):" % (ind, rng.randint(0, 3))] + g_block(rng, ind + "  ")
  if k < 0.7:
    return ["%stry:" % ind] + g_block(rng, ind + "  ") + ["%sexcept Exception as e:" % ind] + g_block(rng, ind + "  ")
  if k < 0.76:
    return ["%sdef g(v, w=%s):" % (ind, g_atom(rng))] + g_block(rng, ind + "  ", ret=True)
  if k < 0.82:
    return ["%ss = '''line1 $A" % ind, "  indented $B", "%s  end''' + %s" % ("", "'z'")]
  if k < 0.87:
    return ["%sx = [" % ind, "%s  %s," % (ind, g_expr(rng)), "%s]" % ind]
  if k < 0.92:
    return ["%sreturn %s" % (ind, g_expr(rng))]
  if k < 0.96:
    return ["%sx = 1; y = %s" % (ind, g_atom(rng))]
  return ["%spass" % ind]


def g_block(rng, ind, ret=False):
  out = []
  for _ in range(rng.randint(1, 2)):
    out += g_stmt(rng, ind)
  if ret:
    out.append("%sreturn %s" % (ind, g_expr(rng)))
  if all(l.strip().startswith("#") for l in out):
    out.append(ind + "pass")
  return out


def g_formula(rng):
  while True:
    f = g_formula1(rng)
    if len(f) <= 400:
      return f


def g_formula1(rng):
  k = rng.random()
  if k < 0.35:
    f = g_expr(rng)
  else:
    lines = []
    for _ in range(rng.randint(1, 3)):
      lines += g_stmt(rng)
    last = rng.random()
    if last < 0.6:
      lines.append(g_expr(rng))
    elif last < 0.75:
      lines.append("return " + g_expr(rng))
    elif last < 0.85:
      lines.append("$A = 1" if rng.random() < 0.5 else "rec = 2")
    f = "\n".join(lines)
  if rng.random() < 0.15:
    ls = ["    " + l for l in f.split("\n")]                   # common leading whitespace
    if len(ls) > 1 and rng.random() < 0.5:
      # ... with a whitespace-only line (what an editor's auto-indent leaves behind) somewhere before the last line
      ls.insert(rng.randint(1, len(ls) - 1), rng.choice(["  ", "    ", "      ", "\t", " "]))
    f = "\n".join(ls)
  if rng.random() < 0.1:
    f = f + rng.choice(["\n", "  \n\n", "\n# end", " # $C"])
  if rng.random() < 0.05:
    f = f.replace("\n", "\r\n")
  return f


JUNK_ALPHA = list("ab$_ 1+(\"')]:=#\\\n\n \t") + ["\r", "\x0c", "\x0b", "\x00", "\x1c", "\x85", "\u2028", "é", "😀", "def ", "return ",
                                                  "'''", '"""', "$A", "rec", "if ", "\n  ", "{", "}", ";", ",", "f'", "@", "await ", "yield "]

CURATED = [
  "", "   \n  ", "#", "# only comment", "pass", "...", "$", "$ a", "$1", "$$A", "$A.$B", "'$A'", "# $A", "DOLLARA", "$DOLLARA",
  "rec = 1\nrec", "$A = 1", "rec.A = 1\n1", "for rec in []: pass\n1", "IF($A, $B, $C)", "IF(1,\n2,\n3)", "IF(*[1,2,3])",
  "IFERROR(1/0, 'x')", "PEEK($A)", "ISERR()", "IF(1, IF(2, 3, 4), 5)", "x = 1", "x == 1", "def f(): pass", "if 1:\n  2",
  "while 1: break", "a; b", "a;", ";", "1 +", "x = '''abc", 'x = """abc', "foo(\\", "1 + \\", "\\", "return 1\\", "'abc\\", "# c \\",
  "yield 1", "return", "global x\nx", "@dec\ndef f(): pass\nf()", "@dec", "def f():\n\treturn 1\n        return 2",
  "(" * 100 + "1" + ")" * 100, "'''\n'''", "'''\nabc\n''' + $A", "f'''{\n$A}'''", "f'{$A}'", "f\"{'''\n'''}\"", "lambda: (yield)",
  "class X: pass\nX", "import os\nos", "print 1", "1 if", "\\\n1", "1\\\n+2", "x = 1\\\n", " 1", "  1\n 2", "\t1", "\t1\n        2",
  "\u2028 1", "1\u20282", "1\x0b2", ")\x0b", ")\x1c", ")\u2028x", "'\u2028'", ")\x0cx", "'a\x0cb'", "\ufeff1", "\x1a", "\x04", "\x7f",
  "a := 1", "(a := 1)", "match x:\n case 1: 2", "async def f(): pass\n1", "return 1\n  2", "if 1:\n1", "  if 1:\n    1\n  else:\n    2",
  "1\n  2", "s = '''\n    a\n  b\n'''\ns", "'''\\\n'''", "x = '''\r\n'''\nx", "'a\\\r\nb'", "1 + \\\r\n2", "1\r\n2", "$A\r\n$B",
  "'''#'''\n$A", "1 # '''\n2 # '''", "if 1: \\\n  1", "# coding: latin-1\n'é'", "raise SyntaxError('x')", "raise\n",
  "1 +\r)", "x = (\r1", "'abc\rdef", "if 1:\r2 +", "1 +\r\n2\r(", "$A +\rimport os", "?\rdef f(): return 1",
  "if 1:\n", "x = [\n", "def f():\n", "if 1:\n\n\n#", "if 1:\n\x0c", "a\n\x0c", "    raise SyntaxError('x', ('usercode', 1, 1, ''))\n# x",
  "'''\n    raise X\n'''", "x = 5\n'''\n  $A\n''' + str(x)", "[$A for rec in [1]]", "[v for v in [$A]]", "lambda rec: 1", "$A if $B else $C",
  "try:\n  1/0\nexcept ZeroDivisionError as rec:\n  pass\n1", "with open('x') as rec: pass\n1", "import x as rec\n1", "del rec\n1",
  "rec.A += 1\n1", "del rec.A\n1", "(rec := 1)", "def rec(): pass\n1",
  # a shared leading indentation (pasted code) with WHITESPACE-ONLY lines, shorter / equal / longer than the indent,
  # before later indented lines: the dedent patches must be computed on the text they are applied to
  "  x = 1\n   \n  x + 1", "    a = 1\n  \n    b = 2\n    a + b", "    a = 1\n        \n    a", "\tx = 1\n\t \n\tx",
  "  if 1:\n    y = 2\n \n    z = 3\n  y", "    $A\n    \n", "  x = $A\n\t\n  \n  return x", "   \n   1", "  1\n  \n",
]
# inputs of the known findings (each class): replayed on the real code in every run
FINDING_INPUTS = [
  "$A\r$B", "1 #\r2", "0\rdef g(): return 1",
  "await x", "nonlocal x\nreturn 1", "from os import *\n1", "break\n1", "from __future__ import annotations\n1",
  "[x := 1 for x in [1]]", "def f(a, a): pass\n1", "x = 1\nglobal x\nx", "__debug__ = 1\n1",
  "\x00", "a\x00b",
  "-" * 5000 + "1",
  "    if 0:\n      return 1\n    $A = 1\n\n",
]
# the accepted bundle that silently replaces OTHER columns (engine level witness)
ESCAPE_FORMULA = ("0\r@grist.UserTable\rclass T:\r  A = grist.Int()\r  manualSort = grist.ManualSortPos()\r"
                  "  def B(r, t):\r    return 666\r  def C(r, t):\r    return 777\r  def J(r, t):\r    return 0")


def g_junk(rng):
  k = rng.random()
  if k < 0.45:
    return "".join(rng.choice(JUNK_ALPHA) for _ in range(rng.randint(1, 14)))
  f = g_formula(rng)
  for _ in range(rng.randint(1, 3)):
    op = rng.random()
    i = rng.randint(0, len(f))
    if op < 0.4 and f:
      f = f[:i] + f[i + 1:]
    elif op < 0.8:
      f = f[:i] + rng.choice(JUNK_ALPHA) + f[i:]
    elif f:
      j = rng.randint(0, len(f))
      f = f[:min(i, j)] + f[max(i, j):]
  return f


def formula_stream(ck):
  rng = ck.rng
  quick = ck.tier == "quick"
  for f in CURATED:
    yield "curated", f
  for f in FINDING_INPUTS:
    yield "finding", f
  for _ in range(260 if quick else 4000):
    yield "grammar", g_formula(rng)
  for _ in range(270 if quick else 4000):
    yield "junk", g_junk(rng)


# ============================================================================ engine level
def new_doc(ed):
  doc = ed.Doc()
  r = doc.apply([["AddTable", "T", [{"id": "A", "type": "Int", "isFormula": False},
                                   {"id": "B", "type": "Any", "isFormula": True, "formula": "$A * 2"},
                                   {"id": "C", "type": "Any", "isFormula": True, "formula": "$B + 1"}]],
                 ["BulkAddRecord", "T", [None, None], {"A": [1, 2]}]])
  if not r.ok:
    raise RuntimeError("cannot set up the engine document: %r" % (r.error,))
  return doc


def cols_of(doc):
  return doc.snapshot(tables=["T"])["T"]


def engine_trial(ck, ed, doc, formula, how):
  """Returns False when the document should be thrown away."""
  rp = {"level": "engine", "formula": formula, "how": how}
  before = cols_of(doc)
  nrows = len(before["ids"])
  if how == "add":
    r = doc.apply([["AddColumn", "T", "J", {"type": "Any", "isFormula": True, "formula": formula}]])
  else:
    r0 = doc.apply([["AddColumn", "T", "J", {"type": "Any", "isFormula": True, "formula": "1"}]])
    if not r0.ok:
      raise RuntimeError("setup AddColumn failed: %r" % (r0.error,))
    r = doc.apply([["ModifyColumn", "T", "J", {"formula": formula}]])
  ck.evaluated()
  ck.count("engine trials")
  keep = True
  if not r.ok:
    sig = classify(formula, "setting a formula is rejected with %s" % r.error[0])
    ck.violation(sig, "formula %r: bundle rejected: %s: %s" % (formula[:120], r.error[0], r.error[1][:100]), rp)
    ck.count("engine: bundle rejected")
    if how == "mod":
      doc.apply([["RemoveColumn", "T", "J"]])
    return True
  after = cols_of(doc)
  for c in ("A", "B", "C"):
    if after["cols"][c] != before["cols"][c]:
      ck.violation(classify(formula, "other column changes when a formula is set"),
                   "formula %r: column %s %r -> %r" % (formula[:120], c, before["cols"][c], after["cols"][c]), rp)
  o = oracle(formula, None)
  recs = [Rec(id=i, A=ed_val(after["cols"]["A"][k]), B=ed_val(after["cols"]["B"][k]), C=ed_val(after["cols"]["C"][k]))
          for k, i in enumerate(after["ids"])]
  check_J(ck, ed, formula, o, after, recs, rp)
  # the document keeps working
  r2 = doc.apply([["AddRecord", "T", None, {"A": 5}]])
  if not r2.ok:
    ck.violation(classify(formula, "document stops working after a formula is set"),
                 "formula %r: AddRecord rejected: %r" % (formula[:120], r2.error), rp)
    return False
  a2 = cols_of(doc)
  ok = (a2["cols"]["A"][-1] == "i5" and a2["cols"]["B"][-1] == "i10" and a2["cols"]["C"][-1] == "i11" and
        all(a2["cols"][c][:nrows] == after["cols"][c] for c in ("A", "B", "C")))
  if not ok:
    ck.violation(classify(formula, "other columns compute wrong values after a formula is set"),
                 "formula %r: after adding a record with A=5: B=%r C=%r" % (formula[:120], a2["cols"]["B"], a2["cols"]["C"]), rp)
    keep = False
  r3 = doc.apply([["RemoveColumn", "T", "J"], ["RemoveRecord", "T", a2["ids"][-1]]])
  if not r3.ok:
    return False
  return keep


def ed_val(tok):
  if isinstance(tok, str) and tok.startswith("i"):
    return int(tok[1:])
  if isinstance(tok, str) and tok.startswith("s"):
    return tok[1:]
  if isinstance(tok, str) and tok.startswith("f"):
    return float(tok[1:])
  return tok


def check_J(ck, ed, formula, o, after, recs, rp):
  J = after["cols"].get("J")
  if J is None:
    ck.violation("formula column missing after AddColumn", "formula %r" % (formula[:100],), rp)
    return
  is_err = [isinstance(t, str) and t.startswith('o["E"') for t in J]
  syn = [isinstance(t, str) and any(t.startswith('o["E", "%s"' % c) for c in SYNTAX_CLASSES) for t in J]
  if not o.judged:
    ck.count("engine: oracle takes no position")
    return
  if not o.valid:
    if not all(syn):
      ck.violation(classify(formula, "invalid formula's column does not hold SyntaxError values"),
                   "formula %r (%s): J=%r" % (formula[:120], o.why, J), rp)
    ck.count("engine: invalid formula isolated")
    return
  if any(syn):
    ck.violation("valid formula's column holds SyntaxError values", "formula %r: J=%r" % (formula[:120], J), rp)
    return
  for k, recobj in enumerate(recs):
    want = run_func(o.func, recobj)
    if want[0] == "e" and re.search(r"\b(IF|IFERROR|ISERR|ISERROR|PEEK)\(", formula):
      continue        # lazily evaluated arguments: an unused branch may not raise in the engine
    if want[0] == "e":
      good = J[k].startswith('o["E", "%s"' % want[1]) if isinstance(J[k], str) else False
    else:
      try:
        wt = ed.tokv(want[1])
      except Exception:   # pylint: disable=broad-except
        continue
      good = (ed.ntok(wt) == ed.ntok(J[k])) or isinstance(want[1], (types.FunctionType, types.GeneratorType, type)) \
          or " at 0x" in repr(want[1])
    if not good:
      ck.violation("valid formula does not evaluate as its text (engine)",
                   "formula %r row %d: expected %r got %r" % (formula[:120], k, want, J[k]), rp)
      return
  ck.count("engine: valid formula values agree with the oracle")
  ck.nontrivial_case(["engine", formula])


def engine_level(ck, formulas):
  from gx import engine_driver as ed
  doc = None
  n = 0
  for formula, how in formulas:
    if doc is None or n % 40 == 0:
      doc = new_doc(ed)
    n += 1
    if not engine_trial(ck, ed, doc, formula, how):
      doc = None
  # the witness that an ACCEPTED bundle changes what other columns compute
  doc = new_doc(ed)
  r = doc.apply([["AddColumn", "T", "J", {"type": "Any", "isFormula": True, "formula": ESCAPE_FORMULA}]])
  r2 = doc.apply([["AddRecord", "T", None, {"A": 5}]])
  c = cols_of(doc)["cols"]
  if r.ok and r2.ok and (c["B"][-1] != "i10" or c["C"][-1] != "i11"):
    ck.count("escape witness reproduced (B, C of the new row = %s, %s)" % (c["B"][-1], c["C"][-1]))
    ck.violation(SIG_CR, "AddColumn J with formula %r is accepted and replaces columns B and C: new row has B=%s C=%s "
                 "(expected i10, i11)" % (ESCAPE_FORMULA, c["B"][-1], c["C"][-1]),
                 {"level": "engine-escape", "formula": ESCAPE_FORMULA, "how": "add"})
  else:
    ck.count("escape witness NOT reproduced")


# ============================================================================ run / replay
def run(ck):
  ck.rule = ("function level: curated list (~170 texts incl. every known-finding input) + seeded grammar stream (expressions, "
             "multi-statement bodies, if/for/try/def/lambda/comprehensions, $names in code/strings/comments/f-strings, "
             "multi-line strings, missing return, assignments to rec, lazy IF, shared indentation, CRLF) + junk stream "
             "(random text over an alphabet with control characters, quotes, brackets, keywords; mutated valid formulas); "
             "engine level: a sample of all streams set as the formula of a new / existing column next to two valid formula "
             "columns; non-trivial = valid multi-line formula whose value was compared with the oracle, or invalid text "
             "isolated at engine level; distinct by formula text")
  ck.assumptions = [
    "strings are sequences of Unicode scalar values (a lone surrogate makes make_formula_body raise UnicodeEncodeError; "
    "it cannot arrive through the UTF-8 transport)",
    "CPython's parser, asttokens positions and astroid's re-parse are parameters of the model (recorded per formula)",
    "friendly-traceback explanations are absent in this environment (shim): the message fact is the plain message",
    "formulas of the grammar are deterministic and total apart from the exceptions they raise themselves",
  ]
  ck.lean(["GristProps.C19"])
  instr = Instr()
  try:
    _run(ck, instr)
  finally:
    instr.close()


def _run(ck, instr):
  rng = ck.rng
  quick = ck.tier == "quick"
  pending = []      # (formula, indent, out, patches)
  mism = None
  engine_sample = []
  seen = set()
  for kind, formula in formula_stream(ck):
    if formula in seen:
      continue
    seen.add(formula)
    ck.count("formulas:" + kind)
    indent = "    " if rng.random() < 0.85 else rng.choice(["  ", "", "      "])
    default = rng.choice([None, 0, "", 0.0, False])
    if kind == "finding" and formula.startswith("-----"):
      # a 5000-deep expression: only the function level (the engine level repeats it below)
      pass
    out = function_level(ck, instr, formula, default, indent, None)
    real = out["real"]
    if out.get("valid") and "\n" in formula.strip():
      ck.nontrivial_case(["fn", formula])
      ck.sample({"formula": formula, "body": real["text"]})
    if out["facts"] is None:
      ck.count("outside the model (parser raised a non-SyntaxError)")
    else:
      patches = token_patches(real["text"], rng) if isinstance(real["text"], str) else []
      pending.append((formula, indent, default, out, patches))
    p_eng = {"curated": 0.2 if quick else 1.0, "finding": 1.0, "grammar": 0.1, "junk": 0.07 if quick else 0.1}[kind]
    if rng.random() < p_eng and len(formula) < 3000:
      engine_sample.append((formula, rng.choice(["add", "mod"])))
    if len(pending) >= 1500:
      mism = model_diff(ck, pending, mism)
      pending = []
  mism = model_diff(ck, pending, mism)
  engine_level(ck, engine_sample)
  if mism and not ck.has_impl_violation():
    ck.broken("correspondence codebuilder.make_formula_body vs Grist.Codebuilder.makeFormulaBody",
              "model and implementation differ and the property's clauses hold on all explored inputs", mism)
  elif mism:
    ck.count("model_impl_disagreements_first", 1)
    ck.extra["first_model_mismatch"] = mism


def model_diff(ck, pending, mism):
  if not pending:
    return mism
  ops = [{"m": "codebuilder", "formula": f, "assoc": ASSOC_TAG, "indent": ind, "facts": out["facts"], "patches": patches}
         for f, ind, default, out, patches in pending]
  models = ck.driver(ops)
  for (f, ind, default, out, patches), m in zip(pending, models):
    real, rec = out["real"], out["rec"]
    want = {"text": real["text"], "tmp": rec["asttext"][0] if rec["asttext"] else None}
    if isinstance(real["text"], str):
      want["maps"] = real_maps(real["builder"], patches)
    got = m if ("text" in m) else {"driver_error": m.get("error")}
    ck.count("model diffs")
    if got != want:
      ck.count("model_impl_disagreements")
      if mism is None:
        mism = {"formula": f, "indent": ind, "default": repr(default), "facts": out["facts"], "patches": patches,
                "impl": want, "model": got}
  return mism


def replay(ck, rp):
  r = rp["replay"]
  if r is None or "formula" not in r:
    print("replay: nothing to replay")
    ck.lean(["GristProps.C19"])
    return
  formula = r["formula"]
  ck.nontrivial_case("replay"); ck.nontrivial_case(formula)
  if r.get("level", "function") == "function":
    instr = Instr()
    try:
      out = function_level(ck, instr, formula, None, r.get("indent", "    "), None)
      print("replay(function): formula=%r -> %r" % (formula, out["real"]["text"]))
    finally:
      instr.close()
  elif r["level"] == "engine-escape":
    engine_level(ck, [])
  else:
    from gx import engine_driver as ed
    doc = new_doc(ed)
    engine_trial(ck, ed, doc, formula, r.get("how", "add"))
    print("replay(engine): formula=%r how=%s violations=%d known=%d" % (formula, r.get("how"), len(ck.violations), len(ck.known)))
  ck.lean(["GristProps.C19"])
