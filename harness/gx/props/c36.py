"""
C36  Page-tree indentation fixes always yield a valid tree.

Theorems: lean/GristProps/C36.lean (fix_valid, fix_never_deeper, fix_noop_of_valid, fix_step,
fix_greatest) about GristModel/Treeview.lean.
Tie: treeview.fix_indents (real code) vs Grist.Treeview.fixIndents on identical inputs
     (exhaustive small scope + random), adjustments compared as lists.
Search (direct oracle on the real code): apply the returned fixes and check the property's clauses.

Engine level (the CALLER of fix_indents, useractions._removePageRecords: which page records it hands
over and in which order).  `engine_reordered` builds page trees whose pagePos order differs from the
row-id order of _grist_Pages (pages moved with UpdateRecord / BulkUpdateRecord on pagePos and
indentation, pages added out of order, pages moved under other parents), then removes pages
(RemoveRecord / BulkRemoveRecord on _grist_Pages, RemoveView, Remove/BulkRemoveRecord on
_grist_Views, RemoveTable) and evaluates the property's clauses on the outcome read back from the
engine: "the list of pages" is the list of _grist_Pages records in pagePos order (the order the page
tree is displayed in), the removed set is the set of records that disappeared.  Interpretation:
* the clauses are demanded only of bundles that actually remove at least one page (otherwise the
  engine does not run the fix and the indentations must stay as they are);
* a removal must not reorder the remaining pages nor touch their pagePos / viewRef;
* which pages have to go: the requested ones for page-level removals; for view/table-level
  removals exactly the pages whose view no longer exists afterwards (and the requested views / the
  views that showed only the removed table must be gone);
* a bundle of two page removals is judged against the reference applied twice in sequence.
Fixed witnesses carry literal expected outcomes.  The Lean model is tied at this level too (cheaply:
the existing driver op answers `applyFixes` for the pagePos-ordered list; the engine's outcome must
equal it) - sorting by pagePos and the record plumbing themselves are NOT modelled in Lean; they are
judged by the direct oracle only.
"""
import itertools
import collections

Item = collections.namedtuple("Item", "id indentation")


def valid_tree(levels):
  prev = -1
  for x in levels:
    if x < 0 or x > prev + 1:
      return False
    prev = x
  return True


def oracle(items, deleted, adj):
  """Property clauses evaluated on the real output.  Returns None or a (signature, detail)."""
  ids = [i for i, _ in items]
  old = dict(items)
  seen = set()
  for (i, n) in adj:
    if i not in old:
      return ("fix names unknown page", "id %r" % (i,))
    if i in seen:
      return ("page fixed twice", "id %r" % (i,))
    seen.add(i)
    if i in deleted:
      # harmless for the remaining tree but not 'only pages that would otherwise violate'
      return ("removed page adjusted", "id %r" % (i,))
    if not (n < old[i]):
      return ("fix does not lower the page", "id %r %r->%r" % (i, old[i], n))
  new = dict(old)
  new.update(dict(adj))
  remaining = [new[i] for i in ids if i not in deleted]
  if not valid_tree(remaining):
    return ("remaining pages are not a valid tree", "levels %r" % (remaining,))
  # 'changes only pages that would otherwise violate': reference reading (DESIGN App. B)
  allowed = 0
  expect = []
  for (i, ind) in items:
    lvl = min(allowed, ind)
    if i in deleted:
      allowed = lvl
    else:
      if lvl != ind:
        expect.append((i, lvl))
      allowed = lvl + 1
  if sorted(expect) != sorted(adj):
    return ("set of changed pages differs from the violating pages", "expected %r got %r" % (expect, adj))
  return None


def cases(ck):
  rng = ck.rng
  # exhaustive small scope
  max_n = 5 if ck.tier == "quick" else 6
  max_ind = 3 if ck.tier == "quick" else 4
  for n in range(0, max_n + 1):
    for inds in itertools.product(range(max_ind + 1), repeat=n):
      if n >= 5 and ck.tier == "quick" and rng.random() > 0.25:
        continue
      for mask in range(1 << n):
        if n >= 5 and rng.random() > (0.3 if ck.tier == "quick" else 0.5):
          continue
        items = [(i + 1, inds[i]) for i in range(n)]
        deleted = [i + 1 for i in range(n) if mask >> i & 1]
        yield items, deleted
  # random larger
  for _ in range(3000 if ck.tier == "quick" else 60000):
    n = rng.randint(1, 30)
    ids = rng.sample(range(1, 200), n)
    style = rng.random()
    inds = []
    cur = 0
    for k in range(n):
      if style < 0.5:
        cur = max(0, min(cur + rng.choice([-2, -1, 0, 1, 1]), 12))  # mostly valid trees
        inds.append(cur)
      else:
        inds.append(rng.randint(0, 9))
    deleted = [i for i in ids if rng.random() < rng.choice([0.1, 0.3, 0.6])]
    if rng.random() < 0.05:
      deleted.append(999)   # an id not in the list
    yield list(zip(ids, inds)), deleted


def run(ck):
  import treeview
  ck.rule = ("exhaustive over <=5 (quick) or <=6 (thorough) pages x indent<=3/4 x deletion subsets (sub-sampled at the largest size in quick) "
             "plus random lists <=30 pages; non-trivial = at least one fix returned AND at least one page removed; "
             "distinct by (items, deleted). Engine level (caller _removePageRecords): 7 fixed witnesses with literal "
             "outcomes + a page-only document over every permutation of 2-3 (sampled: 4; thorough also 5) pages x "
             "indentation lists x non-empty removal subsets (order made by adding out of order or by moving) + random "
             "documents (30 quick / 500 thorough) whose pages are moved / re-indented / re-parented and then removed by "
             "RemoveRecord, BulkRemoveRecord, two removals in one bundle, RemoveView, Remove/BulkRemoveRecord on "
             "_grist_Views, RemoveTable; non-trivial there = a page was removed AND a remaining page changed level; "
             "distinct by (pages in pagePos order, removed set)")
  ck.assumptions = ["page ids are distinct (metadata row ids)", "indentations are non-negative integers",
                    "engine level: 'the list of pages' = the _grist_Pages records read in pagePos order (positions "
                    "distinct; a state with tied positions is skipped and counted), the removed set = the records that "
                    "disappeared; the clauses are demanded only of bundles that remove at least one page",
                    "engine level: the situations with reordered pages (pagePos order != row-id order), i.e. WHICH "
                    "records _removePageRecords hands to fix_indents and in WHICH order, are judged by the direct oracle "
                    "(property clauses on the engine's outcome, literal witness outcomes); sorting by pagePos, "
                    "filter_records, docmodel.remove and the view/table cascades are NOT modelled in Lean - the model "
                    "tie at this level only compares the engine's outcome with Grist.Treeview.applyFixes run on the "
                    "pagePos-ordered list extracted by the harness (single page removal per bundle)"]
  ck.lean(["GristProps.C36"])
  allc = list(cases(ck))
  ops = [{"m": "treeview", "items": [list(p) for p in items], "deleted": deleted} for items, deleted in allc]
  model = ck.driver(ops)
  mism = None
  for (items, deleted), mo in zip(allc, model):
    ck.evaluated()
    adj = treeview.fix_indents([Item(i, n) for i, n in items], set(deleted))
    adj = [tuple(a) for a in adj]
    if adj and deleted:
      ck.nontrivial_case([items, deleted])
      ck.sample({"items": items, "deleted": deleted, "fixes": adj})
    bad = oracle(items, set(deleted), adj)
    if bad:
      ck.violation(bad[0], bad[1], {"items": items, "deleted": deleted, "fixes": adj})
    if "error" in mo or [tuple(a) for a in mo["adj"]] != adj:
      ck.count("model_impl_disagreements")
      if mism is None:
        mism = {"items": items, "deleted": deleted, "impl": adj, "model": mo}
  if mism and not ck.has_impl_violation():
    ck.broken("correspondence treeview.fix_indents vs Grist.Treeview.fixIndents",
              "model and implementation differ and the property's clauses hold on all explored inputs", mism)
  engine_level(ck)


def engine_level(ck):
  """Through the engine: removing page records applies the fixes (useractions._removePageRecords)."""
  try:
    from gx import engine_driver
  except ImportError:
    return
  engine_driver.c36_pages(ck, valid_tree)
  engine_reordered(ck, engine_driver)


# ----------------------------------------------------------------------------- engine level: the caller
COL = [{"id": "a", "type": "Int", "isFormula": False, "formula": ""}]
INF = float("inf")


def reference(items, deleted):
  """Reference reading of the property (DESIGN App. B) as a list [(id, level)] of the remaining
  pages: a page keeps its level unless it lies deeper than allowed; a removed page hands its own
  (capped) level on, a remaining page its level + 1."""
  allowed = 0
  out = []
  for (i, ind) in items:
    lvl = min(allowed, ind)
    if i in deleted:
      allowed = lvl
    else:
      out.append((i, lvl))
      allowed = lvl + 1
  return out


def page_rows(doc):
  """_grist_Pages records in display order (pagePos; an unset position sorts last)."""
  rows = doc.meta("_grist_Pages")
  return sorted(rows, key=lambda p: (INF if p["pagePos"] is None else p["pagePos"], p["id"]))


def short(rows):
  return [(p["id"], p["indentation"]) for p in rows]


def engine_oracle(before, after, req, meta_before, views_after):
  """The property's clauses (plus the engine-level reading in the module docstring) on what the
  engine did.  Returns (None | (signature, detail), removed set)."""
  old = dict((p["id"], p) for p in before)
  b_ids = [p["id"] for p in before]
  a_ids = [p["id"] for p in after]
  removed = set(b_ids) - set(a_ids)
  extra = [i for i in a_ids if i not in old]
  if extra:
    return ("engine: page record appeared during a removal", "ids %r" % (extra,)), removed
  # which pages had to go
  if "steps" in req:
    expected = set()
    for st in req["steps"]:
      expected |= set(st)
  else:
    must_views = set(req.get("views", ()))
    if "table" in req:
      tref = [t["id"] for t in meta_before["tables"] if t["tableId"] == req["table"]]
      by_view = {}
      for sec in meta_before["sections"]:
        if sec["parentId"]:
          by_view.setdefault(sec["parentId"], []).append(sec["tableRef"])
      must_views |= set(v for v, trs in by_view.items() if tref and all(t == tref[0] for t in trs))
    left = sorted(must_views & views_after)
    if left:
      return ("engine: view that had to be removed still exists", "views %r" % (left,)), removed
    expected = set(p["id"] for p in before
                   if p["viewRef"] in meta_before["views"] and p["viewRef"] not in views_after)
  if removed != expected:
    return ("engine: wrong set of page records removed",
            "expected %r removed %r" % (sorted(expected), sorted(removed))), removed
  if a_ids != [i for i in b_ids if i not in removed]:
    return ("engine: remaining pages reordered by a removal", "before %r after %r" % (b_ids, a_ids)), removed
  for p in after:
    o = old[p["id"]]
    if p["pagePos"] != o["pagePos"] or p["viewRef"] != o["viewRef"]:
      return ("engine: removal changed pagePos/viewRef of a remaining page", "%r -> %r" % (o, p)), removed
  items = short(before)
  new = dict(short(after))
  if not removed:
    if short(after) != items:
      return ("engine: indentation changed although no page was removed",
              "before %r after %r" % (items, short(after))), removed
    return None, removed
  reordered = b_ids != sorted(b_ids)
  tag = "engine, pagePos order %s row-id order: " % ("differs from" if reordered else "equals")
  if len(req.get("steps", [0])) == 1:
    adj = [(i, new[i]) for i in a_ids if new[i] != old[i]["indentation"]]
    bad = oracle(items, removed, adj)
    if bad:
      return (tag + bad[0], bad[1]), removed
    return None, removed
  # several page removals in one bundle: validity, never deeper, the reference applied in sequence
  if not valid_tree([new[i] for i in a_ids]):
    return (tag + "remaining pages are not a valid tree", "levels %r" % ([new[i] for i in a_ids],)), removed
  for i in a_ids:
    if new[i] > old[i]["indentation"]:
      return (tag + "page made deeper by a removal", "id %r %r->%r" % (i, old[i]["indentation"], new[i])), removed
  cur = items
  for st in req["steps"]:
    cur = reference(cur, set(st))
  if cur != short(after):
    return (tag + "set of changed pages differs from the violating pages (removals applied in sequence)",
            "expected %r got %r" % (cur, short(after))), removed
  return None, removed


class EngineRun(object):
  """Applies removal bundles to live engines, judges each with the direct oracle and collects the
  (pagePos-ordered items, removed set, outcome) triples for the model tie."""
  def __init__(self, ck, ed):
    self.ck = ck
    self.ed = ed
    self.tie = []     # (items, removed, after_levels, replay)
    self.setup_rejected = None

  def setup(self, doc, bundle):
    r = doc.apply(bundle)
    if not r.ok:
      self.ck.count("eng2_setup_rejected")
      if self.setup_rejected is None:
        self.setup_rejected = (bundle, r.error)
    return r.ok

  def judge(self, doc, bundle, req, family, kind, prefix=None, expect=None):
    """`prefix`: the bundles that rebuild the state from a fresh Doc (default: the doc's history)."""
    ck = self.ck
    before = page_rows(doc)
    meta_before = {"tables": doc.meta("_grist_Tables"), "sections": doc.meta("_grist_Views_section"),
                   "views": set(v["id"] for v in doc.meta("_grist_Views"))}
    bundles = (list(doc.history) if prefix is None else list(prefix)) + [bundle]
    rp = {"engine": {"bundles": bundles, "req": req, "kind": kind, "expect": expect}}
    items = short(before)
    pos = [p["pagePos"] for p in before]
    if len(set(pos)) != len(pos) or any(not isinstance(n, int) or isinstance(n, bool) or n < 0 for _, n in items):
      ck.count("eng2_skipped_ambiguous_order_or_bad_level")   # not a 'list of pages with indentations'
      doc.apply(bundle)
      return None
    r = doc.apply(bundle)
    ck.evaluated()
    ck.count("eng2_removal_bundles")
    ck.count("eng2_family_" + family)
    ck.count("eng2_kind_" + kind)
    if not r.ok:
      ck.violation("engine: well-formed page removal rejected (%s)" % (r.error[0],),
                   "%s on pages %r: %s" % (bundle, items, r.error[1]), rp)
      return None
    after = page_rows(doc)
    views_after = set(v["id"] for v in doc.meta("_grist_Views"))
    bad, removed = engine_oracle(before, after, req, meta_before, views_after)
    if bad is None and expect is not None and short(after) != [tuple(x) for x in expect]:
      bad = ("engine: fixed witness outcome differs from its literal expectation",
             "expected %r got %r" % (expect, short(after)))
    ids = [i for i, _ in items]
    if removed:
      ck.count("eng2_removals_with_pages_removed")
      if ids != sorted(ids):
        ck.count("eng2_pagepos_order_differs_from_rowid_order")
        if len(req.get("steps", [0])) == 1 and \
           sorted(reference(items, removed)) != sorted(reference(sorted(items), removed)):
          ck.count("eng2_order_sensitive_removals")   # row-id order would give another outcome
      if len(removed) > 1:
        ck.count("eng2_several_pages_removed")
      if not valid_tree([n for _, n in items]):
        ck.count("eng2_invalid_tree_before")
      if any(dict(items)[p["id"]] != p["indentation"] for p in after):
        ck.count("eng2_removals_with_promotion")
        ck.nontrivial_case(["engine", items, sorted(removed)])
        ck.sample({"engine_level": kind, "pages_in_pagePos_order": items, "removed": sorted(removed),
                   "after": short(after)}, limit=6)
    else:
      ck.count("eng2_no_page_removed")
    if bad:
      ck.violation(bad[0], "%s %r; pages (pagePos order) before %r after %r"
                   % (bad[1], bundle, items, short(after)), rp)
    elif removed and len(req.get("steps", [0])) == 1:
      self.tie.append((items, sorted(removed), [p["indentation"] for p in after], rp))
    return after

  def tie_model(self):
    ck = self.ck
    ops = [{"m": "treeview", "items": [list(p) for p in items], "deleted": deleted}
           for items, deleted, _, _ in self.tie]
    mism = None
    for (items, deleted, levels, rp), mo in zip(self.tie, ck.driver(ops)):
      ck.count("eng2_model_tie_compared")
      if "error" in mo or mo.get("final") != levels:
        ck.count("eng2_model_impl_disagreements")
        if mism is None:
          mism = {"pages_in_pagePos_order": items, "removed": deleted, "engine": levels, "model": mo,
                  "engine_replay": rp["engine"]}
    if mism and not ck.has_impl_violation():
      ck.broken("correspondence _removePageRecords outcome vs Grist.Treeview.applyFixes on the pagePos-ordered pages",
                "model and engine differ and the property's clauses hold on all explored inputs", mism)


def arrange(run, doc, order, levels):
  """Bring the pages into `order` (each page in turn is moved to the end), then set the levels."""
  for i in order:
    run.setup(doc, [["UpdateRecord", "_grist_Pages", i, {"pagePos": None}]])
  run.setup(doc, [["BulkUpdateRecord", "_grist_Pages", list(order), {"indentation": list(levels)}]])


def witnesses(run):
  """Fixed scenarios with literal expected outcomes (pages as id:level in pagePos order)."""
  from gx.common import Infra
  ed = run.ed

  def tables(n):
    doc = ed.Doc()
    for i in range(n):
      run.setup(doc, [["AddTable", "P%d" % i, COL]])
    return doc

  def need(doc, want, name):
    got = short(page_rows(doc))
    if got != want:
      raise Infra("C36 witness %s could not be set up: pages %r, wanted %r" % (name, got, want))

  # W1-W3: the last-added page dragged up between pages 2 and 3 as a child of page 2, then page 2
  # goes away (as a page record / with its view / with its table): page 4 is promoted to level 1
  for kind, bundle, req in (
      ("RemoveRecord", [["RemoveRecord", "_grist_Pages", 2]], {"steps": [[2]]}),
      ("RemoveView", [["RemoveView", 2]], {"views": [2]}),
      ("RemoveTable", [["RemoveTable", "P1"]], {"table": "P1"})):
    doc = tables(4)
    run.setup(doc, [["BulkUpdateRecord", "_grist_Pages", [2, 3, 4], {"indentation": [1, 1, 2]}]])
    pos = dict((p["id"], p["pagePos"]) for p in page_rows(doc))
    run.setup(doc, [["UpdateRecord", "_grist_Pages", 4, {"pagePos": (pos[2] + pos[3]) / 2.0}]])
    need(doc, [(1, 0), (2, 1), (4, 2), (3, 1)], "W1/" + kind)
    run.judge(doc, bundle, req, "witness", kind, expect=[[1, 0], [4, 1], [3, 1]])
  # W4: a page added out of order (explicit pagePos between pages 1 and 2), made the parent of
  # page 2, then removed
  doc = tables(3)
  run.setup(doc, [["AddRecord", "_grist_Pages", None, {"viewRef": 0, "pagePos": 2.0, "indentation": 1}]])
  run.setup(doc, [["BulkUpdateRecord", "_grist_Pages", [2, 3], {"indentation": [2, 1]}]])
  need(doc, [(1, 0), (4, 1), (2, 2), (3, 1)], "W4")
  run.judge(doc, [["RemoveRecord", "_grist_Pages", 4]], {"steps": [[4]]}, "witness", "RemoveRecord",
            expect=[[1, 0], [2, 1], [3, 1]])
  # W5: five pages fully reordered, two of them (a parent and its first child) removed at once
  doc = tables(5)
  arrange(run, doc, [3, 1, 4, 2, 5], [0, 1, 2, 2, 0])
  need(doc, [(3, 0), (1, 1), (4, 2), (2, 2), (5, 0)], "W5")
  run.judge(doc, [["BulkRemoveRecord", "_grist_Pages", [4, 1]]], {"steps": [[4, 1]]}, "witness",
            "BulkRemoveRecord", expect=[[3, 0], [2, 1], [5, 0]])
  # W6: reversed page order, the (displayed) first page removed: its children move up
  doc = tables(4)
  arrange(run, doc, [4, 3, 2, 1], [0, 1, 2, 1])
  need(doc, [(4, 0), (3, 1), (2, 2), (1, 1)], "W6")
  run.judge(doc, [["RemoveView", 4]], {"views": [4]}, "witness", "RemoveView",
            expect=[[3, 0], [2, 1], [1, 1]])
  # W7: a table shown on two pages that are not adjacent in the reordered tree
  doc = tables(3)
  run.setup(doc, [["AddView", "P0", "raw_data", "again"]])          # view 4 / page 4, also shows P0
  arrange(run, doc, [2, 1, 3, 4], [0, 1, 2, 1])
  run.setup(doc, [["UpdateRecord", "_grist_Pages", 3, {"pagePos": None, "indentation": 2}]])
  need(doc, [(2, 0), (1, 1), (4, 1), (3, 2)], "W7")
  run.judge(doc, [["RemoveTable", "P0"]], {"table": "P0"}, "witness", "RemoveTable",
            expect=[[2, 0], [3, 1]])


def small_scope(run):
  """Page-only document (page records without views): every permutation of <=3 (sampled: 4, thorough
  also 5) pages x indentation lists x non-empty removal subsets; the order is established either
  by adding the pages out of order (explicit pagePos) or by moving them afterwards."""
  ck, rng = run.ck, run.ck.rng
  doc = run.ed.Doc()
  quick = ck.tier == "quick"
  for n in ((2, 3, 4) if quick else (2, 3, 4, 5)):
    ids = list(range(1, n + 1))
    for perm in itertools.permutations(ids):
      for inds in itertools.product(range(n), repeat=n):
        valid = valid_tree(inds)
        if n == 4 and not valid and rng.random() > (0.02 if quick else 0.3):
          continue
        if n == 5 and rng.random() > (0.08 if valid else 0.004):
          continue
        for mask in range(1, 1 << n):
          if n == 4 and rng.random() > (0.2 if quick else 1.0):
            continue
          if n == 5 and rng.random() > 0.3:
            continue
          gone = [perm[k] for k in range(n) if mask >> k & 1]
          rng.shuffle(gone)
          level = dict(zip(perm, inds))
          rank = dict((i, float(k + 1)) for k, i in enumerate(perm))
          prefix = []
          cur = [p["id"] for p in doc.meta("_grist_Pages")]
          if cur:
            run.setup(doc, [["BulkRemoveRecord", "_grist_Pages", cur]])
          if rng.random() < 0.5:
            prefix.append([["BulkAddRecord", "_grist_Pages", ids,
                            {"viewRef": [0] * n, "pagePos": [rank[i] for i in ids],
                             "indentation": [level[i] for i in ids]}]])
            ck.count("eng2_order_by_adding_out_of_order")
          else:
            prefix.append([["BulkAddRecord", "_grist_Pages", ids,
                            {"viewRef": [0] * n, "pagePos": [float(i) for i in ids], "indentation": [0] * n}]])
            prefix.append([["BulkUpdateRecord", "_grist_Pages", list(perm),
                            {"pagePos": [n + 1.0] * n, "indentation": list(inds)}]])
            ck.count("eng2_order_by_moving")
          if not all([run.setup(doc, b) for b in prefix]):
            continue
          if [p["id"] for p in page_rows(doc)] != list(perm):
            ck.count("eng2_small_scope_order_not_as_requested")   # still judged, on the order read back
          if len(gone) == 1 and rng.random() < 0.5:
            bundle, kind = [["RemoveRecord", "_grist_Pages", gone[0]]], "RemoveRecord"
          else:
            bundle, kind = [["BulkRemoveRecord", "_grist_Pages", gone]], "BulkRemoveRecord"
          run.judge(doc, bundle, {"steps": [sorted(gone)]}, "small_scope", kind, prefix=prefix)


def rand_levels(rng, n):
  cur, out = 0, []
  for k in range(n):
    cur = 0 if k == 0 else max(0, min(cur + rng.choice([-2, -1, 0, 1, 1, 1]), cur + 1))
    out.append(cur)
  return out


def g_move(rng, rows):
  """One user action that moves / re-indents pages the way the page-tree widget does."""
  ids = [p["id"] for p in rows]
  pos = dict((p["id"], p["pagePos"]) for p in rows)
  ind = dict((p["id"], p["indentation"]) for p in rows)
  k = rng.random()
  if k < 0.3:        # drag one page before another page / to the end
    x = rng.choice(ids)
    tgt = rng.choice([i for i in ids if i != x] + [None])
    return ["UpdateRecord", "_grist_Pages", x, {"pagePos": None if tgt is None else pos[tgt]}]
  if k < 0.6:        # move a page under another parent: directly after it, one level deeper
    x, par = rng.sample(ids, 2)
    later = [i for i in ids[ids.index(par) + 1:] if i != x]
    return ["UpdateRecord", "_grist_Pages", x,
            {"pagePos": pos[later[0]] if later else None, "indentation": ind[par] + 1}]
  if k < 0.8:        # move a group of pages (a subtree in the widget) to one place
    grp = rng.sample(ids, rng.randint(2, min(3, len(ids))))
    rest = [i for i in ids if i not in grp]
    tgt = rng.choice(rest + [None])
    base = rng.randint(0, 2)
    return ["BulkUpdateRecord", "_grist_Pages", grp,
            {"pagePos": [None if tgt is None else pos[tgt]] * len(grp),
             "indentation": [base] + [base + rng.randint(0, 1) for _ in grp[1:]]}]
  x = rng.choice(ids)  # explicit position between two neighbours
  rest = [i for i in ids if i != x]
  j = rng.randrange(len(rest))
  lo = pos[rest[j - 1]] if j > 0 else pos[rest[0]] - 1.0
  return ["UpdateRecord", "_grist_Pages", x, {"pagePos": (lo + pos[rest[j]]) / 2.0}]


def random_docs(run):
  """Documents with tables / extra views / view-less pages; pages moved around and re-indented,
  then removed through every public route, several rounds per document."""
  ck, rng = run.ck, run.ck.rng
  for _ in range(30 if ck.tier == "quick" else 500):
    doc = run.ed.Doc()
    nt = rng.randint(3, 5)
    for i in range(nt):
      run.setup(doc, [["AddTable", "P%d" % i, COL]])
    for _k in range(rng.choice([0, 0, 1, 1, 2])):
      if rng.random() < 0.5:    # second page (own view) for an existing table
        run.setup(doc, [["AddView", "P%d" % rng.randrange(nt), "raw_data", "more"]])
      else:                     # page record added out of order, for an existing view or for none
        rows = page_rows(doc)
        run.setup(doc, [["AddRecord", "_grist_Pages", None,
                         {"viewRef": rng.choice([0, rng.choice(rows)["viewRef"]]),
                          "pagePos": rng.choice(rows)["pagePos"], "indentation": rng.randint(0, 2)}]])
    for _round in range(rng.randint(2, 4)):
      rows = page_rows(doc)
      if len(rows) < 2:
        break
      for _m in range(rng.randint(1, 3)):
        run.setup(doc, [g_move(rng, page_rows(doc))])
        ck.count("eng2_move_actions")
      rows = page_rows(doc)
      ids = [p["id"] for p in rows]
      style = rng.random()
      if style < 0.7:          # a valid tree along the displayed order
        sh = list(zip(ids, rand_levels(rng, len(ids))))
        rng.shuffle(sh)
        run.setup(doc, [["BulkUpdateRecord", "_grist_Pages", [i for i, _ in sh], {"indentation": [n for _, n in sh]}]])
      elif style < 0.85:       # arbitrary levels
        run.setup(doc, [["BulkUpdateRecord", "_grist_Pages", ids,
                         {"indentation": [rng.randint(0, 4) for _ in ids]}]])
      rows = page_rows(doc)
      ids = [p["id"] for p in rows]
      views = sorted(set(p["viewRef"] for p in rows if p["viewRef"]))
      tabs = doc.user_tables()
      k = rng.random()
      if k < 0.2:
        x = rng.choice(ids)
        bundle, req, kind = [["RemoveRecord", "_grist_Pages", x]], {"steps": [[x]]}, "RemoveRecord"
      elif k < 0.4:
        gone = rng.sample(ids, rng.randint(1, max(1, len(ids) // 2)))
        bundle, req, kind = [["BulkRemoveRecord", "_grist_Pages", gone]], {"steps": [sorted(gone)]}, "BulkRemoveRecord"
      elif k < 0.5 and len(ids) >= 3:
        gone = rng.sample(ids, rng.randint(2, min(3, len(ids) - 1)))
        bundle = [["RemoveRecord", "_grist_Pages", gone[0]], ["BulkRemoveRecord", "_grist_Pages", gone[1:]]]
        req, kind = {"steps": [[gone[0]], sorted(gone[1:])]}, "two_removals_in_one_bundle"
      elif k < 0.65 and views:
        v = rng.choice(views)
        bundle, req, kind = [["RemoveView", v]], {"views": [v]}, "RemoveView"
      elif k < 0.8 and views:
        vs = rng.sample(views, rng.randint(1, min(2, len(views))))
        if len(vs) == 1:
          bundle = [["RemoveRecord", "_grist_Views", vs[0]]]
        else:
          bundle = [["BulkRemoveRecord", "_grist_Views", vs]]
        req, kind = {"views": vs}, "RemoveRecord_on_Views"
      elif tabs:
        t = rng.choice(tabs)
        bundle, req, kind = [["RemoveTable", t]], {"table": t}, "RemoveTable"
      else:
        continue
      run.judge(doc, bundle, req, "random_docs", kind)


def engine_reordered(ck, ed):
  run = EngineRun(ck, ed)
  witnesses(run)
  small_scope(run)
  random_docs(run)
  run.tie_model()
  if run.setup_rejected and not ck.violations:
    # well-formed moves / re-indents / additions are never rejected by the engine as it is: the
    # scenarios were not the intended ones, which is not a verdict about C36
    from gx.common import Infra
    raise Infra("C36 engine-level set-up bundle rejected: %r -> %r" % run.setup_rejected)


def replay_engine(ck, e):
  """Rebuild the state from a fresh document, apply the last bundle and judge it again."""
  from gx import engine_driver as ed
  own_init = bool(e["bundles"]) and e["bundles"][0] == [["InitNewDoc"]]   # histories start with it
  doc = ed.Doc(init=not own_init)
  for b in e["bundles"][:-1]:
    r = doc.apply(b)
    if not r.ok:
      print("replay: set-up bundle %r rejected: %r" % (b, r.error))
  run = EngineRun(ck, ed)
  before = short(page_rows(doc))
  after = run.judge(doc, e["bundles"][-1], e["req"], "replay", e.get("kind", "replay"), prefix=e["bundles"][:-1],
                    expect=e.get("expect"))
  print("replay: pages (pagePos order) %r, %r -> %r: %s" % (
    before, e["bundles"][-1], None if after is None else short(after),
    "PROPERTY VIOLATED" if ck.violations else "property holds"))
  ck.nontrivial_case("replay")


def replay(ck, rp):
  import treeview
  r = rp["replay"]
  if isinstance(r, dict) and "engine" not in r and "before" in r and "removed" in r:
    # replay object of engine_driver.c36_pages (pages in row-id order): same pages in a page-only document
    ids = [i for i, _ in r["before"]]
    r = {"engine": {"bundles": [[["BulkAddRecord", "_grist_Pages", ids,
                                  {"viewRef": [0] * len(ids), "pagePos": [float(k + 1) for k in range(len(ids))],
                                   "indentation": [n for _, n in r["before"]]}]],
                                [["BulkRemoveRecord", "_grist_Pages", list(r["removed"])]]],
                    "req": {"steps": [sorted(r["removed"])]}, "kind": "BulkRemoveRecord"}}
  if isinstance(r, dict) and "engine" in r:
    replay_engine(ck, r["engine"])
    ck.lean(["GristProps.C36"])
    return
  items, deleted = [tuple(x) for x in r["items"]], r["deleted"]
  adj = [tuple(a) for a in treeview.fix_indents([Item(i, n) for i, n in items], set(deleted))]
  ck.evaluated()
  bad = oracle(items, set(deleted), adj)
  print("replay: items=%r deleted=%r fixes=%r -> %s" % (items, deleted, adj, bad or "property holds"))
  if bad:
    ck.violation(bad[0], bad[1], {"items": items, "deleted": deleted, "fixes": adj})
  ck.nontrivial_case([items, deleted]); ck.nontrivial_case("replay")
  ck.lean(["GristProps.C36"])
