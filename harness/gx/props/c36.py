"""
C36  Page-tree indentation fixes always yield a valid tree.

Theorems: lean/GristProps/C36.lean (fix_valid, fix_never_deeper, fix_noop_of_valid, fix_step,
fix_greatest) about GristModel/Treeview.lean.
Tie: treeview.fix_indents (real code) vs Grist.Treeview.fixIndents on identical inputs
     (exhaustive small scope + random), adjustments compared as lists.
Search (direct oracle on the real code): apply the returned fixes and check the property's clauses.
"""
import itertools
import collections

Item = collections.namedtuple("Item", "id indentation")


def valid_tree(levels):
  prev = -1
  for x in levels:
    if x < 0 or x > prev + 1:
      return False
    prev = x
  return True


def oracle(items, deleted, adj):
  """Property clauses evaluated on the real output.  Returns None or a (signature, detail)."""
  ids = [i for i, _ in items]
  old = dict(items)
  seen = set()
  for (i, n) in adj:
    if i not in old:
      return ("fix names unknown page", "id %r" % (i,))
    if i in seen:
      return ("page fixed twice", "id %r" % (i,))
    seen.add(i)
    if i in deleted:
      # harmless for the remaining tree but not 'only pages that would otherwise violate'
      return ("removed page adjusted", "id %r" % (i,))
    if not (n < old[i]):
      return ("fix does not lower the page", "id %r %r->%r" % (i, old[i], n))
  new = dict(old)
  new.update(dict(adj))
  remaining = [new[i] for i in ids if i not in deleted]
  if not valid_tree(remaining):
    return ("remaining pages are not a valid tree", "levels %r" % (remaining,))
  # 'changes only pages that would otherwise violate': reference reading (DESIGN App. B)
  allowed = 0
  expect = []
  for (i, ind) in items:
    lvl = min(allowed, ind)
    if i in deleted:
      allowed = lvl
    else:
      if lvl != ind:
        expect.append((i, lvl))
      allowed = lvl + 1
  if sorted(expect) != sorted(adj):
    return ("set of changed pages differs from the violating pages", "expected %r got %r" % (expect, adj))
  return None


def cases(ck):
  rng = ck.rng
  # exhaustive small scope
  max_n = 5 if ck.tier == "quick" else 6
  max_ind = 3 if ck.tier == "quick" else 4
  for n in range(0, max_n + 1):
    for inds in itertools.product(range(max_ind + 1), repeat=n):
      if n >= 5 and ck.tier == "quick" and rng.random() > 0.25:
        continue
      for mask in range(1 << n):
        if n >= 5 and rng.random() > (0.3 if ck.tier == "quick" else 0.5):
          continue
        items = [(i + 1, inds[i]) for i in range(n)]
        deleted = [i + 1 for i in range(n) if mask >> i & 1]
        yield items, deleted
  # random larger
  for _ in range(3000 if ck.tier == "quick" else 60000):
    n = rng.randint(1, 30)
    ids = rng.sample(range(1, 200), n)
    style = rng.random()
    inds = []
    cur = 0
    for k in range(n):
      if style < 0.5:
        cur = max(0, min(cur + rng.choice([-2, -1, 0, 1, 1]), 12))  # mostly valid trees
        inds.append(cur)
      else:
        inds.append(rng.randint(0, 9))
    deleted = [i for i in ids if rng.random() < rng.choice([0.1, 0.3, 0.6])]
    if rng.random() < 0.05:
      deleted.append(999)   # an id not in the list
    yield list(zip(ids, inds)), deleted


def run(ck):
  import treeview
  ck.rule = ("exhaustive over <=5 (quick) or <=6 (thorough) pages x indent<=3/4 x deletion subsets (sub-sampled at the largest size in quick) "
             "plus random lists <=30 pages; non-trivial = at least one fix returned AND at least one page removed; "
             "distinct by (items, deleted)")
  ck.assumptions = ["page ids are distinct (metadata row ids)", "indentations are non-negative integers"]
  ck.lean(["GristProps.C36"])
  allc = list(cases(ck))
  ops = [{"m": "treeview", "items": [list(p) for p in items], "deleted": deleted} for items, deleted in allc]
  model = ck.driver(ops)
  mism = None
  for (items, deleted), mo in zip(allc, model):
    ck.evaluated()
    adj = treeview.fix_indents([Item(i, n) for i, n in items], set(deleted))
    adj = [tuple(a) for a in adj]
    if adj and deleted:
      ck.nontrivial_case([items, deleted])
      ck.sample({"items": items, "deleted": deleted, "fixes": adj})
    bad = oracle(items, set(deleted), adj)
    if bad:
      ck.violation(bad[0], bad[1], {"items": items, "deleted": deleted, "fixes": adj})
    if "error" in mo or [tuple(a) for a in mo["adj"]] != adj:
      ck.count("model_impl_disagreements")
      if mism is None:
        mism = {"items": items, "deleted": deleted, "impl": adj, "model": mo}
  if mism and not ck.has_impl_violation():
    ck.broken("correspondence treeview.fix_indents vs Grist.Treeview.fixIndents",
              "model and implementation differ and the property's clauses hold on all explored inputs", mism)
  engine_level(ck)


def engine_level(ck):
  """Through the engine: removing page records applies the fixes (useractions._removePageRecords)."""
  try:
    from gx import engine_driver
  except ImportError:
    return
  engine_driver.c36_pages(ck, valid_tree)


def replay(ck, rp):
  import treeview
  r = rp["replay"]
  items, deleted = [tuple(x) for x in r["items"]], r["deleted"]
  adj = [tuple(a) for a in treeview.fix_indents([Item(i, n) for i, n in items], set(deleted))]
  ck.evaluated()
  bad = oracle(items, set(deleted), adj)
  print("replay: items=%r deleted=%r fixes=%r -> %s" % (items, deleted, adj, bad or "property holds"))
  if bad:
    ck.violation(bad[0], bad[1], {"items": items, "deleted": deleted, "fixes": adj})
  ck.nontrivial_case([items, deleted]); ck.nontrivial_case("replay")
  ck.lean(["GristProps.C36"])
